#!/bin/sh
# MANIFEST.setup_cmd: build the framework from files on disk only (offline).
set -e
cd "$(dirname "$0")"
export GOFLAGS=-mod=mod GOPROXY=off GOSUMDB=off GOTOOLCHAIN=local
mkdir -p .build replays evidence
cp /repo/go.sum harness/go.sum 2>/dev/null || true
(cd harness && go build -o ../.build/gwfacts ./cmd/gwfacts)
.build/gwfacts /repo > lean/GwModel/Gen/Facts.lean.tmp && mv lean/GwModel/Gen/Facts.lean.tmp lean/GwModel/Gen/Facts.lean
# model library (all executable modules + lemma files) and the line driver; property files are built by
# the checks themselves because a broken obligation there is a finding, not a setup failure
(cd lean && lake build GwModel gwdrv)
(cd harness && go build -tags verif -o ../.build/gwharness ./cmd/gwharness && go build -race -tags verif -o ../.build/gwharness-race ./cmd/gwharness)
echo setup ok
