import GwModel.Exec.Errors
import GwModel.Exec.Termination
import GwModel.Trans.Transparent
import GwModel.MergeObj
import GwModel.Cache
import GwModel.Inject
