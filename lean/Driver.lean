import GwModel.Drv.Codec
import GwModel.Scrub
import GwModel.Select
import GwModel.Gen.Facts
/-! gwdrv: one JSON object per line in, one per line out (DESIGN §2.2). Core + Lean.Data.Json only. -/
open Lean Codec

partial def decPStep (j : Json) : Scrub.PStep :=
  .mk (strList j "ip") ((getArr j "kids").map decPStep)

def encPaths (ps : List (List String)) : Json :=
  .arr (ps.map fun p => Json.arr (p.map Json.str).toArray).toArray

def handle (j : Json) : Json :=
  match getStr j "op" with
  | "mono" => Json.mkObj [("data", encVal (Mono.mono (decCase j)))]
  | "scrub" =>
    let sel := Scrub.flatten ((getArr j "frags").map decFrag) ((getArr j "sels").map decSel)
    match Scrub.scrubPaths sel ((getArr j "plan").map decPStep) with
    | some ps => Json.mkObj [("paths", encPaths ps)]
    | none => Json.mkObj [("err", .str "could not find field for point")]
  | "select" =>
    -- {"possible":[..],"configured":[..],"parent":"A","internal":"gw"}; the priority order is the one read from plan.go
    match Sel.selectLocation Gen.selectLoc (strList j "possible") (strList j "configured") (getStr j "parent") (getStr j "internal") with
    | some l => Json.mkObj [("loc", .str l)]
    | none => Json.mkObj [("loc", .null)]
  | op => Json.mkObj [("bad-op", .str op)]

partial def loop (h : IO.FS.Stream) (out : IO.FS.Stream) : IO Unit := do
  let line ← h.getLine
  if line.isEmpty then return ()
  match Json.parse line with
  | .ok j => out.putStrLn (handle j).compress
  | .error e => out.putStrLn (Json.mkObj [("bad-json", .str e)]).compress
  out.flush
  loop h out

def main : IO Unit := do loop (← IO.getStdin) (← IO.getStdout)
