import GwModel.Drv.Codec
import GwModel.Scrub
import GwModel.Select
import GwModel.Route
import GwModel.InjectFile
import GwModel.Http
import GwModel.HttpReq
import GwModel.CacheRun
import GwModel.Gen.Facts
import GwModel.Insert
import GwModel.Point
import GwModel.FindPts
import GwModel.Drv.PlanCodec
import GwModel.Exec.Machine
import GwModel.ExecSeq
import GwModel.ScrubApply
import GwModel.MergeSig
import GwModel.NewOpts
import GwModel.Middleware
import GwModel.GwQuery
import GwModel.MergeDirs
import GwModel.UrlMap
import GwModel.MergeLocs
/-! gwdrv: one JSON object per line in, one per line out (DESIGN §2.2). Core + Lean.Data.Json only. -/
open Lean Codec

partial def decPStep (j : Json) : Scrub.PStep :=
  .mk (strList j "ip") ((getArr j "kids").map decPStep)

def encPaths (ps : List (List String)) : Json :=
  .arr (ps.map fun p => Json.arr (p.map Json.str).toArray).toArray

partial def decJ (j : Json) : Inj.J :=
  match j with
  | .null => .null
  | .arr xs => .arr (xs.toList.map decJ)
  | .obj _ => .obj ((kvs j).map fun (k, v) => (k, decJ v))
  | other => .atom other.compress

partial def encJ : Inj.J → Json
  | .null => .null
  | .file n => Json.mkObj [("$file", .num n)]
  | .atom s => (Json.parse s).toOption.getD (.str s)
  | .arr xs => .arr (xs.map encJ).toArray
  | .obj kv => Json.mkObj (kv.map fun (k, v) => (k, encJ v))

partial def decJV (j : Json) : Http.JV :=
  match j with
  | .null => .null
  | .bool b => .bool b
  | .num n => .num (n.exponent == 0)
  | .str s => .str s
  | .arr xs => .arr (xs.toList.map decJV)
  | .obj _ => .obj ((kvs j).map fun (k, v) => (k, decJV v))

def encOp (o : Http.OpReq) : Json :=
  Json.mkObj [("query", .str o.query), ("operationName", .str o.opName), ("hash", .str o.hash)]

def encEntry : Http.Entry → Json
  | .data => .str "data"
  | .errors => .str "errors"

/-! stitching (`Ins`): object keys are interned to `Nat` -/
partial def decIns (j : Json) : StateM Intern Ins.J :=
  match j with
  | .null => pure .null
  | .arr xs => do
    let ys ← xs.toList.mapM decIns
    pure (.arr ys)
  | .obj _ => do
    let mut acc : Ins.KVs := []
    for (k, v) in kvs j do
      let n ← Intern.intern k
      let w ← decIns v
      acc := Ins.put n w acc
    pure (.obj acc)
  | other => pure (.leaf other.compress)

partial def encIns (st : Intern) : Ins.J → Json
  | .null => .null
  | .leaf s => (Json.parse s).toOption.getD (.str s)
  | .arr xs => .arr (xs.map (encIns st)).toArray
  | .obj kv => Json.mkObj (kv.map fun (k, v) => (st.name k, encIns st v))

/-- a path of point strings; `none` when `executorGetPointData` fails on one of them -/
def decPath (ps : List String) : StateM Intern (Option (List Ins.Pt)) := do
  let mut out : List Ins.Pt := []
  for p in ps do
    match Pt.parsePoint p.toList with
    | none => return none
    | some d =>
      let n ← Intern.intern (String.ofList d.field)
      out := out ++ [{ key := n, idx := d.index }]
  return some out

/-- {"target": {...}, "msgs": [{"path": ["users:0", "photos"], "value": {...}}, ...]}: apply the messages in order;
    answers the final value, or the index of the first message the model rejects -/
def runInsert (j : Json) : Json :=
  let act : StateM Intern Json := do
    let target ← decIns ((getObj? j "target").getD (Json.mkObj []))
    let mut cur : Ins.J := target
    let mut i : Nat := 0
    for m in getArr j "msgs" do
      let v ← decIns ((getObj? m "value").getD .null)
      match (← decPath (strList m "path")) with
      | none => return Json.mkObj [("error_at", .num (JsonNumber.fromNat i))]
      | some path =>
        match Ins.apply (some cur) path v with
        | none => return Json.mkObj [("error_at", .num (JsonNumber.fromNat i))]
        | some nxt => cur := nxt
      i := i + 1
    let st ← MonadState.get
    return Json.mkObj [("result", encIns st cur)]
  (act.run {}).1

/-- Go's `%v` of an id value -/
def renderId : Ins.J → String
  | .null => "<nil>"
  | .leaf s => match Json.parse s with
    | .ok (.str t) => t
    | _ => s
  | _ => "?"

/-- {"infos":[{"key":"users","found":true,"isList":true,"nonNull":false},…], "chunk":{…}, "pre":["me"]}:
    the realised insertion paths, rendered, or {"error": kind} -/
def runFindPts (j : Json) : Json :=
  let act : StateM Intern Json := do
    let _ ← Intern.intern "id"     -- key 0
    let mut infos : List Fp.PInfo := []
    for i in getArr j "infos" do
      let k ← Intern.intern (getStr i "key")
      infos := infos ++ [{ key := k, found := getBool i "found", isList := getBool i "isList", nonNull := getBool i "nonNull" }]
    let chunk ← decIns ((getObj? j "chunk").getD (Json.mkObj []))
    let st ← MonadState.get
    let pre := strList j "pre"
    match chunk with
    | .obj kvs =>
      match Fp.findPts infos kvs [] with
      | .error e => return Json.mkObj [("error", .str (reprStr e))]
      | .ok paths =>
        let render (q : Fp.RPt) : String :=
          st.name q.key ++ (match q.idx with | some i => ":" ++ toString i | none => "") ++
            (match q.id with | some v => "#" ++ renderId v | none => "")
        return Json.mkObj [("paths", .arr (paths.map fun p => Json.arr ((pre ++ p.map render).map Json.str).toArray).toArray)]
    | _ => return Json.mkObj [("error", .str "chunk-not-object")]
  (act.run {}).1

/-- {"roots":[step…], "replies":[{"sid","id","data","err"}], "depth":n} with step =
    {"sid","strip","nodeParent","kids":[{"infos":[…],"step":{…}}]}: the response before scrubbing, the number of
    failed tasks and of calls, as `Xs.run` computes them -/
partial def decXStep (j : Json) : StateM Intern Xs.XStep := do
  let mut kids : List (List Fp.PInfo × Xs.XStep) := []
  for k in getArr j "kids" do
    let mut infos : List Fp.PInfo := []
    for i in getArr k "infos" do
      let key ← Intern.intern (getStr i "key")
      infos := infos ++ [{ key := key, found := getBool i "found", isList := getBool i "isList", nonNull := getBool i "nonNull" }]
    let st ← decXStep ((getObj? k "step").getD (Json.mkObj []))
    kids := kids ++ [(infos, st)]
  pure (.mk (getNat j "sid") (getBool j "strip") (getBool j "nodeParent") kids)

def runExec (j : Json) : Json :=
  let act : StateM Intern Json := do
    let _ ← Intern.intern "id"     -- key 0
    let _ ← Intern.intern "node"   -- key 1 (Xs.nodeKey)
    let roots ← (getArr j "roots").mapM decXStep
    let mut replies : List Xs.Reply := []
    for r in getArr j "replies" do
      let d ← decIns ((getObj? r "data").getD (Json.mkObj []))
      let kvs := match d with | .obj k => k | _ => []
      replies := replies ++ [{ sid := getNat r "sid", id := getStr r "id", data := kvs, err := getBool r "err" }]
    let st := Xs.run renderId replies (getNat j "depth" + 1) roots
    let tbl ← MonadState.get
    return Json.mkObj [("data", encIns tbl st.acc), ("failed", .num (JsonNumber.fromNat st.failed)),
      ("calls", .num (JsonNumber.fromNat st.calls)), ("missing", .num (JsonNumber.fromNat st.missing))]
  (act.run {}).1

/-- {"infos":[…], "chunk":{…}}: the response after `scrubInsertionIDs` for one listed location, or {"error":…} -/
def runScrubApply (j : Json) : Json :=
  let act : StateM Intern Json := do
    let _ ← Intern.intern "id"     -- key 0
    let mut infos : List Fp.PInfo := []
    for i in getArr j "infos" do
      let k ← Intern.intern (getStr i "key")
      infos := infos ++ [{ key := k, found := getBool i "found", isList := getBool i "isList", nonNull := getBool i "nonNull" }]
    let chunk ← decIns ((getObj? j "chunk").getD (Json.mkObj []))
    let st ← MonadState.get
    match chunk with
    | .obj kvs =>
      match Scr.scrubLocation infos kvs with
      | none => return Json.mkObj [("error", .str "scrub failed")]
      | some res => return Json.mkObj [("result", encIns st res)]
    | _ => return Json.mkObj [("error", .str "chunk-not-object")]
  (act.run {}).1

def runPoint (j : Json) : Json :=
  let p := (getStr j "point").toList
  match Pt.parsePoint p with
  | none => Json.mkObj [("error", .bool true), ("list", .bool (Pt.isListElement p))]
  | some d => Json.mkObj [("field", .str (String.ofList d.field)),
      ("index", match d.index with | some i => .num (JsonNumber.fromNat i) | none => .num (JsonNumber.fromInt (-1))),
      ("id", .str (String.ofList d.id)), ("list", .bool (Pt.isListElement p))]

/-- {"tasks":[{"parent":p|null,"failed":b}],"acts":[{"eff":t}|"recv"|"done"|"ret"]}: replay on the executor machine
    in the configuration the theorems assume (`Cfg.Safe`: add, publish, spawn; no self-sent errors) with the
    channel capacity extracted from the source -/
def runTrace (j : Json) : Json :=
  let ts : ExecM.Tasks := (getArr j "tasks").map fun t => { parent := optNat t "parent", failed := getBool t "failed" }
  let cfg : ExecM.Cfg := { cap := max Gen.exec.resultCap 1, errCap := 0, selfSend := false, order := ExecM.safeOrder }
  let decAct (a : Json) : Option ExecM.Act :=
    match a with
    | .str "recv" => some .recv
    | .str "done" => some .done
    | .str "ret" => some .ret
    | other => (optNat other "eff").map ExecM.Act.eff
  let nats (l : List Nat) : Json := .arr (l.map fun n => Json.num (JsonNumber.fromNat n)).toArray
  let rec go (s : ExecM.St) (i : Nat) : List Json → Json
    | [] => Json.mkObj [("accepted", .bool true), ("returned", .bool s.returned), ("crashed", .bool s.crashed),
              ("order", nats s.order), ("errs", nats s.errs), ("wg", .num (JsonNumber.fromInt s.wg)),
              ("cap", .num (JsonNumber.fromNat cfg.cap))]
    | a :: rest =>
      match decAct a with
      | none => Json.mkObj [("accepted", .bool false), ("at", .num (JsonNumber.fromNat i)), ("why", .str "unreadable action")]
      | some act =>
        match ExecM.step cfg ts s act with
        | none => Json.mkObj [("accepted", .bool false), ("at", .num (JsonNumber.fromNat i)), ("why", .str ("not enabled: " ++ reprStr act)),
                    ("queue", nats s.queue), ("wg", .num (JsonNumber.fromInt s.wg))]
        | some s' =>
          if s'.crashed then Json.mkObj [("accepted", .bool false), ("at", .num (JsonNumber.fromNat i)), ("why", .str ("crash state after " ++ reprStr act))]
          else go s' (i + 1) rest
  go (ExecM.init ts) 0 (getArr j "acts")

/-- {"method","ctype","get":{"query"?,"operationName"?,"variables"?:{"valid","json"},"extensions"?:{…}},"body":{"valid","json"}} -/
def runHttpReqParse (j : Json) : Json :=
  let optParam (o : Json) (k : String) : Option (Option Http.JV) :=
    match getObj? o k with
    | none => none
    | some p => some (if getBool p "valid" then some (((getObj? p "json").map decJV).getD Http.JV.null) else none)
  let optStr (o : Json) (k : String) : Option String := match getObj? o k with | some (.str s) => some s | _ => none
  let g := (getObj? j "get").getD (Json.mkObj [])
  let bodyJ := (getObj? j "body").getD (Json.mkObj [])
  let req : Http.Req :=
    { method := match getStr j "method" with | "GET" => .get | "POST" => .post | _ => .other
      ctype := if getStr j "ctype" == "json" then .json else .unknown
      get := { query := optStr g "query", variables := optParam g "variables", operationName := optStr g "operationName",
               extensions := optParam g "extensions" }
      body := if getBool bodyJ "valid" then some (((getObj? bodyJ "json").map decJV).getD Http.JV.null) else none }
  match Http.parseReq req with
  | .error status => Json.mkObj [("err", .num (JsonNumber.fromNat status))]
  | .ok (ops, batch) => Json.mkObj [("ops", .arr (ops.map encOp).toArray), ("batch", .bool batch)]

partial def decTy (j : Json) : Ms.Ty :=
  .mk (getStr j "named") (getBool j "nonNull") ((getObj? j "elem").bind fun e => match e with | .null => none | _ => some (decTy e))

partial def decV (j : Json) : Ms.V :=
  .mk (getStr j "kind") (getStr j "raw") ((getArr j "children").map fun c => (getStr c "name", decV ((getObj? c "value").getD (Json.mkObj []))))

def decArgDefs (js : List Json) : List Ms.ArgDef :=
  js.map fun a => { name := getStr a "name", type := decTy ((getObj? a "type").getD (Json.mkObj [])),
                    default := (getObj? a "default").bind fun d => match d with | .null => none | _ => some (decV d) }

/-- {"execErrs":[..], "scrubFails":bool, "mws":[{"id":n,"fails":bool}]}: the tail of Gateway.Execute through `Mw.execute`
    (responses are opaque: the data is the number of middlewares that have touched it) -/
def runMwExecute (j : Json) : Json :=
  let mk (id : Nat) (fails : Bool) : Mw.RMw Nat String :=
    ⟨id, fun d => if fails then .error ("middleware " ++ toString id ++ " failed") else .ok (d + 1)⟩
  let scrub := mk 0 (getBool j "scrubFails")
  let user := (getArr j "mws").map fun m => mk (getNat m "id") (getBool m "fails")
  let (log, data, errs) := Mw.execute scrub user 0 (strList j "execErrs")
  Json.mkObj [("log", .arr (log.map fun n => Json.num (JsonNumber.fromNat n)).toArray),
    ("data", match data with | some d => .num (JsonNumber.fromNat d) | none => .null),
    ("errors", .arr (errs.map Json.str).toArray)]

/-! the gateway's own resolver (`Gq.query`) -/
def decGqVal (j : Json) : Gq.Val :=
  match getStr j "k" with
  | "var" => .var (getStr j "v")
  | "str" => .str (getStr j "v")
  | "bool" => .bool (getBool j "v")
  | "null" => .null
  | _ => .other (getStr j "v")

def decGqVV (j : Json) : Gq.VV :=
  match getStr j "k" with
  | "str" => .str (getStr j "v")
  | "bool" => .bool (getBool j "v")
  | "null" => .null
  | _ => .other (getStr j "v")

def decGqDirs (j : Json) : List Gq.Dir :=
  (getArr j "dirs").map fun d => ⟨getStr d "name", (getObj? d "if").map decGqVal⟩

partial def decGqSel (j : Json) : Gq.Sel :=
  match getStr j "kind" with
  | "field" => .field (getStr j "key") (getStr j "name") ((getArr j "args").map fun a => (getStr a "name", decGqVal ((getObj? a "value").getD (Json.mkObj []))))
      (decGqDirs j) ((getArr j "sub").map decGqSel)
  | "inline" => .inline (decGqDirs j) ((getArr j "sub").map decGqSel)
  | _ => .spread (getStr j "name") (decGqDirs j)

/-- the resolvers: the gateway's `node` wants a string id (gateway.go makeNodeField); the others echo their name and string arguments and
    fail when an argument is the string "fail" -/
def gqResolve (name : String) (args : List (String × Gq.VV)) : Except String String :=
  if name == "node" then
    match args.lookup "id" with
    | some (.str s) => .ok s
    | some .null | none => .error "argument 'id' is required"
    | _ => .error "invalid ID type"
  else
    if args.any (fun a => a.2 == .str "fail") then .error ("resolver of " ++ name ++ " failed")
    else .ok (name ++ (args.foldl (fun acc a => acc ++ ":" ++ (match a.2 with
      | .str s => s | .bool b => (if b then "true" else "false") | .null => "null" | .other r => r)) ""))

def runGatewayQuery (j : Json) : Json :=
  let sels := (getArr j "sels").map decGqSel
  let frags : List Gq.Frag := (getArr j "frags").map fun f => ⟨getStr f "name", (getArr f "sub").map decGqSel⟩
  let vars : Gq.Vars := (getArr j "vars").map fun v => (getStr v "name", decGqVV ((getObj? v "value").getD (Json.mkObj [])))
  let env : Gq.Env := { types := strList j "types", fields := strList j "fields", resolve := gqResolve }
  let out := Gq.query env frags vars 64 sels
  Json.mkObj [("answers", .arr (out.map fun (k, a) =>
    match a with
    | .typename => Json.mkObj [("key", .str k), ("kind", .str "typename")]
    | .schema => Json.mkObj [("key", .str k), ("kind", .str "schema")]
    | .typeFound n => Json.mkObj [("key", .str k), ("kind", .str "type"), ("v", .str n)]
    | .typeMissing => Json.mkObj [("key", .str k), ("kind", .str "null")]
    | .entity id => Json.mkObj [("key", .str k), ("kind", .str "entity"), ("v", .str id)]
    | .failed m => Json.mkObj [("key", .str k), ("kind", .str "failed"), ("v", .str m)]
    | .crash => Json.mkObj [("key", .str k), ("kind", .str "crash")]
    | .nothing => Json.mkObj [("key", .str k), ("kind", .str "nothing")]).toArray)]

/-- {"opts":[{"k":"planner","id":n} | {"k":"priorities","l":[..]} | {"k":"factory","f":n} |
    {"k":"middlewares","ms":[{"r":bool,"id":n}]} | {"k":"other"}]} through `Nw.build` -/
def runNewOptions (j : Json) : Json :=
  let opts : List Nw.Opt := (getArr j "opts").map fun o =>
    match getStr o "k" with
    | "planner" => .planner (getNat o "id")
    | "priorities" => .priorities (strList o "l")
    | "factory" => .factory (getNat o "f")
    | "middlewares" => .middlewares ((getArr o "ms").map fun m => ⟨getBool m "r", getNat m "id"⟩)
    | _ => .other
  let b := Nw.build opts
  let nats (l : List Nat) : Json := .arr (l.map fun n => Json.num (JsonNumber.fromNat n)).toArray
  Json.mkObj [("planner", .num (JsonNumber.fromNat b.planner)),
    ("toldPriorities", match b.toldPriorities with | some l => .arr (l.map Json.str).toArray | none => .null),
    ("toldFactory", match b.toldFactory with | some f => .num (JsonNumber.fromNat f) | none => .null),
    ("response", nats b.response), ("request", nats b.request)]

/-- {"a":{"type","args","default"},"b":{…}}: do merge.go's comparisons accept the two declarations of one field -/
def runMergeSig (j : Json) : Json :=
  let fld (o : Json) := (decTy ((getObj? o "type").getD (Json.mkObj [])), decArgDefs (getArr o "args"))
  let a := fld ((getObj? j "a").getD (Json.mkObj []))
  let b := fld ((getObj? j "b").getD (Json.mkObj []))
  Json.mkObj [("types", .bool (Ms.typesEqual (some a.1) (some b.1))), ("args", .bool (Ms.argDefsEq a.2 b.2))]

/-- applied directive lists of two declarations (each application as its canonical text) through `Md.listsEqual` -/
def runMergeDirs (j : Json) : Json :=
  let strs (k : String) : List String := (getArr j k).map fun x => x.getStr?.toOption.getD ""
  Json.mkObj [("equal", .bool (Md.listsEqual (strs "a") (strs "b")))]

/-- a sequence of FieldURLMap operations through `Um`: the answers of the lookups, in order -/
def runUrlMap (j : Json) : Json :=
  let strs (o : Json) (k : String) : List String := (getArr o k).map fun x => x.getStr?.toOption.getD ""
  let step (acc : Um.Tbl × List Json) (o : Json) : Um.Tbl × List Json :=
    let (m, outs) := acc
    match getStr o "do" with
    | "register" => (Um.register m (getStr o "parent") (getStr o "field") (strs o "locs"), outs)
    | "concat" =>
      let other : Um.Tbl := (getArr o "other").map fun e => (Um.keyFor (getStr e "parent") (getStr e "field"), strs e "locs")
      (Um.concat m other, outs)
    | "get" =>
      match Um.urlFor m (getStr o "parent") (getStr o "field") with
      | .ok l => (m, outs ++ [Json.mkObj [("ok", Json.arr (l.map Json.str).toArray)]])
      | .error e => (m, outs ++ [Json.mkObj [("error", .str e)]])
    | _ => (m, outs)
  let (_, outs) := (getArr j "ops").foldl step ([], [])
  Json.mkObj [("answers", Json.arr outs.toArray)]

/-- the location lists of two definitions of one directive through `Ml.mergeLocs` -/
def runMergeLocs (j : Json) : Json :=
  let strs (k : String) : List String := (getArr j k).map fun x => x.getStr?.toOption.getD ""
  match Ml.mergeLocs Ml.isTypeSystem (strs "a") (strs "b") with
  | some r => Json.mkObj [("ok", Json.arr (r.map Json.str).toArray)]
  | none => Json.mkObj [("refused", .bool true)]

def handle (j : Json) : Json :=
  match getStr j "op" with
  | "mergelocs" => runMergeLocs j
  | "urlmap" => runUrlMap j
  | "mergedirs" => runMergeDirs j
  | "mono" => Json.mkObj [("data", encVal (Mono.mono (decCase j)))]
  | "merge" => runMerge j
  | "mergesig" => runMergeSig j
  | "new-options" => runNewOptions j
  | "gateway-query" => runGatewayQuery j
  | "mw-execute" => runMwExecute j
  | "plan" => PlanCodec.runPlan j
  | "trace" => runTrace j
  | "exec" => runExec j
  | "scrubapply" => runScrubApply j
  | "insert" => runInsert j
  | "point" => runPoint j
  | "findpts" => runFindPts j
  | "intro" => runIntro j
  | "cache" =>
    -- plans are identified by the text they were planned from
    let plannable : List (String × Bool) := match getObj? j "plannable" with | some o => (kvs o).map fun (k, v) => (k, v.getBool?.toOption.getD false) | none => []
    let shaTbl : List (String × String) := match getObj? j "sha" with | some o => (kvs o).map fun (k, v) => (k, v.getStr?.toOption.getD "") | none => []
    let planOf : String → Except String String := fun q => if (plannable.lookup q).getD false then .ok q else .error "unplannable"
    let sha : String → String := fun q => (shaTbl.lookup q).getD ("sha:" ++ q)
    let optStr (o : Json) (k : String) : Option String := match getObj? o k with | some (.str s) => some s | _ => none
    let evs : List (PCache.Ev String) := (getArr j "events").map fun e =>
      { at_ := getNat e "at", gcFirst := getBool e "gc", req := { query := optStr e "query", hash := optStr e "hash", phase := .start } }
    let (rs, c) := PCache.runHistory planOf sha (getNat j "ttl") (Err := String) [] evs
    Json.mkObj [("responses", .arr (rs.map fun r => match r with
        | some (.plan p) => Json.mkObj [("kind", .str "plan"), ("text", .str p)]
        | some (.planErr _) => Json.mkObj [("kind", .str "planErr")]
        | some .notFound => Json.mkObj [("kind", .str "notFound")]
        | none => Json.mkObj [("kind", .str "stuck")]).toArray),
      ("cache", .arr (c.map fun e => Json.str e.hash).toArray)]
  | "inject" =>
    let ops := (getArr j "ops").map decJ
    let files := (getArr j "files").map fun f => (getNat f "n", strList f "paths")
    match InjF.injectAll ops (getBool j "batch") files with
    | .ok ops' => Json.mkObj [("ok", .arr (ops'.map encJ).toArray)]
    | .error _ => Json.mkObj [("err", .str "rejected")]
  | "http-req-parse" => runHttpReqParse j
  | "http-parse" =>
    let body := if getBool j "valid" then (getObj? j "body").map decJV else none
    let body := if getBool j "valid" && body.isNone then some Http.JV.null else body
    match Http.parseOperations body with
    | .ok (ops, batch) => Json.mkObj [("ops", .arr (ops.map encOp).toArray), ("batch", .bool batch)]
    | .error _ => Json.mkObj [("err", .str "rejected")]
  | "http-respond" =>
    -- {"ops":[{query,operationName,hash,plannable,execOK}], "batch":b}
    let items := getArr j "ops"
    -- the flags belong to the POSITION of an operation (two members with the same text may differ in their variables,
    -- and so in whether they execute): the handler's decisions do not look at the operation name, so it carries the index
    let ops : List Http.OpReq := (List.range items.length).zip items |>.map fun (i, o) => ⟨getStr o "query", toString i, getStr o "hash"⟩
    let flag (name : String) (o : Http.OpReq) : Bool :=
      ((List.range items.length).zip items |>.find? fun (i, _) => toString i == o.opName).map (fun (_, x) => getBool x name) |>.getD false
    let r := Http.handleOps (flag "plannable") (flag "execOK") ops (getBool j "batch")
    Json.mkObj [("status", .num r.status), ("executed", .num r.executed),
      ("shape", match r.body with | .single _ => .str "entry" | .list _ => .str "list"),
      ("entries", .arr (r.body.entries.map encEntry).toArray)]
  | "route" =>
    -- {"sources":[{"url":..,"types":{T:[fields]}}],"internal":{...},"gwTypes":[..],"keys":[["T","f"],...]}
    let decSrc (x : Json) : Route.Src :=
      { url := getStr x "url", types := (match getObj? x "types" with | some t => (kvs t).map fun (k, v) => (k, (v.getArr?.toOption.getD #[]).toList.map fun y => y.getStr?.toOption.getD "") | none => []) }
    let srcs := (getArr j "sources").map decSrc
    let internal := match getObj? j "internal" with | some x => decSrc x | none => { url := "", types := [] }
    let gw := strList j "gwTypes"
    Json.mkObj ((getArr j "keys").map fun k =>
      let t := (k.getArrVal? 0).toOption.bind (·.getStr?.toOption) |>.getD ""
      let f := (k.getArrVal? 1).toOption.bind (·.getStr?.toOption) |>.getD ""
      (t ++ "." ++ f, Json.arr ((Route.urlsFor srcs internal gw t f).map Json.str).toArray))
  | "scrub" =>
    let sel := Scrub.flatten ((getArr j "frags").map decFrag) ((getArr j "sels").map decSel)
    match Scrub.scrubPaths sel ((getArr j "plan").map decPStep) with
    | some ps => Json.mkObj [("paths", encPaths ps)]
    | none => Json.mkObj [("err", .str "could not find field for point")]
  | "select" =>
    -- {"possible":[..],"configured":[..],"parent":"A","internal":"gw"}; the specified rule (= what plan.go denotes
    -- whenever Props.C20.facts_safe holds, Sel.selectLocation_of_safe)
    match Sel.selectLocation Sel.spec (strList j "possible") (strList j "configured") (getStr j "parent") (getStr j "internal") with
    | some l => Json.mkObj [("loc", .str l)]
    | none => Json.mkObj [("loc", .null)]
  | op => Json.mkObj [("bad-op", .str op)]

partial def loop (h : IO.FS.Stream) (out : IO.FS.Stream) : IO Unit := do
  let line ← h.getLine
  if line.isEmpty then return ()
  match Json.parse line with
  | .ok j => out.putStrLn (handle j).compress
  | .error e => out.putStrLn (Json.mkObj [("bad-json", .str e)]).compress
  out.flush
  loop h out

def main : IO Unit := do loop (← IO.getStdin) (← IO.getStdout)
