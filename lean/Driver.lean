import GwModel.Drv.Codec
/-! gwdrv: one JSON object per line in, one per line out (DESIGN §2.2). Core + Lean.Data.Json only. -/
open Lean Codec

def handle (j : Json) : Json :=
  match getStr j "op" with
  | "mono" => Json.mkObj [("data", encVal (Mono.mono (decCase j)))]
  | op => Json.mkObj [("bad-op", .str op)]

partial def loop (h : IO.FS.Stream) (out : IO.FS.Stream) : IO Unit := do
  let line ← h.getLine
  if line.isEmpty then return ()
  match Json.parse line with
  | .ok j => out.putStrLn (handle j).compress
  | .error e => out.putStrLn (Json.mkObj [("bad-json", .str e)]).compress
  out.flush
  loop h out

def main : IO Unit := do loop (← IO.getStdin) (← IO.getStdout)
