import GwModel.Drv.Codec
import GwModel.Scrub
import GwModel.Select
import GwModel.Route
import GwModel.InjectFile
import GwModel.Http
import GwModel.CacheRun
import GwModel.Gen.Facts
/-! gwdrv: one JSON object per line in, one per line out (DESIGN §2.2). Core + Lean.Data.Json only. -/
open Lean Codec

partial def decPStep (j : Json) : Scrub.PStep :=
  .mk (strList j "ip") ((getArr j "kids").map decPStep)

def encPaths (ps : List (List String)) : Json :=
  .arr (ps.map fun p => Json.arr (p.map Json.str).toArray).toArray

partial def decJ (j : Json) : Inj.J :=
  match j with
  | .null => .null
  | .arr xs => .arr (xs.toList.map decJ)
  | .obj _ => .obj ((kvs j).map fun (k, v) => (k, decJ v))
  | other => .atom other.compress

partial def encJ : Inj.J → Json
  | .null => .null
  | .file n => Json.mkObj [("$file", .num n)]
  | .atom s => (Json.parse s).toOption.getD (.str s)
  | .arr xs => .arr (xs.map encJ).toArray
  | .obj kv => Json.mkObj (kv.map fun (k, v) => (k, encJ v))

partial def decJV (j : Json) : Http.JV :=
  match j with
  | .null => .null
  | .bool b => .bool b
  | .num n => .num (n.exponent == 0)
  | .str s => .str s
  | .arr xs => .arr (xs.toList.map decJV)
  | .obj _ => .obj ((kvs j).map fun (k, v) => (k, decJV v))

def encOp (o : Http.OpReq) : Json :=
  Json.mkObj [("query", .str o.query), ("operationName", .str o.opName), ("hash", .str o.hash)]

def encEntry : Http.Entry → Json
  | .data => .str "data"
  | .errors => .str "errors"

def handle (j : Json) : Json :=
  match getStr j "op" with
  | "mono" => Json.mkObj [("data", encVal (Mono.mono (decCase j)))]
  | "merge" => runMerge j
  | "intro" => runIntro j
  | "cache" =>
    -- plans are identified by the text they were planned from
    let plannable : List (String × Bool) := match getObj? j "plannable" with | some o => (kvs o).map fun (k, v) => (k, v.getBool?.toOption.getD false) | none => []
    let shaTbl : List (String × String) := match getObj? j "sha" with | some o => (kvs o).map fun (k, v) => (k, v.getStr?.toOption.getD "") | none => []
    let planOf : String → Except String String := fun q => if (plannable.lookup q).getD false then .ok q else .error "unplannable"
    let sha : String → String := fun q => (shaTbl.lookup q).getD ("sha:" ++ q)
    let optStr (o : Json) (k : String) : Option String := match getObj? o k with | some (.str s) => some s | _ => none
    let evs : List (PCache.Ev String) := (getArr j "events").map fun e =>
      { at_ := getNat e "at", gcFirst := getBool e "gc", req := { query := optStr e "query", hash := optStr e "hash", phase := .start } }
    let (rs, c) := PCache.runHistory planOf sha (getNat j "ttl") (Err := String) [] evs
    Json.mkObj [("responses", .arr (rs.map fun r => match r with
        | some (.plan p) => Json.mkObj [("kind", .str "plan"), ("text", .str p)]
        | some (.planErr _) => Json.mkObj [("kind", .str "planErr")]
        | some .notFound => Json.mkObj [("kind", .str "notFound")]
        | none => Json.mkObj [("kind", .str "stuck")]).toArray),
      ("cache", .arr (c.map fun e => Json.str e.hash).toArray)]
  | "inject" =>
    let ops := (getArr j "ops").map decJ
    let files := (getArr j "files").map fun f => (getNat f "n", strList f "paths")
    match InjF.injectAll ops (getBool j "batch") files with
    | .ok ops' => Json.mkObj [("ok", .arr (ops'.map encJ).toArray)]
    | .error _ => Json.mkObj [("err", .str "rejected")]
  | "http-parse" =>
    let body := if getBool j "valid" then (getObj? j "body").map decJV else none
    let body := if getBool j "valid" && body.isNone then some Http.JV.null else body
    match Http.parseOperations body with
    | .ok (ops, batch) => Json.mkObj [("ops", .arr (ops.map encOp).toArray), ("batch", .bool batch)]
    | .error _ => Json.mkObj [("err", .str "rejected")]
  | "http-respond" =>
    -- {"ops":[{query,operationName,hash,plannable,execOK}], "batch":b}
    let items := getArr j "ops"
    let ops : List Http.OpReq := items.map fun o => ⟨getStr o "query", getStr o "operationName", getStr o "hash"⟩
    let flag (name : String) (o : Http.OpReq) : Bool :=
      (items.find? fun x => getStr x "query" == o.query && getStr x "operationName" == o.opName && getStr x "hash" == o.hash).map (getBool · name) |>.getD false
    let r := Http.handleOps (flag "plannable") (flag "execOK") ops (getBool j "batch")
    Json.mkObj [("status", .num r.status), ("executed", .num r.executed),
      ("shape", match r.body with | .single _ => .str "entry" | .list _ => .str "list"),
      ("entries", .arr (r.body.entries.map encEntry).toArray)]
  | "route" =>
    -- {"sources":[{"url":..,"types":{T:[fields]}}],"internal":{...},"gwTypes":[..],"keys":[["T","f"],...]}
    let decSrc (x : Json) : Route.Src :=
      { url := getStr x "url", types := (match getObj? x "types" with | some t => (kvs t).map fun (k, v) => (k, (v.getArr?.toOption.getD #[]).toList.map fun y => y.getStr?.toOption.getD "") | none => []) }
    let srcs := (getArr j "sources").map decSrc
    let internal := match getObj? j "internal" with | some x => decSrc x | none => { url := "", types := [] }
    let gw := strList j "gwTypes"
    Json.mkObj ((getArr j "keys").map fun k =>
      let t := (k.getArrVal? 0).toOption.bind (·.getStr?.toOption) |>.getD ""
      let f := (k.getArrVal? 1).toOption.bind (·.getStr?.toOption) |>.getD ""
      (t ++ "." ++ f, Json.arr ((Route.urlsFor srcs internal gw t f).map Json.str).toArray))
  | "scrub" =>
    let sel := Scrub.flatten ((getArr j "frags").map decFrag) ((getArr j "sels").map decSel)
    match Scrub.scrubPaths sel ((getArr j "plan").map decPStep) with
    | some ps => Json.mkObj [("paths", encPaths ps)]
    | none => Json.mkObj [("err", .str "could not find field for point")]
  | "select" =>
    -- {"possible":[..],"configured":[..],"parent":"A","internal":"gw"}; the specified rule (= what plan.go denotes
    -- whenever Props.C20.facts_safe holds, Sel.selectLocation_of_safe)
    match Sel.selectLocation Sel.spec (strList j "possible") (strList j "configured") (getStr j "parent") (getStr j "internal") with
    | some l => Json.mkObj [("loc", .str l)]
    | none => Json.mkObj [("loc", .null)]
  | op => Json.mkObj [("bad-op", .str op)]

partial def loop (h : IO.FS.Stream) (out : IO.FS.Stream) : IO Unit := do
  let line ← h.getLine
  if line.isEmpty then return ()
  match Json.parse line with
  | .ok j => out.putStrLn (handle j).compress
  | .error e => out.putStrLn (Json.mkObj [("bad-json", .str e)]).compress
  out.flush
  loop h out

def main : IO Unit := do loop (← IO.getStdin) (← IO.getStdout)
