import GwModel.Drv.Codec
import GwModel.Scrub
import GwModel.Select
import GwModel.Route
import GwModel.Gen.Facts
/-! gwdrv: one JSON object per line in, one per line out (DESIGN §2.2). Core + Lean.Data.Json only. -/
open Lean Codec

partial def decPStep (j : Json) : Scrub.PStep :=
  .mk (strList j "ip") ((getArr j "kids").map decPStep)

def encPaths (ps : List (List String)) : Json :=
  .arr (ps.map fun p => Json.arr (p.map Json.str).toArray).toArray

def handle (j : Json) : Json :=
  match getStr j "op" with
  | "mono" => Json.mkObj [("data", encVal (Mono.mono (decCase j)))]
  | "merge" => runMerge j
  | "route" =>
    -- {"sources":[{"url":..,"types":{T:[fields]}}],"internal":{...},"gwTypes":[..],"keys":[["T","f"],...]}
    let decSrc (x : Json) : Route.Src :=
      { url := getStr x "url", types := (match getObj? x "types" with | some t => (kvs t).map fun (k, v) => (k, (v.getArr?.toOption.getD #[]).toList.map fun y => y.getStr?.toOption.getD "") | none => []) }
    let srcs := (getArr j "sources").map decSrc
    let internal := match getObj? j "internal" with | some x => decSrc x | none => { url := "", types := [] }
    let gw := strList j "gwTypes"
    Json.mkObj ((getArr j "keys").map fun k =>
      let t := (k.getArrVal? 0).toOption.bind (·.getStr?.toOption) |>.getD ""
      let f := (k.getArrVal? 1).toOption.bind (·.getStr?.toOption) |>.getD ""
      (t ++ "." ++ f, Json.arr ((Route.urlsFor srcs internal gw t f).map Json.str).toArray))
  | "scrub" =>
    let sel := Scrub.flatten ((getArr j "frags").map decFrag) ((getArr j "sels").map decSel)
    match Scrub.scrubPaths sel ((getArr j "plan").map decPStep) with
    | some ps => Json.mkObj [("paths", encPaths ps)]
    | none => Json.mkObj [("err", .str "could not find field for point")]
  | "select" =>
    -- {"possible":[..],"configured":[..],"parent":"A","internal":"gw"}; the priority order is the one read from plan.go
    match Sel.selectLocation Gen.selectLoc (strList j "possible") (strList j "configured") (getStr j "parent") (getStr j "internal") with
    | some l => Json.mkObj [("loc", .str l)]
    | none => Json.mkObj [("loc", .null)]
  | op => Json.mkObj [("bad-op", .str op)]

partial def loop (h : IO.FS.Stream) (out : IO.FS.Stream) : IO Unit := do
  let line ← h.getLine
  if line.isEmpty then return ()
  match Json.parse line with
  | .ok j => out.putStrLn (handle j).compress
  | .error e => out.putStrLn (Json.mkObj [("bad-json", .str e)]).compress
  out.flush
  loop h out

def main : IO Unit := do loop (← IO.getStdin) (← IO.getStdout)
