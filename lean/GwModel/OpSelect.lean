import GwModel.FactTypes
/-! Model of plan selection in `Gateway.Execute` (gateway.go:59-80) and of "one plan per operation"
    (`generatePlans` + `generateScrubFields`, plan.go): used by C17. -/
namespace OpSelect

inductive Err | needName | notFound
deriving DecidableEq, Repr

/-- `QueryPlanList.ForOperation` -/
def forOperation {P : Type} (plans : List (String × P)) (name : String) : Except Err P :=
  match plans.find? (fun p => p.1 == name) with
  | some p => .ok p.2
  | none => .error .notFound

/-- plan selection as the source denotes it; `f` comes from gwfacts -/
def selectPlan {P : Type} (f : Facts.OpSelectFacts) (plans : List (String × P)) (name : String) : Except Err P :=
  match plans with
  | [p] => if f.singleUsesOnly then
             (if f.onlyIfNameMatches && !(name == "" || p.1 == name) then .error .notFound else .ok p.2)
           else forOperation plans name
  | _ =>
    if f.emptyNameRejected && name == "" then .error .needName
    else forOperation plans name

def FactsSafe (f : Facts.OpSelectFacts) : Prop :=
  f.singleUsesOnly = true ∧ f.emptyNameRejected = true ∧ f.selectsByName = true ∧ f.onlyIfNameMatches = true

instance (f : Facts.OpSelectFacts) : Decidable (FactsSafe f) := by unfold FactsSafe; exact inferInstance

/-- a document is planned operation by operation: the plan of an operation (its steps *and* its scrub
    table) is a function of that operation alone (with the document's fragments) -/
def planDoc {O P : Type} (nameOf : O → String) (planOp : O → P) (ops : List O) : List (String × P) :=
  ops.map fun o => (nameOf o, planOp o)

theorem forOperation_map {O P : Type} (nameOf : O → String) (planOp : O → P) :
    ∀ (ops : List O) (o : O), o ∈ ops → (ops.map nameOf).Nodup →
      forOperation (planDoc nameOf planOp ops) (nameOf o) = .ok (planOp o)
  | [], o, h, _ => by cases h
  | a :: rest, o, h, hnd => by
    simp only [List.map_cons, List.nodup_cons] at hnd
    unfold forOperation planDoc
    simp only [List.map_cons, List.find?_cons]
    by_cases ha : nameOf a = nameOf o
    · simp only [ha, beq_self_eq_true]
      rcases List.mem_cons.1 h with rfl | hm
      · rfl
      · exact absurd (ha ▸ List.mem_map.2 ⟨o, hm, rfl⟩) hnd.1
    · have : (nameOf a == nameOf o) = false := by simpa using ha
      simp only [this]
      rcases List.mem_cons.1 h with rfl | hm
      · exact absurd rfl ha
      · exact forOperation_map nameOf planOp rest o hm hnd.2

theorem forOperation_unknown {P : Type} (plans : List (String × P)) (name : String)
    (h : ∀ p ∈ plans, p.1 ≠ name) : forOperation plans name = .error .notFound := by
  unfold forOperation
  have : plans.find? (fun p => p.1 == name) = none := by
    apply List.find?_eq_none.2
    intro p hp; simpa using h p hp
  rw [this]

end OpSelect
