import GwModel.MergeObj
/-! Schema-level merge (merge.go mergeSchemas): definitions are grouped per name in source order, every
    group is merged with `Mg.mergeGroup` (the function the characterisation theorems are about), then
    possible types and implemented interfaces are derived from the *merged* definitions. -/
namespace MergeS
open Mg

structure Schema where
  types : List Def
  directives : List Def       -- a directive definition: kind `.input`, fields = arguments + a pseudo
                              -- argument carrying the set of executable locations
deriving Repr

/-- group definitions by name, names in first-occurrence order, members in source order -/
def groupByName : List Def → List (Nat × List Def)
  | [] => []
  | d :: ds =>
    let rest := groupByName ds
    if rest.any (fun g => g.1 == d.name) then
      rest.map fun g => if g.1 == d.name then (g.1, d :: g.2) else g
    else (d.name, [d]) :: rest

def mergeGroups : List (Nat × List Def) → Option (List Def)
  | [] => some []
  | g :: gs =>
    match mergeGroup g.2, mergeGroups gs with
    | some d, some ds => some (d :: ds)
    | _, _ => none

structure Merged where
  types : List Def
  directives : List Def
  possible : List (Nat × List Nat)    -- abstract type ↦ names of its possible types
  implements : List (Nat × List Nat)  -- object type ↦ interfaces it implements
deriving Repr

/-- possible types of an interface: every merged object (or interface) that lists it, plus — mirroring the
    code, which a unit test pins — the interface itself; of a union: its members -/
def possibleOf (types : List Def) (d : Def) : List Nat :=
  match d.kind with
  | .iface => d.name :: (types.filter fun t => t.ifaces.contains d.name).map (·.name)
  | .union => d.fields.map (·.name)
  | _ => []

/-- what a type "implements" in gqlparser's sense: its interfaces and the unions it is a member of -/
def implementsOf (types : List Def) (d : Def) : List Nat :=
  d.ifaces ++ (types.filter fun u => u.kind == .union && (u.fields.map (·.name)).contains d.name).map (·.name)

def mergeSchemas (srcs : List Schema) : Option Merged :=
  match mergeGroups (groupByName (srcs.flatMap (·.types))), mergeGroups (groupByName (srcs.flatMap (·.directives))) with
  | some ts, some ds =>
    some { types := ts, directives := ds,
           possible := (ts.filter fun d => d.kind == .iface || d.kind == .union).map fun d => (d.name, possibleOf ts d),
           implements := (ts.filter fun d => d.kind == .object).map fun d => (d.name, implementsOf ts d) }
  | _, _ => none

end MergeS
