import GwModel.Inject
/-! Model of `injectFile` (http.go) after the repair: every path of a map entry is split on '.', an optional
    leading batch index selects the operation, the next part must be `variables`, and the rest is walked
    through objects (by key) and lists (by decimal index) down to a `null`, which the file replaces.
    `Inj.setAt` is that walk. -/
namespace InjF
open Inj

/-- `strconv.Atoi` on the strings that matter here: an optional sign followed by decimal digits -/
def atoi (s : String) : Option Int :=
  let cs := s.toList
  let (neg, ds) := match cs with
    | '-' :: r => (true, r)
    | '+' :: r => (false, r)
    | r => (false, r)
  if ds.isEmpty || !ds.all Char.isDigit then none
  else
    let n : Nat := Nat.ofDigitChars 10 ds 0
    some (if neg then -(n : Int) else (n : Int))

/-- `strings.Split(path, ".")` -/
def splitDots (s : String) : List String := s.splitOn "."

inductive Err
  | badBatchIndex | batchIndexOutOfRange | noVariables | tooFewParts | walk (e : Inj.Err)
deriving Repr, DecidableEq

/-- the operations' variables (an operation without variables has an empty object) -/
abbrev Ops := List J

mutual
/-- the walk with Go's index syntax: like `Inj.setAt` but list indexes are read with `atoi` -/
def setAtGo (f : Nat) : J → List String → Except Inj.Err J
  | .null, [] => .ok (.file f)
  | _, [] => .error .notNull
  | .obj kvs, k :: rest => (setKeyGo f kvs k rest).map .obj
  | .arr xs, k :: rest =>
    match atoi k with
    | none => .error .badIndex
    | some (.negSucc _) => .error .outOfRange
    | some (.ofNat i) => (setIdxGo f xs i rest).map .arr
  | _, _ :: _ => .error .notContainer
def setKeyGo (f : Nat) : List (String × J) → String → List String → Except Inj.Err (List (String × J))
  | [], _, _ => .error .notFound
  | (k', v) :: kvs, k, rest =>
    if k' = k then (setAtGo f v rest).map (fun v' => (k', v') :: kvs)
    else (setKeyGo f kvs k rest).map (fun kvs' => (k', v) :: kvs')
def setIdxGo (f : Nat) : List J → Nat → List String → Except Inj.Err (List J)
  | [], _, _ => .error .outOfRange
  | x :: xs, 0, rest => (setAtGo f x rest).map (fun x' => x' :: xs)
  | x :: xs, i+1, rest => (setIdxGo f xs i rest).map (fun xs' => x :: xs')
end

/-- one path of one map entry -/
def injectPath (ops : Ops) (batch : Bool) (f : Nat) (path : String) : Except Err Ops :=
  let parts := splitDots path
  let sel : Except Err (Nat × List String) :=
    if batch then
      match parts with
      | [] => .error .badBatchIndex
      | p :: rest =>
        match atoi p with
        | none => .error .badBatchIndex
        | some (.negSucc _) => .error .batchIndexOutOfRange
        | some (.ofNat i) => .ok (i, rest)
    else .ok (0, parts)
  match sel with
  | .error e => .error e
  | .ok (idx, parts) =>
    match ops[idx]? with
    | none => .error .batchIndexOutOfRange
    | some vars =>
      match parts with
      | [] => .error .noVariables
      | p :: rest =>
        if p ≠ "variables" then .error .noVariables
        else if rest.isEmpty then .error .tooFewParts
        else match setAtGo f vars rest with
          | .ok v' => .ok (ops.set idx v')
          | .error e => .error (.walk e)

/-- all paths of one file, then all files -/
def injectFile (ops : Ops) (batch : Bool) (f : Nat) (paths : List String) : Except Err Ops :=
  paths.foldlM (fun o p => injectPath o batch f p) ops

def injectAll (ops : Ops) (batch : Bool) (files : List (Nat × List String)) : Except Err Ops :=
  files.foldlM (fun o fp => injectFile o batch fp.1 fp.2) ops

end InjF
