import GwModel.FindPtsBasic
/-! Soundness of the insertion-point search: realised paths lead to the objects whose ids they carry. -/
namespace Fp
open Ins

/-- the reply has, along the target path, the kinds the declared types promise at the places where the code does
    not check them itself (an object-typed point that is not the last one holds an object or null) -/
def Conf : List PInfo → KVs → Prop
  | [], _ => True
  | p :: rest, chunk =>
    match lookup p.key chunk with
    | some (.arr entries) => if p.isList then ∀ e ∈ entries, ∀ k, e = .obj k → Conf rest k else rest = []
    | some (.obj k) => if p.isList then True else Conf rest k
    | some (.leaf _) => p.isList = true ∨ rest = []
    | _ => True

/-- what a realised path promises: it extends the prefix by one point per target point, with the target's keys;
    following it through the reply reaches an object, and the id recorded in its last point is that object's id -/
def Good (infos : List PInfo) (chunk : KVs) (pre : List RPt) (path : List RPt) : Prop :=
  ∃ suf, path = pre ++ suf ∧ suf.map (·.key) = infos.map (·.key) ∧
    ∃ o, walk (.obj chunk) suf = some (.obj o) ∧
      ∀ last, suf.getLast? = some last → ∃ id, last.id = some id ∧ lookup 0 o = some id

theorem walk_cons_field {k : KVs} {key : Nat} {v : J} {r : List RPt} {id : Option J}
    (h : lookup key k = some v) : walk (.obj k) (⟨key, none, id⟩ :: r) = walk v r := by
  simp [walk, h]

theorem walk_cons_entry {k : KVs} {key i : Nat} {l : List J} {e : J} {r : List RPt} {id : Option J}
    (h : lookup key k = some (.arr l)) (he : l[i]? = some e) : walk (.obj k) (⟨key, some i, id⟩ :: r) = walk e r := by
  simp [walk, h, he]

theorem findPts_good : ∀ (infos : List PInfo) (chunk : KVs) (pre : List RPt) (paths : List (List RPt)),
    findPts infos chunk pre = .ok paths → Conf infos chunk → ∀ path ∈ paths, Good infos chunk pre path
  | [], chunk, pre, paths, h, _, path, hp => by
    simp [findPts] at h; subst h
    simp at hp; subst hp
    exact ⟨[], by simp, rfl, chunk, rfl, by simp⟩
  | p :: rest, chunk, pre, paths, h, hc, path, hp => by
    simp only [findPts] at h
    by_cases hf : p.found = true
    · simp only [hf, Bool.not_true, Bool.false_eq_true, if_false] at h
      cases hl : lookup p.key chunk with
      | none => simp [hl] at h; subst h; cases hp
      | some value =>
        cases value with
        | null =>
          simp only [hl] at h
          split at h
          · cases h
          · cases h; cases hp
        | leaf s =>
          simp only [hl] at h
          by_cases hi : p.isList = true
          · simp [hi] at h
          · simp only [hi, Bool.false_eq_true, if_false] at h
            cases rest with
            | nil => simp at h
            | cons q rest' =>
              simp only [Conf, hl] at hc
              rcases hc with hc | hc
              · exact absurd hc hi
              · cases hc
        | arr entries =>
          simp only [hl] at h
          by_cases hi : p.isList = true
          · simp only [hi, if_true] at h
            simp only [Conf, hl, hi, if_true] at hc
            rw [concatM_mem h] at hp
            obtain ⟨a, ha, hpa⟩ := hp
            obtain ⟨⟨i, e⟩, hie, hfe⟩ := List.mem_map.1 ha
            have ⟨_, hget⟩ := mem_enumFrom hie
            simp only [Nat.sub_zero] at hget
            cases e with
            | null => simp at hfe; cases hfe; cases hpa
            | leaf s => simp at hfe
            | arr l => simp at hfe
            | obj ekvs =>
              simp only at hfe
              cases rest with
              | nil =>
                cases hid : lookup 0 ekvs with
                | none => simp [hid] at hfe; cases hfe; cases hpa
                | some id =>
                  simp [hid] at hfe; cases hfe
                  simp at hpa; subst hpa
                  refine ⟨[⟨p.key, some i, some id⟩], rfl, by simp, ekvs, ?_, ?_⟩
                  · rw [walk_cons_entry hl hget]; rfl
                  · intro last hlast; simp at hlast; subst hlast; exact ⟨id, rfl, hid⟩
              | cons q rest' =>
                simp only at hfe
                have hce := hc (.obj ekvs) (List.mem_of_getElem? hget) ekvs rfl
                obtain ⟨suf, hsuf, hkeys, o, hw, hlast⟩ :=
                  findPts_good (q :: rest') ekvs _ a hfe hce path hpa
                refine ⟨⟨p.key, some i, none⟩ :: suf, by simp [hsuf], by simp [hkeys], o, ?_, ?_⟩
                · rw [walk_cons_entry hl hget]; exact hw
                · intro last hl'
                  cases suf with
                  | nil => simp at hkeys
                  | cons s0 ss => exact hlast last (by simpa [List.getLast?_cons_cons] using hl')
          · simp only [hi, Bool.false_eq_true, if_false] at h
            simp only [Conf, hl, hi, Bool.false_eq_true, if_false] at hc
            subst hc
            simp only at h
            cases entries with
            | nil => simp at h
            | cons e0 es =>
              cases e0 with
              | obj ekvs =>
                simp only at h
                cases hid : lookup 0 ekvs with
                | none => simp [hid] at h
                | some id =>
                  simp [hid] at h; subst h
                  simp at hp; subst hp
                  refine ⟨[⟨p.key, some 0, some id⟩], rfl, by simp, ekvs, ?_, ?_⟩
                  · rw [walk_cons_entry (e := .obj ekvs) hl (by simp)]; rfl
                  · intro last hlast; simp at hlast; subst hlast; exact ⟨id, rfl, hid⟩
              | null => simp at h
              | leaf s => simp at h
              | arr l => simp at h
        | obj k =>
          simp only [hl] at h
          by_cases hi : p.isList = true
          · simp [hi] at h
          · simp only [hi, Bool.false_eq_true, if_false] at h
            simp only [Conf, hl, hi, Bool.false_eq_true, if_false] at hc
            cases rest with
            | nil =>
              simp only at h
              cases hid : lookup 0 k with
              | none => simp [hid] at h; subst h; cases hp
              | some id =>
                simp [hid] at h; subst h
                simp at hp; subst hp
                refine ⟨[⟨p.key, none, some id⟩], rfl, by simp, k, ?_, ?_⟩
                · rw [walk_cons_field hl]; rfl
                · intro last hlast; simp at hlast; subst hlast; exact ⟨id, rfl, hid⟩
            | cons q rest' =>
              simp only at h
              obtain ⟨suf, hsuf, hkeys, o, hw, hlast⟩ := findPts_good (q :: rest') k _ paths h hc path hp
              refine ⟨⟨p.key, none, none⟩ :: suf, by simp [hsuf], by simp [hkeys], o, ?_, ?_⟩
              · rw [walk_cons_field hl]; exact hw
              · intro last hl'
                cases suf with
                | nil => simp at hkeys
                | cons s0 ss => exact hlast last (by simpa [List.getLast?_cons_cons] using hl')
    · simp [hf] at h; subst h; cases hp

end Fp
