import GwModel.InsertMerge
/-! `merge` commutes on compatible well-formed values (as a pair, and on top of any third value). -/
namespace Ins

theorem merge_null (x : J) : merge x .null = .null := by cases x <;> simp [merge]
theorem merge_leaf (x : J) (s : String) : merge x (.leaf s) = .leaf s := by cases x <;> simp [merge]
theorem null_merge (w : J) : merge .null w = w := by cases w <;> simp [merge]

theorem merge_arr (x : J) (inc : List J) :
    merge x (.arr inc) = match x with
      | .arr ex => if ex.length = inc.length then .arr (List.zipWith merge ex inc) else .arr inc
      | _ => .arr inc := by
  cases x <;> simp [merge, mergeL_eq_zipWith]

theorem merge_obj (x : J) (inc : KVs) :
    merge x (.obj inc) = match x with
      | .obj ex => .obj (mergeK ex inc)
      | _ => .obj inc := by
  cases x <;> simp [merge]

theorem size_pos (v : J) : 1 ≤ v.size := by cases v <;> simp [J.size] <;> omega

theorem getElem?_mem' {xs : List J} {i : Nat} {x : J} (h : xs[i]? = some x) : x ∈ xs :=
  List.mem_of_getElem? h

theorem merge_comm_aux (n : Nat) : ∀ v w : J, v.size ≤ n → WF v → WF w → Compat v w →
    merge v w = merge w v ∧ ∀ x, WF x → merge (merge x v) w = merge (merge x w) v := by
  induction n with
  | zero => intro v w h; have := size_pos v; omega
  | succ n ih =>
    intro v w hsz hv hw hc
    cases hc with
    | null => simp [merge_null]
    | leaf s => simp [merge_leaf]
    | arr xs ys hlen hel =>
      have hsz' : ∀ x ∈ xs, x.size ≤ n := by
        intro x hx; have := size_le_sizeL hx; simp only [J.size] at hsz; omega
      have c2 : List.zipWith merge xs ys = List.zipWith merge ys xs := by
        apply List.ext_getElem?
        intro i
        simp only [List.getElem?_zipWith]
        cases hx : xs[i]? with
        | none => cases hy : ys[i]? <;> simp
        | some x =>
          cases hy : ys[i]? with
          | none => simp
          | some y =>
            have hxm := getElem?_mem' hx
            have hym := getElem?_mem' hy
            simp [(ih x y (hsz' x hxm) (hv.elems x hxm) (hw.elems y hym) (hel i x y hx hy)).1]
      have comm2 : merge (.arr xs) (.arr ys) = merge (.arr ys) (.arr xs) := by
        simp [merge_arr, hlen, c2]
      refine ⟨comm2, ?_⟩
      intro x' hx'
      cases x' with
      | arr ex =>
        by_cases hl : ex.length = xs.length
        · have hl' : ex.length = ys.length := by omega
          have h1 : (List.zipWith merge ex xs).length = ys.length := by simp [List.length_zipWith]; omega
          have h2 : (List.zipWith merge ex ys).length = xs.length := by simp [List.length_zipWith]; omega
          have e1 : merge (.arr ex) (.arr xs) = .arr (List.zipWith merge ex xs) := by rw [merge_arr]; simp [hl]
          have e2 : merge (.arr ex) (.arr ys) = .arr (List.zipWith merge ex ys) := by rw [merge_arr]; simp [hl']
          rw [e1, e2, merge_arr, merge_arr]
          simp only [h1, h2, if_true]
          congr 1
          apply List.ext_getElem?
          intro i
          simp only [List.getElem?_zipWith]
          cases he : ex[i]? with
          | none => cases hx : xs[i]? <;> cases hy : ys[i]? <;> simp
          | some e =>
            cases hx : xs[i]? with
            | none => cases hy : ys[i]? <;> simp
            | some x =>
              cases hy : ys[i]? with
              | none => simp
              | some y =>
                have hxm := getElem?_mem' hx
                have hym := getElem?_mem' hy
                have hem := getElem?_mem' he
                simp [(ih x y (hsz' x hxm) (hv.elems x hxm) (hw.elems y hym) (hel i x y hx hy)).2 e (hx'.elems e hem)]
        · have hl' : ¬ ex.length = ys.length := by omega
          rw [merge_arr (.arr ex) xs, merge_arr (.arr ex) ys]
          simp only [hl, hl', if_false]
          exact comm2
      | null => simpa [merge_arr] using comm2
      | leaf s => simpa [merge_arr] using comm2
      | obj kvs => simpa [merge_arr] using comm2
    | obj a b hab =>
      have hsz' : ∀ k v, (k, v) ∈ a → v.size ≤ n := by
        intro k v hm; have := size_le_sizeK hm; simp only [J.size] at hsz; omega
      have sa := hv.sorted
      have sb := hw.sorted
      have c2 : mergeK a b = mergeK b a := by
        apply sorted_ext (sorted_mergeK _ _ sa) (sorted_mergeK _ _ sb)
        intro k
        rw [lookup_mergeK k b a sb, lookup_mergeK k a b sa]
        cases la : lookup k a with
        | none =>
          cases lb : lookup k b with
          | none => simp
          | some w => simp [lookupD, la, null_merge]
        | some v =>
          cases lb : lookup k b with
          | none => simp [lookupD, lb, null_merge]
          | some w =>
            have hva := mem_of_lookup la
            have hwb := mem_of_lookup lb
            simp [lookupD, la, lb, (ih v w (hsz' k v hva) (hv.vals k v hva) (hw.vals k w hwb) (hab k v w hva hwb)).1]
      have comm2 : merge (.obj a) (.obj b) = merge (.obj b) (.obj a) := by simp [merge_obj, c2]
      refine ⟨comm2, ?_⟩
      intro x' hx'
      cases x' with
      | obj ex =>
        simp only [merge_obj]
        congr 1
        have se := hx'.sorted
        apply sorted_ext (sorted_mergeK _ _ (sorted_mergeK _ _ se)) (sorted_mergeK _ _ (sorted_mergeK _ _ se))
        intro k
        rw [lookup_mergeK k b (mergeK ex a) sb, lookup_mergeK k a (mergeK ex b) sa]
        simp only [lookupD, lookup_mergeK k a ex sa, lookup_mergeK k b ex sb]
        cases la : lookup k a with
        | none => cases lb : lookup k b <;> simp
        | some v =>
          cases lb : lookup k b with
          | none => simp
          | some w =>
            have hva := mem_of_lookup la
            have hwb := mem_of_lookup lb
            have := (ih v w (hsz' k v hva) (hv.vals k v hva) (hw.vals k w hwb) (hab k v w hva hwb)).2 (lookupD k ex) (wf_lookupD hx' k)
            simpa [lookupD] using this
      | null => simpa [merge_obj] using comm2
      | leaf s => simpa [merge_obj] using comm2
      | arr l => simpa [merge_obj] using comm2


theorem merge_comm {v w : J} (hv : WF v) (hw : WF w) (hc : Compat v w) : merge v w = merge w v :=
  (merge_comm_aux v.size v w (Nat.le_refl _) hv hw hc).1

/-- the order in which two compatible values reach one place does not matter -/
theorem merge_merge_comm {x v w : J} (hx : WF x) (hv : WF v) (hw : WF w) (hc : Compat v w) :
    merge (merge x v) w = merge (merge x w) v :=
  (merge_comm_aux v.size v w (Nat.le_refl _) hv hw hc).2 x hx

end Ins
