import GwModel.Mono
/-! The specification `introSpec`: what the GraphQL specification prescribes as the answer to an
    introspection selection (`__schema`, `__type(name:)`, `__typename`) over a schema, with aliases,
    fragments (expanded beforehand), `@skip/@include`, `includeDeprecated` and variables. -/
namespace Intro
open Mono

inductive TRef where
  | named (n : String) | list (of : TRef) | nonNull (of : TRef)
deriving Repr, Inhabited

structure IValue where
  name : String
  description : Option String
  type : TRef
  defaultValue : Option String
deriving Repr, Inhabited

structure IField where
  name : String
  description : Option String
  args : List IValue
  type : TRef
  deprecated : Bool
  reason : Option String
deriving Repr, Inhabited

structure IEnum where
  name : String
  description : Option String
  deprecated : Bool
  reason : Option String
deriving Repr, Inhabited

structure IType where
  kind : String            -- SCALAR | OBJECT | INTERFACE | UNION | ENUM | INPUT_OBJECT
  name : String
  description : Option String
  specifiedByURL : Option String
  fields : List IField
  interfaces : List String
  possible : List String
  enumValues : List IEnum
  inputFields : List IValue
deriving Repr, Inhabited

structure IDirective where
  name : String
  description : Option String
  locations : List String
  args : List IValue
  repeatable : Bool
deriving Repr, Inhabited

structure ISchema where
  description : Option String
  types : List IType
  query : String
  mutation : Option String
  subscription : Option String
  directives : List IDirective
deriving Repr, Inhabited

def optStr : Option String → Val
  | none => .null
  | some s => .str s

def boolVal (b : Bool) : Val := .leaf (if b then "true" else "false")

def argBool (env : Env) (args : List (String × ArgVal)) (name : String) : Bool :=
  match args.lookup name with
  | some (.bool b) => b
  | some (.var v) => (match env.vars.lookup v with | some (.bool b) => b | _ => false)
  | _ => false

def argStr (env : Env) (args : List (String × ArgVal)) (name : String) : Option String :=
  match args.lookup name with
  | some (.str s) => some s
  | some (.var v) => (match env.vars.lookup v with | some (.str s) => some s | _ => none)
  | _ => none

def findType (s : ISchema) (n : String) : Option IType := s.types.find? (·.name == n)

/-- generic object walker: for every included field selection, `resolve name args sub` gives the value;
    `none` means the introspection type has no such field (validation excludes it) -/
def walk (env : Env) (typeName : String)
    (resolve : String → List (String × ArgVal) → List Sel → Option Val) : List Sel → List (String × Val) → List (String × Val)
  | [], acc => acc
  | .field alias name args dirs sub :: rest, acc =>
    if !included env dirs then walk env typeName resolve rest acc
    else if name == "__typename" then walk env typeName resolve rest (mergeKey acc alias (.str typeName))
    else match resolve name args sub with
      | some v => walk env typeName resolve rest (mergeKey acc alias v)
      | none => walk env typeName resolve rest acc
  | .inline _ dirs sub :: rest, acc =>
    -- fragments on introspection types always apply (the types are concrete)
    if included env dirs then walk env typeName resolve rest (walk env typeName resolve sub acc)
    else walk env typeName resolve rest acc
  | .spread _ _ :: rest, acc => walk env typeName resolve rest acc

def inputValue (env : Env) (typeRef : TRef → List Sel → Val) (iv : IValue) (sub : List Sel) : Val :=
  .obj (walk env "__InputValue" (fun name _ sub' =>
    match name with
    | "name" => some (.str iv.name)
    | "description" => some (optStr iv.description)
    | "type" => some (typeRef iv.type sub')
    | "defaultValue" => some (optStr iv.defaultValue)
    | _ => none) sub [])

mutual
/-- `fuel` bounds the nesting of `type { ofType { … } }` / `fields { type { fields … } }` walks: every
    level consumes a selection-set level, so the depth of the selection suffices -/
def typeVal (s : ISchema) (env : Env) : Nat → IType → List Sel → Val
  | 0, _, _ => .null
  | fuel + 1, t, sub =>
    .obj (walk env "__Type" (fun name args sub' =>
      let named (ns : List String) : Val := .list (ns.filterMap fun n => (findType s n).map fun t' => typeVal s env fuel t' sub')
      match name with
      | "kind" => some (.str t.kind)
      | "name" => some (.str t.name)
      | "description" => some (optStr t.description)
      | "specifiedByURL" => some (optStr t.specifiedByURL)
      | "fields" =>
        if t.kind == "OBJECT" || t.kind == "INTERFACE" then
          let fs := t.fields.filter fun f => !(f.name.startsWith "__") && (argBool env args "includeDeprecated" || !f.deprecated)
          some (.list (fs.map fun f => .obj (walk env "__Field" (fun n _ sub'' =>
            match n with
            | "name" => some (.str f.name)
            | "description" => some (optStr f.description)
            | "args" => some (.list (f.args.map fun a => inputValue env (refVal s env fuel) a sub''))
            | "type" => some (refVal s env fuel f.type sub'')
            | "isDeprecated" => some (boolVal f.deprecated)
            | "deprecationReason" => some (optStr f.reason)
            | _ => none) sub' [])))
        else some .null
      | "interfaces" => if t.kind == "OBJECT" || t.kind == "INTERFACE" then some (named t.interfaces) else some .null
      | "possibleTypes" =>
        -- the possible types of an abstract type are the OBJECT types that implement it / belong to it
        if t.kind == "INTERFACE" || t.kind == "UNION" then
          some (named (t.possible.filter fun n => match findType s n with | some p => p.kind == "OBJECT" | none => false))
        else some .null
      | "enumValues" =>
        if t.kind == "ENUM" then
          let vs := t.enumValues.filter fun v => argBool env args "includeDeprecated" || !v.deprecated
          some (.list (vs.map fun v => .obj (walk env "__EnumValue" (fun n _ _ =>
            match n with
            | "name" => some (.str v.name)
            | "description" => some (optStr v.description)
            | "isDeprecated" => some (boolVal v.deprecated)
            | "deprecationReason" => some (optStr v.reason)
            | _ => none) sub' [])))
        else some .null
      | "inputFields" =>
        if t.kind == "INPUT_OBJECT" then some (.list (t.inputFields.map fun a => inputValue env (refVal s env fuel) a sub'))
        else some .null
      | "ofType" => some .null
      | _ => none) sub [])
/-- a type reference: wrappers have kind LIST / NON_NULL, no name, and `ofType` -/
def refVal (s : ISchema) (env : Env) : Nat → TRef → List Sel → Val
  | 0, _, _ => .null
  | fuel + 1, .named n, sub => (match findType s n with | some t => typeVal s env fuel t sub | none => .null)
  | fuel + 1, .list o, sub =>
    .obj (walk env "__Type" (fun name _ sub' =>
      match name with
      | "kind" => some (.str "LIST")
      | "ofType" => some (refVal s env fuel o sub')
      | "name" | "description" | "specifiedByURL" | "fields" | "interfaces" | "possibleTypes" | "enumValues" | "inputFields" => some .null
      | _ => none) sub [])
  | fuel + 1, .nonNull o, sub =>
    .obj (walk env "__Type" (fun name _ sub' =>
      match name with
      | "kind" => some (.str "NON_NULL")
      | "ofType" => some (refVal s env fuel o sub')
      | "name" | "description" | "specifiedByURL" | "fields" | "interfaces" | "possibleTypes" | "enumValues" | "inputFields" => some .null
      | _ => none) sub [])
end

def directiveVal (s : ISchema) (env : Env) (fuel : Nat) (d : IDirective) (sub : List Sel) : Val :=
  .obj (walk env "__Directive" (fun name _ sub' =>
    match name with
    | "name" => some (.str d.name)
    | "description" => some (optStr d.description)
    | "locations" => some (.list (d.locations.map .str))
    | "args" => some (.list (d.args.map fun a => inputValue env (refVal s env fuel) a sub'))
    | "isRepeatable" => some (boolVal d.repeatable)
    | _ => none) sub [])

def schemaVal (s : ISchema) (env : Env) (fuel : Nat) (sub : List Sel) : Val :=
  let ty (n : Option String) (sub' : List Sel) : Val :=
    match n.bind (findType s) with | some t => typeVal s env fuel t sub' | none => .null
  .obj (walk env "__Schema" (fun name _ sub' =>
    match name with
    | "description" => some (optStr s.description)
    | "types" => some (.list (s.types.map fun t => typeVal s env fuel t sub'))
    | "queryType" => some (ty (some s.query) sub')
    | "mutationType" => some (ty s.mutation sub')
    | "subscriptionType" => some (ty s.subscription sub')
    | "directives" => some (.list (s.directives.map fun d => directiveVal s env fuel d sub'))
    | _ => none) sub [])

mutual
def depthSel : Sel → Nat
  | .field _ _ _ _ sub => 1 + depthSels sub
  | .inline _ _ sub => depthSels sub
  | .spread _ _ => 0
def depthSels : List Sel → Nat
  | [] => 0
  | s :: ss => max (depthSel s) (depthSels ss)
end

/-- the answer to the root-level introspection fields of an operation (other root fields are not ours) -/
def introSpec (s : ISchema) (env : Env) (frags : List Frag) (sels : List Sel) : Val :=
  let flat := expandN frags (frags.length + 1) sels
  let fuel := depthSels flat + 2
  .obj (walk env "Query" (fun name args sub =>
    match name with
    | "__schema" => some (schemaVal s env fuel sub)
    | "__type" =>
      match (argStr env args "name").bind (findType s) with
      | some t => some (typeVal s env fuel t sub)
      | none => some .null
    | _ => none) flat [])

end Intro
