import GwModel.Cache
/-! Sequential runs of the cache model: a request is advanced step by step until it produces its response;
    a history is a sequence of requests separated by clock advances and garbage collections.  The soundness
    of every single step (`stepReq_sound`) is lifted to whole histories. -/
namespace PCache
variable {Plan Err : Type}
variable (planOf : Text → Except Err Plan) (sha : Text → Hash) (ttl : Nat) (textOf : Hash → Text)

/-- run one request to completion (at most three atomic steps: Load, plan, LoadOrStore) -/
def runReq (cache : List (Entry Plan)) (now : Nat) (r : Req Plan) : Nat → List (Entry Plan) × Option (Resp Plan Err)
  | 0 => (cache, none)
  | fuel + 1 =>
    match stepReq planOf sha (Err := Err) { cache := cache, now := now, lastRetrieval := now, inflight := [], log := [] } r with
    | (c', _, some resp) => (c', some resp)
    | (c', some r', none) => runReq c' now r' fuel
    | (c', none, none) => (c', none)

def Sound (r : Req Plan) (x : Resp Plan Err) : Prop :=
  (x = .notFound ∧ (r.query = none ∨ r.query = some "")) ∨
  (∃ q, r.query = some q ∧ q ≠ "" ∧ x = uncached planOf q) ∨
  (∃ h, r.hash = some h ∧ h ≠ "" ∧ x = uncached planOf (textOf h))

theorem runReq_sound : ∀ (fuel : Nat) (cache : List (Entry Plan)) (now : Nat) (r : Req Plan),
    CacheOK planOf textOf cache → ReqOK planOf sha textOf r →
    CacheOK planOf textOf (runReq planOf sha cache now r fuel).1 ∧
    ∀ x, (runReq planOf sha cache now r fuel).2 = some x → Sound planOf textOf r x
  | 0, cache, now, r, hc, _ => ⟨hc, fun x h => by simp [runReq] at h⟩
  | fuel + 1, cache, now, r, hc, hr => by
    have hs := stepReq_sound planOf sha textOf (Err := Err)
      { cache := cache, now := now, lastRetrieval := now, inflight := [], log := [] } r hc hr
    simp only [runReq]
    cases hstep : stepReq planOf sha (Err := Err) { cache := cache, now := now, lastRetrieval := now, inflight := [], log := [] } r with
    | mk c' rest =>
      cases rest with
      | mk r' resp =>
        rw [hstep] at hs
        obtain ⟨hc', hr', hresp⟩ := hs
        cases resp with
        | some x =>
          exact ⟨hc', fun y hy => by cases hy; exact hresp x rfl⟩
        | none =>
          cases r' with
          | none => exact ⟨hc', fun y hy => by cases hy⟩
          | some r'' =>
            obtain ⟨hrok, hq, hh⟩ := hr' r'' rfl
            have ih := runReq_sound fuel c' now r'' hc' hrok
            refine ⟨ih.1, fun y hy => ?_⟩
            have := ih.2 y hy
            unfold Sound at this ⊢
            rw [hq, hh] at this
            exact this

/-- a history: requests with the time they arrive at; garbage collection may run before any of them -/
structure Ev (Plan : Type) where
  at_ : Nat
  gcFirst : Bool
  req : Req Plan

def runHistory (cache : List (Entry Plan)) : List (Ev Plan) → List (Option (Resp Plan Err)) × List (Entry Plan)
  | [] => ([], cache)
  | e :: es =>
    let c0 := if e.gcFirst then gc ttl cache e.at_ else cache
    let (c1, resp) := runReq planOf sha (Err := Err) c0 e.at_ e.req 3
    let (rs, cN) := runHistory c1 es
    (resp :: rs, cN)

/-- **C12 for histories**: whatever the sequence of requests, idle periods and garbage collections, every
    response is the cache-less response for the text the request's hash stands for (or for its own text),
    or NotFound for a request without text whose hash is not cached; and the cache only ever holds plans
    of the texts their keys stand for -/
theorem runHistory_sound : ∀ (es : List (Ev Plan)) (cache : List (Entry Plan)),
    CacheOK planOf textOf cache → (∀ e ∈ es, ReqOK planOf sha textOf e.req) →
    CacheOK planOf textOf (runHistory planOf sha ttl (Err := Err) cache es).2 ∧
    ∀ (i : Nat) (e : Ev Plan) x, es[i]? = some e → (runHistory planOf sha ttl (Err := Err) cache es).1[i]? = some (some x) →
      Sound planOf textOf e.req x
  | [], cache, hc, _ => ⟨hc, fun i e x h => by simp at h⟩
  | e :: es, cache, hc, hr => by
    have hc0 : CacheOK planOf textOf (if e.gcFirst then gc ttl cache e.at_ else cache) := by
      split
      · exact gc_ok planOf ttl textOf hc _
      · exact hc
    have h1 := runReq_sound planOf sha textOf (Err := Err) 3 _ e.at_ e.req hc0 (hr e (List.mem_cons_self ..))
    have ih := runHistory_sound es (runReq planOf sha (Err := Err) (if e.gcFirst then gc ttl cache e.at_ else cache) e.at_ e.req 3).1 h1.1
      (fun e' he' => hr e' (List.mem_cons_of_mem _ he'))
    simp only [runHistory]
    refine ⟨ih.1, fun i e' x hi hx => ?_⟩
    cases i with
    | zero =>
      simp at hi hx
      subst hi
      exact h1.2 x hx
    | succ i =>
      simp at hi hx
      exact ih.2 i e' x hi hx

end PCache
