import GwModel.FactTypes
/-! Model of the response-middleware loop of `Gateway.Execute` (gateway.go:93-106) and of the middleware
    split in `New` (gateway.go:209-224): the built-in id scrubber first, then the user's response
    middlewares in registration order; each receives the (shared, mutable) response and may fail; the loop
    runs whatever the executor returned; the first failure aborts the request with that error. -/
namespace Mw

/-- a response middleware: transforms the response or fails -/
structure RMw (D E : Type) where
  id : Nat
  run : D → Except E D

/-- the loop: returns the log of middlewares that ran and the final response or the first error -/
def runLoop {D E : Type} : List (RMw D E) → D → List Nat × Except E D
  | [], d => ([], .ok d)
  | m :: ms, d =>
    match m.run d with
    | .error e => ([m.id], .error e)
    | .ok d' => let r := runLoop ms d'; (m.id :: r.1, r.2)

/-- `Gateway.Execute` after the executor returned `(result, execErrs)`: the log of middlewares that ran, the data and
    the errors as returned.  A failing middleware aborts the request — no data — and its error is returned after the
    errors the execution had reported, which it must not hide (D65). -/
def execute {D E : Type} (scrub : RMw D E) (user : List (RMw D E)) (result : D) (execErrs : List E) :
    List Nat × Option D × List E :=
  match runLoop (scrub :: user) result with
  | (log, .error e) => (log, none, execErrs ++ [e])
  | (log, .ok d) => (log, some d, execErrs)

/-- every middleware that does not fail lets the next one run: without failures all run, once, in order -/
theorem runLoop_all_ok {D E : Type} : ∀ (ms : List (RMw D E)) (d : D),
    (∀ m ∈ ms, ∀ x, ∃ y, m.run x = .ok y) →
    (runLoop ms d).1 = ms.map (·.id) ∧ ∃ d', (runLoop ms d).2 = .ok d'
  | [], d, _ => ⟨rfl, d, rfl⟩
  | m :: ms, d, h => by
    obtain ⟨y, hy⟩ := h m (List.mem_cons_self ..) d
    have ih := runLoop_all_ok ms y (fun m' hm' => h m' (List.mem_cons_of_mem _ hm'))
    simp only [runLoop, hy]
    exact ⟨by simp [ih.1], ih.2⟩

/-- the log is always a prefix of the registration order: nobody runs twice or out of order -/
theorem runLoop_log_prefix {D E : Type} : ∀ (ms : List (RMw D E)) (d : D),
    ∃ rest, ms.map (·.id) = (runLoop ms d).1 ++ rest
  | [], _ => ⟨[], rfl⟩
  | m :: ms, d => by
    simp only [runLoop]
    cases hm : m.run d with
    | error e => exact ⟨ms.map (·.id), by simp⟩
    | ok d' =>
      obtain ⟨rest, hr⟩ := runLoop_log_prefix ms d'
      exact ⟨rest, by simp [hr]⟩

/-- the first failure aborts: the log ends with the failing middleware and its error is the result -/
theorem runLoop_first_failure {D E : Type} (pre : List (RMw D E)) (m : RMw D E) (post : List (RMw D E)) (d : D)
    (hpre : ∀ p ∈ pre, ∀ x, ∃ y, p.run x = .ok y) (e : E) (hm : ∀ x, m.run x = .error e) :
    (runLoop (pre ++ m :: post) d).1 = pre.map (·.id) ++ [m.id] ∧ (runLoop (pre ++ m :: post) d).2 = .error e := by
  induction pre generalizing d with
  | nil => simp [runLoop, hm d]
  | cons p pre ih =>
    obtain ⟨y, hy⟩ := hpre p (List.mem_cons_self ..) d
    have := ih y (fun q hq => hpre q (List.mem_cons_of_mem _ hq))
    simp only [List.cons_append, runLoop, hy]
    exact ⟨by simp [this.1], this.2⟩

/-- the scrubber is first and the loop does not look at the executor's errors -/
theorem execute_log_independent_of_exec_error {D E : Type} (scrub : RMw D E) (user : List (RMw D E)) (result : D)
    (e₁ e₂ : List E) : (execute scrub user result e₁).1 = (execute scrub user result e₂).1 := by
  unfold execute; cases runLoop (scrub :: user) result with
  | mk log r => cases r <;> rfl

theorem execute_scrub_first {D E : Type} (scrub : RMw D E) (user : List (RMw D E)) (result : D) (ee : List E) :
    (execute scrub user result ee).1.head? = some scrub.id := by
  unfold execute
  simp only [runLoop]
  cases scrub.run result with
  | error e => rfl
  | ok d' =>
    simp only
    cases (runLoop user d').2 <;> rfl

/-- the data the middlewares leave is the data returned, together with the executor's errors -/
theorem execute_returns_middleware_data {D E : Type} (scrub : RMw D E) (user : List (RMw D E)) (result d : D) (ee : List E)
    (h : (runLoop (scrub :: user) result).2 = .ok d) :
    (execute scrub user result ee).2 = (some d, ee) := by
  unfold execute
  cases hr : runLoop (scrub :: user) result with
  | mk log r => rw [hr] at h; simp at h; subst h; rfl

/-- a middleware that fails — the scrubber included — leaves no data, and the errors are the execution's followed by
    the middleware's -/
theorem execute_error_no_data {D E : Type} (scrub : RMw D E) (user : List (RMw D E)) (result : D) (ee : List E) (e : E)
    (h : (runLoop (scrub :: user) result).2 = .error e) :
    (execute scrub user result ee).2 = (none, ee ++ [e]) := by
  unfold execute
  cases hr : runLoop (scrub :: user) result with
  | mk log r => rw [hr] at h; simp at h; subst h; rfl

/-- in particular when the scrubber itself fails (it could not walk to a place it has to clean) -/
theorem execute_scrubber_fails {D E : Type} (scrub : RMw D E) (user : List (RMw D E)) (result : D) (ee : List E) (e : E)
    (h : scrub.run result = .error e) :
    execute scrub user result ee = ([scrub.id], none, ee ++ [e]) := by
  simp [execute, runLoop, h]

/-- **no error the execution reported is hidden by what the middlewares do**: whatever they return, every error of the
    execution is among the errors returned -/
theorem execute_keeps_exec_errors {D E : Type} (scrub : RMw D E) (user : List (RMw D E)) (result : D) (ee : List E) :
    ∀ x ∈ ee, x ∈ (execute scrub user result ee).2.2 := by
  intro x hx
  unfold execute
  cases runLoop (scrub :: user) result with
  | mk log r =>
    cases r with
    | error e => exact List.mem_append.2 (Or.inl hx)
    | ok d => exact hx

/-- what the code did before the repair of D65: the middleware's error alone -/
def executeOld {D E : Type} (scrub : RMw D E) (user : List (RMw D E)) (result : D) (execErrs : List E) :
    List Nat × Option D × List E :=
  match runLoop (scrub :: user) result with
  | (log, .error e) => (log, none, [e])
  | (log, .ok d) => (log, some d, execErrs)

def FactsSafe (f : Facts.MwFacts) : Prop :=
  f.scrubFirst = true ∧ f.appendInOrder = true ∧ f.loopUnconditional = true ∧ f.errorAborts = true ∧
  f.returnsResultAndExecErr = true

instance (f : Facts.MwFacts) : Decidable (FactsSafe f) := by unfold FactsSafe; exact inferInstance

end Mw
