import GwModel.Mono
/-! Model of the scrub-path computation (plan.go generateScrubFields / generateScrubFieldsWalk) and of
    `graphql.ApplyFragments` as it is used there: the client's selection is flattened into a tree keyed by
    response key, ignoring type conditions and directives; every step's insertion point is walked through
    that tree; the path is listed for scrubbing iff the selection found there has no response key `id`. -/
namespace Scrub
open Mono

/-- flattened selection: response key, field name, merged sub-selection (keys unique per level) -/
inductive S where
  | mk (key name : String) (sub : List S)
deriving Repr, Inhabited

def S.key : S → String | .mk k _ _ => k
def S.name : S → String | .mk _ n _ => n
def S.sub : S → List S | .mk _ _ s => s

/-- merge into the entry with response key `k` (created on first use, keeping the first field's name) -/
def upsert (acc : List S) (k n : String) (f : List S → List S) : List S :=
  if acc.any (fun s => s.key == k) then
    acc.map fun s => if s.key == k then .mk s.key s.name (f s.sub) else s
  else acc ++ [.mk k n (f [])]

/-! `ApplyFragments` (after `expandN` turned spreads into inline fragments) -/
mutual
def addSel (acc : List S) : Sel → List S
  | .field alias name _ _ sub => upsert acc alias name (fun old => addSels old sub)
  | .inline _ _ sub => addSels acc sub
  | .spread _ _ => acc
def addSels (acc : List S) : List Sel → List S
  | [] => acc
  | s :: ss => addSels (addSel acc s) ss
end

def flatten (frags : List Frag) (sels : List Sel) : List S :=
  addSels [] (expandN frags (frags.length + 1) sels)

/-- follow an insertion point through the flattened selection -/
def walkTo : List S → List String → Option (List S)
  | sel, [] => some sel
  | sel, p :: ps =>
    match sel.find? (fun s => s.key == p) with
    | some f => walkTo f.sub ps
    | none => none

def hasIdKey (sel : List S) : Bool := sel.any (fun s => s.key == "id")

/-- the plan tree as far as scrubbing is concerned -/
inductive PStep where
  | mk (ip : List String) (kids : List PStep)
deriving Repr, Inhabited

def PStep.ip : PStep → List String | .mk ip _ => ip
def PStep.kids : PStep → List PStep | .mk _ k => k

mutual
/-- `generateScrubFieldsWalk`: `none` is the error "could not find field for point" -/
def scrubWalk (sel : List S) : PStep → Option (List (List String))
  | .mk ip kids =>
    match walkTo sel ip with
    | none => none
    | some target =>
      match scrubWalks sel kids with
      | none => none
      | some rest => some ((if !hasIdKey target && !ip.isEmpty then [ip] else []) ++ rest)
def scrubWalks (sel : List S) : List PStep → Option (List (List String))
  | [] => some []
  | s :: ss =>
    match scrubWalk sel s, scrubWalks sel ss with
    | some a, some b => some (a ++ b)
    | _, _ => none
end

def dedupe : List (List String) → List (List String)
  | [] => []
  | p :: ps => if p ∈ ps then dedupe ps else p :: dedupe ps

/-- `generateScrubFields` for one plan: the "id" entry of FieldsToScrub (as a set) -/
def scrubPaths (sel : List S) (roots : List PStep) : Option (List (List String)) :=
  (scrubWalks sel roots).map dedupe

/-! all steps of a plan tree -/
mutual
def allSteps : PStep → List PStep
  | .mk ip kids => .mk ip kids :: allStepsL kids
def allStepsL : List PStep → List PStep
  | [] => []
  | s :: ss => allSteps s ++ allStepsL ss
end

end Scrub
