import GwModel.Plan
/-! Confinement of planned steps (C02): whatever `extractSelection` leaves in a step's selection set and in the
    fragment definitions it leaves behind for the step is offered, according to the routing table, by the
    service the step is sent to (or is the join `id`).  By induction on the planner's recursion (fuel); holds
    for every routing table, priority list, document, nesting of fragments and wrappers. -/
namespace Pl

/-- the routing table lists `loc` for `type.field` -/
def Offers (env : Env) (loc : Loc) (type field : String) : Prop :=
  ∃ possible, urlFor env type field = some possible ∧ loc ∈ possible

mutual
/-- every field of the selection, at every depth, is the join id or is offered by `loc` under the type it is
    selected on; fragment spreads are covered through the step's fragment definitions (`ConfFrags`) -/
def ConfSel (env : Env) (loc : Loc) : String → Sel → Prop
  | T, .field _ n _ _ _ typ sub => (n = "id" ∨ Offers env loc T n) ∧ ConfSels env loc typ sub
  | T, .inline c _ sub => ConfSels env loc (if c == "" then T else c) sub
  | _, .spread _ _ => True
def ConfSels (env : Env) (loc : Loc) : String → List Sel → Prop
  | _, [] => True
  | T, s :: ss => ConfSel env loc T s ∧ ConfSels env loc T ss
end

def ConfFrags (env : Env) (loc : Loc) (fs : List FragDef) : Prop := ∀ f ∈ fs, ConfSels env loc f.cond f.sub

theorem confSels_append {env : Env} {loc : Loc} {T : String} :
    ∀ {a b : List Sel}, ConfSels env loc T a → ConfSels env loc T b → ConfSels env loc T (a ++ b)
  | [], _, _, hb => hb
  | _ :: _, _, ha, hb => by
    simp only [List.cons_append, ConfSels] at ha ⊢
    exact ⟨ha.1, confSels_append ha.2 hb⟩

/-! ### the chooser picks a location that offers the field -/
theorem locate_offers {env : Env} {pl : Loc} {T f : String} {l : Loc} (h : locate env pl T f = .ok l) :
    Offers env l T f := by
  unfold locate at h
  split at h
  · cases h
  · rename_i possible hp
    split at h
    · rename_i l' hl
      cases h
      exact ⟨possible, hp, Sel.choose_mem hl⟩
    · cases h

/-! ### buckets -/
def isField : Sel → Bool
  | .field .. => true
  | _ => false

def fieldName : Sel → String
  | .field _ n .. => n
  | _ => ""

/-- the fields directly in the bundles are offered by the bundle's location under type `T` -/
def FieldsOffered (env : Env) (T : String) (b : Buckets Sel) : Prop :=
  ∀ l ss, (l, ss) ∈ b → ∀ s ∈ ss, isField s = true → Offers env l T (fieldName s)

theorem mem_add {α : Type} : ∀ {b : Buckets α} {l : Loc} {x : α} {l' : Loc} {ss' : List α},
    (l', ss') ∈ b.add l x → (l', ss') ∈ b ∨ (l' = l ∧ ∃ old, ss' = old ++ [x] ∧ ((l, old) ∈ b ∨ old = []))
  | [], l, x, l', ss', h => by
    simp only [Buckets.add, List.mem_singleton, Prod.mk.injEq] at h
    exact Or.inr ⟨h.1, [], by simp [h.2], Or.inr rfl⟩
  | (k, xs) :: rest, l, x, l', ss', h => by
    simp only [Buckets.add] at h
    split at h
    · rename_i hk
      have hk' : k = l := by simpa using hk
      rcases List.mem_cons.1 h with h | h
      · simp only [Prod.mk.injEq] at h
        exact Or.inr ⟨h.1.trans hk', xs, h.2, Or.inl (by rw [← hk']; exact List.mem_cons_self ..)⟩
      · exact Or.inl (List.mem_cons_of_mem _ h)
    · rcases List.mem_cons.1 h with h | h
      · exact Or.inl (h ▸ List.mem_cons_self ..)
      · rcases mem_add h with h | ⟨h1, old, h2, h3⟩
        · exact Or.inl (List.mem_cons_of_mem _ h)
        · refine Or.inr ⟨h1, old, h2, ?_⟩
          rcases h3 with h3 | h3
          · exact Or.inl (List.mem_cons_of_mem _ h3)
          · exact Or.inr h3

theorem fieldsOffered_add {env : Env} {T : String} {b : Buckets Sel} {l : Loc} {x : Sel}
    (hb : FieldsOffered env T b) (hx : isField x = true → Offers env l T (fieldName x)) :
    FieldsOffered env T (b.add l x) := by
  intro l' ss' hmem s hs hf
  rcases mem_add hmem with h | ⟨h1, old, h2, h3⟩
  · exact hb l' ss' h s hs hf
  · subst h1; subst h2
    rcases List.mem_append.1 hs with hs | hs
    · rcases h3 with h3 | h3
      · exact hb _ _ h3 s hs hf
      · subst h3; cases hs
    · have : s = x := by simpa using hs
      subst this; exact hx hf

theorem fieldsOffered_nil (env : Env) (T : String) : FieldsOffered env T [] := by
  intro l ss h; cases h

theorem fieldsOffered_fold_inline {env : Env} {T : String} (c : String) (d : List Dir) :
    ∀ (fl : Buckets Sel) (lf : Buckets Sel), FieldsOffered env T lf →
      FieldsOffered env T (fl.foldl (fun acc p => acc.add p.1 (.inline c d p.2)) lf)
  | [], _, h => h
  | p :: fl, lf, h => by
    simp only [List.foldl_cons]
    exact fieldsOffered_fold_inline c d fl _ (fieldsOffered_add h (by intro hf; cases hf))

theorem fieldsOffered_fold_spread {env : Env} {T : String} (name : String) (d : List Dir) (defn : FragDef) :
    ∀ (fl : Buckets Sel) (acc : Buckets Sel × Buckets FragDef), FieldsOffered env T acc.1 →
      FieldsOffered env T (fl.foldl (fun acc p => (acc.1.add p.1 (.spread name d), acc.2.add p.1 ⟨name, defn.cond, defn.dirs, p.2⟩)) acc).1
  | [], _, h => h
  | p :: fl, acc, h => by
    simp only [List.foldl_cons]
    exact fieldsOffered_fold_spread name d defn fl _ (fieldsOffered_add h (by intro hf; cases hf))

theorem group_fieldsOffered {env : Env} {pl : Loc} {T : String} {sf : List FragDef} :
    ∀ (sels : List Sel) (acc res : Buckets Sel × Buckets FragDef),
      group env pl T sf sels acc = .ok res → FieldsOffered env T acc.1 → FieldsOffered env T res.1
  | [], acc, res, h, ha => by
    simp only [group] at h; cases h; exact ha
  | .field a n g gv d t s :: rest, (lf, lfr), res, h, ha => by
    simp only [group] at h
    split at h
    · cases h
    · rename_i l hl
      exact group_fieldsOffered rest _ res h (fieldsOffered_add ha (fun _ => locate_offers hl))
  | .spread name dirs :: rest, (lf, lfr), res, h, ha => by
    simp only [group] at h
    split at h
    · cases h
    · rename_i defn _
      split at h
      · cases h
      · rename_i fl _
        exact group_fieldsOffered rest _ res h (fieldsOffered_fold_spread name dirs defn fl (lf, lfr) ha)
  | .inline cond dirs sub :: rest, (lf, lfr), res, h, ha => by
    simp only [group] at h
    split at h
    · cases h
    · rename_i fl _
      exact group_fieldsOffered rest _ res h (fieldsOffered_fold_inline cond dirs fl lf ha)

theorem get_mem_or_nil {α : Type} : ∀ (b : Buckets α) (l : Loc), (l, b.get l) ∈ b ∨ b.get l = []
  | [], l => Or.inr rfl
  | (k, xs) :: rest, l => by
    by_cases hk : l == k
    · have : l = k := by simpa using hk
      subst this
      left
      simp [Buckets.get, List.lookup]
    · rcases get_mem_or_nil rest l with h | h
      · left
        have : Buckets.get ((k, xs) :: rest) l = Buckets.get rest l := by
          simp only [Buckets.get, List.lookup, hk]
        rw [this]; exact List.mem_cons_of_mem _ h
      · right
        have : Buckets.get ((k, xs) :: rest) l = Buckets.get rest l := by
          simp only [Buckets.get, List.lookup, hk]
        rw [this]; exact h

/-! ### the step's state: kicking off other steps does not touch its fragment definitions -/
theorem kickOff_frags {cfg : Cfg} {lfr : Buckets FragDef} :
    ∀ (lf : Buckets Sel) (st st1 : St), kickOff cfg lfr lf st = .ok st1 → st1.frags = st.frags
  | [], st, st1, h => by simp only [kickOff] at h; cases h; rfl
  | (location, ss) :: rest, st, st1, h => by
    simp only [kickOff] at h
    split at h
    · exact kickOff_frags rest st st1 h
    · split at h
      · cases h
      · rename_i ss' fr' _
        have := kickOff_frags rest _ st1 h
        simpa using this

theorem confFrags_putFrag {env : Env} {loc : Loc} {d : FragDef} (hd : ConfSels env loc d.cond d.sub) :
    ∀ {fs : List FragDef}, ConfFrags env loc fs → ConfFrags env loc (putFrag d fs)
  | [], _ => by
    intro f hf
    simp only [putFrag, List.mem_singleton] at hf
    subst hf; exact hd
  | e :: es, h => by
    intro f hf
    simp only [putFrag] at hf
    split at hf
    · rcases List.mem_cons.1 hf with hf | hf
      · subst hf; exact hd
      · exact h f (List.mem_cons_of_mem _ hf)
    · rcases List.mem_cons.1 hf with hf | hf
      · subst hf; exact h _ (List.mem_cons_self ..)
      · exact confFrags_putFrag hd (fun g hg => h g (List.mem_cons_of_mem _ hg)) f hf

/-! ### the recursion -/

/-- what the induction hypothesis says about a recursive call of `extractSelection` at location `loc` -/
def RecOK (env : Env) (loc : Loc) (rec : Cfg → St → Except Err (List Sel × St)) : Prop :=
  ∀ cfg st sel st', rec cfg st = .ok (sel, st') → cfg.loc = loc → ConfFrags env loc st.frags →
    ConfSels env loc cfg.parentType sel ∧ ConfFrags env loc st'.frags

theorem processSel_confined {env : Env} {rec : Cfg → St → Except Err (List Sel × St)} {cfg : Cfg}
    (hrec : RecOK env cfg.loc rec) {localFrags : List FragDef} {s s' : Sel} {st st' : St}
    (hs : isField s = true → fieldName s = "id" ∨ Offers env cfg.loc cfg.parentType (fieldName s))
    (h : processSel rec cfg localFrags s st = .ok (s', st')) (hf : ConfFrags env cfg.loc st.frags) :
    ConfSel env cfg.loc cfg.parentType s' ∧ ConfFrags env cfg.loc st'.frags := by
  cases s with
  | field a n g gv d t sub =>
    simp only [processSel] at h
    split at h
    · rename_i hsub
      cases h
      have : sub = [] := by simpa using hsub
      subst this
      exact ⟨⟨hs rfl, trivial⟩, hf⟩
    · split at h
      · cases h
      · rename_i sub' st1 hr
        cases h
        have := hrec _ _ _ _ hr rfl hf
        exact ⟨⟨hs rfl, this.1⟩, this.2⟩
  | spread name dirs =>
    simp only [processSel] at h
    split at h
    · cases h
    · rename_i defn _
      split at h
      · cases h
      · rename_i sub' st1 hr
        have := hrec _ _ _ _ hr rfl hf
        split at h
        · cases h
          refine ⟨trivial, ?_⟩
          intro f hf'
          rcases List.mem_append.1 hf' with hf' | hf'
          · exact this.2 f hf'
          · have : f = _ := List.mem_singleton.1 hf'
            subst this; exact ‹ConfSels env cfg.loc defn.cond sub' ∧ _›.1
        · split at h
          · cases h; exact ⟨trivial, this.2⟩
          · rename_i hcond
            cases h
            have hne : (defn.cond == "") = false := by
              simp only [Bool.or_eq_true, not_or] at hcond
              simpa using hcond.2
            refine ⟨?_, this.2⟩
            simp only [ConfSel, hne, Bool.false_eq_true, if_false]
            exact this.1
  | inline cond dirs sub =>
    simp only [processSel] at h
    split at h
    · cases h
    · rename_i sub' st1 hr
      cases h
      have := hrec _ _ _ _ hr rfl hf
      exact ⟨this.1, this.2⟩

theorem processSels_confined {env : Env} {rec : Cfg → St → Except Err (List Sel × St)} {cfg : Cfg}
    (hrec : RecOK env cfg.loc rec) {localFrags : List FragDef} :
    ∀ (ss ss' : List Sel) (st st' : St),
      (∀ s ∈ ss, isField s = true → fieldName s = "id" ∨ Offers env cfg.loc cfg.parentType (fieldName s)) →
      processSels rec cfg localFrags ss st = .ok (ss', st') → ConfFrags env cfg.loc st.frags →
      ConfSels env cfg.loc cfg.parentType ss' ∧ ConfFrags env cfg.loc st'.frags
  | [], ss', st, st', _, h, hf => by
    simp only [processSels] at h; cases h; exact ⟨trivial, hf⟩
  | s :: ss, ss', st, st', hs, h, hf => by
    simp only [processSels] at h
    cases h1 : processSel rec cfg localFrags s st with
    | error e => rw [h1] at h; cases h
    | ok r1 =>
      obtain ⟨s1, st1⟩ := r1
      rw [h1] at h; simp only at h
      cases h2 : processSels rec cfg localFrags ss st1 with
      | error e => rw [h2] at h; cases h
      | ok r2 =>
        obtain ⟨ss1, st2⟩ := r2
        rw [h2] at h; simp only at h
        have a := processSel_confined hrec (hs s (List.mem_cons_self ..)) h1 hf
        have b := processSels_confined hrec ss ss1 st1 st2 (fun x hx => hs x (List.mem_cons_of_mem _ hx)) h2 a.2
        cases h
        exact ⟨⟨a.1, b.1⟩, b.2⟩

/-- **Confinement of `extractSelection`.**  For every amount of fuel, configuration and state: the selection
    set returned for the step and the fragment definitions left behind for it only hold fields the routing
    table offers at the step's location (or the join id). -/
theorem extract_confined (env : Env) : ∀ (fuel : Nat) (loc : Loc), RecOK env loc (extract env fuel)
  | 0, _ => by
    intro cfg st sel st' h _ _
    simp only [extract] at h; cases h
  | n + 1, loc => by
    intro cfg' st sel st' h hloc hf
    subst hloc
    simp only [extract] at h
    split at h
    · cases h
    · rename_i lf lfr hg
      split at h
      · cases h
      · rename_i st1 hk
        have hfo : FieldsOffered env cfg'.parentType lf :=
          group_fieldsOffered cfg'.sel ([], []) (lf, lfr) hg (fieldsOffered_nil env _)
        have hf1 : ConfFrags env cfg'.loc st1.frags := by
          rw [kickOff_frags lf st st1 hk]; exact hf
        have hrec : RecOK env cfg'.loc (extract env n) := extract_confined env n cfg'.loc
        have hcur : ∀ s ∈ Buckets.get lf cfg'.loc ++ (if lf.any (fun p => p.1 != cfg'.loc) then [idField] else []),
            isField s = true → fieldName s = "id" ∨ Offers env cfg'.loc cfg'.parentType (fieldName s) := by
          intro s hs hfield
          rcases List.mem_append.1 hs with hs | hs
          · rcases get_mem_or_nil lf cfg'.loc with hm | hm
            · exact Or.inr (hfo _ _ hm s hs hfield)
            · rw [hm] at hs; cases hs
          · split at hs
            · have : s = idField := by simpa using hs
              subst this; exact Or.inl rfl
            · cases hs
        exact processSels_confined hrec _ _ _ _ hcur h hf1

/-! ### whole plans -/

/-- a planned step asks its service only for what the routing table says that service offers -/
def StepConfined (env : Env) (s : Step) : Prop :=
  ConfSels env s.location s.parentType s.sel ∧ ConfFrags env s.location s.frags

theorem buildSteps_confined (env : Env) (fuel : Nat) :
    ∀ (k next : Nat) (queue : List Payload) (acc res : List Step),
      buildSteps env fuel k next queue acc = .ok res → (∀ s ∈ acc, StepConfined env s) → ∀ s ∈ res, StepConfined env s
  | 0, _, [], acc, res, h, ha => by simp only [buildSteps] at h; cases h; exact ha
  | 0, _, _ :: _, _, _, h, _ => by simp only [buildSteps] at h; cases h
  | _ + 1, _, [], acc, res, h, ha => by simp only [buildSteps] at h; cases h; exact ha
  | k + 1, next, p :: queue, acc, res, h, ha => by
    simp only [buildSteps] at h
    split at h
    · cases h
    · rename_i sel st he
      refine buildSteps_confined env fuel k _ _ _ res h ?_
      intro s hs
      rcases List.mem_append.1 hs with hs | hs
      · exact ha s hs
      · have : s = _ := List.mem_singleton.1 hs
        subst this
        have := extract_confined env fuel p.location _ _ _ _ he rfl (by intro f hf; cases hf)
        exact this

/-- **Every step of every plan is confined to its service** (C02), whatever the routing table, the priority
    list, the document and the amount of fuel. -/
theorem planOperation_confined {env : Env} {fuel : Nat} {operation : String} {sels : List Sel} {steps : List Step}
    (h : planOperation env fuel operation sels = .ok steps) : ∀ s ∈ steps, StepConfined env s :=
  buildSteps_confined env fuel _ _ _ _ _ h (by intro s hs; cases hs)

end Pl
