abbrev Loc := String
def internalLoc : Loc := "gw"

def selectLocation (possible prios : List Loc) (parent : Loc) : Option Loc :=
  match possible with
  | [] => none
  | [l] => some l
  | l :: _ =>
    match (prios ++ [parent, internalLoc]).find? (fun p => decide (p ∈ possible)) with
    | some p => some p
    | none => some l

theorem selectLocation_mem {possible prios : List Loc} {parent l : Loc}
    (h : selectLocation possible prios parent = some l) : l ∈ possible := by
  unfold selectLocation at h
  split at h
  · cases h
  · cases h; simp
  · split at h
    · rename_i p hp
      have := List.find?_some hp
      cases h; simpa using this
    · cases h; simp

theorem find_first {l : List Loc} {q : Loc → Bool} {x : Loc} (hx : q x = true)
    (hl : l.find? q = none) (rest : List Loc) : (l ++ x :: rest).find? q = some x := by
  rw [List.find?_append, hl]; simp [List.find?, hx]

theorem selectLocation_stable {possible prios : List Loc} {parent l : Loc}
    (h : selectLocation possible prios parent = some l) :
    selectLocation possible prios l = some l := by
  have hmem := selectLocation_mem h
  unfold selectLocation at h ⊢
  split at h
  · cases h
  · exact h
  · rename_i a b hne
    cases hp : prios.find? (fun p => decide (p ∈ a :: b)) with
    | some p =>
      rw [List.find?_append, hp] at h ⊢
      exact h
    | none =>
      rw [find_first (by simpa using hmem) hp]
