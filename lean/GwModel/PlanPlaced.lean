import GwModel.PlanConfined
/-! Placement of planned fields (C20): every field a step asks its service for is one the chooser — configured
    priorities, then the enclosing step's service, then the gateway, then the first service that offers it — assigns
    to that service when asked from that service (or is the join `id`).  Same induction as `PlanConfined`. -/
namespace Pl

/-- asked from `loc`, the chooser assigns `type.field` to `loc` -/
def Located (env : Env) (loc : Loc) (type field : String) : Prop := locate env loc type field = .ok loc

mutual
/-- every field of the selection, at every depth, is the join id or is offered by `loc` under the type it is
    selected on; fragment spreads are covered through the step's fragment definitions (`PlacedFrags`) -/
def PlacedSel (env : Env) (loc : Loc) : String → Sel → Prop
  | T, .field _ n _ _ _ typ sub => (n = "id" ∨ Located env loc T n) ∧ PlacedSels env loc typ sub
  | T, .inline c _ sub => PlacedSels env loc (if c == "" then T else c) sub
  | _, .spread _ _ => True
def PlacedSels (env : Env) (loc : Loc) : String → List Sel → Prop
  | _, [] => True
  | T, s :: ss => PlacedSel env loc T s ∧ PlacedSels env loc T ss
end

def PlacedFrags (env : Env) (loc : Loc) (fs : List FragDef) : Prop := ∀ f ∈ fs, PlacedSels env loc f.cond f.sub

theorem placedSels_append {env : Env} {loc : Loc} {T : String} :
    ∀ {a b : List Sel}, PlacedSels env loc T a → PlacedSels env loc T b → PlacedSels env loc T (a ++ b)
  | [], _, _, hb => hb
  | _ :: _, _, ha, hb => by
    simp only [List.cons_append, PlacedSels] at ha ⊢
    exact ⟨ha.1, placedSels_append ha.2 hb⟩

/-! ### asked again from the service it chose, the chooser chooses that service again -/
theorem locate_stable {env : Env} {pl : Loc} {T f : String} {l : Loc} (h : locate env pl T f = .ok l) :
    Located env l T f := by
  unfold Located
  unfold locate at h
  split at h
  · cases h
  · rename_i possible hp
    unfold locate
    rw [hp]
    simp only
    split at h
    · rename_i l' hl
      cases h
      have : Sel.selectLocation Sel.spec possible env.configured l env.internal = some l := by
        unfold Sel.selectLocation at hl ⊢
        show Sel.choose possible (Sel.prioOf [.configured, .parent, .internal] env.configured l env.internal) = some l
        rw [Sel.prioOf_safe]
        have hl' : Sel.choose possible (Sel.prioOf [.configured, .parent, .internal] env.configured pl env.internal) = some l := hl
        rw [Sel.prioOf_safe] at hl'
        exact Sel.choose_stable hl'
      rw [this]
    · cases h

/-! ### buckets -/
/-- the fields directly in the bundles are offered by the bundle's location under type `T` -/
def FieldsLocated (env : Env) (T : String) (b : Buckets Sel) : Prop :=
  ∀ l ss, (l, ss) ∈ b → ∀ s ∈ ss, isField s = true → Located env l T (fieldName s)

theorem fieldsLocated_add {env : Env} {T : String} {b : Buckets Sel} {l : Loc} {x : Sel}
    (hb : FieldsLocated env T b) (hx : isField x = true → Located env l T (fieldName x)) :
    FieldsLocated env T (b.add l x) := by
  intro l' ss' hmem s hs hf
  rcases mem_add hmem with h | ⟨h1, old, h2, h3⟩
  · exact hb l' ss' h s hs hf
  · subst h1; subst h2
    rcases List.mem_append.1 hs with hs | hs
    · rcases h3 with h3 | h3
      · exact hb _ _ h3 s hs hf
      · subst h3; cases hs
    · have : s = x := by simpa using hs
      subst this; exact hx hf

theorem fieldsLocated_nil (env : Env) (T : String) : FieldsLocated env T [] := by
  intro l ss h; cases h

theorem fieldsLocated_fold_inline {env : Env} {T : String} (c : String) (d : List Dir) :
    ∀ (fl : Buckets Sel) (lf : Buckets Sel), FieldsLocated env T lf →
      FieldsLocated env T (fl.foldl (fun acc p => acc.add p.1 (.inline c d p.2)) lf)
  | [], _, h => h
  | p :: fl, lf, h => by
    simp only [List.foldl_cons]
    exact fieldsLocated_fold_inline c d fl _ (fieldsLocated_add h (by intro hf; cases hf))

theorem fieldsLocated_fold_spread {env : Env} {T : String} (name : String) (d : List Dir) (defn : FragDef) :
    ∀ (fl : Buckets Sel) (acc : Buckets Sel × Buckets FragDef), FieldsLocated env T acc.1 →
      FieldsLocated env T (fl.foldl (fun acc p => (acc.1.add p.1 (.spread name d), acc.2.add p.1 ⟨name, defn.cond, defn.dirs, p.2⟩)) acc).1
  | [], _, h => h
  | p :: fl, acc, h => by
    simp only [List.foldl_cons]
    exact fieldsLocated_fold_spread name d defn fl _ (fieldsLocated_add h (by intro hf; cases hf))

theorem group_fieldsLocated {env : Env} {pl : Loc} {T : String} {sf : List FragDef} :
    ∀ (sels : List Sel) (acc res : Buckets Sel × Buckets FragDef),
      group env pl T sf sels acc = .ok res → FieldsLocated env T acc.1 → FieldsLocated env T res.1
  | [], acc, res, h, ha => by
    simp only [group] at h; cases h; exact ha
  | .field a n g gv d t s :: rest, (lf, lfr), res, h, ha => by
    simp only [group] at h
    split at h
    · cases h
    · rename_i l hl
      exact group_fieldsLocated rest _ res h (fieldsLocated_add ha (fun _ => locate_stable hl))
  | .spread name dirs :: rest, (lf, lfr), res, h, ha => by
    simp only [group] at h
    split at h
    · cases h
    · rename_i defn _
      split at h
      · cases h
      · rename_i fl _
        exact group_fieldsLocated rest _ res h (fieldsLocated_fold_spread name dirs defn fl (lf, lfr) ha)
  | .inline cond dirs sub :: rest, (lf, lfr), res, h, ha => by
    simp only [group] at h
    split at h
    · cases h
    · rename_i fl _
      exact group_fieldsLocated rest _ res h (fieldsLocated_fold_inline cond dirs fl lf ha)

theorem placedFrags_putFrag {env : Env} {loc : Loc} {d : FragDef} (hd : PlacedSels env loc d.cond d.sub) :
    ∀ {fs : List FragDef}, PlacedFrags env loc fs → PlacedFrags env loc (putFrag d fs)
  | [], _ => by
    intro f hf
    simp only [putFrag, List.mem_singleton] at hf
    subst hf; exact hd
  | e :: es, h => by
    intro f hf
    simp only [putFrag] at hf
    split at hf
    · rcases List.mem_cons.1 hf with hf | hf
      · subst hf; exact hd
      · exact h f (List.mem_cons_of_mem _ hf)
    · rcases List.mem_cons.1 hf with hf | hf
      · subst hf; exact h _ (List.mem_cons_self ..)
      · exact placedFrags_putFrag hd (fun g hg => h g (List.mem_cons_of_mem _ hg)) f hf

/-! ### the recursion -/

/-- what the induction hypothesis says about a recursive call of `extractSelection` at location `loc` -/
def RecPlaced (env : Env) (loc : Loc) (rec : Cfg → St → Except Err (List Sel × St)) : Prop :=
  ∀ cfg st sel st', rec cfg st = .ok (sel, st') → cfg.loc = loc → PlacedFrags env loc st.frags →
    PlacedSels env loc cfg.parentType sel ∧ PlacedFrags env loc st'.frags

theorem processSel_placed {env : Env} {rec : Cfg → St → Except Err (List Sel × St)} {cfg : Cfg}
    (hrec : RecPlaced env cfg.loc rec) {localFrags : List FragDef} {s s' : Sel} {st st' : St}
    (hs : isField s = true → fieldName s = "id" ∨ Located env cfg.loc cfg.parentType (fieldName s))
    (h : processSel rec cfg localFrags s st = .ok (s', st')) (hf : PlacedFrags env cfg.loc st.frags) :
    PlacedSel env cfg.loc cfg.parentType s' ∧ PlacedFrags env cfg.loc st'.frags := by
  cases s with
  | field a n g gv d t sub =>
    simp only [processSel] at h
    split at h
    · rename_i hsub
      cases h
      have : sub = [] := by simpa using hsub
      subst this
      exact ⟨⟨hs rfl, trivial⟩, hf⟩
    · split at h
      · cases h
      · rename_i sub' st1 hr
        cases h
        have := hrec _ _ _ _ hr rfl hf
        exact ⟨⟨hs rfl, this.1⟩, this.2⟩
  | spread name dirs =>
    simp only [processSel] at h
    split at h
    · cases h
    · rename_i defn _
      split at h
      · cases h
      · rename_i sub' st1 hr
        have := hrec _ _ _ _ hr rfl hf
        split at h
        · cases h
          refine ⟨trivial, ?_⟩
          intro f hf'
          rcases List.mem_append.1 hf' with hf' | hf'
          · exact this.2 f hf'
          · have : f = _ := List.mem_singleton.1 hf'
            subst this; exact ‹PlacedSels env cfg.loc defn.cond sub' ∧ _›.1
        · split at h
          · cases h; exact ⟨trivial, this.2⟩
          · rename_i hcond
            cases h
            have hne : (defn.cond == "") = false := by
              simp only [Bool.or_eq_true, not_or] at hcond
              simpa using hcond.2
            refine ⟨?_, this.2⟩
            simp only [PlacedSel, hne, Bool.false_eq_true, if_false]
            exact this.1
  | inline cond dirs sub =>
    simp only [processSel] at h
    split at h
    · cases h
    · rename_i sub' st1 hr
      cases h
      have := hrec _ _ _ _ hr rfl hf
      exact ⟨this.1, this.2⟩

theorem processSels_placed {env : Env} {rec : Cfg → St → Except Err (List Sel × St)} {cfg : Cfg}
    (hrec : RecPlaced env cfg.loc rec) {localFrags : List FragDef} :
    ∀ (ss ss' : List Sel) (st st' : St),
      (∀ s ∈ ss, isField s = true → fieldName s = "id" ∨ Located env cfg.loc cfg.parentType (fieldName s)) →
      processSels rec cfg localFrags ss st = .ok (ss', st') → PlacedFrags env cfg.loc st.frags →
      PlacedSels env cfg.loc cfg.parentType ss' ∧ PlacedFrags env cfg.loc st'.frags
  | [], ss', st, st', _, h, hf => by
    simp only [processSels] at h; cases h; exact ⟨trivial, hf⟩
  | s :: ss, ss', st, st', hs, h, hf => by
    simp only [processSels] at h
    cases h1 : processSel rec cfg localFrags s st with
    | error e => rw [h1] at h; cases h
    | ok r1 =>
      obtain ⟨s1, st1⟩ := r1
      rw [h1] at h; simp only at h
      cases h2 : processSels rec cfg localFrags ss st1 with
      | error e => rw [h2] at h; cases h
      | ok r2 =>
        obtain ⟨ss1, st2⟩ := r2
        rw [h2] at h; simp only at h
        have a := processSel_placed hrec (hs s (List.mem_cons_self ..)) h1 hf
        have b := processSels_placed hrec ss ss1 st1 st2 (fun x hx => hs x (List.mem_cons_of_mem _ hx)) h2 a.2
        cases h
        exact ⟨⟨a.1, b.1⟩, b.2⟩

/-- **Confinement of `extractSelection`.**  For every amount of fuel, configuration and state: the selection
    set returned for the step and the fragment definitions left behind for it only hold fields the routing
    table offers at the step's location (or the join id). -/
theorem extract_placed (env : Env) : ∀ (fuel : Nat) (loc : Loc), RecPlaced env loc (extract env fuel)
  | 0, _ => by
    intro cfg st sel st' h _ _
    simp only [extract] at h; cases h
  | n + 1, loc => by
    intro cfg' st sel st' h hloc hf
    subst hloc
    simp only [extract] at h
    split at h
    · cases h
    · rename_i lf lfr hg
      split at h
      · cases h
      · rename_i st1 hk
        have hfo : FieldsLocated env cfg'.parentType lf :=
          group_fieldsLocated cfg'.sel ([], []) (lf, lfr) hg (fieldsLocated_nil env _)
        have hf1 : PlacedFrags env cfg'.loc st1.frags := by
          rw [kickOff_frags lf st st1 hk]; exact hf
        have hrec : RecPlaced env cfg'.loc (extract env n) := extract_placed env n cfg'.loc
        have hcur : ∀ s ∈ Buckets.get lf cfg'.loc ++ (if lf.any (fun p => p.1 != cfg'.loc) then [idField] else []),
            isField s = true → fieldName s = "id" ∨ Located env cfg'.loc cfg'.parentType (fieldName s) := by
          intro s hs hfield
          rcases List.mem_append.1 hs with hs | hs
          · rcases get_mem_or_nil lf cfg'.loc with hm | hm
            · exact Or.inr (hfo _ _ hm s hs hfield)
            · rw [hm] at hs; cases hs
          · split at hs
            · have : s = idField := by simpa using hs
              subst this; exact Or.inl rfl
            · cases hs
        exact processSels_placed hrec _ _ _ _ hcur h hf1

/-! ### whole plans -/

/-- a planned step asks its service only for what the routing table says that service offers -/
def StepPlaced (env : Env) (s : Step) : Prop :=
  PlacedSels env s.location s.parentType s.sel ∧ PlacedFrags env s.location s.frags

theorem buildSteps_placed (env : Env) (fuel : Nat) :
    ∀ (k next : Nat) (queue : List Payload) (acc res : List Step),
      buildSteps env fuel k next queue acc = .ok res → (∀ s ∈ acc, StepPlaced env s) → ∀ s ∈ res, StepPlaced env s
  | 0, _, [], acc, res, h, ha => by simp only [buildSteps] at h; cases h; exact ha
  | 0, _, _ :: _, _, _, h, _ => by simp only [buildSteps] at h; cases h
  | _ + 1, _, [], acc, res, h, ha => by simp only [buildSteps] at h; cases h; exact ha
  | k + 1, next, p :: queue, acc, res, h, ha => by
    simp only [buildSteps] at h
    split at h
    · cases h
    · rename_i sel st he
      refine buildSteps_placed env fuel k _ _ _ res h ?_
      intro s hs
      rcases List.mem_append.1 hs with hs | hs
      · exact ha s hs
      · have : s = _ := List.mem_singleton.1 hs
        subst this
        have := extract_placed env fuel p.location _ _ _ _ he rfl (by intro f hf; cases hf)
        exact this

/-- **Every step of every plan is confined to its service** (C02), whatever the routing table, the priority
    list, the document and the amount of fuel. -/
theorem planOperation_placed {env : Env} {fuel : Nat} {operation : String} {sels : List Sel} {steps : List Step}
    (h : planOperation env fuel operation sels = .ok steps) : ∀ s ∈ steps, StepPlaced env s :=
  buildSteps_placed env fuel _ _ _ _ _ h (by intro s hs; cases hs)

end Pl
