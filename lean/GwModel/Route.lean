/-! Model of the routing table (gateway.go fieldURLs / FieldURLMap / New): for every `Type.field` the list of
    services that declare it, in service order; introspection types and fields are never routed to a
    service; the gateway's own schema (Node / node / custom query fields) is appended unstripped, and `id`
    of every gateway field's type is answerable by the gateway. -/
namespace Route

structure Src where
  url : String
  types : List (String × List String)     -- type name ↦ declared field names
deriving Repr

def declares (s : Src) (t f : String) : Bool :=
  match s.types.lookup t with
  | some fs => f == "__typename" || fs.contains f
  | none => false

def dunder (s : String) : Bool := ['_', '_'].isPrefixOf s.toList

def isIntrospection (t f : String) : Bool :=
  dunder t || (t == "Query" && dunder f && f != "__typename")

/-- services offering `t.f` (in service order), then the gateway if its own schema declares it, then the
    gateway again for `id` of the types its query fields return -/
def urlsFor (srcs : List Src) (internal : Src) (gwTypes : List String) (t f : String) : List String :=
  ((srcs.filter fun s => declares s t f && !isIntrospection t f).map (·.url)) ++
  (if declares internal t f then [internal.url] else []) ++
  ((gwTypes.filter fun g => g == t && f == "id").map fun _ => internal.url)

theorem service_routed_iff (srcs : List Src) (internal : Src) (gwTypes : List String) (t f loc : String)
    (hloc : loc ≠ internal.url) :
    loc ∈ urlsFor srcs internal gwTypes t f ↔
      ∃ s ∈ srcs, s.url = loc ∧ declares s t f = true ∧ isIntrospection t f = false := by
  unfold urlsFor
  simp only [List.mem_append, List.mem_map, List.mem_filter, Bool.and_eq_true, Bool.not_eq_true']
  constructor
  · rintro ((⟨s, ⟨hs, hd, hi⟩, rfl⟩ | h) | ⟨g, _, h⟩)
    · exact ⟨s, hs, rfl, hd, hi⟩
    · split at h
      · simp at h; exact absurd h hloc
      · cases h
    · exact absurd h.symm hloc
  · rintro ⟨s, hs, rfl, hd, hi⟩
    exact Or.inl (Or.inl ⟨s, ⟨hs, hd, hi⟩, rfl⟩)

/-- introspection is never routed to a service -/
theorem introspection_not_routed (srcs : List Src) (internal : Src) (gwTypes : List String) (t f loc : String)
    (hloc : loc ≠ internal.url) (hi : isIntrospection t f = true) : loc ∉ urlsFor srcs internal gwTypes t f := by
  intro h
  obtain ⟨_, _, _, _, hni⟩ := (service_routed_iff srcs internal gwTypes t f loc hloc).1 h
  rw [hi] at hni; cases hni

end Route
