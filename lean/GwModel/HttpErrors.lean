import GwModel.FactTypes
/-! Model of how the HTTP layer writes the errors of an operation into the response (http.go `formatErrorsWithCode`,
    after the repair of D64): an error that is an error list contributes its entries, any other error one entry; an
    entry that is a graphql error is written as it is (message, path, extensions), any other entry — a transport
    failure handed up the way the queryer returned it — is written as a graphql error carrying its message and the
    code of the call site.  (Before the repair such an entry was written as `{}`: `formatOld`.)

    Proved: the response has one error object per entry, in order, and every one carries the entry's message — so no
    failure the execution reports reaches the client without its text (C07), and every error object has the message
    the GraphQL specification requires (C15). -/
namespace HttpErr

/-- an entry of the executor's error list -/
structure E where
  isGraphql : Bool          -- a `*graphql.Error` (has a JSON form of its own)
  message : String
  path : List String
deriving Repr, DecidableEq

/-- an error as returned by `Gateway.Execute` / the planner / the parser -/
inductive Err where
  | list (es : List E)      -- a `graphql.ErrorList`
  | single (message : String)
deriving Repr

/-- an error object of the response; `message = none` is `{}` -/
structure Obj where
  message : Option String
  path : List String
  code : Option String
deriving Repr, DecidableEq

def entries : Err → String → List E
  | .list es, _ => es
  | .single m, _ => [⟨false, m, []⟩]

/-- `formatErrorsWithCode` -/
def format (err : Err) (code : String) : List Obj :=
  (entries err code).map fun e =>
    if e.isGraphql then { message := some e.message, path := e.path, code := none }
    else { message := some e.message, path := [], code := some code }

/-- what the code did before the repair: a list was serialised entry by entry -/
def formatOld (err : Err) (code : String) : List Obj :=
  match err with
  | .list es => es.map fun e =>
      if e.isGraphql then { message := some e.message, path := e.path, code := none }
      else { message := none, path := [], code := none }
  | .single m => [{ message := some m, path := [], code := some code }]

/-- one error object per entry, in order, each with the entry's message -/
theorem format_messages (err : Err) (code : String) :
    (format err code).map (·.message) = (entries err code).map (fun e => some e.message) := by
  simp only [format, List.map_map]
  apply List.map_congr_left
  intro e _
  simp only [Function.comp]
  split <;> rfl

theorem format_length (err : Err) (code : String) : (format err code).length = (entries err code).length := by
  simp [format]

/-- every error object carries a message -/
theorem format_has_message (err : Err) (code : String) : ∀ o ∈ format err code, o.message.isSome = true := by
  intro o ho
  simp only [format, List.mem_map] at ho
  obtain ⟨e, _, rfl⟩ := ho
  split <;> rfl

/-- the defect: an entry that is not a graphql error lost its message -/
theorem formatOld_loses_message :
    formatOld (.list [⟨false, "connection refused", []⟩]) "INTERNAL_SERVER_ERROR" = [{ message := none, path := [], code := none }] := by
  decide

end HttpErr
