/-! Model of the collector's error accumulation (execute.go): an error that is itself a list is flattened
    into the accumulated list, anything else is appended as one entry. -/
namespace ErrList

inductive E (α : Type) | one (e : α) | many (es : List α)

def flat {α : Type} : E α → List α
  | .one e => [e]
  | .many es => es

/-- `errs = append(errs, …)` for each failed result, in merge order -/
def accumulate {α : Type} (failed : List (E α)) : List α := failed.flatMap flat

theorem accumulate_perm {α : Type} {a b : List (E α)} (h : a.Perm b) : (accumulate a).Perm (accumulate b) :=
  List.Perm.flatMap_right _ h

theorem mem_accumulate {α : Type} (failed : List (E α)) (x : α) :
    x ∈ accumulate failed ↔ ∃ e ∈ failed, x ∈ flat e := by
  simp [accumulate, List.mem_flatMap]

theorem accumulate_nil_iff {α : Type} (failed : List (E α)) (hne : ∀ e ∈ failed, flat e ≠ []) :
    accumulate failed = [] ↔ failed = [] := by
  constructor
  · intro h
    cases failed with
    | nil => rfl
    | cons e rest =>
      have he := hne e (by simp)
      simp [accumulate, List.flatMap_cons] at h
      exact absurd h.1 he
  · intro h; subst h; rfl

end ErrList
