import GwModel.FactTypes
import GwModel.Exec.Errors
import GwModel.Exec.Termination
/-! Tie between the facts extracted from execute.go and the executor machine's configuration. -/
namespace ExecM

def opOf : Facts.Op → Op
  | .add => .add | .pub => .pub | .spawn => .spawn

/-- the machine configuration the current source denotes.  An unbuffered result channel (cap 0) is
    modelled as capacity 1 (a superset of the rendezvous behaviours; DESIGN §6 C05). -/
def cfgOfFacts (f : Facts.ExecFacts) : Cfg :=
  { cap := max f.resultCap 1
    errCap := f.errCap.getD 0
    selfSend := f.collectorSelfSendsErr
    order := f.order.map opOf }

/-- what the source must look like for the theorems to speak about it -/
def FactsSafe (f : Facts.ExecFacts) : Prop :=
  f.recognised = true ∧ f.order = [.add, .pub, .spawn] ∧ f.collectorSelfSendsErr = false ∧
  f.collectors = 1 ∧ f.collectorInLoop = false ∧ f.doneAfterInsert = true ∧ f.doneOnEveryPath = true ∧
  f.errsBeforeDone = true ∧ f.rootAddSpawnWait = true

instance (f : Facts.ExecFacts) : Decidable (FactsSafe f) := by unfold FactsSafe; exact inferInstance

theorem cfg_safe_of_facts {f : Facts.ExecFacts} (h : FactsSafe f) : (cfgOfFacts f).Safe := by
  obtain ⟨_, ho, hs, _⟩ := h
  refine ⟨hs, ?_, ?_⟩
  · simp [cfgOfFacts, ho, opOf, safeOrder]
  · simp only [cfgOfFacts]; omega

end ExecM
