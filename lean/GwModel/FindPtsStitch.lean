import GwModel.FindPtsPairParts
/-! One dependent step stitched in any order: every object gets exactly its own follow-up answer. -/
namespace Fp
open Ins

/-- one collector step for the follow-up answer fetched for the object at `p` -/
def stitchOne (payload : List RPt → KVs) (acc : Option J) (p : List RPt) : Option J :=
  acc.bind fun x => insertAt x (p.map toPt) (.obj (payload p))

theorem sig_inj_of_nodup : ∀ {paths : List (List RPt)}, (paths.map sig).Nodup →
    ∀ p ∈ paths, ∀ q ∈ paths, sig p = sig q → p = q
  | [], _, p, hp, _, _, _ => by cases hp
  | a :: rest, hnd, p, hp, q, hq, he => by
    simp only [List.map_cons, List.nodup_cons] at hnd
    have notin : ∀ r ∈ rest, sig r ≠ sig a := fun r hr e => hnd.1 (List.mem_map.2 ⟨r, hr, e⟩)
    rcases List.mem_cons.1 hp with hpa | hp'
    · rcases List.mem_cons.1 hq with hqa | hq'
      · rw [hpa, hqa]
      · exact absurd (hpa ▸ he).symm (notin q hq')
    · rcases List.mem_cons.1 hq with hqa | hq'
      · exact absurd (hqa ▸ he) (notin p hp')
      · exact sig_inj_of_nodup hnd.2 p hp' q hq' he

/-- **one dependent step, stitched in any order.**  Let `paths` be the places `executorFindInsertionPoints` realises
    for a dependent step in a reply with the promised kinds, and `payload p` what the follow-up call for the object
    at `p` returns.  Stitch the answers for any sub-list `l` of the places, in any order, each once.  Then every
    insertion succeeds; the object at each stitched place holds exactly its own payload merged into what it held
    before; and every other place is untouched.  In particular the result does not depend on the order of `l`. -/
theorem step_stitch (infos : List PInfo) (chunk : KVs) (paths : List (List RPt))
    (hfind : findPts infos chunk [] = .ok paths) (payload : List RPt → KVs) :
    ∀ (l : List (List RPt)) (x : J), (∀ p ∈ l, p ∈ paths) → (l.map sig).Nodup →
      (∀ q ∈ paths, ∃ o, walk x q = some (.obj o)) →
      ∃ final, l.foldl (stitchOne payload) (some x) = some final ∧
        (∀ q ∈ paths, ∃ o, walk final q = some (.obj o)) ∧
        (∀ p ∈ l, ∀ o, walk x p = some (.obj o) → walk final p = some (.obj (mergeK o (payload p)))) ∧
        (∀ q ∈ paths, sig q ∉ l.map sig → walk final q = walk x q)
  | [], x, _, _, hx => by
    refine ⟨x, rfl, hx, ?_, ?_⟩
    · intro p hp; cases hp
    · intro q _ _; rfl
  | p :: l, x, hsub, hnd, hx => by
    have hpp := hsub p (List.mem_cons_self ..)
    obtain ⟨op, hwp⟩ := hx p hpp
    obtain ⟨x1, hins, hw1⟩ := insertAt_walk p x op (payload p) hwp
    have hsigs := findPts_nodup infos chunk [] paths hfind
    -- every other place is untouched by this insertion
    have frame : ∀ q ∈ paths, sig q ≠ sig p → walk x1 q = walk x q := by
      intro q hq hne
      obtain ⟨oq, hwq⟩ := hx q hq
      have hparts := findPts_pairwise_parts infos chunk [] paths hfind p hpp q hq (fun e => hne e.symm)
      obtain ⟨x1', hins', hw'⟩ := insertAt_frame (payload p) p q x op oq hwp hwq hparts
      rw [hins] at hins'; cases hins'
      rw [hw', hwq]
    have hx1 : ∀ q ∈ paths, ∃ o, walk x1 q = some (.obj o) := by
      intro q hq
      by_cases e : sig q = sig p
      · have := sig_inj_of_nodup hsigs q hq p hpp e
        subst this; exact ⟨_, hw1⟩
      · rw [frame q hq e]; exact hx q hq
    simp only [List.map_cons, List.nodup_cons] at hnd
    obtain ⟨final, hfold, hfin, hmine, hrest⟩ :=
      step_stitch infos chunk paths hfind payload l x1 (fun q hq => hsub q (List.mem_cons_of_mem _ hq)) hnd.2 hx1
    refine ⟨final, ?_, hfin, ?_, ?_⟩
    · simp only [List.foldl_cons, stitchOne, Option.bind_some, hins]
      exact hfold
    · intro q hq o hwq
      rcases List.mem_cons.1 hq with rfl | hq
      · rw [hwp] at hwq; cases hwq
        rw [hrest q hpp hnd.1, hw1]
      · have hqp := hsub q (List.mem_cons_of_mem _ hq)
        have hne : sig q ≠ sig p := by
          intro e; exact hnd.1 (e ▸ List.mem_map.2 ⟨q, hq, rfl⟩)
        exact hmine q hq o (by rw [frame q hqp hne]; exact hwq)
    · intro q hq hnot
      simp only [List.map_cons, List.mem_cons, not_or] at hnot
      rw [hrest q hq hnot.2, frame q hq hnot.1]

end Fp
