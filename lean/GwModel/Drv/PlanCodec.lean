import Lean.Data.Json
import GwModel.Drv.Codec
import GwModel.Plan
/-! JSON glue for the `plan` operation of the driver (I/O only, not part of any theorem). -/
open Lean

namespace PlanCodec
open Codec Pl

def decDir (j : Json) : Dir := ⟨getStr j "name", getStr j "args", strList j "vars"⟩

partial def decSel (j : Json) : Sel :=
  let dirs := (getArr j "dirs").map decDir
  match getStr j "kind" with
  | "field" =>
    .field (getStr j "alias") (getStr j "name") (getStr j "args") (strList j "argVars") dirs (getStr j "typ")
      ((getArr j "sub").map decSel)
  | "inline" => .inline (getStr j "cond") dirs ((getArr j "sub").map decSel)
  | _ => .spread (getStr j "name") dirs

def decFrag (j : Json) : FragDef :=
  ⟨getStr j "name", getStr j "cond", (getArr j "dirs").map decDir, (getArr j "sub").map decSel⟩

def encDir (d : Dir) : Json := Json.mkObj [("name", .str d.name), ("args", .str d.args)]

partial def encSel : Sel → Json
  | .field a n g _ d _ s =>
    Json.mkObj [("kind", .str "field"), ("alias", .str a), ("name", .str n), ("args", .str g),
      ("dirs", .arr (d.map encDir).toArray), ("sub", .arr (s.map encSel).toArray)]
  | .inline c d s =>
    Json.mkObj [("kind", .str "inline"), ("cond", .str c), ("dirs", .arr (d.map encDir).toArray), ("sub", .arr (s.map encSel).toArray)]
  | .spread n d => Json.mkObj [("kind", .str "spread"), ("name", .str n), ("dirs", .arr (d.map encDir).toArray)]

def encFrag (f : FragDef) : Json :=
  Json.mkObj [("name", .str f.name), ("cond", .str f.cond), ("dirs", .arr (f.dirs.map encDir).toArray),
    ("sub", .arr (f.sub.map encSel).toArray)]

def strs (l : List String) : Json := .arr (l.map Json.str).toArray

partial def encStep (all : List Step) (opName : String) (s : Step) : Json :=
  Json.mkObj [
    ("loc", .str s.location), ("parentType", .str s.parentType), ("ip", strs s.ip),
    ("sels", .arr (s.sel.map encSel).toArray), ("frags", .arr (s.frags.map encFrag).toArray),
    ("vars", strs (sortStrs s.vars.eraseDups)),
    ("doc", Json.mkObj [("operation", .str (operationKind s.parentType)), ("name", .str opName),
       ("vars", strs (sortStrs (builtVars s))), ("sels", .arr ((builtSelection s).map encSel).toArray)]),
    ("then", .arr ((all.filter fun k => k.parent == some s.id).map (encStep all opName)).toArray)]

def encErr : Err → Json
  | .noRoute t f => Json.mkObj [("err", .str "no-route"), ("what", .str (t ++ "." ++ f))]
  | .noFragment n => Json.mkObj [("err", .str "no-fragment"), ("what", .str n)]
  | .noLocalFragment n => Json.mkObj [("err", .str "no-local-fragment"), ("what", .str n)]
  | .noWrapDefn => Json.mkObj [("err", .str "no-wrap-defn")]
  | .fuel => Json.mkObj [("err", .str "fuel")]
  | .crash s => Json.mkObj [("err", .str "crash"), ("what", .str s)]

/-- {"routes":{"T.f":[..]},"configured":[..],"internal":"..","frags":[..],"ops":[{"name","operation","sels"}],"fuel":n} -/
def runPlan (j : Json) : Json :=
  let env : Env :=
    { routes := match getObj? j "routes" with
        | some r => (kvs r).map fun (k, v) => (k, (v.getArr?.toOption.getD #[]).toList.map fun x => x.getStr?.toOption.getD "")
        | none => []
      configured := strList j "configured"
      internal := getStr j "internal"
      planFrags := (getArr j "frags").map decFrag }
  let fuel := getNat j "fuel"
  let rec go : List Json → List Json → Json
    | [], acc => Json.mkObj [("plans", .arr acc.reverse.toArray)]
    | o :: os, acc =>
      match planOperation env fuel (getStr o "operation") ((getArr o "sels").map decSel) with
      | .error e => encErr e
      | .ok steps =>
        match steps with
        | [] => encErr (.crash "no root step")
        | root :: _ => go os (encStep steps (getStr o "name") root :: acc)
  go (getArr j "ops") []

end PlanCodec
