import Lean.Data.Json
import GwModel.Mono
import GwModel.MergeSchema
import GwModel.Intro
/-! JSON decoding/encoding for the line driver (I/O glue, not part of any theorem). -/
open Lean

namespace Codec

def getStr (j : Json) (k : String) : String := (j.getObjValAs? String k).toOption.getD ""
def getNat (j : Json) (k : String) : Nat := (j.getObjValAs? Nat k).toOption.getD 0
def getBool (j : Json) (k : String) : Bool := (j.getObjValAs? Bool k).toOption.getD false
def getArr (j : Json) (k : String) : List Json :=
  (((j.getObjVal? k).toOption.bind (·.getArr?.toOption)).getD #[]).toList
def getObj? (j : Json) (k : String) : Option Json := (j.getObjVal? k).toOption
def kvs (j : Json) : List (String × Json) :=
  match j with
  | .obj m => m.toList
  | _ => []
def strList (j : Json) (k : String) : List String := (getArr j k).map fun x => x.getStr?.toOption.getD ""
def optNat (j : Json) (k : String) : Option Nat := (j.getObjValAs? Nat k).toOption

open Mono

def decDir (j : Json) : Dir :=
  let name := getStr j "name"
  match getObj? j "var" with
  | some (.str v) => ⟨name, .var v⟩
  | _ => ⟨name, .lit (getBool j "lit")⟩

def decArg (j : Json) : String × ArgVal :=
  let name := getStr j "name"
  match getObj? j "var", getObj? j "str", getObj? j "bool" with
  | some (.str v), _, _ => (name, .var v)
  | _, some (.str s), _ => (name, .str s)
  | _, _, some (.bool b) => (name, .bool b)
  | _, _, _ => (name, .other)

partial def decSel (j : Json) : Sel :=
  let dirs := (getArr j "dirs").map decDir
  match getStr j "kind" with
  | "field" => .field (getStr j "alias") (getStr j "name") ((getArr j "args").map decArg) dirs ((getArr j "sub").map decSel)
  | "inline" =>
    let c := getStr j "cond"
    .inline (if c == "" then none else some c) dirs ((getArr j "sub").map decSel)
  | _ => .spread (getStr j "name") dirs

partial def decData (j : Json) : Data :=
  match j with
  | .null => .null
  | .str s => .str s
  | .arr xs => .list (xs.toList.map decData)
  | .obj _ =>
    match getObj? j "$ref" with
    | some r => .ref (getStr r "type") (getStr r "id")
    | none => .leaf j.compress
  | other => .leaf other.compress

def decObj (j : Json) : Obj :=
  { type := getStr j "type", id := getStr j "id",
    fields := match getObj? j "fields" with
      | some f => (kvs f).map fun (k, v) => (k, decData v)
      | none => [] }

def decVar (j : Json) : VarVal :=
  match j with
  | .bool b => .bool b
  | .str s => .str s
  | _ => .other

def decFrag (f : Json) : Frag := ⟨getStr f "name", getStr f "cond", (getArr f "sub").map decSel⟩

def decCase (j : Json) : Case :=
  { env := {
      possible := match getObj? j "possible" with
        | some p => (kvs p).map fun (k, v) => (k, (v.getArr?.toOption.getD #[]).toList.map fun x => x.getStr?.toOption.getD "")
        | none => []
      store := (getArr j "store").map decObj
      vars := match getObj? j "vars" with
        | some v => (kvs v).map fun (k, x) => (k, decVar x)
        | none => [] }
    frags := (getArr j "frags").map decFrag
    sels := (getArr j "sels").map decSel
    rootType := let r := getStr j "root"; if r == "" then "Query" else r }

partial def encVal : Val → Json
  | .null => .null
  | .str s => .str s
  | .leaf t => (Json.parse t).toOption.getD (.str t)
  | .list xs => .arr (xs.map encVal).toArray
  | .obj kv => Json.mkObj (kv.map fun (k, v) => (k, encVal v))

end Codec

/-! ### merge inputs: names and signatures are interned to `Nat` (the proven functions work on `Nat`) -/
namespace Codec

structure Intern where
  tbl : List (String × Nat) := []
  rev : Array String := #[]

def Intern.intern (s : String) : StateM Intern Nat := do
  let st ← MonadState.get
  match st.tbl.lookup s with
  | some n => pure n
  | none =>
    let n := st.rev.size
    set { st with tbl := (s, n) :: st.tbl, rev := st.rev.push s }
    pure n

def Intern.name (st : Intern) (n : Nat) : String := st.rev.getD n "?"

def kindOf (s : String) : Mg.Kind :=
  match s with
  | "OBJECT" => .object | "INTERFACE" => .iface | "UNION" => .union | "ENUM" => .enum
  | "INPUT_OBJECT" => .input | _ => .scalar

def kindName : Mg.Kind → String
  | .object => "OBJECT" | .iface => "INTERFACE" | .union => "UNION" | .enum => "ENUM"
  | .input => "INPUT_OBJECT" | .scalar => "SCALAR"

def decFields (js : List Json) : StateM Intern (List Mg.Field) :=
  js.mapM fun f => do
    let n ← Intern.intern (getStr f "name")
    let s ← Intern.intern ("sig:" ++ getStr f "sig")
    pure { name := n, sig := s }

def decDef (j : Json) : StateM Intern Mg.Def := do
  let n ← Intern.intern (getStr j "name")
  let fs ← decFields (getArr j "fields")
  let is ← (strList j "ifaces").mapM Intern.intern
  pure { name := n, kind := kindOf (getStr j "kind"), fields := fs, ifaces := is }

def decSchema (j : Json) : StateM Intern MergeS.Schema := do
  let ts ← (getArr j "types").mapM decDef
  let ds ← (getArr j "directives").mapM decDef
  pure { types := ts, directives := ds }

def sortStrs (l : List String) : List String := (l.toArray.qsort (· < ·)).toList

def encDef (st : Intern) (d : Mg.Def) : Json :=
  let fs := sortStrs (d.fields.map fun f => st.name f.name ++ " " ++ st.name f.sig)
  Json.mkObj [("name", .str (st.name d.name)), ("kind", .str (kindName d.kind)),
    ("fields", .arr (fs.map Json.str).toArray),
    ("ifaces", .arr ((sortStrs (d.ifaces.map st.name)).map Json.str).toArray)]

def encMerged (st : Intern) (m : MergeS.Merged) : Json :=
  let pairs (l : List (Nat × List Nat)) : Json :=
    Json.mkObj ((l.filter fun (_, vs) => !vs.isEmpty).map fun (k, vs) => (st.name k, Json.arr ((sortStrs ((vs.map st.name).eraseDups)).map Json.str).toArray))
  Json.mkObj [
    ("types", Json.mkObj (m.types.map fun d => (st.name d.name, encDef st d))),
    ("directives", Json.mkObj (m.directives.map fun d => (st.name d.name, encDef st d))),
    ("possible", pairs m.possible), ("implements", pairs m.implements)]

def runMerge (j : Json) : Json :=
  let (srcs, st) := ((getArr j "schemas").mapM decSchema).run {}
  match MergeS.mergeSchemas srcs with
  | some m => Json.mkObj [("ok", encMerged st m)]
  | none => Json.mkObj [("err", .str "incompatible")]

end Codec

namespace Codec
open Intro

def optS (j : Json) (k : String) : Option String :=
  match getObj? j k with | some (.str s) => some s | _ => none

partial def decTRef (j : Json) : TRef :=
  match optS j "name" with
  | some n => .named n
  | none =>
    let inner := match getObj? j "ofType" with | some o => decTRef o | none => .named "?"
    if getStr j "kind" == "LIST" then .list inner else .nonNull inner

def decIValue (j : Json) : IValue :=
  { name := getStr j "name", description := optS j "description",
    type := (match getObj? j "type" with | some t => decTRef t | none => .named "?"), defaultValue := optS j "defaultValue" }

def decISchema (j : Json) : ISchema :=
  { description := optS j "description"
    query := getStr j "query", mutation := optS j "mutation", subscription := optS j "subscription"
    types := (getArr j "types").map fun t =>
      { kind := getStr t "kind", name := getStr t "name", description := optS t "description", specifiedByURL := optS t "specifiedByURL"
        fields := (getArr t "fields").map fun f =>
          { name := getStr f "name", description := optS f "description", args := (getArr f "args").map decIValue,
            type := (match getObj? f "type" with | some x => decTRef x | none => .named "?"),
            deprecated := getBool f "deprecated", reason := optS f "reason" }
        interfaces := strList t "interfaces", possible := strList t "possible"
        enumValues := (getArr t "enumValues").map fun v =>
          { name := getStr v "name", description := optS v "description", deprecated := getBool v "deprecated", reason := optS v "reason" }
        inputFields := (getArr t "inputFields").map decIValue }
    directives := (getArr j "directives").map fun d =>
      { name := getStr d "name", description := optS d "description", locations := strList d "locations",
        args := (getArr d "args").map decIValue, repeatable := getBool d "repeatable" } }

def runIntro (j : Json) : Json :=
  let schema := match getObj? j "schema" with | some s => decISchema s | none => default
  let env : Mono.Env := { possible := [], store := [], vars := match getObj? j "vars" with | some v => (kvs v).map fun (k, x) => (k, decVar x) | none => [] }
  Json.mkObj [("data", encVal (Intro.introSpec schema env ((getArr j "frags").map decFrag) ((getArr j "sels").map decSel)))]

end Codec
