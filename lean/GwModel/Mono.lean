/-! The specification `mono`: what ONE GraphQL server owning the merged schema and all the data answers.
    (GraphQL `CollectFields`/`ExecuteSelectionSet` with aliases, repeated response keys merged, type
    conditions, `@skip/@include`, `__typename`, `node(id)`.)  Core-only, total, structurally recursive:
    recursion is on the query, never on the (possibly cyclic) data graph.  This is the L0 oracle of
    C01/C04/C07/C17 and the text a reader checks against the GraphQL specification. -/
namespace Mono

inductive Cond | lit (b : Bool) | var (name : String)
deriving Repr, Inhabited, DecidableEq

structure Dir where
  name : String
  cond : Cond
deriving Repr, Inhabited, DecidableEq

inductive ArgVal | str (s : String) | var (v : String) | bool (b : Bool) | other
deriving Repr, Inhabited, DecidableEq

inductive Sel where
  | field (alias name : String) (args : List (String × ArgVal)) (dirs : List Dir) (sub : List Sel)
  | inline (cond : Option String) (dirs : List Dir) (sub : List Sel)
  | spread (name : String) (dirs : List Dir)
deriving Repr, Inhabited

structure Frag where
  name : String
  cond : String
  sub : List Sel
deriving Repr, Inhabited

/-- stored field values; `leaf` carries the compact JSON text of a scalar -/
inductive Data where
  | null | str (s : String) | leaf (json : String) | ref (type id : String) | list (xs : List Data)
deriving Repr, Inhabited

/-- response values; objects are association lists in first-occurrence order -/
inductive Val where
  | null | str (s : String) | leaf (json : String) | list (xs : List Val) | obj (kvs : List (String × Val))
deriving Repr, Inhabited

structure Obj where
  type : String
  id : String
  fields : List (String × Data)
deriving Repr, Inhabited

inductive VarVal | bool (b : Bool) | str (s : String) | other
deriving Repr, Inhabited, DecidableEq

structure Env where
  possible : List (String × List String)     -- abstract type ↦ concrete types
  store : List Obj
  vars : List (String × VarVal)
deriving Inhabited

/-! ### fragment expansion: `expandOnce` replaces every spread by an inline fragment carrying the
    definition's type condition; iterating it (#fragments + 1) times removes all spreads of an
    acyclic document (validated documents are acyclic). -/
mutual
def expandSel (frags : List Frag) : Sel → Sel
  | .field a n args dirs sub => .field a n args dirs (expandSels frags sub)
  | .inline c dirs sub => .inline c dirs (expandSels frags sub)
  | .spread name dirs =>
    match frags.find? (·.name == name) with
    | some f => .inline (some f.cond) dirs f.sub
    | none => .inline none [⟨"include", .lit false⟩] []
def expandSels (frags : List Frag) : List Sel → List Sel
  | [] => []
  | s :: ss => expandSel frags s :: expandSels frags ss
end

def expandN (frags : List Frag) : Nat → List Sel → List Sel
  | 0, l => l
  | n + 1, l => expandN frags n (expandSels frags l)

/-! ### evaluation -/

def condHolds (env : Env) : Cond → Bool
  | .lit b => b
  | .var v => match env.vars.lookup v with | some (.bool b) => b | _ => false

def included (env : Env) (dirs : List Dir) : Bool :=
  dirs.all fun d =>
    if d.name == "skip" then !condHolds env d.cond
    else if d.name == "include" then condHolds env d.cond
    else true

def typeApplies (env : Env) (cond : Option String) (t : String) : Bool :=
  match cond with
  | none => true
  | some k => k == t || ((env.possible.lookup k).getD []).contains t

def findObj (env : Env) (type id : String) : Option Obj :=
  env.store.find? fun o => o.type == type && o.id == id

def isRootType (t : String) : Bool := t == "Query" || t == "Mutation" || t == "Subscription"

def findById (env : Env) (id : String) : Option Obj :=
  env.store.find? fun o => o.id == id && !isRootType o.type

mutual
def deepMerge : Val → Val → Val
  | .obj a, .obj b => .obj (mergeKVs a b ++ b.filter (fun p => !(a.any (fun q => q.1 == p.1))))
  | .list a, .list b => .list (mergeL a b)
  | _, b => b
def mergeKVs : List (String × Val) → List (String × Val) → List (String × Val)
  | [], _ => []
  | (k, v) :: rest, b =>
    (match b.lookup k with
     | some w => (k, deepMerge v w)
     | none => (k, v)) :: mergeKVs rest b
def mergeL : List Val → List Val → List Val
  | a :: as, b :: bs => deepMerge a b :: mergeL as bs
  | [], bs => bs
  | as, [] => as
end

def mergeKey (acc : List (String × Val)) (k : String) (v : Val) : List (String × Val) :=
  match acc.lookup k with
  | some old => acc.map fun p => if p.1 == k then (k, deepMerge old v) else p
  | none => acc ++ [(k, v)]

mutual
def mapData (env : Env) (f : Obj → Val) : Data → Val
  | .null => .null
  | .str s => .str s
  | .leaf s => .leaf s
  | .ref t id => match findObj env t id with
    | none => .null
    | some o' => f o'
  | .list xs => .list (mapDataL env f xs)
def mapDataL (env : Env) (f : Obj → Val) : List Data → List Val
  | [] => []
  | d :: ds => mapData env f d :: mapDataL env f ds
end

def argId (env : Env) (args : List (String × ArgVal)) : String :=
  match args.lookup "id" with
  | some (.str s) => s
  | some (.var v) => (match env.vars.lookup v with | some (.str s) => s | _ => "")
  | _ => ""

/-- the stored value of field `name` on object `o` (with the built-in `id` and root `node`) -/
def fieldData (env : Env) (o : Obj) (name : String) (args : List (String × ArgVal)) : Data :=
  if o.type == "Query" && name == "node" then
    match findById env (argId env args) with
    | some o' => .ref o'.type o'.id
    | none => .null
  else if name == "id" && o.id != "" then .str o.id
  else (o.fields.lookup name).getD .null

mutual
def evalSels (env : Env) (o : Obj) : List Sel → List (String × Val) → List (String × Val)
  | [], acc => acc
  | s :: ss, acc => evalSels env o ss (evalSel env o s acc)
def evalSel (env : Env) (o : Obj) : Sel → List (String × Val) → List (String × Val)
  | .field alias name args dirs sub, acc =>
    if !included env dirs then acc else
    if name == "__typename" then mergeKey acc alias (.str o.type) else
    mergeKey acc alias (mapData env (fun o' => .obj (evalSels env o' sub [])) (fieldData env o name args))
  | .inline cond dirs sub, acc =>
    if included env dirs && typeApplies env cond o.type then evalSels env o sub acc else acc
  | .spread _ _, acc => acc      -- removed by `expandN` beforehand
end

structure Case where
  env : Env
  frags : List Frag
  sels : List Sel          -- selection set of the executed operation
  rootType : String        -- "Query" | "Mutation"
deriving Inhabited

def mono (c : Case) : Val :=
  match findObj c.env c.rootType "" with
  | some root => .obj (evalSels c.env root (expandN c.frags (c.frags.length + 1) c.sels) [])
  | none => .null

end Mono
