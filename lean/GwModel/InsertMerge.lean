import GwModel.InsertBasic
/-! Sizes, well-formedness, compatibility and the look-up characterisation of `mergeK`. -/
namespace Ins

mutual
def J.size : J → Nat
  | .null => 1
  | .leaf _ => 1
  | .arr xs => 1 + sizeL xs
  | .obj kvs => 1 + sizeK kvs
def sizeL : List J → Nat
  | [] => 0
  | x :: xs => x.size + sizeL xs
def sizeK : KVs → Nat
  | [] => 0
  | (_, v) :: r => v.size + sizeK r
end

theorem size_le_sizeL {x : J} {xs : List J} (h : x ∈ xs) : x.size ≤ sizeL xs := by
  induction xs with
  | nil => cases h
  | cons y ys ih =>
    simp only [sizeL]
    rcases List.mem_cons.1 h with h | h
    · subst h; omega
    · have := ih h; omega

theorem size_le_sizeK {k : Nat} {v : J} {l : KVs} (h : (k, v) ∈ l) : v.size ≤ sizeK l := by
  induction l with
  | nil => cases h
  | cons p r ih =>
    obtain ⟨a, w⟩ := p
    simp only [sizeK]
    rcases List.mem_cons.1 h with h | h
    · cases h; omega
    · have := ih h; omega

/-- keys strictly increasing, at every level -/
inductive WF : J → Prop
  | null : WF .null
  | leaf (s : String) : WF (.leaf s)
  | arr (xs : List J) : (∀ x ∈ xs, WF x) → WF (.arr xs)
  | obj (kvs : KVs) : Sorted kvs → (∀ k v, (k, v) ∈ kvs → WF v) → WF (.obj kvs)

theorem WF.sorted {kvs : KVs} (h : WF (.obj kvs)) : Sorted kvs := by cases h; assumption
theorem WF.vals {kvs : KVs} (h : WF (.obj kvs)) : ∀ k v, (k, v) ∈ kvs → WF v := by cases h; assumption
theorem WF.elems {xs : List J} (h : WF (.arr xs)) : ∀ x ∈ xs, WF x := by cases h; assumption

theorem wf_lookupD {kvs : KVs} (h : WF (.obj kvs)) (k : Nat) : WF (lookupD k kvs) := by
  unfold lookupD
  cases hl : lookup k kvs with
  | none => exact .null
  | some v => exact h.vals k v (mem_of_lookup hl)

/-- two values that can both be merged into one place, in either order: equal scalars, lists of one length
    with compatible entries, objects whose common keys hold compatible values -/
inductive Compat : J → J → Prop
  | null : Compat .null .null
  | leaf (s : String) : Compat (.leaf s) (.leaf s)
  | arr (xs ys : List J) : xs.length = ys.length →
      (∀ (i : Nat) x y, xs[i]? = some x → ys[i]? = some y → Compat x y) → Compat (.arr xs) (.arr ys)
  | obj (a b : KVs) : (∀ k v w, (k, v) ∈ a → (k, w) ∈ b → Compat v w) → Compat (.obj a) (.obj b)

theorem mergeL_eq_zipWith : ∀ (es is : List J), mergeL es is = List.zipWith merge es is
  | [], _ => by simp [mergeL]
  | _ :: _, [] => by simp [mergeL]
  | e :: es, i :: is => by simp [mergeL, mergeL_eq_zipWith es is]

theorem sorted_mergeK : ∀ (inc ex : KVs), Sorted ex → Sorted (mergeK ex inc)
  | [], ex, h => by simpa [mergeK] using h
  | (k, v) :: r, ex, h => by
    simp only [mergeK]
    exact sorted_mergeK r _ (sorted_put h)

theorem lookup_mergeK (k : Nat) : ∀ (inc ex : KVs), Sorted inc →
    lookup k (mergeK ex inc) = match lookup k inc with
      | none => lookup k ex
      | some w => some (merge (lookupD k ex) w)
  | [], ex, _ => by simp [mergeK, lookup]
  | (k0, v0) :: r, ex, hs => by
    rw [sorted_cons] at hs
    simp only [mergeK]
    rw [lookup_mergeK k r _ hs.2]
    simp only [lookup, lookupD, lookup_put]
    by_cases e : k = k0
    · subst e
      simp [lookup_none_of_lt hs.1]
    · by_cases lt : k < k0
      · have : lookup k r = none := lookup_none_of_lt (fun y hy => by have := hs.1 y hy; omega)
        simp [e, lt, this]
      · simp [e, lt]

end Ins
