import GwModel.InjectFile
namespace InjF
open Inj

mutual
def getAtGo : J → List String → Option J
  | v, [] => some v
  | .obj kvs, k :: rest => getKeyGo kvs k rest
  | .arr xs, k :: rest =>
    match atoi k with
    | some (.ofNat i) => getIdxGo xs i rest
    | _ => none
  | _, _ :: _ => none
def getKeyGo : List (String × J) → String → List String → Option J
  | [], _, _ => none
  | (k', v) :: kvs, k, rest => if k' = k then getAtGo v rest else getKeyGo kvs k rest
def getIdxGo : List J → Nat → List String → Option J
  | [], _, _ => none
  | x :: _, 0, rest => getAtGo x rest
  | _ :: xs, i+1, rest => getIdxGo xs i rest
end

mutual
/-- the position the path names held `null` and now holds the file -/
theorem setAtGo_target (f : Nat) : ∀ (v : J) (p : List String) (v' : J),
    setAtGo f v p = .ok v' → getAtGo v p = some .null ∧ getAtGo v' p = some (.file f)
  | .null, [], v', h => by simp [setAtGo] at h; subst h; simp [getAtGo]
  | .file _, [], _, h => by simp [setAtGo] at h
  | .atom _, [], _, h => by simp [setAtGo] at h
  | .arr _, [], _, h => by simp [setAtGo] at h
  | .obj _, [], _, h => by simp [setAtGo] at h
  | .obj kvs, k :: rest, v', h => by
    simp only [setAtGo] at h
    obtain ⟨kvs', hk, rfl⟩ := map_ok h
    simpa [getAtGo] using setKeyGo_target f kvs k rest kvs' hk
  | .arr xs, k :: rest, v', h => by
    simp only [setAtGo] at h
    cases hp : atoi k with
    | none => simp [hp] at h
    | some z =>
      cases z with
      | negSucc n => simp [hp] at h
      | ofNat i =>
        simp only [hp] at h
        obtain ⟨xs', hk, rfl⟩ := map_ok h
        simpa [getAtGo, hp] using setIdxGo_target f xs i rest xs' hk
  | .null, _ :: _, _, h => by simp [setAtGo] at h
  | .file _, _ :: _, _, h => by simp [setAtGo] at h
  | .atom _, _ :: _, _, h => by simp [setAtGo] at h
theorem setKeyGo_target (f : Nat) : ∀ (kvs : List (String × J)) (k : String) (rest : List String)
    (kvs' : List (String × J)), setKeyGo f kvs k rest = .ok kvs' →
    getKeyGo kvs k rest = some .null ∧ getKeyGo kvs' k rest = some (.file f)
  | [], _, _, _, h => by simp [setKeyGo] at h
  | (k', v) :: kvs, k, rest, kvs', h => by
    simp only [setKeyGo] at h
    by_cases hk : k' = k
    · simp only [hk, if_true] at h
      obtain ⟨v', hv, rfl⟩ := map_ok h
      simpa [getKeyGo, hk] using setAtGo_target f v rest v' hv
    · simp only [hk, if_false] at h
      obtain ⟨kvs'', hv, rfl⟩ := map_ok h
      simpa [getKeyGo, hk] using setKeyGo_target f kvs k rest kvs'' hv
theorem setIdxGo_target (f : Nat) : ∀ (xs : List J) (i : Nat) (rest : List String) (xs' : List J),
    setIdxGo f xs i rest = .ok xs' →
    getIdxGo xs i rest = some .null ∧ getIdxGo xs' i rest = some (.file f)
  | [], _, _, _, h => by simp [setIdxGo] at h
  | x :: xs, 0, rest, xs', h => by
    simp only [setIdxGo] at h
    obtain ⟨x', hv, rfl⟩ := map_ok h
    simpa [getIdxGo] using setAtGo_target f x rest x' hv
  | x :: xs, i+1, rest, xs', h => by
    simp only [setIdxGo] at h
    obtain ⟨xs'', hv, rfl⟩ := map_ok h
    simpa [getIdxGo] using setIdxGo_target f xs i rest xs'' hv
end

/-! frame: what a successful walk leaves alone -/

/-- in an object, every other key keeps its value; the keys themselves and their order are unchanged -/
theorem setKeyGo_frame (f : Nat) : ∀ (kvs : List (String × J)) (k : String) (rest : List String)
    (kvs' : List (String × J)), setKeyGo f kvs k rest = .ok kvs' →
    kvs'.map (·.1) = kvs.map (·.1) ∧ ∀ k2, k2 ≠ k → kvs'.lookup k2 = kvs.lookup k2
  | [], _, _, _, h => by simp [setKeyGo] at h
  | (k', v) :: kvs, k, rest, kvs', h => by
    simp only [setKeyGo] at h
    by_cases hk : k' = k
    · subst hk
      simp only [if_true] at h
      obtain ⟨v', _, rfl⟩ := map_ok h
      refine ⟨by simp, fun k2 h2 => ?_⟩
      have : (k2 == k') = false := by simpa using h2
      simp [List.lookup, this]
    · simp only [hk, if_false] at h
      obtain ⟨kvs'', hv, rfl⟩ := map_ok h
      obtain ⟨h1, h2⟩ := setKeyGo_frame f kvs k rest kvs'' hv
      refine ⟨by simp [h1], fun k2 hk2 => ?_⟩
      simp only [List.lookup]
      split <;> simp_all

/-- in a list, the length is unchanged and every other element keeps its value -/
theorem setIdxGo_frame (f : Nat) : ∀ (xs : List J) (i : Nat) (rest : List String) (xs' : List J),
    setIdxGo f xs i rest = .ok xs' → xs'.length = xs.length ∧ ∀ j, j ≠ i → xs'[j]? = xs[j]?
  | [], _, _, _, h => by simp [setIdxGo] at h
  | x :: xs, 0, rest, xs', h => by
    simp only [setIdxGo] at h
    obtain ⟨x', _, rfl⟩ := map_ok h
    refine ⟨by simp, fun j hj => ?_⟩
    cases j with
    | zero => exact absurd rfl hj
    | succ j => simp
  | x :: xs, i+1, rest, xs', h => by
    simp only [setIdxGo] at h
    obtain ⟨xs'', hv, rfl⟩ := map_ok h
    obtain ⟨h1, h2⟩ := setIdxGo_frame f xs i rest xs'' hv
    refine ⟨by simp [h1], fun j hj => ?_⟩
    cases j with
    | zero => simp
    | succ j => simpa using h2 j (by omega)

/-- what one path does to the request: only the selected operation changes, inside it only the variable the
    path starts with, and the position the path names goes from `null` to the file -/
theorem injectPath_spec (ops : Ops) (batch : Bool) (f : Nat) (path : String) (ops' : Ops)
    (h : injectPath ops batch f path = .ok ops') :
    ∃ (idx : Nat) (vars vars' : J) (rest : List String),
      ops[idx]? = some vars ∧ ops' = ops.set idx vars' ∧ rest ≠ [] ∧
      getAtGo vars rest = some .null ∧ getAtGo vars' rest = some (.file f) ∧
      (∀ j, j ≠ idx → ops'[j]? = ops[j]?) := by
  unfold injectPath at h
  simp only at h
  split at h
  · cases h
  · rename_i idx parts hsel
    split at h
    · cases h
    · rename_i vars hget
      split at h
      · cases h
      · rename_i p rest
        split at h
        · cases h
        · split at h
          · cases h
          · rename_i hne
            split at h
            · rename_i v' hset
              cases h
              obtain ⟨t1, t2⟩ := setAtGo_target f vars rest v' hset
              refine ⟨idx, vars, v', rest, hget, rfl, ?_, t1, t2, ?_⟩
              · intro hr; subst hr; simp at hne
              · intro j hj
                rw [List.getElem?_set_ne (Ne.symm hj)]
            · cases h

end InjF
