import GwModel.Http
/-! The front of `GraphQLHandler` (http.go `parseRequest`, `parseGetRequest`, the content-type switch of
    `parsePostRequest`): which requests become operations at all, and with which status the others are refused.
    Multipart bodies are modelled separately (`InjF`); here a POST has a JSON body or an unknown content type. -/
namespace Http

inductive Method | get | post | other
deriving Repr, DecidableEq, Inhabited

/-- the media type before the first `;`: "application/json", "text/plain" and "" read the body as JSON -/
inductive CType | json | unknown
deriving Repr, DecidableEq, Inhabited

/-- the query string of a GET request: for `variables` and `extensions`, whether the parameter is there and, if so,
    the JSON it holds (`none`: not JSON) -/
structure GetParams where
  query : Option String
  variables : Option (Option JV)
  operationName : Option String
  extensions : Option (Option JV)
deriving Repr, Inhabited

structure Req where
  method : Method
  ctype : CType
  get : GetParams
  body : Option JV
deriving Repr, Inhabited

/-- `json.Unmarshal([]byte(variables), &map[string]interface{}{})`: an object, or null -/
def getVariablesOK : Option (Option JV) → Bool
  | none => true
  | some (some .null) => true
  | some (some (.obj _)) => true
  | some _ => false

/-- `json.NewDecoder(…).Decode(&operation.Extensions)`: the persisted-query key, `none` on a decoding error -/
def getExtensions : Option (Option JV) → Option String
  | none => some ""
  | some none => none
  | some (some v) => decExtensions [v]

/-- `parseGetRequest`: an error from `variables` stays an error whatever `extensions` holds, and vice versa -/
def parseGet (p : GetParams) : Option OpReq :=
  if !getVariablesOK p.variables then none
  else match getExtensions p.extensions with
    | none => none
    | some h => some ⟨p.query.getD "", p.operationName.getD "", h⟩

/-- `parseRequest`: the operations of the request, or the status it is refused with -/
def parseReq (r : Req) : Except Nat (List OpReq × Bool) :=
  match r.method with
  | .other => .error 405
  | .get =>
    match parseGet r.get with
    | none => .error 422
    | some op => .ok ([op], false)
  | .post =>
    match r.ctype with
    | .unknown => .error 422
    | .json =>
      match parseOperations r.body with
      | .error _ => .error 422
      | .ok res => .ok res

def handleReq (plannable execOK : OpReq → Bool) (r : Req) : Resp :=
  match parseReq r with
  | .error status => ⟨status, .single .errors, 0⟩
  | .ok (ops, batch) => handleOps plannable execOK ops batch

/-- **a request that does not parse into operations is refused with 405 or 422, an errors entry, and nothing is
    executed** (no service is contacted) -/
theorem refused_request_contacts_nobody (plannable execOK : OpReq → Bool) (r : Req) (status : Nat)
    (h : parseReq r = .error status) :
    handleReq plannable execOK r = ⟨status, .single .errors, 0⟩ ∧ (status = 405 ∨ status = 422) := by
  refine ⟨by unfold handleReq; rw [h], ?_⟩
  unfold parseReq at h
  split at h
  · cases h; exact Or.inl rfl
  · split at h
    · cases h; exact Or.inr rfl
    · cases h
  · split at h
    · cases h; exact Or.inr rfl
    · split at h
      · cases h; exact Or.inr rfl
      · cases h

/-- every response of this front has one of the statuses 200, 400, 405, 422 -/
theorem status_classes (plannable execOK : OpReq → Bool) (r : Req) :
    let s := (handleReq plannable execOK r).status
    s = 200 ∨ s = 400 ∨ s = 405 ∨ s = 422 := by
  unfold handleReq
  cases hp : parseReq r with
  | error status =>
    simp only
    rcases (refused_request_contacts_nobody plannable execOK r status hp).2 with h | h
    · exact Or.inr (Or.inr (Or.inl h))
    · exact Or.inr (Or.inr (Or.inr h))
  | ok res =>
    obtain ⟨ops, batch⟩ := res
    simp only
    rcases (status_and_executed plannable execOK ops batch).1 with h | h | h
    · exact Or.inl h
    · exact Or.inr (Or.inl h)
    · exact Or.inr (Or.inr (Or.inr h))

/-- a GET request whose `variables` parameter is not a JSON object (or null) is refused — whatever its other
    parameters hold, a well-formed `extensions` included -/
theorem get_with_bad_variables_is_refused (plannable execOK : OpReq → Bool) (p : GetParams) (ct : CType) (body : Option JV)
    (h : getVariablesOK p.variables = false) :
    handleReq plannable execOK ⟨.get, ct, p, body⟩ = ⟨422, .single .errors, 0⟩ := by
  simp [handleReq, parseReq, parseGet, h]

/-- a GET request is one operation, never a batch -/
theorem get_is_one_operation (r : Req) (ops : List OpReq) (batch : Bool) (hm : r.method = .get)
    (h : parseReq r = .ok (ops, batch)) : ops.length = 1 ∧ batch = false := by
  unfold parseReq at h
  rw [hm] at h
  simp only at h
  split at h
  · cases h
  · cases h; exact ⟨rfl, rfl⟩

end Http
