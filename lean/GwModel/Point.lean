/-! Model of insertion-point strings (execute.go): a realised point is rendered as `<key>`, `<key>:<index>`,
    `<key>#<id>` or `<key>:<index>#<id>` (fmt.Sprintf in executorFindInsertionPoints) and parsed back by
    `executorGetPointData` (split at the FIRST '#', then at ':' with strconv.Atoi on the index).
    Strings are modelled as lists of characters. -/
namespace Pt

/-- split at the first occurrence of `c` -/
def splitFirst (c : Char) : List Char → Option (List Char × List Char)
  | [] => none
  | x :: xs => if x = c then some ([], xs) else (splitFirst c xs).map fun p => (x :: p.1, p.2)

def renderNat (n : Nat) : List Char := Nat.toDigits 10 n

/-- `fmt.Sprintf("%s:%v#%v", key, index, id)` with the optional parts -/
def renderPoint (key : List Char) (idx : Option Nat) (id : Option (List Char)) : List Char :=
  key ++ (match idx with | some i => ':' :: renderNat i | none => []) ++ (match id with | some s => '#' :: s | none => [])

/-- `strconv.Atoi` on an optional '+' followed by decimal digits (negative indices, which Atoi also accepts, are
    never rendered by the executor and are outside the model: the correspondence does not generate them) -/
def atoi (cs : List Char) : Option Nat :=
  let ds := match cs with
    | '+' :: r => r
    | _ => cs
  if ds ≠ [] ∧ ds.all Char.isDigit = true then some (Nat.ofDigitChars 10 ds 0) else none

structure PointData where
  field : List Char
  index : Option Nat      -- Go: -1 when absent
  id : List Char          -- Go: "" when absent
deriving DecidableEq, Repr

/-- `executorGetPointData` -/
def parsePoint (p : List Char) : Option PointData :=
  let (fld, id) := match splitFirst '#' p with
    | some (a, b) => (a, b)
    | none => (p, [])
  match splitFirst ':' fld with
  | none => some ⟨fld, none, id⟩
  | some (f, rest) =>
    -- strings.Split(field, ":")[1]: up to the next ':'
    let idxStr := rest.takeWhile (· ≠ ':')
    (atoi idxStr).map fun i => ⟨f, some i, id⟩

/-- `isListElement`: the part before the first '#' contains a ':' (Go cuts the string only when the '#' is not
    its first byte: `hashLocation > 0`) -/
def isListElement (p : List Char) : Bool :=
  match splitFirst '#' p with
  | some ([], _) => p.contains ':'
  | some (a, _) => a.contains ':'
  | none => p.contains ':'

theorem splitFirst_none {c : Char} : ∀ {l : List Char}, c ∉ l → splitFirst c l = none
  | [], _ => rfl
  | x :: xs, h => by
    have hx : x ≠ c := fun e => h (e ▸ List.mem_cons_self ..)
    have hxs : c ∉ xs := fun m => h (List.mem_cons_of_mem _ m)
    simp [splitFirst, hx, splitFirst_none hxs]

theorem splitFirst_append {c : Char} : ∀ {a : List Char} (b : List Char), c ∉ a → splitFirst c (a ++ c :: b) = some (a, b)
  | [], b, _ => by simp [splitFirst]
  | x :: xs, b, h => by
    have hx : x ≠ c := fun e => h (e ▸ List.mem_cons_self ..)
    have hxs : c ∉ xs := fun m => h (List.mem_cons_of_mem _ m)
    simp [splitFirst, hx, splitFirst_append b hxs]

theorem digits_isDigit (n : Nat) : (renderNat n).all Char.isDigit = true := by
  simp only [List.all_eq_true]
  intro c hc
  exact Nat.isDigit_of_mem_toDigits (by decide) (by decide) hc

theorem digits_no (n : Nat) (c : Char) (hc : c.isDigit = false) : c ∉ renderNat n := by
  intro h
  have := Nat.isDigit_of_mem_toDigits (b := 10) (by decide) (by decide) h
  rw [hc] at this; cases this

theorem stripPlus_renderNat (n : Nat) :
    (match renderNat n with
      | '+' :: r => r
      | _ => renderNat n) = renderNat n := by
  split
  · rename_i r h
    have : '+' ∈ renderNat n := by rw [h]; exact List.mem_cons_self ..
    exact absurd this (digits_no n '+' (by decide))
  · rfl

theorem atoi_renderNat (n : Nat) : atoi (renderNat n) = some n := by
  unfold atoi
  have h1 : renderNat n ≠ [] := Nat.toDigits_ne_nil
  simp only [stripPlus_renderNat]
  simp only [h1, ne_eq, not_false_eq_true, digits_isDigit n, and_self, if_true]
  simp [renderNat]

theorem takeWhile_all {p : Char → Bool} : ∀ {l : List Char}, (∀ x ∈ l, p x = true) → l.takeWhile p = l
  | [], _ => rfl
  | x :: xs, h => by
    simp [List.takeWhile, h x (List.mem_cons_self ..), takeWhile_all (fun y hy => h y (List.mem_cons_of_mem _ hy))]

/-- **round trip**: whatever the id (':' '#' spaces, any unicode, even empty) and whatever the index, a point
    rendered from a key without ':' and '#' parses back to exactly its parts -/
theorem point_roundtrip (key : List Char) (idx : Option Nat) (id : Option (List Char))
    (hk1 : '#' ∉ key) (hk2 : ':' ∉ key) :
    parsePoint (renderPoint key idx id) = some ⟨key, idx, id.getD []⟩ := by
  have hcolon : (':' : Char).isDigit = false := by decide
  have hhash : ('#' : Char).isDigit = false := by decide
  -- the part before the id contains no '#'
  have hpre : '#' ∉ key ++ (match idx with | some i => ':' :: renderNat i | none => []) := by
    intro h
    rcases List.mem_append.1 h with h | h
    · exact hk1 h
    · cases idx with
      | none => cases h
      | some i =>
        rcases List.mem_cons.1 h with h | h
        · cases h
        · exact digits_no i '#' hhash h
  unfold parsePoint renderPoint
  cases id with
  | some s =>
    rw [splitFirst_append s hpre]
    simp only [Option.getD_some]
    cases idx with
    | none =>
      simp only [List.append_nil]
      rw [splitFirst_none hk2]
    | some i =>
      rw [splitFirst_append (renderNat i) hk2]
      have : (renderNat i).takeWhile (· ≠ ':') = renderNat i :=
        takeWhile_all (fun x hx => by
          have : x ≠ ':' := fun e => digits_no i ':' hcolon (e ▸ hx)
          simpa using this)
      simp only [this, atoi_renderNat, Option.map_some]
  | none =>
    simp only [List.append_nil, Option.getD_none]
    rw [splitFirst_none hpre]
    cases idx with
    | none =>
      simp only [List.append_nil]
      rw [splitFirst_none hk2]
    | some i =>
      rw [splitFirst_append (renderNat i) hk2]
      have : (renderNat i).takeWhile (· ≠ ':') = renderNat i :=
        takeWhile_all (fun x hx => by
          have : x ≠ ':' := fun e => digits_no i ':' hcolon (e ▸ hx)
          simpa using this)
      simp only [this, atoi_renderNat, Option.map_some]

/-- a rendered point is a list element exactly when it carries an index (field names are never empty) -/
theorem isListElement_render (key : List Char) (idx : Option Nat) (id : Option (List Char))
    (hk0 : key ≠ []) (hk1 : '#' ∉ key) (hk2 : ':' ∉ key) : isListElement (renderPoint key idx id) = idx.isSome := by
  have hhash : ('#' : Char).isDigit = false := by decide
  have hcolon : (':' : Char).isDigit = false := by decide
  have hpre : '#' ∉ key ++ (match idx with | some i => ':' :: renderNat i | none => []) := by
    intro h
    rcases List.mem_append.1 h with h | h
    · exact hk1 h
    · cases idx with
      | none => cases h
      | some i =>
        rcases List.mem_cons.1 h with h | h
        · cases h
        · exact digits_no i '#' hhash h
  unfold isListElement renderPoint
  cases id with
  | some s =>
    rw [splitFirst_append s hpre]
    cases key with
    | nil => exact absurd rfl hk0
    | cons c cs =>
      cases idx with
      | none => simpa using hk2
      | some i => simp
  | none =>
    simp only [List.append_nil]
    rw [splitFirst_none hpre]
    cases idx with
    | none => simp [hk2]
    | some i => simp

end Pt
