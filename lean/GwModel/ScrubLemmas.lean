import GwModel.Scrub
namespace Scrub

theorem mem_dedupe {p : List String} : ∀ {l : List (List String)}, p ∈ dedupe l ↔ p ∈ l
  | [] => by simp [dedupe]
  | q :: qs => by
    unfold dedupe
    by_cases h : q ∈ qs
    · simp only [h, if_true]
      rw [mem_dedupe (l := qs)]
      constructor
      · exact fun hp => List.mem_cons_of_mem _ hp
      · intro hp
        rcases List.mem_cons.1 hp with rfl | hp
        · exact h
        · exact hp
    · simp only [h, if_false, List.mem_cons]
      rw [mem_dedupe (l := qs)]

theorem nodup_dedupe : ∀ (l : List (List String)), (dedupe l).Nodup
  | [] => by simp [dedupe]
  | q :: qs => by
    unfold dedupe
    by_cases h : q ∈ qs
    · simp only [h, if_true]; exact nodup_dedupe qs
    · simp only [h, if_false]
      exact List.nodup_cons.2 ⟨fun hm => h (mem_dedupe.1 hm), nodup_dedupe qs⟩

/-- what it means for a path to deserve scrubbing, on the flattened client selection -/
def NeedsScrub (sel : List S) (p : List String) : Prop :=
  p ≠ [] ∧ ∃ target, walkTo sel p = some target ∧ hasIdKey target = false

mutual
theorem scrubWalk_sound (sel : List S) : ∀ (s : PStep) (ps : List (List String)),
    scrubWalk sel s = some ps → ∀ p ∈ ps, (∃ t ∈ allSteps s, t.ip = p) ∧ NeedsScrub sel p
  | .mk ip kids, ps, h, p, hp => by
    simp only [scrubWalk] at h
    cases hw : walkTo sel ip with
    | none => simp [hw] at h
    | some target =>
      cases hk : scrubWalks sel kids with
      | none => simp [hw, hk] at h
      | some rest =>
        simp only [hw, hk, Option.some.injEq] at h
        subst h
        rcases List.mem_append.1 hp with h1 | h2
        · by_cases hc : (!hasIdKey target && !ip.isEmpty) = true
          · simp only [hc, if_true, List.mem_singleton] at h1
            subst h1
            simp only [Bool.and_eq_true, Bool.not_eq_true'] at hc
            refine ⟨⟨.mk p kids, by simp [allSteps], rfl⟩, ?_, target, hw, hc.1⟩
            intro hnil; subst hnil; simp at hc
          · simp [hc] at h1
        · have := scrubWalks_sound sel kids rest hk p h2
          obtain ⟨⟨t, ht, hip⟩, hn⟩ := this
          exact ⟨⟨t, by simp [allSteps, ht], hip⟩, hn⟩
theorem scrubWalks_sound (sel : List S) : ∀ (l : List PStep) (ps : List (List String)),
    scrubWalks sel l = some ps → ∀ p ∈ ps, (∃ t ∈ allStepsL l, t.ip = p) ∧ NeedsScrub sel p
  | [], ps, h, p, hp => by simp [scrubWalks] at h; subst h; cases hp
  | s :: ss, ps, h, p, hp => by
    simp only [scrubWalks] at h
    cases ha : scrubWalk sel s with
    | none => simp [ha] at h
    | some a =>
      cases hb : scrubWalks sel ss with
      | none => simp [ha, hb] at h
      | some b =>
        simp only [ha, hb, Option.some.injEq] at h
        subst h
        rcases List.mem_append.1 hp with h1 | h2
        · obtain ⟨⟨t, ht, hip⟩, hn⟩ := scrubWalk_sound sel s a ha p h1
          exact ⟨⟨t, by simp [allStepsL, ht], hip⟩, hn⟩
        · obtain ⟨⟨t, ht, hip⟩, hn⟩ := scrubWalks_sound sel ss b hb p h2
          exact ⟨⟨t, by simp [allStepsL, ht], hip⟩, hn⟩
end

mutual
theorem scrubWalk_complete (sel : List S) : ∀ (s : PStep) (ps : List (List String)),
    scrubWalk sel s = some ps → ∀ t ∈ allSteps s, NeedsScrub sel t.ip → t.ip ∈ ps
  | .mk ip kids, ps, h, t, ht, hn => by
    simp only [scrubWalk] at h
    cases hw : walkTo sel ip with
    | none => simp [hw] at h
    | some target =>
      cases hk : scrubWalks sel kids with
      | none => simp [hw, hk] at h
      | some rest =>
        simp only [hw, hk, Option.some.injEq] at h
        subst h
        simp only [allSteps, List.mem_cons] at ht
        rcases ht with rfl | ht
        · apply List.mem_append_left
          obtain ⟨hne, tg, htg, hid⟩ := hn
          simp only [PStep.ip] at htg hne ⊢
          rw [hw] at htg
          cases htg
          have : ip.isEmpty = false := by cases ip <;> simp_all
          simp [hid, this]
        · exact List.mem_append_right _ (scrubWalks_complete sel kids rest hk t ht hn)
theorem scrubWalks_complete (sel : List S) : ∀ (l : List PStep) (ps : List (List String)),
    scrubWalks sel l = some ps → ∀ t ∈ allStepsL l, NeedsScrub sel t.ip → t.ip ∈ ps
  | [], ps, h, t, ht, _ => by simp [allStepsL] at ht
  | s :: ss, ps, h, t, ht, hn => by
    simp only [scrubWalks] at h
    cases ha : scrubWalk sel s with
    | none => simp [ha] at h
    | some a =>
      cases hb : scrubWalks sel ss with
      | none => simp [ha, hb] at h
      | some b =>
        simp only [ha, hb, Option.some.injEq] at h
        subst h
        simp only [allStepsL, List.mem_append] at ht
        rcases ht with ht | ht
        · exact List.mem_append_left _ (scrubWalk_complete sel s a ha t ht hn)
        · exact List.mem_append_right _ (scrubWalks_complete sel ss b hb t ht hn)
end

/-- `FieldsToScrub["id"]` lists exactly the insertion points of the plan at which the client's flattened
    selection has no response key `id`, each once -/
theorem scrubPaths_exact (sel : List S) (roots : List PStep) (ps : List (List String))
    (h : scrubPaths sel roots = some ps) :
    ps.Nodup ∧ (∀ p, p ∈ ps ↔ (∃ t ∈ allStepsL roots, t.ip = p) ∧ NeedsScrub sel p) := by
  unfold scrubPaths at h
  cases hw : scrubWalks sel roots with
  | none => simp [hw] at h
  | some raw =>
    simp only [hw, Option.map_some, Option.some.injEq] at h
    subst h
    refine ⟨nodup_dedupe raw, fun p => ?_⟩
    rw [mem_dedupe]
    constructor
    · exact scrubWalks_sound sel roots raw hw p
    · rintro ⟨⟨t, ht, rfl⟩, hn⟩
      exact scrubWalks_complete sel roots raw hw t ht hn

end Scrub
