import GwModel.FindPtsIndep
/-! Paths parting at a list index: independence and the frame property of insertion. -/
namespace Fp
open Ins

/-- two realised paths part at a list index (same keys up to there, same indices before) -/
def Parts : List RPt → List RPt → Prop
  | a :: p, b :: q =>
    a.key = b.key ∧
      match a.idx, b.idx with
      | none, none => Parts p q
      | some i, some j => if i = j then Parts p q else True
      | _, _ => False
  | _, _ => False

theorem parts_same_prefix : ∀ (a p q : List RPt), Parts p q → Parts (a ++ p) (a ++ q)
  | [], p, q, h => by simpa using h
  | x :: a, p, q, h => by
    have ih := parts_same_prefix a p q h
    obtain ⟨key, idx, id⟩ := x
    cases idx with
    | none => simpa [Parts] using ih
    | some i => simpa [Parts] using ih

theorem parts_diff_index (key i j : Nat) (hij : i ≠ j) (id1 id2 : Option J) (p q : List RPt) :
    Parts (⟨key, some i, id1⟩ :: p) (⟨key, some j, id2⟩ :: q) := by
  simp [Parts, hij]

/-- paths that part at a list index are independent as messages, whatever they carry -/
theorem indep_of_parts (v w : J) : ∀ (p q : List RPt), Parts p q → Indep (p.map toPt) v (q.map toPt) w
  | a :: p, b :: q, h => by
    obtain ⟨k1, i1, d1⟩ := a
    obtain ⟨k2, i2, d2⟩ := b
    simp only [Parts] at h
    obtain ⟨hk, h⟩ := h
    subst hk
    cases i1 with
    | none =>
      cases i2 with
      | none => simpa [Indep, toPt] using indep_of_parts v w p q h
      | some j => simp at h
    | some i =>
      cases i2 with
      | none => simp at h
      | some j =>
        by_cases e : i = j
        · subst e; simp at h; simpa [Indep, toPt] using indep_of_parts v w p q h
        · simp [Indep, toPt, e]
  | [], _, h => by simp [Parts] at h
  | _ :: _, [], h => by simp [Parts] at h

/-- **frame**: inserting at one path leaves what another path, parting from it at a list index, leads to -/
theorem insertAt_frame (inc : KVs) : ∀ (p q : List RPt) (x : J) (op oq : KVs),
    walk x p = some (.obj op) → walk x q = some (.obj oq) → Parts p q →
    ∃ x', insertAt x (p.map toPt) (.obj inc) = some x' ∧ walk x' q = some (.obj oq)
  | [], _, _, _, _, _, _, h => by simp [Parts] at h
  | _ :: _, [], _, _, _, _, _, h => by simp [Parts] at h
  | a :: p, b :: q, x, op, oq, hp, hq, h => by
    obtain ⟨k1, i1, d1⟩ := a
    obtain ⟨k2, i2, d2⟩ := b
    simp only [Parts] at h
    obtain ⟨hk, h⟩ := h
    subst hk
    cases x with
    | null => simp [walk] at hp
    | leaf s => simp [walk] at hp
    | arr l => simp [walk] at hp
    | obj k =>
      cases hl : lookup k1 k with
      | none => simp [walk, hl] at hp
      | some v =>
        cases i1 with
        | none =>
          cases i2 with
          | some j => simp at h
          | none =>
            have hp' : walk v p = some (.obj op) := by simpa [walk, hl] using hp
            have hq' : walk v q = some (.obj oq) := by simpa [walk, hl] using hq
            have hv : childOfCur (some v) = v := by
              cases v with
              | null => cases p <;> simp [walk] at hp'
              | leaf s => rfl
              | arr l => rfl
              | obj k' => rfl
            obtain ⟨v', hi, hw⟩ := insertAt_frame inc p q v op oq hp' hq' h
            refine ⟨.obj (put k1 v' k), ?_, ?_⟩
            · simp [List.map_cons, toPt, insertAt_cons, stepOf, hl, hv, hi]
            · simp [walk, lookup_put, hw]
        | some i =>
          cases i2 with
          | none => simp at h
          | some j =>
            cases v with
            | null => simp [walk, hl] at hp
            | leaf s => simp [walk, hl] at hp
            | obj k' => simp [walk, hl] at hp
            | arr l =>
              cases hei : l[i]? with
              | none => simp [walk, hl, hei] at hp
              | some ei =>
                cases hej : l[j]? with
                | none => simp [walk, hl, hej] at hq
                | some ej =>
                  have hp' : walk ei p = some (.obj op) := by simpa [walk, hl, hei] using hp
                  have hq' : walk ej q = some (.obj oq) := by simpa [walk, hl, hej] using hq
                  have hlt : i < l.length := (List.getElem?_eq_some_iff.1 hei).1
                  by_cases e : i = j
                  · subst e
                    simp at h
                    have : ei = ej := by rw [hei] at hej; exact Option.some.inj hej
                    subst this
                    obtain ⟨e', hi, hw⟩ := insertAt_frame inc p q ei op oq hp' hq' h
                    have hu := updAt_of_getElem (F := fun e => insertAt e (p.map toPt) (.obj inc)) hei hi
                    refine ⟨.obj (put k1 (.arr (l.set i e')) k), ?_, ?_⟩
                    · simp [List.map_cons, toPt, insertAt_cons, stepOf, hl, hu]
                    · simp [walk, lookup_put, hlt, hw]
                  · obtain ⟨e', hi, _⟩ := insertAt_walk p ei op inc hp'
                    have hu := updAt_of_getElem (F := fun e => insertAt e (p.map toPt) (.obj inc)) hei hi
                    refine ⟨.obj (put k1 (.arr (l.set i e')) k), ?_, ?_⟩
                    · simp [List.map_cons, toPt, insertAt_cons, stepOf, hl, hu]
                    · have : (l.set i e')[j]? = some ej := by
                        rw [List.getElem?_set_ne e]; exact hej
                      simp [walk, lookup_put, this, hq']

end Fp
