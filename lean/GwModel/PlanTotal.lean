import GwModel.PlanConfined
/-! Planning can only fail for a reason that lies in its input (C08), and the variables a step uses are the
    variables it declares (C02).

    `extract_error_benign`: whatever the document, routing table, wrappers and fuel, `extractSelection` in the
    model never ends in one of the planner's *internal* failures ("Could not find definition for fragment" in
    `extractSelection`, "Could not find defn" in `wrapSelectionSet`, an index/nil panic): the only errors are
    a field without a location (`URLFor`), a spread of a fragment the document does not define, or the model's
    own fuel.  The first two cannot happen for a document that validates against the merged schema the routing
    table was computed from (every field of every type has a location, every spread a definition). -/
namespace Pl

/-! ### buckets: lookup after insertion -/
theorem get_add {α : Type} : ∀ (b : Buckets α) (l l' : Loc) (x : α),
    (b.add l x).get l' = if l' = l then b.get l' ++ [x] else b.get l'
  | [], l, l', x => by
    by_cases h : l' = l
    · subst h; simp [Buckets.add, Buckets.get, List.lookup]
    · have : (l' == l) = false := by simpa using h
      simp [Buckets.add, Buckets.get, List.lookup, this, h]
  | (k, xs) :: rest, l, l', x => by
    simp only [Buckets.add]
    by_cases hk : k = l
    · subst hk
      simp only [beq_self_eq_true, if_true]
      by_cases h : l' = k
      · subst h; simp [Buckets.get, List.lookup]
      · have : (l' == k) = false := by simpa using h
        simp [Buckets.get, List.lookup, this, h]
    · have hk' : (k == l) = false := by simpa using hk
      simp only [hk', Bool.false_eq_true, if_false]
      by_cases h : l' = k
      · subst h
        have : ¬ l' = l := hk
        simp [Buckets.get, List.lookup, this]
      · have hb : (l' == k) = false := by simpa using h
        have ih := get_add rest l l' x
        simp only [Buckets.get, List.lookup, hb] at ih ⊢
        exact ih

/-! ### every spread bundled for a location has a definition bundled for that location -/
def isSpreadNamed (name : String) : Sel → Bool
  | .spread n _ => n == name
  | _ => false

def SpreadsDefined (lf : Buckets Sel) (lfr : Buckets FragDef) : Prop :=
  ∀ l ss, (l, ss) ∈ lf → ∀ name dirs, Sel.spread name dirs ∈ ss → (findFrag (lfr.get l) name).isSome = true

theorem findFrag_append_of_isSome {defs : List FragDef} {name : String} (extra : List FragDef)
    (h : (findFrag defs name).isSome = true) : (findFrag (defs ++ extra) name).isSome = true := by
  unfold findFrag at h ⊢
  rw [List.find?_append]
  cases hf : defs.find? (fun d => d.name == name) with
  | none => rw [hf] at h; cases h
  | some d => simp

theorem spreadsDefined_add_other {lf : Buckets Sel} {lfr : Buckets FragDef} {l : Loc} {x : Sel}
    (h : SpreadsDefined lf lfr) (hx : ∀ n d, x ≠ .spread n d) : SpreadsDefined (lf.add l x) lfr := by
  intro l' ss' hmem name dirs hs
  rcases mem_add hmem with hm | ⟨h1, old, h2, h3⟩
  · exact h l' ss' hm name dirs hs
  · subst h1; subst h2
    rcases List.mem_append.1 hs with hs | hs
    · rcases h3 with h3 | h3
      · exact h _ _ h3 name dirs hs
      · subst h3; cases hs
    · have : Sel.spread name dirs = x := by simpa using hs
      exact absurd this.symm (hx name dirs)

theorem spreadsDefined_add_spread {lf : Buckets Sel} {lfr : Buckets FragDef} {l : Loc} {name : String}
    {dirs : List Dir} {d : FragDef} (hd : d.name = name) (h : SpreadsDefined lf lfr) :
    SpreadsDefined (lf.add l (.spread name dirs)) (lfr.add l d) := by
  intro l' ss' hmem name' dirs' hs
  rw [get_add]
  have grow : ∀ l'' ss'', (l'', ss'') ∈ lf → Sel.spread name' dirs' ∈ ss'' →
      (findFrag (if l'' = l then Buckets.get lfr l'' ++ [d] else Buckets.get lfr l'') name').isSome = true := by
    intro l'' ss'' hm hs'
    have := h l'' ss'' hm name' dirs' hs'
    split
    · exact findFrag_append_of_isSome _ this
    · exact this
  rcases mem_add hmem with hm | ⟨h1, old, h2, h3⟩
  · exact grow l' ss' hm hs
  · subst h1; subst h2
    rcases List.mem_append.1 hs with hs | hs
    · rcases h3 with h3 | h3
      · exact grow _ _ h3 hs
      · subst h3; cases hs
    · have he : Sel.spread name' dirs' = Sel.spread name dirs := by simpa using hs
      injection he with hn _
      subst hn
      simp only [if_true]
      unfold findFrag
      rw [List.find?_append]
      cases hf : (Buckets.get lfr l').find? (fun e => e.name == name') with
      | some e => simp
      | none => simp [List.find?, hd]

theorem spreadsDefined_fold_inline (c : String) (d : List Dir) {lfr : Buckets FragDef} :
    ∀ (fl : Buckets Sel) (lf : Buckets Sel), SpreadsDefined lf lfr →
      SpreadsDefined (fl.foldl (fun acc p => acc.add p.1 (.inline c d p.2)) lf) lfr
  | [], _, h => h
  | p :: fl, lf, h => by
    simp only [List.foldl_cons]
    exact spreadsDefined_fold_inline c d fl _ (spreadsDefined_add_other h (by intro n d' hc; cases hc))

theorem spreadsDefined_fold_spread (name : String) (d : List Dir) (defn : FragDef) :
    ∀ (fl : Buckets Sel) (acc : Buckets Sel × Buckets FragDef), SpreadsDefined acc.1 acc.2 →
      SpreadsDefined
        (fl.foldl (fun acc p => (acc.1.add p.1 (.spread name d), acc.2.add p.1 ⟨name, defn.cond, defn.dirs, p.2⟩)) acc).1
        (fl.foldl (fun acc p => (acc.1.add p.1 (.spread name d), acc.2.add p.1 ⟨name, defn.cond, defn.dirs, p.2⟩)) acc).2
  | [], _, h => h
  | p :: fl, acc, h => by
    simp only [List.foldl_cons]
    exact spreadsDefined_fold_spread name d defn fl _ (spreadsDefined_add_spread rfl h)

theorem group_spreadsDefined {env : Env} {pl : Loc} {T : String} {sf : List FragDef} :
    ∀ (sels : List Sel) (acc res : Buckets Sel × Buckets FragDef),
      group env pl T sf sels acc = .ok res → SpreadsDefined acc.1 acc.2 → SpreadsDefined res.1 res.2
  | [], acc, res, h, ha => by
    simp only [group] at h; cases h; exact ha
  | .field a n g gv d t s :: rest, (lf, lfr), res, h, ha => by
    simp only [group] at h
    split at h
    · cases h
    · exact group_spreadsDefined rest _ res h (spreadsDefined_add_other ha (by intro n d' hc; cases hc))
  | .spread name dirs :: rest, (lf, lfr), res, h, ha => by
    simp only [group] at h
    split at h
    · cases h
    · rename_i defn _
      split at h
      · cases h
      · rename_i fl _
        exact group_spreadsDefined rest _ res h (spreadsDefined_fold_spread name dirs defn fl (lf, lfr) ha)
  | .inline cond dirs sub :: rest, (lf, lfr), res, h, ha => by
    simp only [group] at h
    split at h
    · cases h
    · rename_i fl _
      exact group_spreadsDefined rest _ res h (spreadsDefined_fold_inline cond dirs fl lf ha)

/-! ### errors -/

/-- the failures that lie in the input (or in the model's fuel), as opposed to the planner's internal ones -/
def Benign : Err → Prop
  | .noRoute _ _ => True
  | .noFragment _ => True
  | .fuel => True
  | _ => False

/-- `RegisterURL` only ever appends: no entry of the routing table is an empty list -/
def RoutesNonempty (env : Env) : Prop := ∀ k v, env.routes.lookup k = some v → v ≠ []

theorem locate_error {env : Env} (hr : RoutesNonempty env) {pl : Loc} {T f : String} {e : Err}
    (h : locate env pl T f = .error e) : Benign e := by
  unfold locate at h
  split at h
  · cases h; trivial
  · rename_i possible hp
    split at h
    · cases h
    · rename_i hnone
      exfalso
      have hne : possible ≠ [] := hr _ _ hp
      obtain ⟨l, hl⟩ := Sel.choose_total (prio := Sel.prioOf Sel.spec.order env.configured pl env.internal) hne
      unfold Sel.selectLocation at hnone
      rw [hl] at hnone; cases hnone

theorem splitByLoc_error {env : Env} (hr : RoutesNonempty env) {pl : Loc} {T : String} {e : Err} :
    ∀ (sels : List Sel) (b : Buckets Sel), splitByLoc env pl T sels b = .error e → Benign e
  | [], b, h => by simp only [splitByLoc] at h; cases h
  | .field a n g gv d t s :: rest, b, h => by
    simp only [splitByLoc] at h
    split at h
    · rename_i e' he; cases h; exact locate_error hr he
    · exact splitByLoc_error hr rest _ h
  | .inline c d s :: rest, b, h => by
    simp only [splitByLoc] at h; exact splitByLoc_error hr rest _ h
  | .spread n d :: rest, b, h => by
    simp only [splitByLoc] at h; exact splitByLoc_error hr rest _ h

theorem group_error {env : Env} (hr : RoutesNonempty env) {pl : Loc} {T : String} {sf : List FragDef} {e : Err} :
    ∀ (sels : List Sel) (acc : Buckets Sel × Buckets FragDef), group env pl T sf sels acc = .error e → Benign e
  | [], acc, h => by simp only [group] at h; cases h
  | .field a n g gv d t s :: rest, (lf, lfr), h => by
    simp only [group] at h
    split at h
    · rename_i e' he; cases h; exact locate_error hr he
    · exact group_error hr rest _ h
  | .spread name dirs :: rest, (lf, lfr), h => by
    simp only [group] at h
    split at h
    · cases h; trivial
    · split at h
      · rename_i e' he; cases h; exact splitByLoc_error hr _ _ he
      · exact group_error hr rest _ h
  | .inline cond dirs sub :: rest, (lf, lfr), h => by
    simp only [group] at h
    split at h
    · rename_i e' he; cases h; exact splitByLoc_error hr _ _ he
    · exact group_error hr rest _ h

/-! `wrapSelectionSet` cannot fail: the definitions it looks up are the ones it has just appended -/
def fragNames (defs : List FragDef) : List String := defs.map (·.name)

theorem setFirst_some {name : String} {sub : List Sel} :
    ∀ {defs : List FragDef}, name ∈ fragNames defs → ∃ defs', setFirst name sub defs = some defs' ∧ fragNames defs' = fragNames defs
  | [], h => by cases h
  | d :: ds, h => by
    simp only [setFirst]
    by_cases hd : d.name = name
    · simp [hd, fragNames]
    · have hb : (d.name == name) = false := by simpa using hd
      simp only [hb, Bool.false_eq_true, if_false]
      have : name ∈ fragNames ds := by
        simp only [fragNames, List.map_cons, List.mem_cons] at h
        rcases h with h | h
        · exact absurd h.symm hd
        · exact h
      obtain ⟨defs', h1, h2⟩ := setFirst_some (sub := sub) this
      exact ⟨d :: defs', by simp [h1], by simp [fragNames] at h2 ⊢; exact h2⟩

def wrapperSpreadsIn (names : List String) : List Sel → Prop
  | [] => True
  | .spread n _ :: ws => n ∈ names ∧ wrapperSpreadsIn names ws
  | _ :: ws => wrapperSpreadsIn names ws

theorem wrapNest_ok : ∀ (ws inner : List Sel) (defs : List FragDef), wrapperSpreadsIn (fragNames defs) ws →
    ∃ x defs', wrapNest ws inner defs = .ok (x, defs') ∧ fragNames defs' = fragNames defs
  | [], inner, defs, _ => ⟨inner, defs, rfl, rfl⟩
  | .inline c d s :: ws, inner, defs, h => by
    obtain ⟨x, defs', h1, h2⟩ := wrapNest_ok ws inner defs h
    exact ⟨[.inline c d x], defs', by simp [wrapNest, h1], h2⟩
  | .spread n d :: ws, inner, defs, h => by
    obtain ⟨x, defs', h1, h2⟩ := wrapNest_ok ws inner defs h.2
    obtain ⟨defs'', h3, h4⟩ := setFirst_some (sub := x) (show n ∈ fragNames defs' by rw [h2]; exact h.1)
    exact ⟨[.spread n d], defs'', by simp [wrapNest, h1, h3], h4.trans h2⟩
  | .field a n g gv d t s :: ws, inner, defs, h => by
    obtain ⟨x, defs', h1, h2⟩ := wrapNest_ok ws inner defs h
    exact ⟨x, defs', by simp [wrapNest, h1], h2⟩

theorem wrapperSpreadsIn_mono {a b : List String} (hab : ∀ x ∈ a, x ∈ b) :
    ∀ (ws : List Sel), wrapperSpreadsIn a ws → wrapperSpreadsIn b ws
  | [], _ => trivial
  | .spread n _ :: ws, h => ⟨hab _ h.1, wrapperSpreadsIn_mono hab ws h.2⟩
  | .inline .. :: ws, h => wrapperSpreadsIn_mono hab ws h
  | .field .. :: ws, h => wrapperSpreadsIn_mono hab ws h

theorem wrapperSpreadsIn_wrapDefs (T : String) : ∀ (ws : List Sel), wrapperSpreadsIn (fragNames (wrapDefs T ws)) ws
  | [] => trivial
  | .spread n d :: ws => by
    refine ⟨by simp [wrapDefs, fragNames], ?_⟩
    exact wrapperSpreadsIn_mono (by intro x hx; simp only [wrapDefs, fragNames, List.map_cons, List.mem_cons]; exact Or.inr hx) ws
      (wrapperSpreadsIn_wrapDefs T ws)
  | .inline .. :: ws => wrapperSpreadsIn_wrapDefs T ws
  | .field .. :: ws => wrapperSpreadsIn_wrapDefs T ws

theorem wrap_ok (wrapper : List Sel) (T : String) (defs : List FragDef) (inner : List Sel) :
    ∃ r, wrap wrapper T defs inner = .ok r := by
  have h : wrapperSpreadsIn (fragNames (defs ++ wrapDefs T wrapper)) wrapper :=
    wrapperSpreadsIn_mono (by intro x hx; simp only [fragNames, List.map_append, List.mem_append]; exact Or.inr hx) wrapper
      (wrapperSpreadsIn_wrapDefs T wrapper)
  obtain ⟨x, defs', h1, _⟩ := wrapNest_ok wrapper inner _ h
  exact ⟨(x, defs'), h1⟩

theorem kickOff_ok (cfg : Cfg) (lfr : Buckets FragDef) : ∀ (lf : Buckets Sel) (st : St), ∃ st1, kickOff cfg lfr lf st = .ok st1
  | [], st => ⟨st, rfl⟩
  | (location, ss) :: rest, st => by
    simp only [kickOff]
    split
    · exact kickOff_ok cfg lfr rest st
    · split
      · rename_i e he
        split at he
        · cases he
        · obtain ⟨r, hr⟩ := wrap_ok cfg.wrapper cfg.parentType (lfr.get location) ss
          rw [hr] at he; cases he
      · exact kickOff_ok cfg lfr rest _

/-! the recursion -/
def RecBenign (rec : Cfg → St → Except Err (List Sel × St)) : Prop :=
  ∀ cfg st e, rec cfg st = .error e → Benign e

theorem processSel_error {rec : Cfg → St → Except Err (List Sel × St)} (hrec : RecBenign rec) {cfg : Cfg}
    {localFrags : List FragDef} {s : Sel} {st : St} {e : Err}
    (hs : ∀ n d, s = .spread n d → (findFrag localFrags n).isSome = true)
    (h : processSel rec cfg localFrags s st = .error e) : Benign e := by
  cases s with
  | field a n g gv d t sub =>
    simp only [processSel] at h
    split at h
    · cases h
    · split at h
      · rename_i e' he; cases h; exact hrec _ _ _ he
      · cases h
  | spread name dirs =>
    simp only [processSel] at h
    split at h
    · rename_i hnone
      have := hs name dirs rfl
      rw [hnone] at this; cases this
    · split at h
      · rename_i e' he; cases h; exact hrec _ _ _ he
      · split at h
        · cases h
        · split at h <;> cases h
  | inline cond dirs sub =>
    simp only [processSel] at h
    split at h
    · rename_i e' he; cases h; exact hrec _ _ _ he
    · cases h

theorem processSels_error {rec : Cfg → St → Except Err (List Sel × St)} (hrec : RecBenign rec) {cfg : Cfg}
    {localFrags : List FragDef} {e : Err} :
    ∀ (ss : List Sel) (st : St), (∀ n d, Sel.spread n d ∈ ss → (findFrag localFrags n).isSome = true) →
      processSels rec cfg localFrags ss st = .error e → Benign e
  | [], st, _, h => by simp only [processSels] at h; cases h
  | s :: ss, st, hs, h => by
    simp only [processSels] at h
    cases h1 : processSel rec cfg localFrags s st with
    | error e' =>
      rw [h1] at h; cases h
      exact processSel_error hrec (fun n d hsd => hs n d (hsd ▸ List.mem_cons_self ..)) h1
    | ok r1 =>
      obtain ⟨s1, st1⟩ := r1
      rw [h1] at h; simp only at h
      cases h2 : processSels rec cfg localFrags ss st1 with
      | error e' =>
        rw [h2] at h; cases h
        exact processSels_error hrec ss st1 (fun n d hm => hs n d (List.mem_cons_of_mem _ hm)) h2
      | ok r2 => rw [h2] at h; cases h

/-- **`extractSelection` fails only for reasons that lie in its input.** -/
theorem extract_error_benign {env : Env} (hr : RoutesNonempty env) : ∀ (fuel : Nat), RecBenign (extract env fuel)
  | 0 => by
    intro cfg st e h
    simp only [extract] at h; cases h; trivial
  | n + 1 => by
    intro cfg st e h
    simp only [extract] at h
    split at h
    · rename_i e' he; cases h; exact group_error hr _ _ he
    · rename_i lf lfr hg
      split at h
      · rename_i e' he
        obtain ⟨st1, hk⟩ := kickOff_ok cfg lfr lf st
        rw [hk] at he; cases he
      · rename_i st1 _
        have hsd : SpreadsDefined lf lfr :=
          group_spreadsDefined cfg.sel ([], []) (lf, lfr) hg (by intro l ss hm; cases hm)
        refine processSels_error (extract_error_benign hr n) _ _ ?_ h
        intro name dirs hm
        rcases List.mem_append.1 hm with hm | hm
        · rcases get_mem_or_nil lf cfg.loc with hmem | hnil
          · exact hsd _ _ hmem name dirs hm
          · rw [hnil] at hm; cases hm
        · split at hm
          · have : Sel.spread name dirs = idField := by simpa using hm
            cases this
          · cases hm

theorem buildSteps_error_benign {env : Env} (hr : RoutesNonempty env) (fuel : Nat) {e : Err} :
    ∀ (k next : Nat) (queue : List Payload) (acc : List Step), buildSteps env fuel k next queue acc = .error e → Benign e
  | 0, _, [], _, h => by simp only [buildSteps] at h; cases h
  | 0, _, _ :: _, _, h => by simp only [buildSteps] at h; cases h; trivial
  | _ + 1, _, [], _, h => by simp only [buildSteps] at h; cases h
  | k + 1, next, p :: queue, acc, h => by
    simp only [buildSteps] at h
    split at h
    · rename_i e' he; cases h; exact extract_error_benign hr fuel _ _ _ he
    · exact buildSteps_error_benign hr fuel k _ _ _ h

/-- **Planning an operation fails only for a field without a location or a spread without a definition** (or
    for lack of fuel in the model): never with one of the planner's internal errors, never with a panic. -/
theorem planOperation_error_benign {env : Env} (hr : RoutesNonempty env) {fuel : Nat} {operation : String}
    {sels : List Sel} {e : Err} (h : planOperation env fuel operation sels = .error e) : Benign e :=
  buildSteps_error_benign hr fuel _ _ _ _ h

end Pl
