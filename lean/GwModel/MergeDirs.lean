/-! Model of `mergeDirectiveListsEqual` (merge.go): are the directives APPLIED to two declarations of one thing (a type,
    a field, an argument, an enum value) the same?  A directive may be applied several times (repeatable directives),
    so the code pairs every application of the first list with an application of its own in the second: it walks the
    first list and marks, in the second, the first not yet marked application that equals it (`matched[i]`).

    One application is compared with `mergeDirectiveEqual` (name, arguments by name and value — `Ms.valuesEqual`, an
    equality); here an application is a value of a type with decidable equality.

    Tied to merge.go by the regenerated fact `merge.directivesPaired` (the exact loop) and by the L2.mergedirs
    correspondence (generated pairs of application lists through `gateway.New`, both service orders). -/
namespace Md

variable {α : Type} [DecidableEq α]

/-- take the first element equal to `a` out of the list (`matched[i] = true` on the first unmatched equal one) -/
def removeFirst (a : α) : List α → Option (List α)
  | [] => none
  | x :: xs => if x = a then some xs else (removeFirst a xs).map (x :: ·)

/-- the loop over the first list -/
def matchAll : List α → List α → Bool
  | [], _ => true
  | a :: as, l2 =>
    match removeFirst a l2 with
    | none => false
    | some l2' => matchAll as l2'

/-- `mergeDirectiveListsEqual`: same length, and every application of the first list finds a partner of its own -/
def listsEqual (l1 l2 : List α) : Bool := l1.length == l2.length && matchAll l1 l2

/-- the comparison without the bookkeeping: every application of the first list only needs SOME equal application
    in the second -/
def listsEqualNoBookkeeping (l1 l2 : List α) : Bool := l1.length == l2.length && l1.all (fun a => l2.contains a)

theorem removeFirst_none {a : α} : ∀ {l : List α}, removeFirst a l = none ↔ a ∉ l
  | [] => by simp [removeFirst]
  | x :: xs => by
    unfold removeFirst
    by_cases h : x = a
    · simp [h]
    · have ih := @removeFirst_none a xs
      simp only [h, if_false, Option.map_eq_none_iff, ih, List.mem_cons]
      constructor
      · intro hn hm
        rcases hm with hm | hm
        · exact h hm.symm
        · exact hn hm
      · intro hn hm; exact hn (Or.inr hm)

theorem removeFirst_some {a : α} : ∀ {l l' : List α}, removeFirst a l = some l' → l.Perm (a :: l')
  | [], _, h => by simp [removeFirst] at h
  | x :: xs, l', h => by
    unfold removeFirst at h
    by_cases hx : x = a
    · simp [hx] at h; subst h; subst hx; exact List.Perm.refl _
    · simp only [hx, if_false] at h
      cases hr : removeFirst a xs with
      | none => simp [hr] at h
      | some r =>
        simp [hr] at h; subst h
        have ih := removeFirst_some hr
        exact (List.Perm.cons x ih).trans (List.Perm.swap a x r)

theorem removeFirst_length {a : α} {l l' : List α} (h : removeFirst a l = some l') : l.length = l'.length + 1 := by
  have := (removeFirst_some h).length_eq
  simpa using this

/-- when the lengths agree, the loop succeeds exactly when the lists are permutations of one another -/
theorem matchAll_iff : ∀ (l1 l2 : List α), l1.length = l2.length → (matchAll l1 l2 = true ↔ l1.Perm l2)
  | [], l2, hl => by
    have : l2 = [] := by cases l2 with | nil => rfl | cons _ _ => simp at hl
    subst this; simp [matchAll]
  | a :: as, l2, hl => by
    unfold matchAll
    cases hr : removeFirst a l2 with
    | none =>
      have hn := removeFirst_none.1 hr
      simp only
      constructor
      · intro h; cases h
      · intro hp; exact absurd (hp.subset (List.mem_cons_self)) hn
    | some l2' =>
      have hp2 := removeFirst_some hr
      have hlen : as.length = l2'.length := by
        have := removeFirst_length hr
        simp at hl; omega
      simp only
      rw [matchAll_iff as l2' hlen]
      constructor
      · intro h; exact (List.Perm.cons a h).trans hp2.symm
      · intro h; exact (List.Perm.cons_inv (h.trans hp2))

/-- **the comparison decides "the same applications, each as many times"** -/
theorem listsEqual_iff (l1 l2 : List α) : listsEqual l1 l2 = true ↔ l1.Perm l2 := by
  unfold listsEqual
  constructor
  · intro h
    simp only [Bool.and_eq_true, beq_iff_eq] at h
    exact (matchAll_iff l1 l2 h.1).1 h.2
  · intro h
    simp only [Bool.and_eq_true, beq_iff_eq]
    exact ⟨h.length_eq, (matchAll_iff l1 l2 h.length_eq).2 h⟩

/-- **it does not matter which declaration comes first** -/
theorem listsEqual_symm (l1 l2 : List α) : listsEqual l1 l2 = listsEqual l2 l1 := by
  cases h1 : listsEqual l1 l2 with
  | true => exact ((listsEqual_iff l2 l1).2 ((listsEqual_iff l1 l2).1 h1).symm).symm
  | false =>
    cases h2 : listsEqual l2 l1 with
    | false => rfl
    | true => rw [(listsEqual_iff l1 l2).2 ((listsEqual_iff l2 l1).1 h2).symm] at h1; cases h1

/-- a third declaration compared with either of two equal ones gives the same verdict -/
theorem listsEqual_trans {l1 l2 l3 : List α} (h12 : listsEqual l1 l2 = true) (h23 : listsEqual l2 l3 = true) :
    listsEqual l1 l3 = true :=
  (listsEqual_iff l1 l3).2 (((listsEqual_iff l1 l2).1 h12).trans ((listsEqual_iff l2 l3).1 h23))

/-- without the bookkeeping the verdict depends on the order of the two declarations (kernel-checked) -/
theorem noBookkeeping_is_not_symmetric :
    listsEqualNoBookkeeping [1, 1] [1, 2] = true ∧ listsEqualNoBookkeeping [1, 2] [1, 1] = false := by decide

end Md
