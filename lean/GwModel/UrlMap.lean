/-! Model of `FieldURLMap` (gateway.go): the table `Type.field ↦ locations` and its three operations — `RegisterURL`
    (append the locations to the key's list), `Concat` (append another table's lists key by key), `URLFor` (the list,
    or an error when the key was never registered).  A Go map is an association list here; its iteration order plays
    no part (every operation addresses one key).

    What the routing model `Route.urlsFor` states about the finished table is tied to the code by L1.routing; this file
    is about the operations themselves: what is registered is found, in the order of registration, whatever else is in
    the table and whatever the locations look like (one being a prefix or a substring of another, a long key). -/
namespace Um

abbrev Loc := String
abbrev Tbl := List (String × List Loc)

/-- `keyFor` -/
def keyFor (parent field : String) : String := parent ++ "." ++ field

def get (m : Tbl) (key : String) : Option (List Loc) := m.lookup key

def set (m : Tbl) (key : String) (v : List Loc) : Tbl :=
  match m with
  | [] => [(key, v)]
  | (k, w) :: rest => if k == key then (k, v) :: rest else (k, w) :: set rest key v

/-- `RegisterURL` for one location -/
def register1 (m : Tbl) (parent field : String) (loc : Loc) : Tbl :=
  let key := keyFor parent field
  match get m key with
  | none => set m key [loc]
  | some l => set m key (l ++ [loc])

/-- `RegisterURL(parent, field, locations...)` -/
def register (m : Tbl) (parent field : String) (locs : List Loc) : Tbl :=
  locs.foldl (fun acc l => register1 acc parent field l) m

/-- `URLFor` -/
def urlFor (m : Tbl) (parent field : String) : Except String (List Loc) :=
  match get m (keyFor parent field) with
  | some l => .ok l
  | none => .error ("Could not find location for " ++ keyFor parent field)

/-- `Concat` for one entry of the other table -/
def concat1 (m : Tbl) (key : String) (v : List Loc) : Tbl :=
  match get m key with
  | some prev => set m key (prev ++ v)
  | none => set m key v

def concat (m other : Tbl) : Tbl := other.foldl (fun acc kv => concat1 acc kv.1 kv.2) m

theorem get_set_self (m : Tbl) (key : String) (v : List Loc) : get (set m key v) key = some v := by
  induction m with
  | nil => simp [set, get, List.lookup_cons]
  | cons kw rest ih =>
    obtain ⟨k, w⟩ := kw
    simp only [set]
    split
    · rename_i h
      have hk : k = key := by simpa using h
      subst hk
      simp [get, List.lookup_cons]
    · rename_i h
      have hk : ¬ k = key := by simpa using h
      have hb : (key == k) = false := by
        simp only [beq_eq_false_iff_ne, ne_eq]; exact fun e => hk e.symm
      simp only [get, List.lookup_cons, hb]
      exact ih

theorem get_set_other (m : Tbl) (key key' : String) (v : List Loc) (hne : key' ≠ key) :
    get (set m key v) key' = get m key' := by
  induction m with
  | nil =>
    have hb : (key' == key) = false := by simp only [beq_eq_false_iff_ne, ne_eq]; exact hne
    simp [set, get, List.lookup_cons, hb]
  | cons kw rest ih =>
    obtain ⟨k, w⟩ := kw
    simp only [set]
    split
    · rename_i h
      have hk : k = key := by simpa using h
      subst hk
      have hb : (key' == k) = false := by simp only [beq_eq_false_iff_ne, ne_eq]; exact hne
      simp only [get, List.lookup_cons, hb]
    · rename_i h
      simp only [get, List.lookup_cons]
      cases hb : (key' == k) with
      | true => rfl
      | false => exact ih

/-- **what is registered is found**: after registering `loc` for `parent.field`, the lookup succeeds and `loc` is the
    last entry of what it returns — however long the key is and whatever `loc` looks like next to the locations that
    were there already -/
theorem urlFor_register1 (m : Tbl) (parent field : String) (loc : Loc) :
    ∃ before, urlFor (register1 m parent field loc) parent field = .ok (before ++ [loc]) ∧
      (get m (keyFor parent field) = some before ∨ (get m (keyFor parent field) = none ∧ before = [])) := by
  unfold register1 urlFor
  cases hg : get m (keyFor parent field) with
  | none => exact ⟨[], by simp [hg, get_set_self], Or.inr ⟨rfl, rfl⟩⟩
  | some l => exact ⟨l, by simp [hg, get_set_self], Or.inl rfl⟩

/-- registering for one key leaves every other key as it was -/
theorem urlFor_register1_other (m : Tbl) (parent field parent' field' : String) (loc : Loc)
    (hne : keyFor parent' field' ≠ keyFor parent field) :
    urlFor (register1 m parent field loc) parent' field' = urlFor m parent' field' := by
  unfold register1 urlFor
  cases hg : get m (keyFor parent field) with
  | none => simp only [hg]; rw [get_set_other _ _ _ _ hne]
  | some l => simp only [hg]; rw [get_set_other _ _ _ _ hne]

/-- **a location is listed once per registration, in the order of registration** — registering A then B for one
    field gives `[…, A, B]`, also when one is a substring of the other -/
theorem register_two (m : Tbl) (parent field : String) (a b : Loc) (h : get m (keyFor parent field) = none) :
    urlFor (register m parent field [a, b]) parent field = .ok [a, b] := by
  simp only [register, List.foldl]
  obtain ⟨b1, h1, hb1⟩ := urlFor_register1 m parent field a
  rcases hb1 with hb1 | ⟨_, hb1⟩
  · rw [h] at hb1; cases hb1
  · subst hb1
    obtain ⟨b2, h2, hb2⟩ := urlFor_register1 (register1 m parent field a) parent field b
    have hg : get (register1 m parent field a) (keyFor parent field) = some [a] := by
      unfold urlFor at h1
      cases hgg : get (register1 m parent field a) (keyFor parent field) with
      | none => rw [hgg] at h1; cases h1
      | some l => rw [hgg] at h1; simp at h1; simp [h1]
    rcases hb2 with hb2 | ⟨hb2, _⟩
    · rw [hg] at hb2; cases hb2; simpa using h2
    · rw [hg] at hb2; cases hb2

theorem get_concat1_self (m : Tbl) (key : String) (v : List Loc) :
    get (concat1 m key v) key = some ((get m key).getD [] ++ v) := by
  unfold concat1
  cases hg : get m key with
  | none => simp [get_set_self]
  | some prev => simp [get_set_self]

theorem get_concat1_other (m : Tbl) (key key' : String) (v : List Loc) (hne : key' ≠ key) :
    get (concat1 m key v) key' = get m key' := by
  unfold concat1
  cases hg : get m key with
  | none => simp only; exact get_set_other m key key' v hne
  | some prev => simp only; exact get_set_other m key key' _ hne

/-- **`Concat` appends, key by key**: after `m.Concat(other)` a field's list is what `m` had followed by what `other`
    has — the services keep the order in which their tables were concatenated (`other`'s keys are distinct: it is a
    Go map) -/
theorem get_concat (other : Tbl) (hnd : (other.map (·.1)).Nodup) (m : Tbl) (key : String) :
    get (concat m other) key =
      match get m key, other.lookup key with
      | some a, some b => some (a ++ b)
      | some a, none => some a
      | none, some b => some b
      | none, none => none := by
  induction other generalizing m with
  | nil => simp [concat]; cases get m key <;> rfl
  | cons kv rest ih =>
    obtain ⟨k, v⟩ := kv
    simp only [List.map_cons, List.nodup_cons] at hnd
    obtain ⟨hk, hrest⟩ := hnd
    have hstep : concat m ((k, v) :: rest) = concat (concat1 m k v) rest := by simp [concat, List.foldl_cons]
    rw [hstep, ih hrest]
    by_cases hkey : key = k
    · subst hkey
      have hl : rest.lookup key = none := by
        rw [List.lookup_eq_none_iff]
        intro p hp
        simp only [bne_iff_ne, ne_eq]
        intro e
        apply hk
        exact List.mem_map.2 ⟨p, hp, e.symm⟩
      rw [get_concat1_self, hl]
      simp only [List.lookup_cons, beq_self_eq_true]
      cases get m key <;> simp
    · have hb : (key == k) = false := by simp only [beq_eq_false_iff_ne, ne_eq]; exact hkey
      rw [get_concat1_other m k key v hkey]
      simp only [List.lookup_cons, hb]

/-- a key that was never registered is an error, not an empty success -/
theorem urlFor_unregistered (parent field : String) : ∃ e, urlFor [] parent field = .error e := ⟨_, rfl⟩

example : (urlFor (register [] "User" "lastName" ["http://users.internal/graphql/v2", "http://users.internal/graphql"]) "User" "lastName").toOption =
    some ["http://users.internal/graphql/v2", "http://users.internal/graphql"] := by decide

end Um
