import GwModel.InsertComm
/-! `put` and `merge` preserve well-formedness. -/
namespace Ins

theorem mem_put {k k' : Nat} {u v : J} {l : KVs} (h : (k, u) ∈ put k' v l) : (k = k' ∧ u = v) ∨ (k, u) ∈ l := by
  induction l with
  | nil => simp [put] at h; exact Or.inl h
  | cons p r ih =>
    obtain ⟨a, w⟩ := p
    simp only [put] at h
    split at h
    · rcases List.mem_cons.1 h with h | h
      · cases h; exact Or.inl ⟨rfl, rfl⟩
      · exact Or.inr (List.mem_cons_of_mem _ h)
    · split at h
      · rcases List.mem_cons.1 h with h | h
        · cases h; exact Or.inl ⟨rfl, rfl⟩
        · exact Or.inr h
      · rcases List.mem_cons.1 h with h | h
        · exact Or.inr (h ▸ List.mem_cons_self ..)
        · rcases ih h with h | h
          · exact Or.inl h
          · exact Or.inr (List.mem_cons_of_mem _ h)

theorem wf_put {k : Nat} {v : J} {l : KVs} (hl : WF (.obj l)) (hv : WF v) : WF (.obj (put k v l)) := by
  refine .obj _ (sorted_put hl.sorted) ?_
  intro k' u hm
  rcases mem_put hm with ⟨_, rfl⟩ | hm
  · exact hv
  · exact hl.vals k' u hm

theorem wf_merge_aux (n : Nat) : ∀ v x : J, v.size ≤ n → WF x → WF v → WF (merge x v) := by
  induction n with
  | zero => intro v x h; have := size_pos v; omega
  | succ n ih =>
    intro v x hsz hx hv
    cases v with
    | null => rw [merge_null]; exact .null
    | leaf s => rw [merge_leaf]; exact .leaf s
    | arr inc =>
      rw [merge_arr]
      cases x with
      | arr ex =>
        simp only
        split
        · refine .arr _ ?_
          intro y hy
          obtain ⟨i, hi⟩ := List.getElem?_of_mem hy
          rw [List.getElem?_zipWith] at hi
          cases he : ex[i]? with
          | none => simp [he] at hi
          | some e =>
            cases hv' : inc[i]? with
            | none => simp [he, hv'] at hi
            | some v =>
              simp [he, hv'] at hi
              subst hi
              have hvm := List.mem_of_getElem? hv'
              have : v.size ≤ n := by have := size_le_sizeL hvm; simp only [J.size] at hsz; omega
              exact ih v e this (hx.elems e (List.mem_of_getElem? he)) (hv.elems v hvm)
        · exact hv
      | null => exact hv
      | leaf s => exact hv
      | obj kvs => exact hv
    | obj inc =>
      rw [merge_obj]
      cases x with
      | obj ex =>
        simp only
        have ss := sorted_mergeK inc ex hx.sorted
        refine .obj _ ss ?_
        intro k u hm
        have hl := lookup_of_mem ss hm
        rw [lookup_mergeK k inc ex hv.sorted] at hl
        cases li : lookup k inc with
        | none => rw [li] at hl; exact hx.vals k u (mem_of_lookup hl)
        | some w =>
          rw [li] at hl
          simp at hl
          subst hl
          have hwm := mem_of_lookup li
          have : w.size ≤ n := by have := size_le_sizeK hwm; simp only [J.size] at hsz; omega
          exact ih w _ this (wf_lookupD hx k) (hv.vals k w hwm)
      | null => exact hv
      | leaf s => exact hv
      | arr l => exact hv

theorem wf_merge {x v : J} (hx : WF x) (hv : WF v) : WF (merge x v) := wf_merge_aux v.size v x (Nat.le_refl _) hx hv

theorem wf_mergeK {ex inc : KVs} (hx : WF (.obj ex)) (hv : WF (.obj inc)) : WF (.obj (mergeK ex inc)) := by
  have := wf_merge hx hv
  simpa [merge_obj] using this

end Ins
