import GwModel.Select
/-! Model of the planner proper (plan.go): `groupSelectionSet`, `wrapSelectionSet`, `extractSelection`,
    `addStep` (coalescing of pending steps), the work list of `generatePlans` and `plannerBuildQuery`.

    One Lean function per Go function, same case structure.  What Go does by mutating shared ASTs is written
    with explicit state (`St`: the step's variable set, the fragment definitions left behind for the step,
    the queue of pending steps).  Go maps (`locationFields`, `locationFragments`) are association lists in
    first-insertion order; the only thing their iteration order decides in Go is the order of `Then`, which the
    correspondence compares as a multiset.  Recursion through fragment definitions is not structural, so
    `extract` takes fuel; running out of fuel is its own error and never confused with a planner error.

    Tied to /repo by the L1.plan correspondence (harness `plancorr.go`): for every generated document the real
    `QueryPlanList` (locations, parent types, insertion points, selection sets, fragment definitions, variables,
    built query documents, `Then` trees) must equal what this model computes from the captured routing table.
    Property theorems over this model are in `PlanConfined.lean` / `Props/C02`, `Props/C08`. -/
namespace Pl

abbrev Loc := String

structure Dir where
  name : String
  /-- canonical text of the arguments; opaque to the planner -/
  args : String
  /-- `graphql.ExtractVariables(directive.Arguments)` -/
  vars : List String
deriving Repr, Inhabited, DecidableEq

inductive Sel where
  /-- `typ` is `coreFieldType(field).Name()`: the named type the field's own selection lives under -/
  | field (alias name args : String) (argVars : List String) (dirs : List Dir) (typ : String) (sub : List Sel)
  | inline (cond : String) (dirs : List Dir) (sub : List Sel)
  | spread (name : String) (dirs : List Dir)
deriving Repr, Inhabited

structure FragDef where
  name : String
  cond : String
  dirs : List Dir
  sub : List Sel
deriving Repr, Inhabited

inductive Err where
  | noRoute (type field : String)      -- FieldURLMap.URLFor: "Could not find location for"
  | noFragment (name : String)         -- groupSelectionSet: "Could not find definition for directive"
  | noLocalFragment (name : String)    -- extractSelection: "Could not find definition for fragment"
  | noWrapDefn                         -- wrapSelectionSet: "Could not find defn"
  | fuel                               -- the model ran out of fuel (not a behaviour of the code)
  | crash (site : String)              -- a Go panic (index out of range, nil dereference)
deriving Repr, Inhabited, DecidableEq

/-! ### printed-form equality (`selectionKey`): alias, name, arguments, directives, sub-selections -/
def beqDirs : List Dir → List Dir → Bool
  | [], [] => true
  | a :: as, b :: bs => a.name == b.name && a.args == b.args && beqDirs as bs
  | _, _ => false

mutual
def beqSel : Sel → Sel → Bool
  | .field a n g _ d _ s, .field a' n' g' _ d' _ s' => a == a' && n == n' && g == g' && beqDirs d d' && beqSels s s'
  | .inline c d s, .inline c' d' s' => c == c' && beqDirs d d' && beqSels s s'
  | .spread n d, .spread n' d' => n == n' && beqDirs d d'
  | _, _ => false
def beqSels : List Sel → List Sel → Bool
  | [], [] => true
  | a :: as, b :: bs => beqSel a b && beqSels as bs
  | _, _ => false
end

/-- `appendNewSelections`: target, then the selections of source not yet present (by printed form) -/
def appendNew (target source : List Sel) : List Sel :=
  source.foldl (fun acc s => if acc.any (fun t => beqSel t s) then acc else acc ++ [s]) target

/-! ### Go maps keyed by location, as association lists in first-insertion order -/
abbrev Buckets (α : Type) := List (Loc × List α)

def Buckets.add {α : Type} : Buckets α → Loc → α → Buckets α
  | [], l, x => [(l, [x])]
  | (k, xs) :: rest, l, x => if k == l then (k, xs ++ [x]) :: rest else (k, xs) :: Buckets.add rest l x

def Buckets.get {α : Type} (b : Buckets α) (l : Loc) : List α := (b.lookup l).getD []

def findFrag (defs : List FragDef) (name : String) : Option FragDef := defs.find? (fun d => d.name == name)

structure Env where
  /-- `FieldURLMap`, keyed "Type.field" -/
  routes : List (String × List Loc)
  /-- `MinQueriesPlanner.LocationPriorities` -/
  configured : List Loc
  internal : Loc
  /-- `plan.FragmentDefinitions` (the document's) -/
  planFrags : List FragDef
deriving Inhabited

def urlFor (env : Env) (type field : String) : Option (List Loc) := env.routes.lookup (type ++ "." ++ field)

/-- `URLFor` followed by `selectLocation` (the specified rule; `Sel.selectLocation_of_safe` ties the extracted
    source order to it) -/
def locate (env : Env) (parentLoc : Loc) (type field : String) : Except Err Loc :=
  match urlFor env type field with
  | none => .error (.noRoute type field)
  | some possible =>
    match Sel.selectLocation Sel.spec possible env.configured parentLoc env.internal with
    | some l => .ok l
    | none => .error (.crash "selectLocation: possibleLocations[0] of an empty list")

/-- the inner loops of `groupSelectionSet`: the direct children of a fragment bundled by location -/
def splitByLoc (env : Env) (parentLoc : Loc) (type : String) : List Sel → Buckets Sel → Except Err (Buckets Sel)
  | [], b => .ok b
  | .field a n g gv d t s :: rest, b =>
    match locate env parentLoc type n with
    | .error e => .error e
    | .ok l => splitByLoc env parentLoc type rest (b.add l (.field a n g gv d t s))
  | other :: rest, b => splitByLoc env parentLoc type rest (b.add parentLoc other)

/-- `groupSelectionSet` -/
def group (env : Env) (parentLoc : Loc) (parentType : String) (stepFrags : List FragDef) :
    List Sel → Buckets Sel × Buckets FragDef → Except Err (Buckets Sel × Buckets FragDef)
  | [], acc => .ok acc
  | .field a n g gv d t s :: rest, (lf, lfr) =>
    match locate env parentLoc parentType n with
    | .error e => .error e
    | .ok l => group env parentLoc parentType stepFrags rest (lf.add l (.field a n g gv d t s), lfr)
  | .spread name dirs :: rest, (lf, lfr) =>
    match (match findFrag stepFrags name with | some d => some d | none => findFrag env.planFrags name) with
    | none => .error (.noFragment name)
    | some defn =>
      match splitByLoc env parentLoc defn.cond defn.sub [] with
      | .error e => .error e
      | .ok fl =>
        group env parentLoc parentType stepFrags rest
          (fl.foldl (fun acc p => (acc.1.add p.1 (.spread name dirs), acc.2.add p.1 ⟨name, defn.cond, defn.dirs, p.2⟩)) (lf, lfr))
  | .inline cond dirs sub :: rest, (lf, lfr) =>
    match splitByLoc env parentLoc (if cond == "" then parentType else cond) sub [] with
    | .error e => .error e
    | .ok fl =>
      group env parentLoc parentType stepFrags rest (fl.foldl (fun acc p => acc.add p.1 (.inline cond dirs p.2)) lf, lfr)

/-! ### `wrapSelectionSet` -/

/-- `defn := defs.ForName(name); defn.SelectionSet = sub` (the first definition of that name) -/
def setFirst (name : String) (sub : List Sel) : List FragDef → Option (List FragDef)
  | [] => none
  | d :: ds => if d.name == name then some ({ d with sub := sub } :: ds) else (setFirst name sub ds).map (d :: ·)

/-- the definitions appended for the spreads among the wrappers -/
def wrapDefs (parentType : String) : List Sel → List FragDef
  | [] => []
  | .spread n _ :: ws => ⟨n, parentType, [], []⟩ :: wrapDefs parentType ws
  | _ :: ws => wrapDefs parentType ws

/-- nest `inner` inside the wrappers, outermost first -/
def wrapNest : List Sel → List Sel → List FragDef → Except Err (List Sel × List FragDef)
  | [], inner, defs => .ok (inner, defs)
  | .inline c d _ :: ws, inner, defs =>
    match wrapNest ws inner defs with
    | .error e => .error e
    | .ok (x, defs') => .ok ([.inline c d x], defs')
  | .spread n d :: ws, inner, defs =>
    match wrapNest ws inner defs with
    | .error e => .error e
    | .ok (x, defs') =>
      match setFirst n x defs' with
      | none => .error .noWrapDefn
      | some defs'' => .ok ([.spread n d], defs'')
  | .field .. :: ws, inner, defs => wrapNest ws inner defs     -- a field is never a wrapper

def wrap (wrapper : List Sel) (parentType : String) (defs : List FragDef) (inner : List Sel) :
    Except Err (List Sel × List FragDef) :=
  wrapNest wrapper inner (defs ++ wrapDefs parentType wrapper)

/-! ### pending steps and `addStep` -/

structure Payload where
  parent : Option Nat
  location : Loc
  parentType : String
  ip : List String
  sel : List Sel
  frags : List FragDef
deriving Repr, Inhabited

/-- `existing.SelectionSet = appendNewSelections(existing.SelectionSet, defn.SelectionSet)` on the first
    definition of that name -/
def updFirst (d : FragDef) : List FragDef → List FragDef
  | [] => []
  | e :: es => if e.name == d.name then { e with sub := appendNew e.sub d.sub } :: es else e :: updFirst d es

/-- merging the fragment definitions of a payload into those of the pending step it joins -/
def mergeFrags (pending : List FragDef) : List FragDef → List FragDef
  | [] => pending
  | d :: ds =>
    if pending.any (fun e => e.name == d.name) then mergeFrags (updFirst d pending) ds
    else mergeFrags (pending ++ [d]) ds

def samePlace (a b : Payload) : Bool :=
  a.parent == b.parent && a.location == b.location && a.parentType == b.parentType && a.ip == b.ip

def addStep : List Payload → Payload → List Payload
  | [], p => [p]
  | q :: qs, p =>
    if samePlace q p then { q with sel := appendNew q.sel p.sel, frags := mergeFrags q.frags p.frags } :: qs
    else q :: addStep qs p

/-! ### `extractSelection` -/

structure St where
  vars : List String          -- step.Variables
  frags : List FragDef        -- step.FragmentDefinitions
  queue : List Payload        -- newSteps
deriving Inhabited

structure Cfg where
  step : Nat                  -- the step being built (the `Parent` of what it kicks off)
  loc : Loc                   -- parentLocation
  parentType : String
  stepFrags : List FragDef    -- config.fragments
  sel : List Sel
  ip : List String
  wrapper : List Sel
deriving Inhabited

def dirVars (ds : List Dir) : List String := ds.flatMap (·.vars)

def dirsOf : Sel → List Dir
  | .field _ _ _ _ d _ _ => d
  | .inline _ d _ => d
  | .spread _ d => d

def isInline : Sel → Bool
  | .inline .. => true
  | _ => false

/-- the wrapper passed below a field: a leading spread is kept, inline fragments are left behind except for
    their conditions, and the field's own conditions are added -/
def fieldWrapper (wrapper : List Sel) (fieldDirs : List Dir) : List Sel :=
  let kept := match wrapper with
    | w :: _ => if isInline w then [] else [w]
    | [] => []
  let conds := (wrapper.drop kept.length).filterMap fun w =>
    if (dirsOf w).isEmpty then none else some (.inline "" (dirsOf w) [])
  kept ++ conds ++ (if fieldDirs.isEmpty then [] else [.inline "" fieldDirs []])

/-- replace the definition of that name, or append -/
def putFrag (d : FragDef) : List FragDef → List FragDef
  | [] => [d]
  | e :: es => if e.name == d.name then d :: es else e :: putFrag d es

def idField : Sel := .field "id" "id" "" [] [] "" []

/-- one iteration of the loop over the current location's selections -/
def processSel (rec : Cfg → St → Except Err (List Sel × St)) (cfg : Cfg) (localFrags : List FragDef)
    (s : Sel) (st : St) : Except Err (Sel × St) :=
  match s with
  | .field a n g gv d t sub =>
    let addVars (st : St) : St := { st with vars := st.vars ++ gv ++ dirVars d }
    if sub.isEmpty then .ok (.field a n g gv d t sub, addVars st)
    else
      -- beneath a field nothing has been split yet: the step's own fragment definitions do not apply there
      match rec { cfg with parentType := t, stepFrags := [], sel := sub, ip := cfg.ip ++ [a], wrapper := fieldWrapper cfg.wrapper d } st with
      | .error e => .error e
      | .ok (sub', st') => .ok (.field a n g gv d t sub', addVars st')
  | .spread name dirs =>
    let st := { st with vars := st.vars ++ dirVars dirs }
    match findFrag localFrags name with
    | none => .error (.noLocalFragment name)
    | some defn =>
      match rec { cfg with parentType := defn.cond, sel := defn.sub, wrapper := cfg.wrapper ++ [.spread name dirs] } st with
      | .error e => .error e
      | .ok (sub', st') =>
        match findFrag st'.frags name with
        | none => .ok (.spread name dirs, { st' with frags := st'.frags ++ [⟨name, defn.cond, defn.dirs, sub'⟩] })
        | some existing =>
          -- the step already carries a part of this fragment: the same one (it splits the same way here), or
          -- another one — then this place gets its part inline, one name cannot stand for both.  (A fragment
          -- definition always has a type condition; the model keeps the spread for an empty one.)
          if beqSels existing.sub sub' || defn.cond == "" then .ok (.spread name dirs, st')
          else .ok (.inline defn.cond dirs sub', st')
  | .inline cond dirs sub =>
    let st := { st with vars := st.vars ++ dirVars dirs }
    match rec { cfg with parentType := (if cond == "" then cfg.parentType else cond), sel := sub,
                         wrapper := cfg.wrapper ++ [.inline cond dirs sub] } st with
    | .error e => .error e
    | .ok (sub', st') => .ok (.inline cond dirs sub', st')

def processSels (rec : Cfg → St → Except Err (List Sel × St)) (cfg : Cfg) (localFrags : List FragDef) :
    List Sel → St → Except Err (List Sel × St)
  | [], st => .ok ([], st)
  | s :: ss, st =>
    match processSel rec cfg localFrags s st with
    | .error e => .error e
    | .ok (s', st') =>
      match processSels rec cfg localFrags ss st' with
      | .error e => .error e
      | .ok (ss', st'') => .ok (s' :: ss', st'')

/-- the loop over the other locations: every bundle becomes (part of) a pending step -/
def kickOff (cfg : Cfg) (lfr : Buckets FragDef) : Buckets Sel → St → Except Err St
  | [], st => .ok st
  | (location, ss) :: rest, st =>
    if location == cfg.loc then kickOff cfg lfr rest st
    else
      match (if cfg.wrapper.isEmpty then Except.ok (ss, lfr.get location)
             else wrap cfg.wrapper cfg.parentType (lfr.get location) ss) with
      | .error e => .error e
      | .ok (ss', fr') =>
        let p : Payload :=
          { parent := some cfg.step, location := location, parentType := cfg.parentType, ip := cfg.ip, sel := ss', frags := fr' }
        kickOff cfg lfr rest { st with queue := addStep st.queue p }

def extract (env : Env) : Nat → Cfg → St → Except Err (List Sel × St)
  | 0, _, _ => .error .fuel
  | n + 1, cfg, st =>
    match group env cfg.loc cfg.parentType cfg.stepFrags cfg.sel ([], []) with
    | .error e => .error e
    | .ok (lf, lfr) =>
      match kickOff cfg lfr lf st with
      | .error e => .error e
      | .ok st1 =>
        let checkForID := lf.any (fun p => p.1 != cfg.loc)
        let cur := lf.get cfg.loc ++ (if checkForID then [idField] else [])
        processSels (extract env n) cfg (lfr.get cfg.loc) cur st1

/-! ### `plannerBuildQuery` and the work list of `generatePlans` -/

def isRootType (t : String) : Bool := t == "Query" || t == "Mutation" || t == "Subscription"

def operationKind (parentType : String) : String :=
  if parentType == "Mutation" then "mutation" else if parentType == "Subscription" then "subscription" else "query"

structure Step where
  id : Nat
  parent : Option Nat
  location : Loc
  parentType : String
  ip : List String
  sel : List Sel
  frags : List FragDef
  vars : List String
deriving Repr, Inhabited

/-- the selection set of the built operation -/
def builtSelection (s : Step) : List Sel :=
  if isRootType s.parentType then s.sel
  else [.field "node" "node" "(id: $id)" ["id"] [] "Node" [.inline s.parentType [] s.sel]]

/-- the variable definitions of the built operation -/
def builtVars (s : Step) : List String :=
  if isRootType s.parentType || s.vars.contains "id" then s.vars.eraseDups else s.vars.eraseDups ++ ["id"]

/-- the loop "build steps until there are none left"; `next` numbers the steps -/
def buildSteps (env : Env) (fuel : Nat) : Nat → Nat → List Payload → List Step → Except Err (List Step)
  | 0, _, [], acc => .ok acc
  | 0, _, _ :: _, _ => .error .fuel
  | _ + 1, _, [], acc => .ok acc
  | k + 1, next, p :: queue, acc =>
    match extract env fuel
        { step := next, loc := p.location, parentType := p.parentType, stepFrags := p.frags, sel := p.sel, ip := p.ip, wrapper := [] }
        { vars := [], frags := [], queue := queue } with
    | .error e => .error e
    | .ok (sel, st) =>
      buildSteps env fuel k (next + 1) st.queue
        (acc ++ [{ id := next, parent := p.parent, location := p.location, parentType := p.parentType, ip := p.ip,
                   sel := sel, frags := st.frags, vars := st.vars }])

def rootTypeOf (operation : String) : String :=
  if operation == "mutation" then "Mutation" else if operation == "subscription" then "Subscription" else "Query"

/-- the steps of one operation's plan (step 0 is the empty root step) -/
def planOperation (env : Env) (fuel : Nat) (operation : String) (sels : List Sel) : Except Err (List Step) :=
  buildSteps env fuel fuel 0
    [{ parent := none, location := "", parentType := rootTypeOf operation, ip := [], sel := sels, frags := [] }] []

end Pl
