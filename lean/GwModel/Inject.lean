/-! C18 specification prototype: place a file at the null position a path names. -/
namespace Inj

inductive J where
  | null | file (n : Nat) | atom (s : String)
  | arr (xs : List J) | obj (kvs : List (String × J))
deriving Repr, Inhabited

inductive Err | notFound | outOfRange | badIndex | notNull | notContainer
deriving Repr, DecidableEq

/-- a decimal natural, no sign, no junk (what `strconv.Atoi` accepts minus negatives) -/
def parseNat (s : String) : Option Nat := if s.isEmpty then none else s.toNat?

mutual
/-- `setAt v segs f`: walk `segs` from `v`; the position reached must hold `null`; put the file there -/
def setAt (f : Nat) : J → List String → Except Err J
  | .null, [] => .ok (.file f)
  | _, [] => .error .notNull
  | .obj kvs, k :: rest => (setKey f kvs k rest).map .obj
  | .arr xs, k :: rest =>
    match parseNat k with
    | none => .error .badIndex
    | some i => (setIdx f xs i rest).map .arr
  | _, _ :: _ => .error .notContainer
def setKey (f : Nat) : List (String × J) → String → List String → Except Err (List (String × J))
  | [], _, _ => .error .notFound
  | (k', v) :: kvs, k, rest =>
    if k' = k then (setAt f v rest).map (fun v' => (k', v') :: kvs)
    else (setKey f kvs k rest).map (fun kvs' => (k', v) :: kvs')
def setIdx (f : Nat) : List J → Nat → List String → Except Err (List J)
  | [], _, _ => .error .outOfRange
  | x :: xs, 0, rest => (setAt f x rest).map (fun x' => x' :: xs)
  | x :: xs, i+1, rest => (setIdx f xs i rest).map (fun xs' => x :: xs')
end

mutual
def getAt : J → List String → Option J
  | v, [] => some v
  | .obj kvs, k :: rest => getKey kvs k rest
  | .arr xs, k :: rest => (parseNat k).bind fun i => getIdx xs i rest
  | _, _ :: _ => none
def getKey : List (String × J) → String → List String → Option J
  | [], _, _ => none
  | (k', v) :: kvs, k, rest => if k' = k then getAt v rest else getKey kvs k rest
def getIdx : List J → Nat → List String → Option J
  | [], _, _ => none
  | x :: _, 0, rest => getAt x rest
  | _ :: xs, i+1, rest => getIdx xs i rest
end

#eval setAt 7 (.obj [("a", .obj [("f", .null), ("g", .atom "x")]), ("l", .arr [.null, .obj [("f", .null)]])]) ["l", "1", "f"]
#eval setAt 7 (.obj [("a", .null)]) ["a", "b"]
#eval setAt 7 (.obj [("a", .arr [.null])]) ["a", "-1"]


theorem map_ok {α β} {f : α → β} {x : Except Err α} {y : β} (h : x.map f = .ok y) :
    ∃ a, x = .ok a ∧ y = f a := by
  cases x with
  | error e => cases h
  | ok a => exact ⟨a, rfl, by cases h; rfl⟩

mutual
/-- target was null and now holds the file -/
theorem setAt_target (f : Nat) : ∀ (v : J) (p : List String) (v' : J),
    setAt f v p = .ok v' → getAt v p = some .null ∧ getAt v' p = some (.file f)
  | .null, [], v', h => by simp [setAt] at h; subst h; simp [getAt]
  | .file _, [], _, h => by simp [setAt] at h
  | .atom _, [], _, h => by simp [setAt] at h
  | .arr _, [], _, h => by simp [setAt] at h
  | .obj _, [], _, h => by simp [setAt] at h
  | .obj kvs, k :: rest, v', h => by
    simp only [setAt] at h
    obtain ⟨kvs', hk, rfl⟩ := map_ok h
    simpa [getAt] using setKey_target f kvs k rest kvs' hk
  | .arr xs, k :: rest, v', h => by
    simp only [setAt] at h
    cases hp : parseNat k with
    | none => simp [hp] at h
    | some i =>
      simp only [hp] at h
      obtain ⟨xs', hk, rfl⟩ := map_ok h
      simpa [getAt, hp] using setIdx_target f xs i rest xs' hk
  | .null, _ :: _, _, h => by simp [setAt] at h
  | .file _, _ :: _, _, h => by simp [setAt] at h
  | .atom _, _ :: _, _, h => by simp [setAt] at h
theorem setKey_target (f : Nat) : ∀ (kvs : List (String × J)) (k : String) (rest : List String)
    (kvs' : List (String × J)), setKey f kvs k rest = .ok kvs' →
    getKey kvs k rest = some .null ∧ getKey kvs' k rest = some (.file f)
  | [], _, _, _, h => by simp [setKey] at h
  | (k', v) :: kvs, k, rest, kvs', h => by
    simp only [setKey] at h
    by_cases hk : k' = k
    · simp only [hk, if_true] at h
      obtain ⟨v', hv, rfl⟩ := map_ok h
      simpa [getKey, hk] using setAt_target f v rest v' hv
    · simp only [hk, if_false] at h
      obtain ⟨kvs'', hv, rfl⟩ := map_ok h
      simpa [getKey, hk] using setKey_target f kvs k rest kvs'' hv
theorem setIdx_target (f : Nat) : ∀ (xs : List J) (i : Nat) (rest : List String) (xs' : List J),
    setIdx f xs i rest = .ok xs' →
    getIdx xs i rest = some .null ∧ getIdx xs' i rest = some (.file f)
  | [], _, _, _, h => by simp [setIdx] at h
  | x :: xs, 0, rest, xs', h => by
    simp only [setIdx] at h
    obtain ⟨x', hv, rfl⟩ := map_ok h
    simpa [getIdx] using setAt_target f x rest x' hv
  | x :: xs, i+1, rest, xs', h => by
    simp only [setIdx] at h
    obtain ⟨xs'', hv, rfl⟩ := map_ok h
    simpa [getIdx] using setIdx_target f xs i rest xs'' hv
end

#print axioms setAt_target
end Inj
