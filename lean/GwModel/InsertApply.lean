import GwModel.InsertPath
/-! Stitching keeps values well-formed; collector messages and their commutation. -/
namespace Ins

theorem wf_empty : WF (.obj []) := .obj [] (by simp [Sorted]) (by simp)

theorem wf_finish {x v y : J} (hx : WF x) (hv : WF v) (h : finish x v = some y) : WF y := by
  cases x with
  | obj kvs =>
    cases v with
    | obj inc => simp [finish] at h; subst h; exact wf_mergeK hx hv
    | null => simp [finish] at h; subst h; exact hx
    | leaf s => simp [finish] at h; subst h; exact hx
    | arr l => simp [finish] at h; subst h; exact hx
  | null => cases v <;> simp [finish] at h
  | leaf s => cases v <;> simp [finish] at h
  | arr l => cases v <;> simp [finish] at h

theorem wf_updAt {F : J → Option J} (hF : ∀ e e', WF e → F e = some e' → WF e') :
    ∀ (l : List J) (i : Nat) (l' : List J), (∀ x ∈ l, WF x) → updAt l i F = some l' → ∀ x ∈ l', WF x
  | [], 0, l', _, h => by
    simp only [updAt] at h
    cases hf : F (.obj []) with
    | none => simp [hf] at h
    | some e => simp [hf] at h; subst h; intro x hx; simp at hx; subst hx; exact hF _ _ wf_empty hf
  | [], i + 1, l', hl, h => by
    simp only [updAt] at h
    cases hu : updAt [] i F with
    | none => simp [hu] at h
    | some r =>
      simp [hu] at h; subst h
      intro x hx
      rcases List.mem_cons.1 hx with hx | hx
      · subst hx; exact wf_empty
      · exact wf_updAt hF [] i r hl hu x hx
  | y :: ys, 0, l', hl, h => by
    simp only [updAt] at h
    cases hf : F y with
    | none => simp [hf] at h
    | some e =>
      simp [hf] at h; subst h
      intro x hx
      rcases List.mem_cons.1 hx with hx | hx
      · subst hx; exact hF _ _ (hl y (List.mem_cons_self ..)) hf
      · exact hl x (List.mem_cons_of_mem _ hx)
  | y :: ys, i + 1, l', hl, h => by
    simp only [updAt] at h
    cases hu : updAt ys i F with
    | none => simp [hu] at h
    | some r =>
      simp [hu] at h; subst h
      intro x hx
      rcases List.mem_cons.1 hx with hx | hx
      · subst hx; exact hl _ (List.mem_cons_self ..)
      · exact wf_updAt hF ys i r (fun z hz => hl z (List.mem_cons_of_mem _ hz)) hu x hx

theorem wf_insertAt : ∀ (p : List Pt) (x v y : J), WF x → WF v → insertAt x p v = some y → WF y
  | [], x, v, y, hx, hv, h => wf_finish hx hv (by simpa [insertAt] using h)
  | a :: rest, x, v, y, hx, hv, h => by
    cases x with
    | null => simp [insertAt] at h
    | leaf s => simp [insertAt] at h
    | arr l => simp [insertAt] at h
    | obj kvs =>
      rw [insertAt_cons] at h
      cases hs : stepOf (lookup a.key kvs) a.idx rest v with
      | none => simp [hs] at h
      | some c =>
        simp [hs] at h; subst h
        apply wf_put hx
        obtain ⟨f, idx⟩ := a
        cases idx with
        | none =>
          simp only [stepOf] at hs
          exact wf_insertAt rest _ v c (wf_childOfCur hx f) hv hs
        | some i =>
          simp only [stepOf] at hs
          have hF : ∀ e e', WF e → (fun e => insertAt e rest v) e = some e' → WF e' :=
            fun e e' he h' => wf_insertAt rest e v e' he hv h'
          cases hl : lookup f kvs with
          | none =>
            simp only [hl] at hs
            cases hu : updAt [] i fun e => insertAt e rest v with
            | none => simp [hu] at hs
            | some l' =>
              simp [hu] at hs; subst hs
              exact .arr _ (wf_updAt hF [] i l' (by simp) hu)
          | some c0 =>
            cases c0 with
            | arr l0 =>
              simp only [hl] at hs
              cases hu : updAt l0 i fun e => insertAt e rest v with
              | none => simp [hu] at hs
              | some l' =>
                simp [hu] at hs; subst hs
                exact .arr _ (wf_updAt hF l0 i l' (hx.vals f _ (mem_of_lookup hl)).elems hu)
            | null => simp [hl] at hs
            | leaf s => simp [hl] at hs
            | obj k => simp [hl] at hs

theorem wf_insertRoot {x v y : J} (hx : WF x) (hv : WF v) (h : insertRoot x v = some y) : WF y := by
  cases x <;> cases v <;> simp [insertRoot] at h
  subst h; exact wf_mergeK hx hv

/-- a collector message -/
structure Msg where
  path : List Pt
  val : J

theorem wf_apply {s : Option J} {m : Msg} (hs : ∀ x, s = some x → WF x) (hv : WF m.val) :
    ∀ y, apply s m.path m.val = some y → WF y := by
  intro y h
  cases s with
  | none => simp [apply] at h
  | some x =>
    simp only [apply, Option.bind_some] at h
    split at h
    · exact wf_insertRoot (hs x rfl) hv h
    · exact wf_insertAt _ _ _ _ (hs x rfl) hv h

/-- `insertRoot` is `insertAt` with the empty path for object values -/
theorem insertRoot_eq {x : J} {inc : KVs} : insertRoot x (.obj inc) = insertAt x [] (.obj inc) := by
  cases x <;> simp [insertRoot, insertAt, finish]

/-- two independent messages commute on every (well-formed) accumulated response; root messages carry objects -/
theorem apply_comm {s : Option J} {m₁ m₂ : Msg} (hs : ∀ x, s = some x → WF x) (h₁ : WF m₁.val) (h₂ : WF m₂.val)
    (r₁ : m₁.path = [] → ∃ inc, m₁.val = .obj inc) (r₂ : m₂.path = [] → ∃ inc, m₂.val = .obj inc)
    (hi : Indep m₁.path m₁.val m₂.path m₂.val) :
    apply (apply s m₁.path m₁.val) m₂.path m₂.val = apply (apply s m₂.path m₂.val) m₁.path m₁.val := by
  cases s with
  | none => simp [apply]
  | some x =>
    have hx := hs x rfl
    have e : ∀ (m : Msg), (m.path = [] → ∃ inc, m.val = .obj inc) → ∀ y,
        (if m.path.isEmpty then insertRoot y m.val else insertAt y m.path m.val) = insertAt y m.path m.val := by
      intro m r y
      cases hp : m.path with
      | nil => obtain ⟨inc, hv⟩ := r hp; simp [hv, insertRoot_eq]
      | cons a t => simp
    simp only [apply, Option.bind_some, e m₁ r₁, e m₂ r₂]
    exact insert_comm _ _ x _ _ hx h₁ h₂ hi

end Ins
