import GwModel.InsertWF
/-! Updates of two list entries commute; two updates of one entry compose. -/
namespace Ins

/-! ### lists -/

theorem updAt_congr {F G : J → Option J} : ∀ (l : List J) (i : Nat), (∀ x ∈ l, WF x) →
    (∀ e, WF e → F e = G e) → updAt l i F = updAt l i G
  | [], 0, _, h => by simp [updAt, h _ (.obj [] (by simp [Sorted]) (by simp))]
  | [], i + 1, hl, h => by simp [updAt, updAt_congr [] i hl h]
  | x :: xs, 0, hl, h => by simp [updAt, h x (hl x (List.mem_cons_self ..))]
  | x :: xs, i + 1, hl, h => by
    simp [updAt, updAt_congr xs i (fun y hy => hl y (List.mem_cons_of_mem _ hy)) h]

theorem updAt_updAt_same {F G : J → Option J} : ∀ (l : List J) (i : Nat),
    (updAt l i F).bind (fun l' => updAt l' i G) = updAt l i (fun e => (F e).bind G)
  | [], 0 => by simp [updAt]; cases F (.obj []) <;> simp [updAt]
  | [], i + 1 => by
    have ih := updAt_updAt_same (F := F) (G := G) [] i
    simp only [updAt]
    cases h : updAt [] i F with
    | none => simp [h] at ih ⊢; simp [← ih]
    | some r => simp [h] at ih ⊢; simp [updAt, ih]
  | x :: xs, 0 => by simp [updAt]; cases F x <;> simp [updAt]
  | x :: xs, i + 1 => by
    have ih := updAt_updAt_same (F := F) (G := G) xs i
    simp only [updAt]
    cases h : updAt xs i F with
    | none => simp [h] at ih ⊢; simp [← ih]
    | some r => simp [h] at ih ⊢; simp [updAt, ih]

theorem updAt_updAt_ne {F G : J → Option J} : ∀ (l : List J) (i j : Nat), i ≠ j →
    (updAt l i F).bind (fun l' => updAt l' j G) = (updAt l j G).bind (fun l' => updAt l' i F)
  | [], 0, 0, h => absurd rfl h
  | [], 0, j + 1, _ => by
    simp only [updAt]
    cases hF : F (.obj []) <;> cases hG : updAt [] j G <;> simp [updAt, hF, hG]
  | [], i + 1, 0, _ => by
    simp only [updAt]
    cases hG : G (.obj []) <;> cases hF : updAt [] i F <;> simp [updAt, hF, hG]
  | [], i + 1, j + 1, h => by
    have ih := updAt_updAt_ne (F := F) (G := G) [] i j (by omega)
    simp only [updAt]
    cases hF : updAt [] i F <;> cases hG : updAt [] j G <;> simp [updAt, hF, hG] at ih ⊢ <;> first | (simp [ih]; done) | simp [← ih]
  | x :: xs, 0, 0, h => absurd rfl h
  | x :: xs, 0, j + 1, _ => by
    simp only [updAt]
    cases hF : F x <;> cases hG : updAt xs j G <;> simp [updAt, hF, hG]
  | x :: xs, i + 1, 0, _ => by
    simp only [updAt]
    cases hG : G x <;> cases hF : updAt xs i F <;> simp [updAt, hF, hG]
  | x :: xs, i + 1, j + 1, h => by
    have ih := updAt_updAt_ne (F := F) (G := G) xs i j (by omega)
    simp only [updAt]
    cases hF : updAt xs i F <;> cases hG : updAt xs j G <;> simp [updAt, hF, hG] at ih ⊢ <;> first | (simp [ih]; done) | simp [← ih]

end Ins
