/-! The comparisons merge.go makes between two declarations of one field, argument or directive application
    (`mergeTypesEqual`, `mergeValuesEqual`, `mergeArgumentDefinitionList`, `mergeArgumentListEqual`,
    `mergeDirectiveEqual`), over structured types and values instead of the opaque signature strings of `MergeDef`.

    Proved: the type comparison and the (deep) value comparison are exactly equality — name, nullability and list
    depth at every level; kind, raw text, child names and child values at every level — so "accepted" means
    "declared identically" and the relation is symmetric and transitive (what `MergeDef`'s characterisation and the
    order-independence of C10 assume of signatures).  Argument lists are compared by name: under distinct names the
    comparison holds in both directions or in neither. -/
namespace Ms

/-- `ast.Type`: a named type, or a list of an element type; each with its own nullability -/
inductive Ty where
  | mk (named : String) (nonNull : Bool) (elem : Option Ty)
deriving Repr

instance : Inhabited Ty := ⟨.mk "" false none⟩

/-- `ast.Value`: kind, raw text, and for lists and objects the children (name, value) -/
inductive V where
  | mk (kind raw : String) (children : List (String × V))
deriving Repr

instance : Inhabited V := ⟨.mk "" "" []⟩

mutual
/-- `mergeTypesEqual` -/
def typesEqual : Option Ty → Option Ty → Bool
  | none, none => true
  | some (.mk n1 nn1 e1), some (.mk n2 nn2 e2) => n1 == n2 && nn1 == nn2 && typesEqual e1 e2
  | _, _ => false
end

mutual
/-- `mergeValuesEqual` on two non-nil values -/
def valueEq : V → V → Bool
  | .mk k1 r1 c1, .mk k2 r2 c2 => k1 == k2 && r1 == r2 && childrenEq c1 c2
/-- same number of children, same names, equal values, position by position -/
def childrenEq : List (String × V) → List (String × V) → Bool
  | [], [] => true
  | (n1, v1) :: r1, (n2, v2) :: r2 => n1 == n2 && valueEq v1 v2 && childrenEq r1 r2
  | _, _ => false
end

/-- `mergeValuesEqual` (a missing default value equals only a missing one) -/
def valuesEqual : Option V → Option V → Bool
  | none, none => true
  | some a, some b => valueEq a b
  | _, _ => false

/-! ### the comparisons are equality -/
theorem typesEqual_iff : ∀ (a b : Option Ty), typesEqual a b = true ↔ a = b
  | none, none => by simp [typesEqual]
  | none, some _ => by simp [typesEqual]
  | some _, none => by simp [typesEqual]
  | some (.mk n1 nn1 e1), some (.mk n2 nn2 e2) => by
    simp only [typesEqual, Bool.and_eq_true, beq_iff_eq, Option.some.injEq, Ty.mk.injEq]
    rw [typesEqual_iff e1 e2]
    constructor
    · rintro ⟨⟨h1, h2⟩, h3⟩; exact ⟨h1, h2, h3⟩
    · rintro ⟨h1, h2, h3⟩; exact ⟨⟨h1, h2⟩, h3⟩

mutual
theorem valueEq_iff : ∀ (a b : V), valueEq a b = true ↔ a = b
  | .mk k1 r1 c1, .mk k2 r2 c2 => by
    simp only [valueEq, Bool.and_eq_true, beq_iff_eq, V.mk.injEq]
    rw [childrenEq_iff c1 c2]
    constructor
    · rintro ⟨⟨h1, h2⟩, h3⟩; exact ⟨h1, h2, h3⟩
    · rintro ⟨h1, h2, h3⟩; exact ⟨⟨h1, h2⟩, h3⟩
theorem childrenEq_iff : ∀ (a b : List (String × V)), childrenEq a b = true ↔ a = b
  | [], [] => by simp [childrenEq]
  | [], _ :: _ => by simp [childrenEq]
  | _ :: _, [] => by simp [childrenEq]
  | (n1, v1) :: r1, (n2, v2) :: r2 => by
    simp only [childrenEq, Bool.and_eq_true, beq_iff_eq, List.cons.injEq, Prod.mk.injEq]
    rw [valueEq_iff v1 v2, childrenEq_iff r1 r2]
end

theorem valuesEqual_iff : ∀ (a b : Option V), valuesEqual a b = true ↔ a = b
  | none, none => by simp [valuesEqual]
  | none, some _ => by simp [valuesEqual]
  | some _, none => by simp [valuesEqual]
  | some a, some b => by simp [valuesEqual, valueEq_iff]

/-! ### argument definitions: compared by name -/
structure ArgDef where
  name : String
  type : Ty
  default : Option V
deriving Repr

/-- `ArgumentDefinitionList.ForName`: the first definition of that name -/
def forName (l : List ArgDef) (name : String) : Option ArgDef := l.find? (fun a => a.name == name)

/-- `mergeArgumentDefinitions` (types and default values must agree) -/
def argDefEq (a b : ArgDef) : Bool := typesEqual (some a.type) (some b.type) && valuesEqual a.default b.default

/-- `mergeArgumentDefinitionList`: same length, and every argument of the first list has an equal counterpart of
    the same name in the second -/
def argDefsEq (l1 l2 : List ArgDef) : Bool :=
  l1.length == l2.length && l1.all fun a => match forName l2 a.name with
    | some b => argDefEq a b
    | none => false

theorem argDefEq_iff (a b : ArgDef) : argDefEq a b = true ↔ a.type = b.type ∧ a.default = b.default := by
  simp [argDefEq, typesEqual_iff, valuesEqual_iff]

/-- with distinct names, what the first list's arguments find in the second is the arguments themselves -/
theorem forName_of_mem : ∀ {l : List ArgDef} {a : ArgDef}, (l.map (·.name)).Nodup → a ∈ l → forName l a.name = some a
  | x :: l, a, hnd, hm => by
    simp only [List.map_cons, List.nodup_cons] at hnd
    unfold forName
    simp only [List.find?_cons]
    rcases List.mem_cons.1 hm with h | h
    · subst h; simp
    · have hne : x.name ≠ a.name := by
        intro e; exact hnd.1 (e ▸ List.mem_map.2 ⟨a, h, rfl⟩)
      have : (x.name == a.name) = false := by simpa using hne
      simp only [this]
      exact forName_of_mem hnd.2 h

/-- an accepted pair of argument lists declares the same arguments: every argument of the first list is, with
    equal type and default, an argument of the second -/
theorem argDefsEq_subset {l1 l2 : List ArgDef} (h : argDefsEq l1 l2 = true) :
    l1.length = l2.length ∧ ∀ a ∈ l1, ∃ b ∈ l2, b.name = a.name ∧ b.type = a.type ∧ b.default = a.default := by
  simp only [argDefsEq, Bool.and_eq_true, beq_iff_eq, List.all_eq_true] at h
  refine ⟨h.1, ?_⟩
  intro a ha
  have := h.2 a ha
  split at this
  · rename_i b hb
    have hmem := List.mem_of_find?_eq_some hb
    have hname : b.name = a.name := by
      have := List.find?_some hb
      simpa using this
    obtain ⟨ht, hd⟩ := (argDefEq_iff a b).1 this
    exact ⟨b, hmem, hname, ht.symm, hd.symm⟩
  · cases this

/-- two lists with distinct names that declare the same arguments are accepted -/
theorem argDefsEq_of_same {l1 l2 : List ArgDef} (hn2 : (l2.map (·.name)).Nodup) (hlen : l1.length = l2.length)
    (h : ∀ a ∈ l1, a ∈ l2) : argDefsEq l1 l2 = true := by
  simp only [argDefsEq, Bool.and_eq_true, beq_iff_eq, List.all_eq_true]
  refine ⟨hlen, ?_⟩
  intro a ha
  rw [forName_of_mem hn2 (h a ha)]
  exact (argDefEq_iff a a).2 ⟨rfl, rfl⟩

/-- a list is accepted against itself -/
theorem argDefsEq_refl {l : List ArgDef} (hn : (l.map (·.name)).Nodup) : argDefsEq l l = true :=
  argDefsEq_of_same hn rfl (fun _ h => h)

/-- **symmetry under distinct names**: the comparison holds in both directions or in neither (so the outcome does
    not depend on which service is listed first) -/
theorem argDefsEq_symm {l1 l2 : List ArgDef} (hn1 : (l1.map (·.name)).Nodup) (hn2 : (l2.map (·.name)).Nodup)
    (h : argDefsEq l1 l2 = true) : argDefsEq l2 l1 = true := by
  obtain ⟨hlen, hsub⟩ := argDefsEq_subset h
  -- every argument of l1 IS an argument of l2 (same name, type, default)
  have hmem : ∀ a ∈ l1, a ∈ l2 := by
    intro a ha
    obtain ⟨b, hb, h1, h2, h3⟩ := hsub a ha
    have : b = a := by
      cases a; cases b; simp_all
    exact this ▸ hb
  -- the names of l1 are among the names of l2, both lists of names are duplicate-free and equally long: so the
  -- names of l2 are among the names of l1 as well
  have hnames : ∀ n ∈ l2.map (·.name), n ∈ l1.map (·.name) := by
    intro n hn
    apply Classical.byContradiction
    intro hnot
    have hsub' : l1.map (·.name) ⊆ (l2.map (·.name)).erase n := by
      intro x hx
      have hxn : x ≠ n := fun e => hnot (e ▸ hx)
      obtain ⟨a, ha, rfl⟩ := List.mem_map.1 hx
      exact (List.mem_erase_of_ne hxn).2 (List.mem_map.2 ⟨a, hmem a ha, rfl⟩)
    have h1 := List.Nodup.length_le_of_subset hn1 hsub'
    have h2 : ((l2.map (·.name)).erase n).length = (l2.map (·.name)).length - 1 := by
      rw [List.length_erase]; simp [hn]
    have h3 : 1 ≤ (l2.map (·.name)).length := List.length_pos_of_mem hn
    simp only [List.length_map] at h1 h2 h3
    omega
  refine argDefsEq_of_same hn1 hlen.symm ?_
  intro b hb
  obtain ⟨a, ha, hab⟩ := List.mem_map.1 (hnames b.name (List.mem_map.2 ⟨b, hb, rfl⟩))
  -- a and b are both in l2 under one name
  have e1 := forName_of_mem hn2 (hmem a ha)
  have e2 := forName_of_mem hn2 hb
  rw [hab] at e1
  rw [e1] at e2
  exact (Option.some.inj e2) ▸ ha

end Ms
