/-! JSON-level model of the executor's stitching helpers (execute.go):

    * `merge`    — `executorMergeValues(existing, incoming)`
    * `insertAt` — `executorInsertObject(target, path, value)` for a non-empty path, i.e.
                   `executorExtractValue` (which creates missing objects, creates and pads missing lists) followed
                   by the key-by-key merge of `value` into the object reached
    * `insertRoot` — the same call with an empty path (the root step)

    Go's maps are unordered; the model keeps an object as an association list which `put` keeps in key order
    (keys are interned to `Nat` by the driver), so that equal objects are equal terms.  `lookup` and `put` share
    one scanning discipline (stop at the first key ≥ k), which makes their laws hold on every list; the
    order-sensitive theorems (`GwModel/InsertLemmas.lean`) assume `WF` (keys strictly increasing, recursively),
    which `put`, `merge` and `insertAt` preserve and the decoder establishes.

    `none` stands for the Go function returning an error. -/
namespace Ins

inductive J where
  | null
  | leaf (s : String)            -- a scalar, by its JSON text
  | arr (xs : List J)
  | obj (kvs : List (Nat × J))
deriving Repr, Inhabited

abbrev KVs := List (Nat × J)

def lookup (k : Nat) : KVs → Option J
  | [] => none
  | (k', v) :: r => if k = k' then some v else if k < k' then none else lookup k r

def put (k : Nat) (v : J) : KVs → KVs
  | [] => [(k, v)]
  | (k', v') :: r =>
    if k = k' then (k, v) :: r else if k < k' then (k, v) :: (k', v') :: r else (k', v') :: put k v r

/-- Go: `m[k]` of a missing key is nil -/
def lookupD (k : Nat) (l : KVs) : J := (lookup k l).getD .null

mutual
/-- `executorMergeValues` -/
def merge : J → J → J
  | .obj ex, .obj inc => .obj (mergeK ex inc)
  | .arr ex, .arr inc => if ex.length = inc.length then .arr (mergeL ex inc) else .arr inc
  | _, .null => .null
  | _, .leaf s => .leaf s
  | .null, .arr inc => .arr inc
  | .leaf _, .arr inc => .arr inc
  | .obj _, .arr inc => .arr inc
  | .null, .obj inc => .obj inc
  | .leaf _, .obj inc => .obj inc
  | .arr _, .obj inc => .obj inc
/-- `for key, value := range incoming { existing[key] = merge(existing[key], value) }` -/
def mergeK : KVs → KVs → KVs
  | ex, [] => ex
  | ex, (k, v) :: r => mergeK (put k (merge (lookupD k ex) v) ex) r
/-- element by element (only used at equal lengths) -/
def mergeL : List J → List J → List J
  | e :: es, i :: is => merge e i :: mergeL es is
  | _, _ => []
end

/-- a path element: the field and, for a list element, the index -/
structure Pt where
  key : Nat
  idx : Option Nat
deriving Repr, DecidableEq

/-- the end of `executorInsertObject`: the place reached must be an object; an object value is merged into it
    key by key, any other value is ignored -/
def finish : J → J → Option J
  | .obj kvs, .obj inc => some (.obj (mergeK kvs inc))
  | .obj kvs, _ => some (.obj kvs)
  | _, _ => none

/-- `executorExtractValue` at a list point: pad the list with `{}` up to index `i`, then continue in entry `i`
    (written as one recursion: entry `i` of the padded list is replaced by what `f` makes of it) -/
def updAt : List J → Nat → (J → Option J) → Option (List J)
  | [], 0, f => (f (.obj [])).map fun e => [e]
  | [], i + 1, f => (updAt [] i f).map fun r => .obj [] :: r
  | x :: xs, 0, f => (f x).map fun e => e :: xs
  | x :: xs, i + 1, f => (updAt xs i f).map fun r => x :: r

/-- what `executorExtractValue` finds or creates under a non-list point -/
def childOfCur : Option J → J
  | none => .obj []
  | some .null => .obj []
  | some c => c

def childOf (kvs : KVs) (f : Nat) : J := childOfCur (lookup f kvs)

def insertAt : J → List Pt → J → Option J
  | x, [], v => finish x v
  | .obj kvs, ⟨f, none⟩ :: rest, v =>
    (insertAt (childOf kvs f) rest v).map fun c => .obj (put f c kvs)
  | .obj kvs, ⟨f, some i⟩ :: rest, v =>
    match lookup f kvs with
    | none => (updAt [] i fun e => insertAt e rest v).map fun l => .obj (put f (.arr l) kvs)
    | some (.arr l0) => (updAt l0 i fun e => insertAt e rest v).map fun l => .obj (put f (.arr l) kvs)
    | some _ => none
  | _, _ :: _, _ => none

/-- the root step: the value must be an object and is merged into the (object) result -/
def insertRoot : J → J → Option J
  | .obj kvs, .obj inc => some (.obj (mergeK kvs inc))
  | _, _ => none

/-- one message of the collector: `none` once an insertion has failed -/
def apply (s : Option J) (path : List Pt) (v : J) : Option J :=
  s.bind fun x => if path.isEmpty then insertRoot x v else insertAt x path v

end Ins
