/-! JSON-level model of the executor's stitching helpers (execute.go):

    * `merge`    — `executorMergeValues(existing, incoming)`
    * `insertAt` — `executorInsertObject(target, path, value)` for a non-empty path, i.e.
                   `executorExtractValue` (which creates missing objects, creates and pads missing lists) followed
                   by the key-by-key merge of `value` into the object reached
    * `insertRoot` — the same call with an empty path (the root step)

    Go's maps are unordered; the model keeps an object as an association list which `put` keeps in key order
    (keys are interned to `Nat` by the driver), so that equal objects are equal terms.  `lookup` and `put` share
    one scanning discipline (stop at the first key ≥ k), which makes their laws hold on every list; the
    order-sensitive theorems (`GwModel/InsertLemmas.lean`) assume `WF` (keys strictly increasing, recursively),
    which `put`, `merge` and `insertAt` preserve and the decoder establishes.

    `none` stands for the Go function returning an error. -/
namespace Ins

inductive J where
  | null
  | leaf (s : String)            -- a scalar, by its JSON text
  | arr (xs : List J)
  | obj (kvs : List (Nat × J))
deriving Repr, Inhabited

abbrev KVs := List (Nat × J)

def lookup (k : Nat) : KVs → Option J
  | [] => none
  | (k', v) :: r => if k = k' then some v else if k < k' then none else lookup k r

def put (k : Nat) (v : J) : KVs → KVs
  | [] => [(k, v)]
  | (k', v') :: r =>
    if k = k' then (k, v) :: r else if k < k' then (k, v) :: (k', v') :: r else (k', v') :: put k v r

/-- Go: `m[k]` of a missing key is nil -/
def lookupD (k : Nat) (l : KVs) : J := (lookup k l).getD .null

mutual
/-- `executorMergeValues` -/
def merge : J → J → J
  | .obj ex, .obj inc => .obj (mergeK ex inc)
  | .arr ex, .arr inc => if ex.length = inc.length then .arr (mergeL ex inc) else .arr inc
  | _, .null => .null
  | _, .leaf s => .leaf s
  | .null, .arr inc => .arr inc
  | .leaf _, .arr inc => .arr inc
  | .obj _, .arr inc => .arr inc
  | .null, .obj inc => .obj inc
  | .leaf _, .obj inc => .obj inc
  | .arr _, .obj inc => .obj inc
/-- `for key, value := range incoming { existing[key] = merge(existing[key], value) }` -/
def mergeK : KVs → KVs → KVs
  | ex, [] => ex
  | ex, (k, v) :: r => mergeK (put k (merge (lookupD k ex) v) ex) r
/-- element by element (only used at equal lengths) -/
def mergeL : List J → List J → List J
  | e :: es, i :: is => merge e i :: mergeL es is
  | _, _ => []
end

/-- a path element: the field and, for a list element, the index -/
structure Pt where
  key : Nat
  idx : Option Nat
deriving Repr, DecidableEq

/-- the end of `executorInsertObject`: the place reached must be an object; an object value is merged into it
    key by key, any other value is ignored -/
def finish : J → J → Option J
  | .obj kvs, .obj inc => some (.obj (mergeK kvs inc))
  | .obj kvs, _ => some (.obj kvs)
  | _, _ => none

/-- `append` until the list has `n` entries -/
def padTo (l : List J) (n : Nat) : List J := l ++ List.replicate (n - l.length) (.obj [])

/-- what `executorExtractValue` finds or creates under a non-list point -/
def childOf (kvs : KVs) (f : Nat) : J :=
  match lookup f kvs with
  | none => .obj []
  | some .null => .obj []
  | some c => c

def insertAt : J → List Pt → J → Option J
  | x, [], v => finish x v
  | .obj kvs, ⟨f, none⟩ :: rest, v =>
    (insertAt (childOf kvs f) rest v).map fun c => .obj (put f c kvs)
  | .obj kvs, ⟨f, some i⟩ :: rest, v =>
    match lookup f kvs with
    | none =>
      let l := padTo [] (i + 1)
      (insertAt (l.getD i .null) rest v).map fun e => .obj (put f (.arr (l.set i e)) kvs)
    | some (.arr l0) =>
      let l := padTo l0 (i + 1)
      (insertAt (l.getD i .null) rest v).map fun e => .obj (put f (.arr (l.set i e)) kvs)
    | some _ => none
  | _, _ :: _, _ => none

/-- the root step: the value must be an object and is merged into the (object) result -/
def insertRoot : J → J → Option J
  | .obj kvs, .obj inc => some (.obj (mergeK kvs inc))
  | _, _ => none

/-- one message of the collector: `none` once an insertion has failed -/
def apply (s : Option J) (path : List Pt) (v : J) : Option J :=
  s.bind fun x => if path.isEmpty then insertRoot x v else insertAt x path v

end Ins
