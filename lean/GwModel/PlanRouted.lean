import GwModel.PlanFuel
/-! Planning a document whose every field has a location (C08, "a valid query gets a plan"; documents without named
    fragments).  `routedL env T sels`: every field of `sels`, read against the parent type the planner will read it
    against (`T` at the top, the field's own type below a field, the type condition below an inline fragment), has an
    entry in the routing table.  A document that validates against the merged schema is routed: every field it names
    is a field of that schema, and the routing table has an entry for every field of every service schema the merged
    schema was built from (`Props.C03.routed_exactly_to_declaring_services`).

    Proved: for a routed document the planner never ends with "no location for field" — neither for the client's
    selection nor for any selection it builds itself (bundles for other services, re-wrapped in the inline fragments
    they were found under, merged into pending steps).  Together with `planOperation_error_benign` and
    `extract_no_fragment` the only failure left is the model's own fuel. -/
namespace Pl

mutual
def routed (env : Env) (T : String) : Sel → Bool
  | .field _ n _ _ _ t sub => (urlFor env T n).isSome && routedL env t sub
  | .inline c _ sub => routedL env (if c == "" then T else c) sub
  | .spread _ _ => true
def routedL (env : Env) (T : String) : List Sel → Bool
  | [] => true
  | s :: ss => routed env T s && routedL env T ss
end

theorem routedL_mem {env : Env} {T : String} : ∀ {l : List Sel}, routedL env T l = true → ∀ s ∈ l, routed env T s = true
  | [], _, s, hs => by cases hs
  | x :: l, h, s, hs => by
    simp only [routedL, Bool.and_eq_true] at h
    rcases List.mem_cons.1 hs with hs | hs
    · subst hs; exact h.1
    · exact routedL_mem h.2 s hs

theorem routedL_of_mem {env : Env} {T : String} : ∀ {l : List Sel}, (∀ s ∈ l, routed env T s = true) → routedL env T l = true
  | [], _ => rfl
  | x :: l, h => by
    simp only [routedL, Bool.and_eq_true]
    exact ⟨h x (List.mem_cons_self ..), routedL_of_mem (fun s hs => h s (List.mem_cons_of_mem _ hs))⟩

theorem routedL_append {env : Env} {T : String} (a b : List Sel) (ha : routedL env T a = true) (hb : routedL env T b = true) :
    routedL env T (a ++ b) = true :=
  routedL_of_mem (fun s hs => by
    rcases List.mem_append.1 hs with hs | hs
    · exact routedL_mem ha s hs
    · exact routedL_mem hb s hs)

/-- a field with an entry in the table is never reported as having no location -/
theorem locate_not_noRoute {env : Env} {pl : Loc} {T n : String} (h : (urlFor env T n).isSome = true) (t f : String) :
    locate env pl T n ≠ .error (.noRoute t f) := by
  unfold locate
  cases hu : urlFor env T n with
  | none => rw [hu] at h; cases h
  | some possible =>
    simp only
    split <;> simp

/-! ### bundles of a routed selection are routed -/
def BucketsRouted (env : Env) (T : String) (b : Buckets Sel) : Prop := ∀ l ss, (l, ss) ∈ b → ∀ s ∈ ss, routed env T s = true

theorem bucketsRouted_nil (env : Env) (T : String) : BucketsRouted env T [] := by intro l ss h; cases h

theorem bucketsRouted_add {env : Env} {T : String} {b : Buckets Sel} {l : Loc} {x : Sel} (hb : BucketsRouted env T b)
    (hx : routed env T x = true) : BucketsRouted env T (b.add l x) := by
  intro l' ss' hm s hs
  rcases mem_add hm with hm | ⟨h1, old, h2, h3⟩
  · exact hb l' ss' hm s hs
  · subst h1; subst h2
    rcases List.mem_append.1 hs with hs | hs
    · rcases h3 with h3 | h3
      · exact hb _ _ h3 s hs
      · subst h3; cases hs
    · have : s = x := by simpa using hs
      subst this; exact hx

theorem splitByLoc_routed {env : Env} {pl : Loc} {T : String} :
    ∀ (sels : List Sel) (b : Buckets Sel), routedL env T sels = true → BucketsRouted env T b →
      (∀ t f, splitByLoc env pl T sels b ≠ .error (.noRoute t f)) ∧
      (∀ b', splitByLoc env pl T sels b = .ok b' → BucketsRouted env T b')
  | [], b, _, hb => ⟨by simp [splitByLoc], by intro b' h; simp only [splitByLoc] at h; cases h; exact hb⟩
  | .field a n g gv d t s :: rest, b, hr, hb => by
    simp only [routedL, Bool.and_eq_true] at hr
    have hx := hr.1
    have hu : (urlFor env T n).isSome = true := by
      simp only [routed, Bool.and_eq_true] at hx; exact hx.1
    simp only [splitByLoc]
    cases hl : locate env pl T n with
    | error e =>
      refine ⟨?_, by intro b' h; cases h⟩
      intro t' f' h
      simp only [Except.error.injEq] at h
      exact locate_not_noRoute hu t' f' (by rw [hl, h])
    | ok l =>
      simp only
      exact splitByLoc_routed rest _ hr.2 (bucketsRouted_add hb hx)
  | .inline c d s :: rest, b, hr, hb => by
    simp only [routedL, Bool.and_eq_true] at hr
    simp only [splitByLoc]
    exact splitByLoc_routed rest _ hr.2 (bucketsRouted_add hb hr.1)
  | .spread n d :: rest, b, hr, hb => by
    simp only [routedL, Bool.and_eq_true] at hr
    simp only [splitByLoc]
    exact splitByLoc_routed rest _ hr.2 (bucketsRouted_add hb hr.1)

theorem bucketsRouted_fold_inline {env : Env} {T : String} (c : String) (d : List Dir) :
    ∀ (fl : Buckets Sel) (lf : Buckets Sel), BucketsRouted env (if c == "" then T else c) fl → BucketsRouted env T lf →
      BucketsRouted env T (fl.foldl (fun acc p => acc.add p.1 (.inline c d p.2)) lf)
  | [], _, _, h => h
  | p :: fl, lf, hfl, h => by
    simp only [List.foldl_cons]
    refine bucketsRouted_fold_inline c d fl _ (fun l ss hm => hfl l ss (List.mem_cons_of_mem _ hm)) (bucketsRouted_add h ?_)
    simp only [routed]
    exact routedL_of_mem (hfl p.1 p.2 (List.mem_cons_self ..))

theorem group_routed {env : Env} {pl : Loc} {T : String} {sf : List FragDef} :
    ∀ (sels : List Sel) (acc : Buckets Sel × Buckets FragDef), noSpreadL sels = true → routedL env T sels = true →
      BucketsRouted env T acc.1 →
      (∀ t f, group env pl T sf sels acc ≠ .error (.noRoute t f)) ∧
      (∀ res, group env pl T sf sels acc = .ok res → BucketsRouted env T res.1)
  | [], acc, _, _, ha => ⟨by simp [group], by intro res h; simp only [group] at h; cases h; exact ha⟩
  | .field a n g gv d t s :: rest, (lf, lfr), hns, hr, ha => by
    simp only [noSpreadL, Bool.and_eq_true] at hns
    simp only [routedL, Bool.and_eq_true] at hr
    have hx := hr.1
    have hu : (urlFor env T n).isSome = true := by
      simp only [routed, Bool.and_eq_true] at hx; exact hx.1
    simp only [group]
    cases hl : locate env pl T n with
    | error e =>
      refine ⟨?_, by intro res h; cases h⟩
      intro t' f' h
      simp only [Except.error.injEq] at h
      exact locate_not_noRoute hu t' f' (by rw [hl, h])
    | ok l =>
      simp only
      exact group_routed rest _ hns.2 hr.2 (bucketsRouted_add ha hx)
  | .spread name dirs :: rest, _, hns, _, _ => by simp [noSpreadL, noSpread] at hns
  | .inline cond dirs sub :: rest, (lf, lfr), hns, hr, ha => by
    simp only [noSpreadL, Bool.and_eq_true] at hns
    simp only [routedL, Bool.and_eq_true] at hr
    have hsub : routedL env (if cond == "" then T else cond) sub = true := by simpa [routed] using hr.1
    obtain ⟨hne, hok⟩ := splitByLoc_routed (pl := pl) sub [] hsub (bucketsRouted_nil env _)
    simp only [group]
    cases hs : splitByLoc env pl (if cond == "" then T else cond) sub [] with
    | error e =>
      refine ⟨?_, by intro res h; cases h⟩
      intro t' f' h
      simp only [Except.error.injEq] at h
      exact hne t' f' (by rw [hs, h])
    | ok fl =>
      simp only
      exact group_routed rest _ hns.2 hr.2 (bucketsRouted_fold_inline cond dirs fl lf (hok fl hs) ha)

/-! ### the wrappers: which type the innermost wrapped selection is read against -/

/-- the type a selection is read against after passing through the wrappers -/
def typeAfter (T : String) : List Sel → String
  | [] => T
  | .inline c _ _ :: ws => typeAfter (if c == "" then T else c) ws
  | _ :: ws => typeAfter T ws

/-- every wrapper is an inline fragment without a type condition (what is passed below a field) -/
def condsEmpty : List Sel → Bool
  | [] => true
  | .inline c _ _ :: ws => c == "" && condsEmpty ws
  | _ :: _ => false

theorem typeAfter_condsEmpty (T : String) : ∀ (ws : List Sel), condsEmpty ws = true → typeAfter T ws = T
  | [], _ => rfl
  | .inline c d s :: ws, h => by
    simp only [condsEmpty, Bool.and_eq_true, beq_iff_eq] at h
    simp only [typeAfter, h.1]
    exact typeAfter_condsEmpty T ws h.2
  | .field .. :: ws, h => by simp [condsEmpty] at h
  | .spread .. :: ws, h => by simp [condsEmpty] at h

theorem typeAfter_append_inline (T : String) (c : String) (d : List Dir) (s : List Sel) :
    ∀ (ws : List Sel), typeAfter T (ws ++ [.inline c d s]) = (if c == "" then typeAfter T ws else c)
  | [] => by simp [typeAfter]
  | .inline c' d' s' :: ws => by simp only [List.cons_append, typeAfter]; exact typeAfter_append_inline _ c d s ws
  | .field .. :: ws => by simp only [List.cons_append, typeAfter]; exact typeAfter_append_inline _ c d s ws
  | .spread .. :: ws => by simp only [List.cons_append, typeAfter]; exact typeAfter_append_inline _ c d s ws

theorem condsEmpty_append : ∀ (a b : List Sel), condsEmpty a = true → condsEmpty b = true → condsEmpty (a ++ b) = true
  | [], _, _, hb => hb
  | .inline c d s :: a, b, ha, hb => by
    simp only [condsEmpty, Bool.and_eq_true, List.cons_append] at ha ⊢
    exact ⟨ha.1, condsEmpty_append a b ha.2 hb⟩
  | .field .. :: a, _, ha, _ => by simp [condsEmpty] at ha
  | .spread .. :: a, _, ha, _ => by simp [condsEmpty] at ha

theorem condsEmpty_filterMap (l : List Sel) :
    condsEmpty (l.filterMap fun w => if (dirsOf w).isEmpty then none else some (Sel.inline "" (dirsOf w) [])) = true := by
  induction l with
  | nil => rfl
  | cons w l ih =>
    simp only [List.filterMap_cons]
    split
    · exact ih
    · rename_i x hx
      split at hx
      · cases hx
      · cases hx; simp only [condsEmpty, beq_self_eq_true, Bool.true_and]; exact ih

theorem condsEmpty_fieldWrapper (ws : List Sel) (d : List Dir) (h : inlineOnly ws = true) :
    condsEmpty (fieldWrapper ws d) = true := by
  have tail : condsEmpty (if d.isEmpty then [] else [Sel.inline "" d []]) = true := by
    split <;> simp [condsEmpty]
  cases ws with
  | nil =>
    simp only [fieldWrapper, List.length_nil, List.drop_zero, List.filterMap_nil, List.append_nil, List.nil_append]
    exact tail
  | cons w ws' =>
    cases w with
    | inline c' d' s' =>
      simp only [fieldWrapper, isInline, if_true, List.length_nil, List.drop_zero, List.nil_append]
      exact condsEmpty_append _ _ (condsEmpty_filterMap _) tail
    | field a n g gv dd t ss => simp [inlineOnly] at h
    | spread n dd => simp [inlineOnly] at h

/-- a selection wrapped in inline fragments is routed when the inner selection is, read against the type the
    wrappers lead to -/
theorem wrapNest_routed {env : Env} : ∀ (ws inner : List Sel) (defs : List FragDef) (T : String), inlineOnly ws = true →
    routedL env (typeAfter T ws) inner = true →
    ∃ x, wrapNest ws inner defs = .ok (x, defs) ∧ routedL env T x = true
  | [], inner, defs, T, _, hi => ⟨inner, rfl, hi⟩
  | .inline c d s :: ws, inner, defs, T, hw, hi => by
    simp only [typeAfter] at hi
    obtain ⟨x, h1, h2⟩ := wrapNest_routed ws inner defs _ (by simpa [inlineOnly] using hw) hi
    exact ⟨[.inline c d x], by simp [wrapNest, h1], by simp only [routedL, routed, Bool.and_true]; exact h2⟩
  | .spread n d :: ws, _, _, _, hw, _ => by simp [inlineOnly] at hw
  | .field a n g gv d t s :: ws, _, _, _, hw, _ => by simp [inlineOnly] at hw

/-! ### pending steps stay routed -/
def QueueRouted (env : Env) (queue : List Payload) : Prop := ∀ p ∈ queue, routedL env p.parentType p.sel = true

theorem appendNew_routed {env : Env} {T : String} : ∀ (source target : List Sel), routedL env T target = true →
    routedL env T source = true → routedL env T (appendNew target source) = true
  | [], target, ht, _ => by simpa [appendNew] using ht
  | x :: source, target, ht, hs => by
    simp only [appendNew, List.foldl_cons]
    simp only [routedL, Bool.and_eq_true] at hs
    refine appendNew_routed source _ ?_ hs.2
    split
    · exact ht
    · exact routedL_append _ _ ht (by simp [routedL, hs.1])

theorem addStep_routed {env : Env} : ∀ {queue : List Payload} {p : Payload}, QueueRouted env queue →
    routedL env p.parentType p.sel = true → QueueRouted env (addStep queue p)
  | [], p, _, hp => by intro p' h; simp only [addStep, List.mem_singleton] at h; subst h; exact hp
  | o :: os, p, hq, hp => by
    intro p' h
    simp only [addStep] at h
    split at h
    · rename_i hsame
      rcases List.mem_cons.1 h with h | h
      · subst h
        simp only [samePlace, Bool.and_eq_true, beq_iff_eq] at hsame
        have ho := hq o (List.mem_cons_self ..)
        simp only
        exact appendNew_routed p.sel o.sel ho (by rw [hsame.1.2]; exact hp)
      · exact hq p' (List.mem_cons_of_mem _ h)
    · rcases List.mem_cons.1 h with h | h
      · subst h; exact hq _ (List.mem_cons_self ..)
      · exact addStep_routed (fun x hx => hq x (List.mem_cons_of_mem _ hx)) hp p' h

theorem kickOff_routed {env : Env} {cfg : Cfg} {lfr : Buckets FragDef} (hw : inlineOnly cfg.wrapper = true)
    (hT : typeAfter cfg.parentType cfg.wrapper = cfg.parentType) :
    ∀ (lf : Buckets Sel) (st : St), BucketsRouted env cfg.parentType lf → QueueRouted env st.queue →
      (∀ t f, kickOff cfg lfr lf st ≠ .error (.noRoute t f)) ∧
      (∀ st1, kickOff cfg lfr lf st = .ok st1 → QueueRouted env st1.queue)
  | [], st, _, hq => ⟨by simp [kickOff], by intro st1 h; simp only [kickOff] at h; cases h; exact hq⟩
  | (location, ss0) :: rest, st, hb, hq => by
    have hrest : BucketsRouted env cfg.parentType rest := fun l ss hm => hb l ss (List.mem_cons_of_mem _ hm)
    have hss0 : routedL env cfg.parentType ss0 = true := routedL_of_mem (hb location ss0 (List.mem_cons_self ..))
    simp only [kickOff]
    split
    · exact kickOff_routed hw hT rest st hrest hq
    · -- the bundle, wrapped, becomes (part of) a pending step
      have hwrapped : ∃ x, (if cfg.wrapper.isEmpty then Except.ok (ss0, lfr.get location)
            else wrap cfg.wrapper cfg.parentType (lfr.get location) ss0) = .ok (x, lfr.get location) ∧
          routedL env cfg.parentType x = true := by
        split
        · exact ⟨ss0, rfl, hss0⟩
        · unfold wrap
          rw [wrapDefs_inlineOnly cfg.parentType cfg.wrapper hw, List.append_nil]
          exact wrapNest_routed cfg.wrapper ss0 _ cfg.parentType hw (by rw [hT]; exact hss0)
      obtain ⟨x, hx1, hx2⟩ := hwrapped
      rw [hx1]
      simp only
      exact kickOff_routed hw hT rest _ hrest (addStep_routed hq (by simpa using hx2))

/-- the invariant of one call of `extractSelection` on a routed selection -/
def RecRouted (env : Env) (rec : Cfg → St → Except Err (List Sel × St)) : Prop :=
  ∀ cfg st, routedL env cfg.parentType cfg.sel = true → noSpreadL cfg.sel = true → inlineOnly cfg.wrapper = true →
    typeAfter cfg.parentType cfg.wrapper = cfg.parentType → QueueRouted env st.queue →
    (∀ t f, rec cfg st ≠ .error (.noRoute t f)) ∧ (∀ sel st', rec cfg st = .ok (sel, st') → QueueRouted env st'.queue)

theorem processSel_routed {env : Env} {rec : Cfg → St → Except Err (List Sel × St)} (hrec : RecRouted env rec) {cfg : Cfg}
    (hw : inlineOnly cfg.wrapper = true) (hT : typeAfter cfg.parentType cfg.wrapper = cfg.parentType)
    {localFrags : List FragDef} {s : Sel} {st : St}
    (hs : (noSpread s = true ∧ routed env cfg.parentType s = true) ∨ s = idField) (hq : QueueRouted env st.queue) :
    (∀ t f, processSel rec cfg localFrags s st ≠ .error (.noRoute t f)) ∧
    (∀ s' st', processSel rec cfg localFrags s st = .ok (s', st') → QueueRouted env st'.queue) := by
  rcases hs with ⟨hns, hr⟩ | hid
  · cases s with
    | field a n g gv d t sub =>
      have hnsub : noSpreadL sub = true := by simpa [noSpread] using hns
      have hrsub : routedL env t sub = true := by
        simp only [routed, Bool.and_eq_true] at hr; exact hr.2
      simp only [processSel]
      split
      · exact ⟨by simp, by intro s' st' h; cases h; exact hq⟩
      · split
        · rename_i e hr'
          refine ⟨?_, by intro s' st' h; cases h⟩
          intro t' f' h
          simp only [Except.error.injEq] at h
          subst h
          exact (hrec _ _ hrsub hnsub (inlineOnly_fieldWrapper cfg.wrapper d hw)
            (typeAfter_condsEmpty t _ (condsEmpty_fieldWrapper cfg.wrapper d hw)) hq).1 t' f' hr'
        · rename_i sub' st1 hr'
          refine ⟨by simp, ?_⟩
          intro s' st' h
          cases h
          have := (hrec _ _ hrsub hnsub (inlineOnly_fieldWrapper cfg.wrapper d hw)
            (typeAfter_condsEmpty t _ (condsEmpty_fieldWrapper cfg.wrapper d hw)) hq).2 sub' st1 hr'
          simpa using this
    | spread name dirs => simp [noSpread] at hns
    | inline cond dirs sub =>
      have hnsub : noSpreadL sub = true := by simpa [noSpread] using hns
      have hrsub : routedL env (if cond == "" then cfg.parentType else cond) sub = true := by simpa [routed] using hr
      have hT' : typeAfter (if cond == "" then cfg.parentType else cond) (cfg.wrapper ++ [.inline cond dirs sub]) =
          (if cond == "" then cfg.parentType else cond) := by
        rw [typeAfter_append_inline]
        by_cases hc : (cond == "") = true
        · simp only [hc, if_true]; exact hT
        · simp only [hc]; rfl
      have hq' : QueueRouted env ({ st with vars := st.vars ++ dirVars dirs } : St).queue := hq
      simp only [processSel]
      split
      · rename_i e hr'
        refine ⟨?_, by intro s' st' h; cases h⟩
        intro t' f' h
        simp only [Except.error.injEq] at h
        subst h
        exact (hrec _ _ hrsub hnsub (inlineOnly_append_inline cfg.wrapper cond dirs sub hw) hT' hq').1 t' f' hr'
      · rename_i sub' st1 hr'
        refine ⟨by simp, ?_⟩
        intro s' st' h
        cases h
        exact (hrec _ _ hrsub hnsub (inlineOnly_append_inline cfg.wrapper cond dirs sub hw) hT' hq').2 sub' st1 hr'
  · subst hid
    simp only [idField, processSel, List.isEmpty_nil, if_true]
    exact ⟨by simp, by intro s' st' h; cases h; exact hq⟩

theorem processSels_routed {env : Env} {rec : Cfg → St → Except Err (List Sel × St)} (hrec : RecRouted env rec) {cfg : Cfg}
    (hw : inlineOnly cfg.wrapper = true) (hT : typeAfter cfg.parentType cfg.wrapper = cfg.parentType)
    {localFrags : List FragDef} :
    ∀ (ss : List Sel) (st : St), (∀ s ∈ ss, (noSpread s = true ∧ routed env cfg.parentType s = true) ∨ s = idField) →
      QueueRouted env st.queue →
      (∀ t f, processSels rec cfg localFrags ss st ≠ .error (.noRoute t f)) ∧
      (∀ ss' st', processSels rec cfg localFrags ss st = .ok (ss', st') → QueueRouted env st'.queue)
  | [], st, _, hq => ⟨by simp [processSels], by intro ss' st' h; simp only [processSels] at h; cases h; exact hq⟩
  | s :: ss, st, hs, hq => by
    obtain ⟨hne1, hok1⟩ := processSel_routed hrec hw hT (localFrags := localFrags) (hs s (List.mem_cons_self ..)) hq
    simp only [processSels]
    cases h1 : processSel rec cfg localFrags s st with
    | error e =>
      refine ⟨?_, by intro ss' st' h; cases h⟩
      intro t' f' h
      simp only [Except.error.injEq] at h
      exact hne1 t' f' (by rw [h1, h])
    | ok r1 =>
      obtain ⟨s1, st1⟩ := r1
      simp only
      obtain ⟨hne2, hok2⟩ := processSels_routed hrec hw hT (localFrags := localFrags) ss st1
        (fun x hx => hs x (List.mem_cons_of_mem _ hx)) (hok1 s1 st1 h1)
      cases h2 : processSels rec cfg localFrags ss st1 with
      | error e =>
        refine ⟨?_, by intro ss' st' h; cases h⟩
        intro t' f' h
        simp only [Except.error.injEq] at h
        exact hne2 t' f' (by rw [h2, h])
      | ok r2 =>
        obtain ⟨ss1, st2⟩ := r2
        refine ⟨by simp, ?_⟩
        intro ss' st' h
        cases h
        exact hok2 ss1 st2 h2

theorem extract_routed (env : Env) : ∀ (fuel : Nat), RecRouted env (extract env fuel)
  | 0 => by
    intro cfg st _ _ _ _ _
    exact ⟨by simp [extract], by intro sel st' h; simp only [extract] at h; cases h⟩
  | n + 1 => by
    intro cfg st hr hns hw hT hq
    obtain ⟨gne, gok⟩ := group_routed (env := env) (pl := cfg.loc) (T := cfg.parentType) (sf := cfg.stepFrags) cfg.sel ([], []) hns hr
      (bucketsRouted_nil env _)
    simp only [extract]
    cases hg : group env cfg.loc cfg.parentType cfg.stepFrags cfg.sel ([], []) with
    | error e =>
      refine ⟨?_, by intro sel st' h; cases h⟩
      intro t' f' h
      simp only [Except.error.injEq] at h
      exact gne t' f' (by rw [hg, h])
    | ok res =>
      obtain ⟨lf, lfr⟩ := res
      simp only
      have hbr : BucketsRouted env cfg.parentType lf := gok (lf, lfr) hg
      have hbns : BucketsNoSpread lf := group_noSpread cfg.sel ([], []) (lf, lfr) hns hg bucketsNoSpread_nil
      obtain ⟨kne, kok⟩ := kickOff_routed (lfr := lfr) hw hT lf st hbr hq
      cases hk : kickOff cfg lfr lf st with
      | error e =>
        refine ⟨?_, by intro sel st' h; cases h⟩
        intro t' f' h
        simp only [Except.error.injEq] at h
        exact kne t' f' (by rw [hk, h])
      | ok st1 =>
        simp only
        have hcur : ∀ s ∈ Buckets.get lf cfg.loc ++ (if lf.any (fun p => p.1 != cfg.loc) then [idField] else []),
            (noSpread s = true ∧ routed env cfg.parentType s = true) ∨ s = idField := by
          intro s hs
          rcases List.mem_append.1 hs with hs | hs
          · rcases get_mem_or_nil lf cfg.loc with hm | hm
            · exact Or.inl ⟨hbns _ _ hm s hs, hbr _ _ hm s hs⟩
            · rw [hm] at hs; cases hs
          · split at hs
            · exact Or.inr (by simpa using hs)
            · cases hs
        exact processSels_routed (extract_routed env n) hw hT _ st1 hcur (kok st1 hk)

/-! ### whole plans -/
theorem buildSteps_routed (env : Env) (fuel : Nat) :
    ∀ (k next : Nat) (queue : List Payload) (acc : List Step) (t f : String),
      QueueRouted env queue → QueueNoSpread queue → buildSteps env fuel k next queue acc ≠ .error (.noRoute t f)
  | 0, _, [], acc, t, f, _, _ => by simp [buildSteps]
  | 0, _, _ :: _, _, t, f, _, _ => by simp [buildSteps]
  | _ + 1, _, [], acc, t, f, _, _ => by simp [buildSteps]
  | k + 1, next, p :: queue, acc, t, f, hq, hns => by
    have hp := hq p (List.mem_cons_self ..)
    have hpn := hns p (List.mem_cons_self ..)
    have hq' : QueueRouted env queue := fun o ho => hq o (List.mem_cons_of_mem _ ho)
    have hns' : QueueNoSpread queue := fun o ho => hns o (List.mem_cons_of_mem _ ho)
    obtain ⟨ene, eok⟩ := extract_routed env fuel
      { step := next, loc := p.location, parentType := p.parentType, stepFrags := p.frags, sel := p.sel, ip := p.ip, wrapper := [] }
      { vars := [], frags := [], queue := queue } hp hpn rfl rfl hq'
    simp only [buildSteps]
    cases he : extract env fuel
      { step := next, loc := p.location, parentType := p.parentType, stepFrags := p.frags, sel := p.sel, ip := p.ip, wrapper := [] }
      { vars := [], frags := [], queue := queue } with
    | error e =>
      intro h
      simp only [Except.error.injEq] at h
      exact ene t f (by rw [he, h])
    | ok r =>
      obtain ⟨sel, st⟩ := r
      simp only
      have hqns := extract_noSpread env fuel _ _ _ _ he hpn rfl hns'
      exact buildSteps_routed env fuel k _ _ _ t f (eok sel st he) hqns

/-- **A routed document is never refused for want of a location**: whatever the planner does with the selection —
    bundling for other services, wrapping, merging into pending steps, descending — every field it looks up is one
    the document named, read against the type the document named it under. -/
theorem planOperation_routed {env : Env} {fuel : Nat} {operation : String} {sels : List Sel}
    (hns : noSpreadL sels = true) (hr : routedL env (rootTypeOf operation) sels = true) (t f : String) :
    planOperation env fuel operation sels ≠ .error (.noRoute t f) := by
  refine buildSteps_routed env fuel _ _ _ _ t f ?_ ?_
  · intro p hp
    have : p = _ := List.mem_singleton.1 hp
    subst this; exact hr
  · intro p hp
    have : p = _ := List.mem_singleton.1 hp
    subst this; exact hns

end Pl
