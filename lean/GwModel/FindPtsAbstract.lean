import GwModel.FindPtsTwoLevel
namespace Fp
open Ins

/-- stitching at a family of places that pairwise part at a list index, in any order: every insertion succeeds, each
    stitched place holds its own payload merged into what it held, every other place of the family is untouched -/
theorem stitch_abstract (paths : List (List RPt)) (hsigs : (paths.map sig).Nodup)
    (hparts : ∀ p ∈ paths, ∀ q ∈ paths, sig p ≠ sig q → Parts p q) (payload : List RPt → KVs) :
    ∀ (l : List (List RPt)) (x : J), (∀ p ∈ l, p ∈ paths) → (l.map sig).Nodup →
      (∀ q ∈ paths, ∃ o, walk x q = some (.obj o)) →
      ∃ final, l.foldl (stitchOne payload) (some x) = some final ∧
        (∀ q ∈ paths, ∃ o, walk final q = some (.obj o)) ∧
        (∀ p ∈ l, ∀ o, walk x p = some (.obj o) → walk final p = some (.obj (mergeK o (payload p)))) ∧
        (∀ q ∈ paths, sig q ∉ l.map sig → walk final q = walk x q)
  | [], x, _, _, hx => by
    refine ⟨x, rfl, hx, ?_, ?_⟩
    · intro p hp; cases hp
    · intro q _ _; rfl
  | p :: l, x, hsub, hnd, hx => by
    have hpp := hsub p (List.mem_cons_self ..)
    obtain ⟨op, hwp⟩ := hx p hpp
    obtain ⟨x1, hins, hw1⟩ := insertAt_walk p x op (payload p) hwp
    -- every other place is untouched by this insertion
    have frame : ∀ q ∈ paths, sig q ≠ sig p → walk x1 q = walk x q := by
      intro q hq hne
      obtain ⟨oq, hwq⟩ := hx q hq
      have hparts := hparts p hpp q hq (fun e => hne e.symm)
      obtain ⟨x1', hins', hw'⟩ := insertAt_frame (payload p) p q x op oq hwp hwq hparts
      rw [hins] at hins'; cases hins'
      rw [hw', hwq]
    have hx1 : ∀ q ∈ paths, ∃ o, walk x1 q = some (.obj o) := by
      intro q hq
      by_cases e : sig q = sig p
      · have := sig_inj_of_nodup hsigs q hq p hpp e
        subst this; exact ⟨_, hw1⟩
      · rw [frame q hq e]; exact hx q hq
    simp only [List.map_cons, List.nodup_cons] at hnd
    obtain ⟨final, hfold, hfin, hmine, hrest⟩ :=
      stitch_abstract paths hsigs hparts payload l x1 (fun q hq => hsub q (List.mem_cons_of_mem _ hq)) hnd.2 hx1
    refine ⟨final, ?_, hfin, ?_, ?_⟩
    · simp only [List.foldl_cons, stitchOne, Option.bind_some, hins]
      exact hfold
    · intro q hq o hwq
      rcases List.mem_cons.1 hq with rfl | hq
      · rw [hwp] at hwq; cases hwq
        rw [hrest q hpp hnd.1, hw1]
      · have hqp := hsub q (List.mem_cons_of_mem _ hq)
        have hne : sig q ≠ sig p := by
          intro e; exact hnd.1 (e ▸ List.mem_map.2 ⟨q, hq, rfl⟩)
        exact hmine q hq o (by rw [frame q hqp hne]; exact hwq)
    · intro q hq hnot
      simp only [List.map_cons, List.mem_cons, not_or] at hnot
      rw [hrest q hq hnot.2, frame q hq hnot.1]


end Fp
