/-! Independent composition of transition systems (C11): n requests executing over one immutable plan form a
    product machine in which a step of request i changes component i only.  Every run of the product
    projects, per request, to a run of the single-request machine on exactly the actions of that request. -/
namespace Product

variable {S A : Type}

def run (step : S → A → Option S) : S → List A → Option S
  | s, [] => some s
  | s, a :: as => (step s a).bind fun s' => run step s' as

/-- one step of the product: request `i` performs action `a` -/
def pstep (step : S → A → Option S) (ss : List S) (ia : Nat × A) : Option (List S) :=
  match ss[ia.1]? with
  | none => none
  | some s => (step s ia.2).map fun s' => ss.set ia.1 s'

/-- the actions of request `i` in a product schedule -/
def proj (i : Nat) (sched : List (Nat × A)) : List A := (sched.filter fun p => p.1 == i).map (·.2)

theorem pstep_length (step : S → A → Option S) {ss ss' : List S} {ia : Nat × A} (h : pstep step ss ia = some ss') :
    ss'.length = ss.length := by
  unfold pstep at h
  split at h
  · cases h
  · rename_i s _
    cases hs : step s ia.2 with
    | none => simp [hs] at h
    | some s' => simp [hs] at h; subst h; simp

/-- **isolation**: whatever the interleaving, each request sees a run of its own machine on its own actions -/
theorem product_projects (step : S → A → Option S) :
    ∀ (sched : List (Nat × A)) (ss ss' : List S), run (pstep step) ss sched = some ss' →
      ∀ (i : Nat) (s : S), ss[i]? = some s → ∃ s', ss'[i]? = some s' ∧ run step s (proj i sched) = some s'
  | [], ss, ss', h, i, s, hs => by
    simp [run] at h; subst h; exact ⟨s, hs, by simp [proj, run]⟩
  | (j, a) :: sched, ss, ss', h, i, s, hs => by
    simp only [run] at h
    cases hp : pstep step ss (j, a) with
    | none => simp [hp] at h
    | some ss1 =>
      simp only [hp, Option.bind_some] at h
      unfold pstep at hp
      simp only at hp
      cases hj : ss[j]? with
      | none => simp [hj] at hp
      | some sj =>
        simp only [hj] at hp
        cases hst : step sj a with
        | none => simp [hst] at hp
        | some sj' =>
          simp only [hst, Option.map_some, Option.some.injEq] at hp
          subst hp
          by_cases hij : j = i
          · subst hij
            have hsj : sj = s := by rw [hs] at hj; cases hj; rfl
            subst hsj
            have hlt : j < ss.length := by
              rcases Nat.lt_or_ge j ss.length with h1 | h1
              · exact h1
              · rw [List.getElem?_eq_none h1] at hs; cases hs
            have hset : (ss.set j sj')[j]? = some sj' := by simp [hlt]
            obtain ⟨s', h1, h2⟩ := product_projects step sched _ ss' h j sj' hset
            refine ⟨s', h1, ?_⟩
            simp only [proj, List.filter_cons, beq_self_eq_true, if_true, List.map_cons, run, hst, Option.bind_some]
            exact h2
          · have hset : (ss.set j sj')[i]? = some s := by
              rw [List.getElem?_set_ne hij]; exact hs
            obtain ⟨s', h1, h2⟩ := product_projects step sched _ ss' h i s hset
            refine ⟨s', h1, ?_⟩
            have : ((j, a).1 == i) = false := by simpa using hij
            simp only [proj, List.filter_cons, this] at h2 ⊢
            exact h2

end Product
