import GwModel.PlanInject
import GwModel.PlanRouted
import GwModel.PlanPlaced
/-! Planning terminates (C08, "always returns"; documents without named fragments): with more fuel than the nesting
    depth and than the number of fields of the document, the planner model never runs out of fuel — neither inside
    one `extractSelection` (part 1: the nesting of everything the planner queues, wrappers included, stays within the
    nesting of the document) nor in the work list of `generatePlans` (parts 2-4: every pending step other than the
    root keeps at least one of the client's fields for itself, because the service chosen for a field is chosen again
    when asked from that service, so the fields still waiting strictly decrease).

    With `planOperation_routed` (no field without a location), `planOperation_error_benign` and `extract_no_fragment`
    this gives: a routed document without named fragments gets a plan. -/
namespace Pl

/-! ## Part 1: nesting depth of what is queued -/

theorem appendNew_mem {x : Sel} : ∀ (source target : List Sel), x ∈ appendNew target source → x ∈ target ∨ x ∈ source
  | [], target, h => by simp only [appendNew, List.foldl_nil] at h; exact Or.inl h
  | s :: source, target, h => by
    simp only [appendNew, List.foldl_cons] at h
    have ih := appendNew_mem source (if target.any (fun t => beqSel t s) then target else target ++ [s]) (by simpa [appendNew] using h)
    rcases ih with ih | ih
    · split at ih
      · exact Or.inl ih
      · rcases List.mem_append.1 ih with ih | ih
        · exact Or.inl ih
        · exact Or.inr (by simp at ih; subst ih; exact List.mem_cons_self ..)
    · exact Or.inr (List.mem_cons_of_mem _ ih)

theorem appendNew_mem_target {x : Sel} : ∀ (source target : List Sel), x ∈ target → x ∈ appendNew target source
  | [], target, h => by simpa [appendNew] using h
  | s :: source, target, h => by
    simp only [appendNew, List.foldl_cons]
    have := appendNew_mem_target source (if target.any (fun t => beqSel t s) then target else target ++ [s])
      (by split; exact h; exact List.mem_append.2 (Or.inl h))
    simpa [appendNew] using this

def QueueDepth (D : Nat) (queue : List Payload) : Prop := ∀ p ∈ queue, depthL p.sel ≤ D

theorem addStep_depth {D : Nat} : ∀ {queue : List Payload} {p : Payload}, QueueDepth D queue → depthL p.sel ≤ D →
    QueueDepth D (addStep queue p)
  | [], p, _, hp => by intro p' h; simp only [addStep, List.mem_singleton] at h; subst h; exact hp
  | o :: os, p, hq, hp => by
    intro p' h
    simp only [addStep] at h
    split at h
    · rcases List.mem_cons.1 h with h | h
      · subst h
        simp only
        apply depthL_le_of_mem
        intro s hs
        rcases appendNew_mem _ _ hs with hs | hs
        · exact Nat.le_trans (depth_le_depthL hs) (hq o (List.mem_cons_self ..))
        · exact Nat.le_trans (depth_le_depthL hs) hp
      · exact hq p' (List.mem_cons_of_mem _ h)
    · rcases List.mem_cons.1 h with h | h
      · subst h; exact hq _ (List.mem_cons_self ..)
      · exact addStep_depth (fun x hx => hq x (List.mem_cons_of_mem _ hx)) hp p' h

theorem wrapNest_depth : ∀ (ws inner : List Sel) (defs : List FragDef), inlineOnly ws = true →
    ∀ x defs', wrapNest ws inner defs = .ok (x, defs') → depthL x ≤ ws.length + depthL inner
  | [], inner, defs, _, x, defs', h => by simp only [wrapNest] at h; cases h; simp
  | .inline c d s :: ws, inner, defs, hw, x, defs', h => by
    simp only [wrapNest] at h
    split at h
    · cases h
    · rename_i x0 d0 h0
      have := wrapNest_depth ws inner defs (by simpa [inlineOnly] using hw) x0 d0 h0
      cases h
      simp only [depthL, depth, List.length_cons]
      omega
  | .spread n d :: ws, _, _, hw, _, _, _ => by simp [inlineOnly] at hw
  | .field a n g gv d t s :: ws, _, _, hw, _, _, _ => by simp [inlineOnly] at hw

theorem fieldWrapper_length (ws : List Sel) (d : List Dir) : (fieldWrapper ws d).length ≤ ws.length + 1 := by
  have h3 : (if d.isEmpty then ([] : List Sel) else [Sel.inline "" d []]).length ≤ 1 := by
    split
    · exact Nat.zero_le _
    · exact Nat.le_refl _
  have h1 : ∀ (l : List Sel), (l.filterMap fun w => if (dirsOf w).isEmpty then none else some (Sel.inline "" (dirsOf w) [])).length ≤ l.length :=
    fun l => List.length_filterMap_le _ l
  cases ws with
  | nil =>
    simp only [fieldWrapper, List.length_nil, List.drop_zero, List.filterMap_nil, List.append_nil, List.nil_append]
    omega
  | cons w ws' =>
    by_cases hi : isInline w = true
    · simp only [fieldWrapper, hi, if_true, List.length_nil, List.drop_zero, List.nil_append, List.length_append]
      have := h1 (w :: ws')
      omega
    · simp only [fieldWrapper, hi, List.length_append, List.length_cons]
      have := h1 ws'
      have e1 : (if false = true then ([] : List Sel) else [w]) = [w] := rfl
      rw [e1]
      have hd1 : List.drop [w].length (w :: ws') = ws' := rfl
      rw [hd1]
      simp only [List.length_singleton]
      omega

theorem kickOff_depth {D : Nat} {cfg : Cfg} {lfr : Buckets FragDef} (hw : inlineOnly cfg.wrapper = true) {d : Nat}
    (hd : cfg.wrapper.length + d ≤ D) :
    ∀ (lf : Buckets Sel) (st st1 : St), BucketsDepth d lf → kickOff cfg lfr lf st = .ok st1 →
      QueueDepth D st.queue → QueueDepth D st1.queue
  | [], st, st1, _, h, hq => by simp only [kickOff] at h; cases h; exact hq
  | (location, ss0) :: rest, st, st1, hb, h, hq => by
    have hrest : BucketsDepth d rest := fun l ss hm => hb l ss (List.mem_cons_of_mem _ hm)
    simp only [kickOff] at h
    split at h
    · exact kickOff_depth hw hd rest st st1 hrest h hq
    · split at h
      · cases h
      · rename_i ss' fr' hwrap
        have hss0 : depthL ss0 ≤ d := depthL_le_of_mem (hb location ss0 (List.mem_cons_self ..))
        have hss' : depthL ss' ≤ D := by
          split at hwrap
          · cases hwrap; omega
          · unfold wrap at hwrap
            have := wrapNest_depth cfg.wrapper ss0 _ hw ss' fr' hwrap
            omega
        refine kickOff_depth hw hd rest _ st1 hrest h ?_
        exact addStep_depth hq (by simpa using hss')

def RecDepth (D : Nat) (rec : Cfg → St → Except Err (List Sel × St)) : Prop :=
  ∀ cfg st sel st', rec cfg st = .ok (sel, st') → noSpreadL cfg.sel = true → inlineOnly cfg.wrapper = true →
    cfg.wrapper.length + depthL cfg.sel ≤ D → QueueDepth D st.queue → QueueDepth D st'.queue

theorem processSel_depth {D : Nat} {rec : Cfg → St → Except Err (List Sel × St)} (hrec : RecDepth D rec) {cfg : Cfg}
    (hw : inlineOnly cfg.wrapper = true) {localFrags : List FragDef} {s s' : Sel} {st st' : St}
    (hs : noSpread s = true) (hd : cfg.wrapper.length + depth s ≤ D ∨ s = idField)
    (h : processSel rec cfg localFrags s st = .ok (s', st')) (hq : QueueDepth D st.queue) : QueueDepth D st'.queue := by
  cases s with
  | field a n g gv d t sub =>
    simp only [processSel] at h
    split at h
    · cases h; exact hq
    · rename_i hne
      split at h
      · cases h
      · rename_i sub' st1 hr
        cases h
        have hns : noSpreadL sub = true := by simpa [noSpread] using hs
        have hdep : cfg.wrapper.length + (depthL sub + 1) ≤ D := by
          rcases hd with hd | hd
          · simpa [depth] using hd
          · simp only [idField, Sel.field.injEq] at hd
            obtain ⟨_, _, _, _, _, _, hsub⟩ := hd
            subst hsub; simp at hne
        have hfl := fieldWrapper_length cfg.wrapper d
        have := hrec _ _ _ _ hr hns (inlineOnly_fieldWrapper cfg.wrapper d hw) (by simp only; omega) hq
        simpa using this
  | spread name dirs => simp [noSpread] at hs
  | inline cond dirs sub =>
    simp only [processSel] at h
    split at h
    · cases h
    · rename_i sub' st1 hr
      cases h
      have hns : noSpreadL sub = true := by simpa [noSpread] using hs
      have hdep : cfg.wrapper.length + (depthL sub + 1) ≤ D := by
        rcases hd with hd | hd
        · simpa [depth] using hd
        · simp [idField] at hd
      exact hrec _ _ _ _ hr hns (inlineOnly_append_inline cfg.wrapper cond dirs sub hw)
        (by simp only [List.length_append, List.length_singleton]; omega) (by simpa using hq)

theorem processSels_depth {D : Nat} {rec : Cfg → St → Except Err (List Sel × St)} (hrec : RecDepth D rec) {cfg : Cfg}
    (hw : inlineOnly cfg.wrapper = true) {localFrags : List FragDef} :
    ∀ (ss ss' : List Sel) (st st' : St), (∀ s ∈ ss, noSpread s = true) →
      (∀ s ∈ ss, cfg.wrapper.length + depth s ≤ D ∨ s = idField) →
      processSels rec cfg localFrags ss st = .ok (ss', st') → QueueDepth D st.queue → QueueDepth D st'.queue
  | [], ss', st, st', _, _, h, hq => by simp only [processSels] at h; cases h; exact hq
  | s :: ss, ss', st, st', hs, hd, h, hq => by
    simp only [processSels] at h
    cases h1 : processSel rec cfg localFrags s st with
    | error e => rw [h1] at h; cases h
    | ok r1 =>
      obtain ⟨s1, st1⟩ := r1
      rw [h1] at h; simp only at h
      cases h2 : processSels rec cfg localFrags ss st1 with
      | error e => rw [h2] at h; cases h
      | ok r2 =>
        obtain ⟨ss1, st2⟩ := r2
        rw [h2] at h; simp only at h
        have a := processSel_depth hrec hw (hs s (List.mem_cons_self ..)) (hd s (List.mem_cons_self ..)) h1 hq
        have b := processSels_depth hrec hw ss ss1 st1 st2 (fun x hx => hs x (List.mem_cons_of_mem _ hx))
          (fun x hx => hd x (List.mem_cons_of_mem _ hx)) h2 a
        cases h
        exact b

theorem extract_depth (env : Env) (D : Nat) : ∀ (fuel : Nat), RecDepth D (extract env fuel)
  | 0 => by intro cfg st sel st' h; simp only [extract] at h; cases h
  | n + 1 => by
    intro cfg st sel st' h hns hw hd hq
    simp only [extract] at h
    split at h
    · cases h
    · rename_i lf lfr hg
      split at h
      · cases h
      · rename_i st1 hk
        have hbns : BucketsNoSpread lf := group_noSpread cfg.sel ([], []) (lf, lfr) hns hg bucketsNoSpread_nil
        have hbd : BucketsDepth (depthL cfg.sel) lf :=
          group_depth cfg.sel ([], []) (lf, lfr) hns (fun s hs => depth_le_depthL hs) hg (bucketsDepth_nil _)
        have hq1 := kickOff_depth hw hd lf st st1 hbd hk hq
        have hcur : ∀ s ∈ Buckets.get lf cfg.loc ++ (if lf.any (fun p => p.1 != cfg.loc) then [idField] else []),
            noSpread s = true ∧ (cfg.wrapper.length + depth s ≤ D ∨ s = idField) := by
          intro s hs
          rcases List.mem_append.1 hs with hs | hs
          · rcases get_mem_or_nil lf cfg.loc with hm | hm
            · exact ⟨hbns _ _ hm s hs, Or.inl (by have := hbd _ _ hm s hs; omega)⟩
            · rw [hm] at hs; cases hs
          · split at hs
            · have : s = idField := by simpa using hs
              subst this; exact ⟨rfl, Or.inr rfl⟩
            · cases hs
        exact processSels_depth (extract_depth env D n) hw _ _ _ _ (fun s hs => (hcur s hs).1) (fun s hs => (hcur s hs).2) h hq1

/-! ## Part 2: accounting — the client's fields are either kept by the step or wait in the queue -/

mutual
/-- the number of the client's fields in a selection (the planner's own `id` is not one of them) -/
def cfc : Sel → Nat
  | .field _ n _ _ _ t sub => (if n == "id" && t == "" then 0 else 1) + cfcL sub
  | .inline _ _ sub => cfcL sub
  | .spread _ _ => 0
def cfcL : List Sel → Nat
  | [] => 0
  | s :: ss => cfc s + cfcL ss
end

theorem cfcL_append : ∀ (a b : List Sel), cfcL (a ++ b) = cfcL a + cfcL b
  | [], b => by simp [cfcL]
  | x :: a, b => by simp only [List.cons_append, cfcL, cfcL_append a b]; omega

theorem cfc_idField : cfc idField = 0 := by simp [idField, cfc, cfcL]

theorem appendNew_cfc : ∀ (source target : List Sel), cfcL (appendNew target source) ≤ cfcL target + cfcL source
  | [], target => by simp [appendNew, cfcL]
  | s :: source, target => by
    simp only [appendNew, List.foldl_cons]
    have ih := appendNew_cfc source (if target.any (fun t => beqSel t s) then target else target ++ [s])
    simp only [appendNew] at ih
    refine Nat.le_trans ih ?_
    simp only [cfcL]
    split
    · omega
    · rw [cfcL_append]; simp only [cfcL]; omega

/-- the client's fields waiting in the queue -/
def waiting : List Payload → Nat
  | [] => 0
  | p :: ps => cfcL p.sel + waiting ps

theorem addStep_waiting : ∀ (queue : List Payload) (p : Payload), waiting (addStep queue p) ≤ waiting queue + cfcL p.sel
  | [], p => by simp [addStep, waiting]
  | o :: os, p => by
    simp only [addStep]
    split
    · simp only [waiting]
      have := appendNew_cfc p.sel o.sel
      omega
    · simp only [waiting]
      have := addStep_waiting os p
      omega

theorem wrapNest_cfc : ∀ (ws inner : List Sel) (defs : List FragDef), inlineOnly ws = true →
    ∀ x defs', wrapNest ws inner defs = .ok (x, defs') → cfcL x = cfcL inner
  | [], inner, defs, _, x, defs', h => by simp only [wrapNest] at h; cases h; rfl
  | .inline c d s :: ws, inner, defs, hw, x, defs', h => by
    simp only [wrapNest] at h
    split at h
    · cases h
    · rename_i x0 d0 h0
      have := wrapNest_cfc ws inner defs (by simpa [inlineOnly] using hw) x0 d0 h0
      cases h
      simp only [cfcL, cfc, this]; omega
  | .spread n d :: ws, _, _, hw, _, _, _ => by simp [inlineOnly] at hw
  | .field a n g gv d t s :: ws, _, _, hw, _, _, _ => by simp [inlineOnly] at hw

/-- the client's fields in all bundles -/
def cfcB : Buckets Sel → Nat
  | [] => 0
  | (_, ss) :: rest => cfcL ss + cfcB rest

theorem cfcB_add : ∀ (b : Buckets Sel) (l : Loc) (x : Sel), cfcB (b.add l x) = cfcB b + cfc x
  | [], l, x => by simp [Buckets.add, cfcB, cfcL]
  | (k, xs) :: rest, l, x => by
    simp only [Buckets.add]
    split
    · simp only [cfcB, cfcL_append, cfcL]; omega
    · simp only [cfcB, cfcB_add rest l x]; omega

theorem splitByLoc_cfc {env : Env} {pl : Loc} {T : String} :
    ∀ (sels : List Sel) (b b' : Buckets Sel), splitByLoc env pl T sels b = .ok b' → cfcB b' = cfcB b + cfcL sels
  | [], b, b', h => by simp only [splitByLoc] at h; cases h; simp [cfcL]
  | .field a n g gv d t s :: rest, b, b', h => by
    simp only [splitByLoc] at h
    split at h
    · cases h
    · rw [splitByLoc_cfc rest _ b' h, cfcB_add]; simp only [cfcL]; omega
  | .inline c d s :: rest, b, b', h => by
    simp only [splitByLoc] at h
    rw [splitByLoc_cfc rest _ b' h, cfcB_add]; simp only [cfcL]; omega
  | .spread n d :: rest, b, b', h => by
    simp only [splitByLoc] at h
    rw [splitByLoc_cfc rest _ b' h, cfcB_add]; simp only [cfcL]; omega

theorem cfcB_fold_inline (c : String) (d : List Dir) :
    ∀ (fl : Buckets Sel) (lf : Buckets Sel), cfcB (fl.foldl (fun acc p => acc.add p.1 (.inline c d p.2)) lf) = cfcB lf + cfcB fl
  | [], lf => by simp [cfcB]
  | p :: fl, lf => by
    simp only [List.foldl_cons]
    rw [cfcB_fold_inline c d fl, cfcB_add]
    obtain ⟨l, ss⟩ := p
    simp only [cfcB, cfc]; omega

theorem group_cfc {env : Env} {pl : Loc} {T : String} {sf : List FragDef} :
    ∀ (sels : List Sel) (acc res : Buckets Sel × Buckets FragDef), noSpreadL sels = true →
      group env pl T sf sels acc = .ok res → cfcB res.1 = cfcB acc.1 + cfcL sels
  | [], acc, res, _, h => by simp only [group] at h; cases h; simp [cfcL]
  | .field a n g gv d t s :: rest, (lf, lfr), res, hns, h => by
    simp only [group] at h
    simp only [noSpreadL, Bool.and_eq_true] at hns
    split at h
    · cases h
    · rw [group_cfc rest _ res hns.2 h]; simp only [cfcB_add, cfcL]; omega
  | .spread name dirs :: rest, _, _, hns, _ => by simp [noSpreadL, noSpread] at hns
  | .inline cond dirs sub :: rest, (lf, lfr), res, hns, h => by
    simp only [group] at h
    simp only [noSpreadL, Bool.and_eq_true] at hns
    split at h
    · cases h
    · rename_i fl hfl
      rw [group_cfc rest _ res hns.2 h]
      simp only [cfcB_fold_inline, splitByLoc_cfc sub [] fl hfl, cfcB, cfcL, cfc]; omega

/-- the client's fields in the bundles for other locations than `loc` -/
def cfcOther (loc : Loc) : Buckets Sel → Nat
  | [] => 0
  | (l, ss) :: rest => (if l == loc then 0 else cfcL ss) + cfcOther loc rest

theorem cfc_get_le (loc : Loc) : ∀ (b : Buckets Sel), cfcL (b.get loc) + cfcOther loc b ≤ cfcB b
  | [] => by simp [Buckets.get, cfcL, cfcOther, cfcB]
  | (l, ss) :: rest => by
    have ih := cfc_get_le loc rest
    simp only [Buckets.get, List.lookup, cfcOther, cfcB] at ih ⊢
    by_cases h : loc == l
    · have hl : (l == loc) = true := by
        have : loc = l := by simpa using h
        subst this; simp
      simp only [h, hl, if_true, Option.getD_some]
      have : cfcOther loc rest ≤ cfcB rest := by
        have : cfcL ((rest.lookup loc).getD []) + cfcOther loc rest ≤ cfcB rest := ih
        omega
      omega
    · have hl : (l == loc) = false := by
        have : ¬ loc = l := by simpa using h
        simp only [beq_eq_false_iff_ne, ne_eq]
        exact fun e => this e.symm
      have h' : (loc == l) = false := by simpa using h
      simp only [h', hl]
      simp only [Bool.false_eq_true, if_false]
      omega

theorem kickOff_waiting {cfg : Cfg} {lfr : Buckets FragDef} (hw : inlineOnly cfg.wrapper = true) :
    ∀ (lf : Buckets Sel) (st st1 : St), kickOff cfg lfr lf st = .ok st1 →
      waiting st1.queue ≤ waiting st.queue + cfcOther cfg.loc lf
  | [], st, st1, h => by simp only [kickOff] at h; cases h; simp [cfcOther]
  | (location, ss0) :: rest, st, st1, h => by
    simp only [kickOff] at h
    split at h
    · rename_i hloc
      have := kickOff_waiting hw rest st st1 h
      simp only [cfcOther, hloc, if_true]; omega
    · rename_i hloc
      split at h
      · cases h
      · rename_i ss' fr' hwrap
        have hss' : cfcL ss' = cfcL ss0 := by
          split at hwrap
          · cases hwrap; rfl
          · unfold wrap at hwrap
            exact wrapNest_cfc cfg.wrapper ss0 _ hw ss' fr' hwrap
        have := kickOff_waiting hw rest _ st1 h
        have h2 := addStep_waiting st.queue
          { parent := some cfg.step, location := location, parentType := cfg.parentType, ip := cfg.ip, sel := ss', frags := fr' }
        simp only [cfcOther, hloc] at this ⊢
        simp only at h2
        simp only [Bool.false_eq_true, if_false]
        omega

/-- one call of `extractSelection`: what it keeps plus what it leaves waiting is at most what it was given plus
    what was waiting before -/
def RecAcct (rec : Cfg → St → Except Err (List Sel × St)) : Prop :=
  ∀ cfg st sel st', rec cfg st = .ok (sel, st') → noSpreadL cfg.sel = true → inlineOnly cfg.wrapper = true →
    waiting st'.queue + cfcL sel ≤ waiting st.queue + cfcL cfg.sel

theorem processSel_acct {rec : Cfg → St → Except Err (List Sel × St)} (hrec : RecAcct rec) {cfg : Cfg}
    (hw : inlineOnly cfg.wrapper = true) {localFrags : List FragDef} {s s' : Sel} {st st' : St}
    (hs : noSpread s = true) (h : processSel rec cfg localFrags s st = .ok (s', st')) :
    waiting st'.queue + cfc s' ≤ waiting st.queue + cfc s := by
  cases s with
  | field a n g gv d t sub =>
    simp only [processSel] at h
    split at h
    · cases h; exact Nat.le_refl _
    · split at h
      · cases h
      · rename_i sub' st1 hr
        cases h
        have hns : noSpreadL sub = true := by simpa [noSpread] using hs
        have := hrec _ _ _ _ hr hns (inlineOnly_fieldWrapper cfg.wrapper d hw)
        simp only [cfc] at this ⊢
        omega
  | spread name dirs => simp [noSpread] at hs
  | inline cond dirs sub =>
    simp only [processSel] at h
    split at h
    · cases h
    · rename_i sub' st1 hr
      cases h
      have hns : noSpreadL sub = true := by simpa [noSpread] using hs
      have := hrec _ _ _ _ hr hns (inlineOnly_append_inline cfg.wrapper cond dirs sub hw)
      simp only [cfc] at this ⊢
      simpa using this

theorem processSels_acct {rec : Cfg → St → Except Err (List Sel × St)} (hrec : RecAcct rec) {cfg : Cfg}
    (hw : inlineOnly cfg.wrapper = true) {localFrags : List FragDef} :
    ∀ (ss ss' : List Sel) (st st' : St), (∀ s ∈ ss, noSpread s = true) →
      processSels rec cfg localFrags ss st = .ok (ss', st') → waiting st'.queue + cfcL ss' ≤ waiting st.queue + cfcL ss
  | [], ss', st, st', _, h => by simp only [processSels] at h; cases h; exact Nat.le_refl _
  | s :: ss, ss', st, st', hs, h => by
    simp only [processSels] at h
    cases h1 : processSel rec cfg localFrags s st with
    | error e => rw [h1] at h; cases h
    | ok r1 =>
      obtain ⟨s1, st1⟩ := r1
      rw [h1] at h; simp only at h
      cases h2 : processSels rec cfg localFrags ss st1 with
      | error e => rw [h2] at h; cases h
      | ok r2 =>
        obtain ⟨ss1, st2⟩ := r2
        rw [h2] at h; simp only at h
        have a := processSel_acct hrec hw (hs s (List.mem_cons_self ..)) h1
        have b := processSels_acct hrec hw ss ss1 st1 st2 (fun x hx => hs x (List.mem_cons_of_mem _ hx)) h2
        cases h
        simp only [cfcL]
        omega

theorem extract_acct (env : Env) : ∀ (fuel : Nat), RecAcct (extract env fuel)
  | 0 => by intro cfg st sel st' h; simp only [extract] at h; cases h
  | n + 1 => by
    intro cfg st sel st' h hns hw
    simp only [extract] at h
    split at h
    · cases h
    · rename_i lf lfr hg
      split at h
      · cases h
      · rename_i st1 hk
        have hbns : BucketsNoSpread lf := group_noSpread cfg.sel ([], []) (lf, lfr) hns hg bucketsNoSpread_nil
        have hsum := group_cfc cfg.sel ([], []) (lf, lfr) hns hg
        have hk1 := kickOff_waiting hw lf st st1 hk
        have hcur : ∀ s ∈ Buckets.get lf cfg.loc ++ (if lf.any (fun p => p.1 != cfg.loc) then [idField] else []),
            noSpread s = true := by
          intro s hs
          rcases List.mem_append.1 hs with hs | hs
          · rcases get_mem_or_nil lf cfg.loc with hm | hm
            · exact hbns _ _ hm s hs
            · rw [hm] at hs; cases hs
          · split at hs
            · have : s = idField := by simpa using hs
              subst this; rfl
            · cases hs
        have hp := processSels_acct (extract_acct env n) hw _ _ _ _ hcur h
        have hget := cfc_get_le cfg.loc lf
        have hid : cfcL (if lf.any (fun p => p.1 != cfg.loc) then [idField] else []) = 0 := by
          split
          · simp [cfcL, cfc_idField]
          · rfl
        rw [cfcL_append, hid] at hp
        simp only [cfcB] at hsum
        omega

/-! ## Part 3: every pending step keeps a field -/

/-- the field is one of the client's (not the `id` the planner adds) -/
def clientField (n t : String) : Prop := ¬ (n = "id" ∧ t = "")

/-- the selection holds at its own level — through inline fragments — a client field for which `loc` is chosen when
    asked from `loc` -/
inductive Anchored (env : Env) (loc : Loc) : String → List Sel → Prop
  | field {T : String} {sels : List Sel} {a n g : String} {gv : List String} {d : List Dir} {t : String} {sub : List Sel} :
      Sel.field a n g gv d t sub ∈ sels → Located env loc T n → clientField n t → Anchored env loc T sels
  | inl {T : String} {sels : List Sel} {c : String} {d : List Dir} {sub : List Sel} :
      Sel.inline c d sub ∈ sels → Anchored env loc (if c == "" then T else c) sub → Anchored env loc T sels

theorem Anchored.mono {env : Env} {loc : Loc} {T : String} {a b : List Sel} (h : Anchored env loc T a)
    (hsub : ∀ x ∈ a, x ∈ b) : Anchored env loc T b := by
  cases h with
  | field hm hl hc => exact .field (hsub _ hm) hl hc
  | inl hm ha => exact .inl (hsub _ hm) ha

theorem Anchored.ne_nil {env : Env} {loc : Loc} {T : String} {a : List Sel} (h : Anchored env loc T a) : a ≠ [] := by
  cases h with
  | field hm _ _ => intro e; rw [e] at hm; cases hm
  | inl hm _ => intro e; rw [e] at hm; cases hm

theorem clientField_count {n t : String} (hc : clientField n t) : (if (n == "id" && t == "") = true then 0 else 1) = 1 := by
  have : (n == "id" && t == "") = false := by
    simp only [clientField] at hc
    cases h1 : (n == "id") <;> cases h2 : (t == "") <;> simp_all
  simp [this]

theorem cfcL_pos_of_field_mem {a n g : String} {gv : List String} {d : List Dir} {t : String} {sub : List Sel}
    (hc : clientField n t) : ∀ (l : List Sel), Sel.field a n g gv d t sub ∈ l → 1 ≤ cfcL l
  | [], h => by cases h
  | x :: l, h => by
    simp only [cfcL]
    rcases List.mem_cons.1 h with h1 | h2
    · subst h1
      simp only [cfc, clientField_count hc]; omega
    · have := cfcL_pos_of_field_mem hc l h2; omega

theorem cfcL_pos_of_inline_mem {c : String} {d : List Dir} {sub : List Sel} (hs : 1 ≤ cfcL sub) :
    ∀ (l : List Sel), Sel.inline c d sub ∈ l → 1 ≤ cfcL l
  | [], h => by cases h
  | x :: l, h => by
    simp only [cfcL]
    rcases List.mem_cons.1 h with h1 | h2
    · subst h1; simp only [cfc]; omega
    · have := cfcL_pos_of_inline_mem hs l h2; omega

/-- a selection that is anchored holds one of the client's fields -/
theorem Anchored.cfc_pos {env : Env} {loc : Loc} : ∀ {T : String} {a : List Sel}, Anchored env loc T a → 1 ≤ cfcL a := by
  intro T a h
  induction h with
  | field hm _ hc => exact cfcL_pos_of_field_mem hc _ hm
  | inl hm _ ih => exact cfcL_pos_of_inline_mem ih _ hm

/-! ### what `groupSelectionSet` puts into the bundle of the current location -/

/-- processed by `extractSelection`, the element leaves at least one client field in the step -/
inductive KeepsOne (env : Env) (loc : Loc) (T : String) : Sel → Prop
  | field {a n g : String} {gv : List String} {d : List Dir} {t : String} {sub : List Sel} :
      clientField n t → KeepsOne env loc T (.field a n g gv d t sub)
  | inl {c : String} {d : List Dir} {sub : List Sel} :
      Anchored env loc (if c == "" then T else c) sub → KeepsOne env loc T (.inline c d sub)

theorem mem_get_add_old {α : Type} {b : Buckets α} {l l' : Loc} {x y : α} (h : y ∈ b.get l') : y ∈ (b.add l x).get l' := by
  rw [get_add]; split
  · exact List.mem_append.2 (Or.inl h)
  · exact h

theorem mem_get_add_new {α : Type} (b : Buckets α) (l : Loc) (x : α) : x ∈ (b.add l x).get l := by
  rw [get_add]; simp

theorem splitByLoc_get_mono {env : Env} {pl : Loc} {T : String} {y : Sel} {l' : Loc} :
    ∀ (sels : List Sel) (b b' : Buckets Sel), splitByLoc env pl T sels b = .ok b' → y ∈ b.get l' → y ∈ b'.get l'
  | [], b, b', h, hy => by simp only [splitByLoc] at h; cases h; exact hy
  | .field a n g gv d t s :: rest, b, b', h, hy => by
    simp only [splitByLoc] at h
    split at h
    · cases h
    · exact splitByLoc_get_mono rest _ b' h (mem_get_add_old hy)
  | .inline c d s :: rest, b, b', h, hy => by
    simp only [splitByLoc] at h
    exact splitByLoc_get_mono rest _ b' h (mem_get_add_old hy)
  | .spread n d :: rest, b, b', h, hy => by
    simp only [splitByLoc] at h
    exact splitByLoc_get_mono rest _ b' h (mem_get_add_old hy)

/-- an anchored selection leaves an anchored bundle at the current location -/
theorem splitByLoc_anchored {env : Env} {pl : Loc} {T : String} :
    ∀ (sels : List Sel) (b b' : Buckets Sel), Anchored env pl T sels → splitByLoc env pl T sels b = .ok b' →
      Anchored env pl T (b'.get pl) := by
  intro sels b b' ha h
  -- the anchoring member of `sels` is put into the bundle of `pl`
  have key : ∀ (x : Sel), x ∈ sels →
      (∀ a n g gv d t sub, x = .field a n g gv d t sub → Located env pl T n) →
      ∀ (sels' : List Sel) (b0 b1 : Buckets Sel), x ∈ sels' → splitByLoc env pl T sels' b0 = .ok b1 → x ∈ b1.get pl := by
    intro x _ hx sels'
    induction sels' with
    | nil => intro b0 b1 hm; cases hm
    | cons s rest ih =>
      intro b0 b1 hm0 hs
      rcases List.mem_cons.1 hm0 with hm | hm
      · subst hm
        cases x with
        | field a n g gv d t sub =>
          simp only [splitByLoc] at hs
          have hl : locate env pl T n = .ok pl := hx a n g gv d t sub rfl
          rw [hl] at hs
          simp only at hs
          exact splitByLoc_get_mono rest _ b1 hs (mem_get_add_new b0 pl _)
        | inline c d sub =>
          simp only [splitByLoc] at hs
          exact splitByLoc_get_mono rest _ b1 hs (mem_get_add_new b0 pl _)
        | spread n d =>
          simp only [splitByLoc] at hs
          exact splitByLoc_get_mono rest _ b1 hs (mem_get_add_new b0 pl _)
      · cases s with
        | field a n g gv d t sub =>
          simp only [splitByLoc] at hs
          split at hs
          · cases hs
          · exact ih _ b1 hm hs
        | inline c d sub => simp only [splitByLoc] at hs; exact ih _ b1 hm hs
        | spread n d => simp only [splitByLoc] at hs; exact ih _ b1 hm hs
  cases ha with
  | field hm hl hc =>
    exact .field (key _ hm (by intro a n g gv d t sub e; cases e; exact hl) sels b b' hm h) hl hc
  | inl hm ha' =>
    exact .inl (key _ hm (by intro a n g gv d t sub e; cases e) sels b b' hm h) ha'

theorem fold_inline_get_mono (c : String) (d : List Dir) {y : Sel} {l' : Loc} :
    ∀ (fl : Buckets Sel) (lf : Buckets Sel), y ∈ lf.get l' → y ∈ (fl.foldl (fun acc p => acc.add p.1 (.inline c d p.2)) lf).get l'
  | [], _, h => h
  | p :: fl, lf, h => by
    simp only [List.foldl_cons]
    exact fold_inline_get_mono c d fl _ (mem_get_add_old h)

theorem fold_inline_mem (c : String) (d : List Dir) {l : Loc} {ss : List Sel} :
    ∀ (fl : Buckets Sel) (lf : Buckets Sel), (l, ss) ∈ fl → Sel.inline c d ss ∈ (fl.foldl (fun acc p => acc.add p.1 (.inline c d p.2)) lf).get l
  | [], _, h => by cases h
  | p :: fl, lf, h => by
    simp only [List.foldl_cons]
    rcases List.mem_cons.1 h with h | h
    · subst h
      exact fold_inline_get_mono c d fl _ (mem_get_add_new lf l _)
    · exact fold_inline_mem c d fl _ h

theorem group_get_mono {env : Env} {pl : Loc} {T : String} {sf : List FragDef} {y : Sel} {l' : Loc} :
    ∀ (sels : List Sel) (acc res : Buckets Sel × Buckets FragDef), noSpreadL sels = true →
      group env pl T sf sels acc = .ok res → y ∈ acc.1.get l' → y ∈ res.1.get l'
  | [], acc, res, _, h, hy => by simp only [group] at h; cases h; exact hy
  | .field a n g gv d t s :: rest, (lf, lfr), res, hns, h, hy => by
    simp only [group] at h
    simp only [noSpreadL, Bool.and_eq_true] at hns
    split at h
    · cases h
    · exact group_get_mono rest _ res hns.2 h (mem_get_add_old hy)
  | .spread name dirs :: rest, _, _, hns, _, _ => by simp [noSpreadL, noSpread] at hns
  | .inline cond dirs sub :: rest, (lf, lfr), res, hns, h, hy => by
    simp only [group] at h
    simp only [noSpreadL, Bool.and_eq_true] at hns
    split at h
    · cases h
    · exact group_get_mono rest _ res hns.2 h (fold_inline_get_mono cond dirs _ lf hy)

/-- **an anchored selection leaves, in the bundle of the current location, an element that keeps a client field** -/
theorem group_keeps {env : Env} {pl : Loc} {T : String} {sf : List FragDef} :
    ∀ (sels : List Sel) (acc res : Buckets Sel × Buckets FragDef), noSpreadL sels = true → Anchored env pl T sels →
      group env pl T sf sels acc = .ok res → ∃ y ∈ res.1.get pl, KeepsOne env pl T y := by
  intro sels acc res hns ha h
  -- find the anchoring member and follow it into its bundle
  have key : ∀ (x : Sel), x ∈ sels →
      ((∃ a n g gv d t sub, x = .field a n g gv d t sub ∧ Located env pl T n ∧ clientField n t) ∨
       (∃ c d sub, x = .inline c d sub ∧ Anchored env pl (if c == "" then T else c) sub)) →
      ∀ (sels' : List Sel) (acc0 res0 : Buckets Sel × Buckets FragDef), noSpreadL sels' = true → x ∈ sels' →
        group env pl T sf sels' acc0 = .ok res0 → ∃ y ∈ res0.1.get pl, KeepsOne env pl T y := by
    intro x _ hx sels'
    induction sels' with
    | nil => intro acc0 res0 _ hm; cases hm
    | cons s rest ih =>
      intro acc0 res0 hns' hm0 hg
      obtain ⟨lf, lfr⟩ := acc0
      simp only [noSpreadL, Bool.and_eq_true] at hns'
      rcases List.mem_cons.1 hm0 with hm | hm
      · subst hm
        rcases hx with ⟨a, n, g, gv, d, t, sub, rfl, hl, hc⟩ | ⟨c, d, sub, rfl, ha'⟩
        · simp only [group] at hg
          have hl' : locate env pl T n = .ok pl := hl
          rw [hl'] at hg
          simp only at hg
          exact ⟨_, group_get_mono rest _ res0 hns'.2 hg (mem_get_add_new lf pl _), .field hc⟩
        · simp only [group] at hg
          split at hg
          · cases hg
          · rename_i fl hfl
            have hanch := splitByLoc_anchored sub [] fl ha' hfl
            have hent : (pl, fl.get pl) ∈ fl := by
              rcases get_mem_or_nil fl pl with hm | hm
              · exact hm
              · exact absurd hm hanch.ne_nil
            exact ⟨_, group_get_mono rest _ res0 hns'.2 hg (fold_inline_mem c d fl lf hent), .inl hanch⟩
      · cases s with
        | field a n g gv d t sub =>
          simp only [group] at hg
          split at hg
          · cases hg
          · exact ih _ res0 hns'.2 hm hg
        | spread n d => simp [noSpread] at hns'
        | inline c d sub =>
          simp only [group] at hg
          split at hg
          · cases hg
          · exact ih _ res0 hns'.2 hm hg
  cases ha with
  | field hm hl hc => exact key _ hm (Or.inl ⟨_, _, _, _, _, _, _, rfl, hl, hc⟩) sels acc res hns hm h
  | inl hm ha' => exact key _ hm (Or.inr ⟨_, _, _, rfl, ha'⟩) sels acc res hns hm h

/-- one call of `extractSelection` on an anchored selection keeps at least one of the client's fields -/
def RecKept (env : Env) (rec : Cfg → St → Except Err (List Sel × St)) : Prop :=
  ∀ cfg st sel st', rec cfg st = .ok (sel, st') → noSpreadL cfg.sel = true →
    Anchored env cfg.loc cfg.parentType cfg.sel → 1 ≤ cfcL sel

theorem processSel_kept {env : Env} {rec : Cfg → St → Except Err (List Sel × St)} (hrec : RecKept env rec) {cfg : Cfg}
    {localFrags : List FragDef} {s s' : Sel} {st st' : St} (hns : noSpread s = true)
    (hk : KeepsOne env cfg.loc cfg.parentType s) (h : processSel rec cfg localFrags s st = .ok (s', st')) : 1 ≤ cfc s' := by
  cases hk with
  | field hc =>
    have hone := clientField_count hc
    simp only [processSel] at h
    split at h
    · cases h; simp only [cfc, hone]; omega
    · split at h
      · cases h
      · cases h; simp only [cfc, hone]; omega
  | @inl c d sub ha =>
    simp only [processSel] at h
    split at h
    · cases h
    · rename_i sub' st1 hr
      cases h
      have hnsub : noSpreadL sub = true := by simpa [noSpread] using hns
      have := hrec _ _ _ _ hr hnsub ha
      simpa [cfc] using this

theorem processSels_cfc_mono {rec : Cfg → St → Except Err (List Sel × St)} {cfg : Cfg} {localFrags : List FragDef} :
    ∀ (ss ss' : List Sel) (st st' : St) (y : Sel), y ∈ ss → processSels rec cfg localFrags ss st = .ok (ss', st') →
      (∀ st0 y' st0', processSel rec cfg localFrags y st0 = .ok (y', st0') → 1 ≤ cfc y') → 1 ≤ cfcL ss'
  | [], _, _, _, y, hm, _, _ => by cases hm
  | s :: ss, ss', st, st', y, hm, h, hy => by
    simp only [processSels] at h
    cases h1 : processSel rec cfg localFrags s st with
    | error e => rw [h1] at h; cases h
    | ok r1 =>
      obtain ⟨s1, st1⟩ := r1
      rw [h1] at h; simp only at h
      cases h2 : processSels rec cfg localFrags ss st1 with
      | error e => rw [h2] at h; cases h
      | ok r2 =>
        obtain ⟨ss1, st2⟩ := r2
        rw [h2] at h; simp only at h
        have hcase : 1 ≤ cfc s1 ∨ 1 ≤ cfcL ss1 := by
          rcases List.mem_cons.1 hm with hm1 | hm2
          · subst hm1
            exact Or.inl (hy st s1 st1 h1)
          · exact Or.inr (processSels_cfc_mono ss ss1 st1 st2 y hm2 h2 hy)
        cases h
        simp only [cfcL]
        omega

theorem extract_kept (env : Env) : ∀ (fuel : Nat), RecKept env (extract env fuel)
  | 0 => by intro cfg st sel st' h; simp only [extract] at h; cases h
  | n + 1 => by
    intro cfg st sel st' h hns ha
    simp only [extract] at h
    split at h
    · cases h
    · rename_i lf lfr hg
      split at h
      · cases h
      · rename_i st1 hk
        have hbns : BucketsNoSpread lf := group_noSpread cfg.sel ([], []) (lf, lfr) hns hg bucketsNoSpread_nil
        obtain ⟨y, hy, hkeep⟩ := group_keeps cfg.sel ([], []) (lf, lfr) hns ha hg
        have hyns : noSpread y = true := by
          rcases get_mem_or_nil lf cfg.loc with hm | hm
          · exact hbns _ _ hm y hy
          · simp only at hy; rw [hm] at hy; cases hy
        exact processSels_cfc_mono _ _ _ _ y (List.mem_append.2 (Or.inl hy)) h
          (fun st0 y' st0' hp => processSel_kept (extract_kept env n) hyns hkeep hp)

/-! ### what is queued is anchored at the location it is queued for -/
def QueueAnchored (env : Env) (queue : List Payload) : Prop := ∀ p ∈ queue, Anchored env p.location p.parentType p.sel

/-- every bundle for another location than `pl` is anchored there -/
def BucketsAnchored (env : Env) (pl : Loc) (T : String) (b : Buckets Sel) : Prop :=
  ∀ l ss, (l, ss) ∈ b → l ≠ pl → Anchored env l T ss

theorem bucketsAnchored_nil (env : Env) (pl : Loc) (T : String) : BucketsAnchored env pl T [] := by intro l ss h; cases h

theorem bucketsAnchored_add {env : Env} {pl : Loc} {T : String} {b : Buckets Sel} {l : Loc} {x : Sel}
    (hb : BucketsAnchored env pl T b) (hx : l ≠ pl → Anchored env l T [x]) : BucketsAnchored env pl T (b.add l x) := by
  intro l' ss' hm hne
  rcases mem_add hm with hm | ⟨h1, old, h2, h3⟩
  · exact hb l' ss' hm hne
  · subst h1; subst h2
    rcases h3 with h3 | h3
    · exact (hb _ _ h3 hne).mono (fun y hy => List.mem_append.2 (Or.inl hy))
    · subst h3; simpa using hx hne

theorem clientField_of_unmarked {a n g : String} {gv : List String} {d : List Dir} {t : String} {sub : List Sel}
    (h : unmarked (.field a n g gv d t sub) = true) : clientField n t := by
  simp only [unmarked, Bool.and_eq_true, Bool.not_eq_true'] at h
  intro hc
  have := h.1
  simp [hc.1, hc.2] at this

theorem splitByLoc_bucketsAnchored {env : Env} {pl : Loc} {T : String} :
    ∀ (sels : List Sel) (b b' : Buckets Sel), unmarkedL sels = true → splitByLoc env pl T sels b = .ok b' →
      BucketsAnchored env pl T b → BucketsAnchored env pl T b'
  | [], b, b', _, h, hb => by simp only [splitByLoc] at h; cases h; exact hb
  | .field a n g gv d t s :: rest, b, b', hu, h, hb => by
    simp only [splitByLoc] at h
    simp only [unmarkedL, Bool.and_eq_true] at hu
    split at h
    · cases h
    · rename_i l hl
      refine splitByLoc_bucketsAnchored rest _ b' hu.2 h (bucketsAnchored_add hb ?_)
      intro _
      exact .field (List.mem_singleton.2 rfl) (locate_stable hl) (clientField_of_unmarked hu.1)
  | .inline c d s :: rest, b, b', hu, h, hb => by
    simp only [splitByLoc] at h
    simp only [unmarkedL, Bool.and_eq_true] at hu
    exact splitByLoc_bucketsAnchored rest _ b' hu.2 h (bucketsAnchored_add hb (fun hne => absurd rfl hne))
  | .spread n d :: rest, b, b', hu, h, hb => by
    simp only [splitByLoc] at h
    simp only [unmarkedL, Bool.and_eq_true] at hu
    exact splitByLoc_bucketsAnchored rest _ b' hu.2 h (bucketsAnchored_add hb (fun hne => absurd rfl hne))

theorem bucketsAnchored_fold_inline {env : Env} {pl : Loc} {T : String} (c : String) (d : List Dir) :
    ∀ (fl : Buckets Sel) (lf : Buckets Sel),
      (∀ l ss, (l, ss) ∈ fl → l ≠ pl → Anchored env l (if c == "" then T else c) ss) → BucketsAnchored env pl T lf →
      BucketsAnchored env pl T (fl.foldl (fun acc p => acc.add p.1 (.inline c d p.2)) lf)
  | [], _, _, h => h
  | p :: fl, lf, hfl, h => by
    simp only [List.foldl_cons]
    refine bucketsAnchored_fold_inline c d fl _ (fun l ss hm => hfl l ss (List.mem_cons_of_mem _ hm)) (bucketsAnchored_add h ?_)
    intro hne
    exact .inl (List.mem_singleton.2 rfl) (hfl p.1 p.2 (List.mem_cons_self ..) hne)

theorem group_bucketsAnchored {env : Env} {pl : Loc} {T : String} {sf : List FragDef} :
    ∀ (sels : List Sel) (acc res : Buckets Sel × Buckets FragDef), noSpreadL sels = true → unmarkedL sels = true →
      group env pl T sf sels acc = .ok res → BucketsAnchored env pl T acc.1 → BucketsAnchored env pl T res.1
  | [], acc, res, _, _, h, ha => by simp only [group] at h; cases h; exact ha
  | .field a n g gv d t s :: rest, (lf, lfr), res, hns, hu, h, ha => by
    simp only [group] at h
    simp only [noSpreadL, Bool.and_eq_true] at hns
    simp only [unmarkedL, Bool.and_eq_true] at hu
    split at h
    · cases h
    · rename_i l hl
      refine group_bucketsAnchored rest _ res hns.2 hu.2 h (bucketsAnchored_add ha ?_)
      intro _
      exact .field (List.mem_singleton.2 rfl) (locate_stable hl) (clientField_of_unmarked hu.1)
  | .spread name dirs :: rest, _, _, hns, _, _, _ => by simp [noSpreadL, noSpread] at hns
  | .inline cond dirs sub :: rest, (lf, lfr), res, hns, hu, h, ha => by
    simp only [group] at h
    simp only [noSpreadL, Bool.and_eq_true] at hns
    simp only [unmarkedL, Bool.and_eq_true] at hu
    split at h
    · cases h
    · rename_i fl hfl
      refine group_bucketsAnchored rest _ res hns.2 hu.2 h ?_
      have hsub : unmarkedL sub = true := by simpa [unmarked] using hu.1
      have hflA := splitByLoc_bucketsAnchored sub [] fl hsub hfl (bucketsAnchored_nil env pl _)
      exact bucketsAnchored_fold_inline cond dirs fl lf hflA ha

theorem wrapNest_anchored {env : Env} {l : Loc} : ∀ (ws inner : List Sel) (defs : List FragDef) (T : String),
    inlineOnly ws = true → Anchored env l (typeAfter T ws) inner →
    ∀ x defs', wrapNest ws inner defs = .ok (x, defs') → Anchored env l T x
  | [], inner, defs, T, _, hi, x, defs', h => by simp only [wrapNest] at h; cases h; exact hi
  | .inline c d s :: ws, inner, defs, T, hw, hi, x, defs', h => by
    simp only [wrapNest] at h
    split at h
    · cases h
    · rename_i x0 d0 h0
      simp only [typeAfter] at hi
      have := wrapNest_anchored ws inner defs _ (by simpa [inlineOnly] using hw) hi x0 d0 h0
      cases h
      exact .inl (List.mem_singleton.2 rfl) this
  | .spread n d :: ws, _, _, _, hw, _, _, _, _ => by simp [inlineOnly] at hw
  | .field a n g gv d t s :: ws, _, _, _, hw, _, _, _, _ => by simp [inlineOnly] at hw

theorem addStep_anchored {env : Env} : ∀ {queue : List Payload} {p : Payload}, QueueAnchored env queue →
    Anchored env p.location p.parentType p.sel → QueueAnchored env (addStep queue p)
  | [], p, _, hp => by intro p' h; simp only [addStep, List.mem_singleton] at h; subst h; exact hp
  | o :: os, p, hq, hp => by
    intro p' h
    simp only [addStep] at h
    split at h
    · rcases List.mem_cons.1 h with h | h
      · subst h
        exact (hq o (List.mem_cons_self ..)).mono (fun y hy => appendNew_mem_target _ _ hy)
      · exact hq p' (List.mem_cons_of_mem _ h)
    · rcases List.mem_cons.1 h with h | h
      · subst h; exact hq _ (List.mem_cons_self ..)
      · exact addStep_anchored (fun x hx => hq x (List.mem_cons_of_mem _ hx)) hp p' h

theorem kickOff_anchored {env : Env} {cfg : Cfg} {lfr : Buckets FragDef} (hw : inlineOnly cfg.wrapper = true)
    (hT : typeAfter cfg.parentType cfg.wrapper = cfg.parentType) :
    ∀ (lf : Buckets Sel) (st st1 : St), BucketsAnchored env cfg.loc cfg.parentType lf → kickOff cfg lfr lf st = .ok st1 →
      QueueAnchored env st.queue → QueueAnchored env st1.queue
  | [], st, st1, _, h, hq => by simp only [kickOff] at h; cases h; exact hq
  | (location, ss0) :: rest, st, st1, hb, h, hq => by
    have hrest : BucketsAnchored env cfg.loc cfg.parentType rest := fun l ss hm => hb l ss (List.mem_cons_of_mem _ hm)
    simp only [kickOff] at h
    split at h
    · exact kickOff_anchored hw hT rest st st1 hrest h hq
    · rename_i hloc
      split at h
      · cases h
      · rename_i ss' fr' hwrap
        have hne : location ≠ cfg.loc := by simpa using hloc
        have hss0 := hb location ss0 (List.mem_cons_self ..) hne
        have hss' : Anchored env location cfg.parentType ss' := by
          split at hwrap
          · cases hwrap; exact hss0
          · unfold wrap at hwrap
            exact wrapNest_anchored cfg.wrapper ss0 _ cfg.parentType hw (by rw [hT]; exact hss0) ss' fr' hwrap
        refine kickOff_anchored hw hT rest _ st1 hrest h ?_
        exact addStep_anchored hq (by simpa using hss')

def RecAnch (env : Env) (rec : Cfg → St → Except Err (List Sel × St)) : Prop :=
  ∀ cfg st sel st', rec cfg st = .ok (sel, st') → noSpreadL cfg.sel = true → unmarkedL cfg.sel = true →
    inlineOnly cfg.wrapper = true → typeAfter cfg.parentType cfg.wrapper = cfg.parentType →
    QueueAnchored env st.queue → QueueAnchored env st'.queue

theorem processSel_anch {env : Env} {rec : Cfg → St → Except Err (List Sel × St)} (hrec : RecAnch env rec) {cfg : Cfg}
    (hw : inlineOnly cfg.wrapper = true) (hT : typeAfter cfg.parentType cfg.wrapper = cfg.parentType)
    {localFrags : List FragDef} {s s' : Sel} {st st' : St}
    (hs : (noSpread s = true ∧ unmarked s = true) ∨ s = idField)
    (h : processSel rec cfg localFrags s st = .ok (s', st')) (hq : QueueAnchored env st.queue) :
    QueueAnchored env st'.queue := by
  rcases hs with ⟨hns, hu⟩ | hid
  · cases s with
    | field a n g gv d t sub =>
      simp only [processSel] at h
      split at h
      · cases h; exact hq
      · split at h
        · cases h
        · rename_i sub' st1 hr
          cases h
          have hnsub : noSpreadL sub = true := by simpa [noSpread] using hns
          have husub : unmarkedL sub = true := by
            simp only [unmarked, Bool.and_eq_true] at hu; exact hu.2
          have := hrec _ _ _ _ hr hnsub husub (inlineOnly_fieldWrapper cfg.wrapper d hw)
            (typeAfter_condsEmpty t _ (condsEmpty_fieldWrapper cfg.wrapper d hw)) hq
          simpa using this
    | spread name dirs => simp [noSpread] at hns
    | inline cond dirs sub =>
      simp only [processSel] at h
      split at h
      · cases h
      · rename_i sub' st1 hr
        cases h
        have hnsub : noSpreadL sub = true := by simpa [noSpread] using hns
        have husub : unmarkedL sub = true := by simpa [unmarked] using hu
        have hT' : typeAfter (if cond == "" then cfg.parentType else cond) (cfg.wrapper ++ [.inline cond dirs sub]) =
            (if cond == "" then cfg.parentType else cond) := by
          rw [typeAfter_append_inline]
          by_cases hc : (cond == "") = true
          · simp only [hc, if_true]; exact hT
          · simp only [hc]; rfl
        exact hrec _ _ _ _ hr hnsub husub (inlineOnly_append_inline cfg.wrapper cond dirs sub hw) hT' (by simpa using hq)
  · subst hid
    rw [(processSel_idField h).2]; exact hq

theorem processSels_anch {env : Env} {rec : Cfg → St → Except Err (List Sel × St)} (hrec : RecAnch env rec) {cfg : Cfg}
    (hw : inlineOnly cfg.wrapper = true) (hT : typeAfter cfg.parentType cfg.wrapper = cfg.parentType)
    {localFrags : List FragDef} :
    ∀ (ss ss' : List Sel) (st st' : St), (∀ s ∈ ss, (noSpread s = true ∧ unmarked s = true) ∨ s = idField) →
      processSels rec cfg localFrags ss st = .ok (ss', st') → QueueAnchored env st.queue → QueueAnchored env st'.queue
  | [], ss', st, st', _, h, hq => by simp only [processSels] at h; cases h; exact hq
  | s :: ss, ss', st, st', hs, h, hq => by
    simp only [processSels] at h
    cases h1 : processSel rec cfg localFrags s st with
    | error e => rw [h1] at h; cases h
    | ok r1 =>
      obtain ⟨s1, st1⟩ := r1
      rw [h1] at h; simp only at h
      cases h2 : processSels rec cfg localFrags ss st1 with
      | error e => rw [h2] at h; cases h
      | ok r2 =>
        obtain ⟨ss1, st2⟩ := r2
        rw [h2] at h; simp only at h
        have a := processSel_anch hrec hw hT (hs s (List.mem_cons_self ..)) h1 hq
        have b := processSels_anch hrec hw hT ss ss1 st1 st2 (fun x hx => hs x (List.mem_cons_of_mem _ hx)) h2 a
        cases h
        exact b

theorem extract_anch (env : Env) : ∀ (fuel : Nat), RecAnch env (extract env fuel)
  | 0 => by intro cfg st sel st' h; simp only [extract] at h; cases h
  | n + 1 => by
    intro cfg st sel st' h hns hu hw hT hq
    simp only [extract] at h
    split at h
    · cases h
    · rename_i lf lfr hg
      split at h
      · cases h
      · rename_i st1 hk
        have hbns : BucketsNoSpread lf := group_noSpread cfg.sel ([], []) (lf, lfr) hns hg bucketsNoSpread_nil
        have hbu : BucketsUnmarked lf := group_unmarked cfg.sel ([], []) (lf, lfr) hns hu hg bucketsUnmarked_nil
        have hba : BucketsAnchored env cfg.loc cfg.parentType lf :=
          group_bucketsAnchored cfg.sel ([], []) (lf, lfr) hns hu hg (bucketsAnchored_nil env _ _)
        have hq1 := kickOff_anchored hw hT lf st st1 hba hk hq
        have hcur : ∀ s ∈ Buckets.get lf cfg.loc ++ (if lf.any (fun p => p.1 != cfg.loc) then [idField] else []),
            (noSpread s = true ∧ unmarked s = true) ∨ s = idField := by
          intro s hs
          rcases List.mem_append.1 hs with hs | hs
          · rcases get_mem_or_nil lf cfg.loc with hm | hm
            · exact Or.inl ⟨hbns _ _ hm s hs, hbu _ _ hm s hs⟩
            · rw [hm] at hs; cases hs
          · split at hs
            · exact Or.inr (by simpa using hs)
            · cases hs
        exact processSels_anch (extract_anch env n) hw hT _ _ _ _ hcur h hq1

/-! ## Part 4: the work list -/

/-- what holds of the pending steps once the root step has been built -/
structure Pending (env : Env) (D : Nat) (queue : List Payload) : Prop where
  ns : QueueNoSpread queue
  un : QueueUnmarked queue
  dp : QueueDepth D queue
  an : QueueAnchored env queue

/-- one more step built: what is pending afterwards, and how much of it -/
theorem extract_pending {env : Env} {D fuel : Nat} {p : Payload} {rest : List Payload} {next : Nat} {sel : List Sel} {st : St}
    (hns : noSpreadL p.sel = true) (hu : unmarkedL p.sel = true) (hd : depthL p.sel ≤ D)
    (hrest : Pending env D rest)
    (he : extract env fuel
      { step := next, loc := p.location, parentType := p.parentType, stepFrags := p.frags, sel := p.sel, ip := p.ip, wrapper := [] }
      { vars := [], frags := [], queue := rest } = .ok (sel, st)) :
    Pending env D st.queue ∧ waiting st.queue + cfcL sel ≤ waiting rest + cfcL p.sel :=
  ⟨⟨extract_noSpread env fuel _ _ _ _ he hns rfl hrest.ns,
    extract_unmarked env fuel _ _ _ _ he hns hu rfl hrest.un,
    extract_depth env D fuel _ _ _ _ he hns rfl (by simpa using hd) hrest.dp,
    extract_anch env fuel _ _ _ _ he hns hu rfl rfl hrest.an⟩,
   extract_acct env fuel _ _ _ _ he hns rfl⟩

theorem buildSteps_no_fuel (env : Env) (fuel D : Nat) (hD : D < fuel) :
    ∀ (k next : Nat) (queue : List Payload) (acc : List Step), Pending env D queue → waiting queue < k →
      buildSteps env fuel k next queue acc ≠ .error .fuel
  | 0, _, _, _, _, hk => by omega
  | _ + 1, _, [], acc, _, _ => by simp [buildSteps]
  | k + 1, next, p :: rest, acc, hp, hk => by
    have hns := hp.ns p (List.mem_cons_self ..)
    have hu := hp.un p (List.mem_cons_self ..)
    have hd := hp.dp p (List.mem_cons_self ..)
    have ha := hp.an p (List.mem_cons_self ..)
    have hrest : Pending env D rest :=
      ⟨fun o ho => hp.ns o (List.mem_cons_of_mem _ ho), fun o ho => hp.un o (List.mem_cons_of_mem _ ho),
       fun o ho => hp.dp o (List.mem_cons_of_mem _ ho), fun o ho => hp.an o (List.mem_cons_of_mem _ ho)⟩
    simp only [buildSteps]
    cases he : extract env fuel
      { step := next, loc := p.location, parentType := p.parentType, stepFrags := p.frags, sel := p.sel, ip := p.ip, wrapper := [] }
      { vars := [], frags := [], queue := rest } with
    | error e =>
      intro h
      simp only [Except.error.injEq] at h
      subst h
      exact extract_fuel env fuel _ _ hns (by simp only; omega) he
    | ok r =>
      obtain ⟨sel, st⟩ := r
      simp only
      obtain ⟨hpend, hacct⟩ := extract_pending hns hu hd hrest he
      have hkept : 1 ≤ cfcL sel := extract_kept env fuel _ _ _ _ he hns ha
      simp only [waiting] at hk
      exact buildSteps_no_fuel env fuel D hD k _ _ _ hpend (by omega)

/-- **the planner does not run out of fuel**: with more fuel than the nesting depth of the document and than its number
    of fields plus one, neither a call of `extractSelection` nor the work list of `generatePlans` exhausts it — every
    step after the root keeps at least one of the client's fields, so the fields still waiting strictly decrease -/
theorem planOperation_no_fuel {env : Env} {fuel : Nat} {operation : String} {sels : List Sel}
    (hns : noSpreadL sels = true) (hu : unmarkedL sels = true) (hd : depthL sels < fuel) (hc : cfcL sels + 1 < fuel) :
    planOperation env fuel operation sels ≠ .error .fuel := by
  unfold planOperation
  cases fuel with
  | zero => omega
  | succ k =>
    simp only [buildSteps]
    cases he : extract env (k + 1)
      { step := 0, loc := "", parentType := rootTypeOf operation, stepFrags := [], sel := sels, ip := [], wrapper := [] }
      { vars := [], frags := [], queue := [] } with
    | error e =>
      intro h
      simp only [Except.error.injEq] at h
      subst h
      exact extract_fuel env (k + 1) _ _ hns hd he
    | ok r =>
      obtain ⟨sel, st⟩ := r
      simp only
      have hempty : Pending env (depthL sels) [] :=
        ⟨fun o ho => (by cases ho), fun o ho => (by cases ho), fun o ho => (by cases ho), fun o ho => (by cases ho)⟩
      obtain ⟨hpend, hacct⟩ := extract_pending (p := { parent := none, location := "", parentType := rootTypeOf operation, ip := [], sel := sels, frags := [] })
        hns hu (Nat.le_refl _) hempty he
      simp only [waiting] at hacct
      exact buildSteps_no_fuel env (k + 1) (depthL sels) hd k _ _ _ hpend (by omega)

/-! ### no undefined fragment either -/
theorem buildSteps_no_fragment (env : Env) (fuel : Nat) (name : String) :
    ∀ (k next : Nat) (queue : List Payload) (acc : List Step), QueueNoSpread queue →
      buildSteps env fuel k next queue acc ≠ .error (.noFragment name)
  | 0, _, [], acc, _ => by simp [buildSteps]
  | 0, _, _ :: _, _, _ => by simp [buildSteps]
  | _ + 1, _, [], acc, _ => by simp [buildSteps]
  | k + 1, next, p :: rest, acc, hq => by
    have hns := hq p (List.mem_cons_self ..)
    have hrest : QueueNoSpread rest := fun o ho => hq o (List.mem_cons_of_mem _ ho)
    simp only [buildSteps]
    cases he : extract env fuel
      { step := next, loc := p.location, parentType := p.parentType, stepFrags := p.frags, sel := p.sel, ip := p.ip, wrapper := [] }
      { vars := [], frags := [], queue := rest } with
    | error e =>
      intro h
      simp only [Except.error.injEq] at h
      subst h
      exact extract_no_fragment env fuel _ _ name hns he
    | ok r =>
      obtain ⟨sel, st⟩ := r
      simp only
      exact buildSteps_no_fragment env fuel name k _ _ _ (extract_noSpread env fuel _ _ _ _ he hns rfl hrest)

theorem planOperation_no_fragment {env : Env} {fuel : Nat} {operation : String} {sels : List Sel}
    (hns : noSpreadL sels = true) (name : String) : planOperation env fuel operation sels ≠ .error (.noFragment name) := by
  refine buildSteps_no_fragment env fuel name _ _ _ _ ?_
  intro p hp
  have : p = _ := List.mem_singleton.1 hp
  subst this; exact hns

/-- **A routed document without named fragments gets a plan.** -/
theorem planOperation_total {env : Env} (hr : RoutesNonempty env) {fuel : Nat} {operation : String} {sels : List Sel}
    (hns : noSpreadL sels = true) (hu : unmarkedL sels = true) (hrt : routedL env (rootTypeOf operation) sels = true)
    (hd : depthL sels < fuel) (hc : cfcL sels + 1 < fuel) :
    ∃ steps, planOperation env fuel operation sels = .ok steps := by
  cases h : planOperation env fuel operation sels with
  | ok steps => exact ⟨steps, rfl⟩
  | error e =>
    exfalso
    have hb := planOperation_error_benign hr h
    cases e with
    | noRoute t f => exact planOperation_routed hns hrt t f h
    | noFragment n => exact planOperation_no_fragment hns n h
    | fuel => exact planOperation_no_fuel hns hu hd hc h
    | noLocalFragment n => simp [Benign] at hb
    | noWrapDefn => simp [Benign] at hb
    | crash s => simp [Benign] at hb

/-! ## Part 5: no client field is asked for twice (C13) -/

/-- the client's fields in the steps built so far, counted with multiplicity -/
def asked : List Step → Nat
  | [] => 0
  | s :: ss => cfcL s.sel + asked ss

theorem asked_append : ∀ (a b : List Step), asked (a ++ b) = asked a + asked b
  | [], b => by simp [asked]
  | x :: a, b => by simp only [List.cons_append, asked, asked_append a b]; omega

theorem buildSteps_asked (env : Env) (fuel : Nat) :
    ∀ (k next : Nat) (queue : List Payload) (acc res : List Step),
      buildSteps env fuel k next queue acc = .ok res → QueueNoSpread queue → asked res ≤ asked acc + waiting queue
  | 0, _, [], acc, res, h, _ => by simp only [buildSteps] at h; cases h; simp [waiting]
  | 0, _, _ :: _, _, _, h, _ => by simp only [buildSteps] at h; cases h
  | _ + 1, _, [], acc, res, h, _ => by simp only [buildSteps] at h; cases h; simp [waiting]
  | k + 1, next, p :: rest, acc, res, h, hq => by
    have hns := hq p (List.mem_cons_self ..)
    have hrest : QueueNoSpread rest := fun o ho => hq o (List.mem_cons_of_mem _ ho)
    simp only [buildSteps] at h
    split at h
    · cases h
    · rename_i sel st he
      have hacct := extract_acct env fuel _ _ _ _ he hns rfl
      have hqns := extract_noSpread env fuel _ _ _ _ he hns rfl hrest
      have ih := buildSteps_asked env fuel k _ _ _ res h hqns
      rw [asked_append] at ih
      simp only [asked, waiting] at ih hacct ⊢
      omega

/-- **No client field is asked for twice**: over all steps of the plan, the client's fields the steps ask their
    services for — counted with multiplicity — are at most the fields of the client's document.  With
    `planOperation_covers` (every requested leaf is asked for by some step) each is asked for exactly once. -/
theorem planOperation_no_field_twice {env : Env} {fuel : Nat} {operation : String} {sels : List Sel} {steps : List Step}
    (hns : noSpreadL sels = true) (h : planOperation env fuel operation sels = .ok steps) :
    asked steps ≤ cfcL sels := by
  have := buildSteps_asked env fuel _ _ _ _ _ h (by
    intro p hp
    have : p = _ := List.mem_singleton.1 hp
    subst this; exact hns)
  simpa [asked, waiting] using this

/-! ## Part 6: no step without a client field (C13) -/

theorem buildSteps_nonempty (env : Env) (fuel D : Nat) :
    ∀ (k next : Nat) (queue : List Payload) (acc res : List Step), Pending env D queue → 1 ≤ next →
      (∀ s ∈ acc, s.id ≠ 0 → 1 ≤ cfcL s.sel) → buildSteps env fuel k next queue acc = .ok res →
      ∀ s ∈ res, s.id ≠ 0 → 1 ≤ cfcL s.sel
  | 0, _, [], acc, res, _, _, ha, h => by simp only [buildSteps] at h; cases h; exact ha
  | 0, _, _ :: _, _, _, _, _, _, h => by simp only [buildSteps] at h; cases h
  | _ + 1, _, [], acc, res, _, _, ha, h => by simp only [buildSteps] at h; cases h; exact ha
  | k + 1, next, p :: rest, acc, res, hp, hn, ha, h => by
    have hns := hp.ns p (List.mem_cons_self ..)
    have hu := hp.un p (List.mem_cons_self ..)
    have hd := hp.dp p (List.mem_cons_self ..)
    have han := hp.an p (List.mem_cons_self ..)
    have hrest : Pending env D rest :=
      ⟨fun o ho => hp.ns o (List.mem_cons_of_mem _ ho), fun o ho => hp.un o (List.mem_cons_of_mem _ ho),
       fun o ho => hp.dp o (List.mem_cons_of_mem _ ho), fun o ho => hp.an o (List.mem_cons_of_mem _ ho)⟩
    simp only [buildSteps] at h
    split at h
    · cases h
    · rename_i sel st he
      obtain ⟨hpend, _⟩ := extract_pending hns hu hd hrest he
      have hkept : 1 ≤ cfcL sel := extract_kept env fuel _ _ _ _ he hns han
      refine buildSteps_nonempty env fuel D k _ _ _ res hpend (by omega) ?_ h
      intro s hs hid
      rcases List.mem_append.1 hs with hs | hs
      · exact ha s hs hid
      · have : s = _ := List.mem_singleton.1 hs
        subst this; exact hkept

/-- **every step other than the root asks its service for at least one of the client's fields**: the planner never
    makes a step that only carries plumbing (a hop that fetches nothing the client asked for) -/
theorem planOperation_no_empty_step {env : Env} {fuel : Nat} {operation : String} {sels : List Sel} {steps : List Step}
    (hns : noSpreadL sels = true) (hu : unmarkedL sels = true) (h : planOperation env fuel operation sels = .ok steps) :
    ∀ s ∈ steps, s.id ≠ 0 → 1 ≤ cfcL s.sel := by
  unfold planOperation at h
  cases fuel with
  | zero => simp only [buildSteps] at h; cases h
  | succ k =>
    simp only [buildSteps] at h
    split at h
    · cases h
    · rename_i sel st he
      have hempty : Pending env (depthL sels) [] :=
        ⟨fun o ho => (by cases ho), fun o ho => (by cases ho), fun o ho => (by cases ho), fun o ho => (by cases ho)⟩
      obtain ⟨hpend, _⟩ := extract_pending (p := { parent := none, location := "", parentType := rootTypeOf operation, ip := [], sel := sels, frags := [] })
        hns hu (Nat.le_refl _) hempty he
      refine buildSteps_nonempty env (k + 1) (depthL sels) k _ _ _ steps hpend (by omega) ?_ h
      intro s hs hid
      simp only [List.nil_append, List.mem_singleton] at hs
      subst hs
      exact absurd rfl hid

end Pl
