import GwModel.FindPtsAbstract
/-! A step's reply followed by the follow-ups of one dependent, in any order. -/
namespace Fp
open Ins

theorem nodup_map_prefix (a : List (Nat × Option Nat)) : ∀ (l : List (List (Nat × Option Nat))), l.Nodup →
    (l.map (a ++ ·)).Nodup
  | [], _ => by simp
  | x :: xs, h => by
    simp only [List.nodup_cons] at h
    simp only [List.map_cons, List.nodup_cons]
    refine ⟨?_, nodup_map_prefix a xs h.2⟩
    intro hm
    obtain ⟨y, hy, he⟩ := List.mem_map.1 hm
    have := List.append_cancel_left he
    exact h.1 (this ▸ hy)

/-- **a step and the follow-ups of one of its dependents, in any order of the follow-ups.**  The step's reply `P` is
    stitched at its insertion point `ip`; the places of a dependent step are computed from `P` alone; the follow-up
    answers are then stitched below `ip` in any order.  Every insertion succeeds and each object that `P` delivered
    ends up with exactly its own follow-up answer. -/
theorem parent_then_children (acc : J) (ip : List RPt) (o P : KVs) (hPs : Sorted P)
    (hip : walk acc ip = some (.obj o)) (i0 : PInfo) (infos : List PInfo) (hfresh : lookup i0.key o = none)
    (paths : List (List RPt)) (hfind : findPts (i0 :: infos) P [] = .ok paths) (hc : Conf (i0 :: infos) P)
    (payload : List RPt → KVs) (l : List (List RPt)) (hsub : ∀ p ∈ l, p ∈ paths) (hnd : (l.map sig).Nodup) :
    ∃ acc' final, insertAt acc (ip.map toPt) (.obj P) = some acc' ∧
      (l.map (ip ++ ·)).foldl (stitchOne payload) (some acc') = some final ∧
      ∀ p ∈ l, ∃ o', walk (.obj P) p = some (.obj o') ∧
        walk final (ip ++ p) = some (.obj (mergeK o' (payload (ip ++ p)))) := by
  obtain ⟨acc', hins, _⟩ := insertAt_walk ip acc o P hip
  -- every place of the dependent is valid in the accumulated response
  have valid : ∀ p ∈ paths, ∃ o', walk (.obj P) p = some (.obj o') ∧ walk acc' (ip ++ p) = some (.obj o') := by
    intro p hp
    obtain ⟨suf, hsuf, hkeys, o', hw, _⟩ := findPts_good (i0 :: infos) P [] paths hfind hc p hp
    simp only [List.nil_append] at hsuf; subst hsuf
    cases p with
    | nil => simp at hkeys
    | cons a suf =>
      have hk : a.key = i0.key := by simpa using (List.cons.inj hkeys).1
      obtain ⟨acc'', hins'', hw''⟩ := child_path_valid_after_parent acc ip suf a o P o' hPs hip (hk ▸ hfresh) hw
      rw [hins] at hins''; cases hins''
      exact ⟨o', hw, hw''⟩
  let paths2 := paths.map (ip ++ ·)
  have hsigs2 : (paths2.map sig).Nodup := by
    have := nodup_map_prefix (sig ip) _ (findPts_nodup _ _ _ _ hfind)
    simpa [paths2, List.map_map, Function.comp_def] using this
  have hparts2 : ∀ p ∈ paths2, ∀ q ∈ paths2, sig p ≠ sig q → Parts p q := by
    intro p hp q hq hne
    obtain ⟨p0, hp0, rfl⟩ := List.mem_map.1 hp
    obtain ⟨q0, hq0, rfl⟩ := List.mem_map.1 hq
    have hne0 : sig p0 ≠ sig q0 := fun e => hne (by simp [e])
    exact parts_same_prefix ip _ _ (findPts_pairwise_parts _ _ _ _ hfind p0 hp0 q0 hq0 hne0)
  have hx2 : ∀ q ∈ paths2, ∃ o, walk acc' q = some (.obj o) := by
    intro q hq
    obtain ⟨q0, hq0, rfl⟩ := List.mem_map.1 hq
    obtain ⟨o', _, hw⟩ := valid q0 hq0
    exact ⟨o', hw⟩
  have hsub2 : ∀ p ∈ l.map (ip ++ ·), p ∈ paths2 := by
    intro p hp
    obtain ⟨p0, hp0, rfl⟩ := List.mem_map.1 hp
    exact List.mem_map.2 ⟨p0, hsub p0 hp0, rfl⟩
  have hnd2 : ((l.map (ip ++ ·)).map sig).Nodup := by
    have := nodup_map_prefix (sig ip) _ hnd
    simpa [List.map_map, Function.comp_def] using this
  obtain ⟨final, hfold, _, hmine, _⟩ := stitch_abstract paths2 hsigs2 hparts2 payload (l.map (ip ++ ·)) acc' hsub2 hnd2 hx2
  refine ⟨acc', final, hins, hfold, ?_⟩
  intro p hp
  obtain ⟨o', hw, hwacc⟩ := valid p (hsub p hp)
  exact ⟨o', hw, hmine (ip ++ p) (List.mem_map.2 ⟨p, hp, rfl⟩) o' hwacc⟩

end Fp
