import GwModel.FindPtsAbstract
/-! What the built-in scrubber does to the response (middlewares.go `scrubInsertionIDs`): for every listed
    location the realised points are searched in the response (`Fp.findPts`, against the client's own selection),
    the object at each point is fetched with `executorExtractValue` and the field is deleted from it.

    `deleteAt` is that fetch-and-delete for one realised point (same walk as `Ins.insertAt`, which models
    `executorExtractValue`); `scrubPaths` does it for a family of points.  Proved: the object at every scrubbed point
    loses exactly the key `id` (key 0) and keeps everything else; every other point of the family, and so every
    other object reached by the location, is untouched — for every response, every number of list elements and
    every order of the deletions.  Tied to middlewares.go by the L2.scrub correspondence (harness `scrubcorr.go`). -/
namespace Scr
open Ins Fp

/-- Go's `delete(obj, key)` on the key-ordered association list (same scanning discipline as `lookup`/`put`) -/
def erase (k : Nat) : KVs → KVs
  | [] => []
  | (k', v) :: r => if k = k' then r else if k < k' then (k', v) :: r else (k', v) :: erase k r

/-- the end of one scrub: "Can not scrub field from non object" -/
def delFinish : J → Option J
  | .obj kvs => some (.obj (erase 0 kvs))
  | _ => none

def deleteAt : J → List Pt → Option J
  | x, [] => delFinish x
  | .obj kvs, ⟨f, none⟩ :: rest =>
    (deleteAt (childOf kvs f) rest).map fun c => .obj (put f c kvs)
  | .obj kvs, ⟨f, some i⟩ :: rest =>
    match lookup f kvs with
    | none => (updAt [] i fun e => deleteAt e rest).map fun l => .obj (put f (.arr l) kvs)
    | some (.arr l0) => (updAt l0 i fun e => deleteAt e rest).map fun l => .obj (put f (.arr l) kvs)
    | some _ => none
  | _, _ :: _ => none

/-! ### `erase` against `lookup` -/
theorem lookup_erase_self : ∀ {l : KVs}, Sorted l → lookup 0 (erase 0 l) = none
  | [], _ => rfl
  | (k', v) :: r, h => by
    simp only [erase]
    by_cases hk : 0 = k'
    · subst hk
      simp only [if_true]
      -- the rest holds larger keys only
      cases r with
      | nil => rfl
      | cons y ys =>
        obtain ⟨k2, v2⟩ := y
        have : 0 < k2 := (sorted_cons.1 h).1 k2 (by simp)
        simp only [lookup]
        have h1 : ¬ (0 = k2) := by omega
        simp [h1, this]
    · have hlt : 0 < k' := by omega
      simp only [hk, if_false, hlt, if_true, lookup]

theorem lookup_erase_other {k : Nat} (hk : k ≠ 0) : ∀ {l : KVs}, Sorted l → lookup k (erase 0 l) = lookup k l
  | [], _ => rfl
  | (k', v) :: r, h => by
    simp only [erase]
    by_cases h0 : 0 = k'
    · subst h0
      simp only [if_true]
      have : ¬ (k = 0) := hk
      have hlt : ¬ (k < 0) := by omega
      simp [lookup, this, hlt]
    · have hlt : 0 < k' := by omega
      simp only [h0, if_false, hlt, if_true]

/-! ### one deletion reaches the object the path leads to -/
theorem deleteAt_walk : ∀ (suf : List RPt) (x : J) (o : KVs), walk x suf = some (.obj o) →
    ∃ x', deleteAt x (suf.map toPt) = some x' ∧ walk x' suf = some (.obj (erase 0 o))
  | [], x, o, h => by
    simp [walk] at h; subst h
    exact ⟨.obj (erase 0 o), by simp [deleteAt, delFinish], by simp [walk]⟩
  | q :: r, x, o, h => by
    cases x with
    | null => simp [walk] at h
    | leaf s => simp [walk] at h
    | arr l => simp [walk] at h
    | obj k =>
      obtain ⟨key, idx, id⟩ := q
      cases hl : lookup key k with
      | none => simp [walk, hl] at h
      | some v =>
        cases idx with
        | none =>
          have hw : walk v r = some (.obj o) := by simpa [walk, hl] using h
          have hv : childOf k key = v := by
            unfold childOf; rw [hl]
            cases v with
            | null => cases r <;> simp [walk] at hw
            | leaf s => rfl
            | arr l => rfl
            | obj k' => rfl
          obtain ⟨v', hi, hw'⟩ := deleteAt_walk r v o hw
          refine ⟨.obj (put key v' k), ?_, ?_⟩
          · simp [List.map_cons, toPt, deleteAt, hv, hi]
          · simp [walk, lookup_put, hw']
        | some i =>
          cases v with
          | null => simp [walk, hl] at h
          | leaf s => simp [walk, hl] at h
          | obj k' => simp [walk, hl] at h
          | arr l =>
            cases he : l[i]? with
            | none => simp [walk, hl, he] at h
            | some e =>
              have hw : walk e r = some (.obj o) := by simpa [walk, hl, he] using h
              obtain ⟨e', hi, hw'⟩ := deleteAt_walk r e o hw
              have hu := updAt_of_getElem (F := fun e => deleteAt e (r.map toPt)) he hi
              refine ⟨.obj (put key (.arr (l.set i e')) k), ?_, ?_⟩
              · simp [List.map_cons, toPt, deleteAt, hl, hu]
              · have hlt : i < l.length := by
                  rcases List.getElem?_eq_some_iff.1 he with ⟨hlt, _⟩; exact hlt
                simp [walk, lookup_put, hlt, hw']

/-- **frame**: a deletion at one point leaves what another point, parting from it at a list index, leads to -/
theorem deleteAt_frame : ∀ (p q : List RPt) (x : J) (op oq : KVs),
    walk x p = some (.obj op) → walk x q = some (.obj oq) → Parts p q →
    ∃ x', deleteAt x (p.map toPt) = some x' ∧ walk x' q = some (.obj oq)
  | [], _, _, _, _, _, _, h => by simp [Parts] at h
  | _ :: _, [], _, _, _, _, _, h => by simp [Parts] at h
  | a :: p, b :: q, x, op, oq, hp, hq, h => by
    obtain ⟨k1, i1, d1⟩ := a
    obtain ⟨k2, i2, d2⟩ := b
    simp only [Parts] at h
    obtain ⟨hk, h⟩ := h
    subst hk
    cases x with
    | null => simp [walk] at hp
    | leaf s => simp [walk] at hp
    | arr l => simp [walk] at hp
    | obj k =>
      cases hl : lookup k1 k with
      | none => simp [walk, hl] at hp
      | some v =>
        cases i1 with
        | none =>
          cases i2 with
          | some j => simp at h
          | none =>
            have hp' : walk v p = some (.obj op) := by simpa [walk, hl] using hp
            have hq' : walk v q = some (.obj oq) := by simpa [walk, hl] using hq
            have hv : childOf k k1 = v := by
              unfold childOf; rw [hl]
              cases v with
              | null => cases p <;> simp [walk] at hp'
              | leaf s => rfl
              | arr l => rfl
              | obj k' => rfl
            obtain ⟨v', hi, hw⟩ := deleteAt_frame p q v op oq hp' hq' h
            refine ⟨.obj (put k1 v' k), ?_, ?_⟩
            · simp [List.map_cons, toPt, deleteAt, hv, hi]
            · simp [walk, lookup_put, hw]
        | some i =>
          cases i2 with
          | none => simp at h
          | some j =>
            cases v with
            | null => simp [walk, hl] at hp
            | leaf s => simp [walk, hl] at hp
            | obj k' => simp [walk, hl] at hp
            | arr l =>
              cases hei : l[i]? with
              | none => simp [walk, hl, hei] at hp
              | some ei =>
                cases hej : l[j]? with
                | none => simp [walk, hl, hej] at hq
                | some ej =>
                  have hp' : walk ei p = some (.obj op) := by simpa [walk, hl, hei] using hp
                  have hq' : walk ej q = some (.obj oq) := by simpa [walk, hl, hej] using hq
                  have hlt : i < l.length := (List.getElem?_eq_some_iff.1 hei).1
                  by_cases e : i = j
                  · subst e
                    simp at h
                    have : ei = ej := by rw [hei] at hej; exact Option.some.inj hej
                    subst this
                    obtain ⟨e', hi, hw⟩ := deleteAt_frame p q ei op oq hp' hq' h
                    have hu := updAt_of_getElem (F := fun e => deleteAt e (p.map toPt)) hei hi
                    refine ⟨.obj (put k1 (.arr (l.set i e')) k), ?_, ?_⟩
                    · simp [List.map_cons, toPt, deleteAt, hl, hu]
                    · simp [walk, lookup_put, hlt, hw]
                  · obtain ⟨e', hi, _⟩ := deleteAt_walk p ei op hp'
                    have hu := updAt_of_getElem (F := fun e => deleteAt e (p.map toPt)) hei hi
                    refine ⟨.obj (put k1 (.arr (l.set i e')) k), ?_, ?_⟩
                    · simp [List.map_cons, toPt, deleteAt, hl, hu]
                    · have : (l.set i e')[j]? = some ej := by
                        rw [List.getElem?_set_ne e]; exact hej
                      simp [walk, lookup_put, this, hq']

/-! ### a whole location -/
def scrubOne (acc : Option J) (p : List RPt) : Option J := acc.bind fun x => deleteAt x (p.map toPt)

/-- **scrubbing one location.**  `paths`: places that pairwise part at a list index (what `findPts` realises for one
    location: `findPts_nodup`, `findPts_pairwise_parts`), each leading to an object.  Deleting at any sub-list of
    them, in any order, each once: every deletion succeeds, the object at each scrubbed place is what it was minus
    the key `id`, and every other place is untouched. -/
theorem scrub_abstract (paths : List (List RPt)) (hsigs : (paths.map sig).Nodup)
    (hparts : ∀ p ∈ paths, ∀ q ∈ paths, sig p ≠ sig q → Parts p q) :
    ∀ (l : List (List RPt)) (x : J), (∀ p ∈ l, p ∈ paths) → (l.map sig).Nodup →
      (∀ q ∈ paths, ∃ o, walk x q = some (.obj o)) →
      ∃ final, l.foldl scrubOne (some x) = some final ∧
        (∀ q ∈ paths, ∃ o, walk final q = some (.obj o)) ∧
        (∀ p ∈ l, ∀ o, walk x p = some (.obj o) → walk final p = some (.obj (erase 0 o))) ∧
        (∀ q ∈ paths, sig q ∉ l.map sig → walk final q = walk x q)
  | [], x, _, _, hx => by
    refine ⟨x, rfl, hx, ?_, ?_⟩
    · intro p hp; cases hp
    · intro q _ _; rfl
  | p :: l, x, hsub, hnd, hx => by
    have hpp := hsub p (List.mem_cons_self ..)
    obtain ⟨op, hwp⟩ := hx p hpp
    obtain ⟨x1, hdel, hw1⟩ := deleteAt_walk p x op hwp
    have frame : ∀ q ∈ paths, sig q ≠ sig p → walk x1 q = walk x q := by
      intro q hq hne
      obtain ⟨oq, hwq⟩ := hx q hq
      have hpq := hparts p hpp q hq (fun e => hne e.symm)
      obtain ⟨x1', hdel', hw'⟩ := deleteAt_frame p q x op oq hwp hwq hpq
      rw [hdel] at hdel'; cases hdel'
      rw [hw', hwq]
    have hx1 : ∀ q ∈ paths, ∃ o, walk x1 q = some (.obj o) := by
      intro q hq
      by_cases e : sig q = sig p
      · have := sig_inj_of_nodup hsigs q hq p hpp e
        subst this; exact ⟨_, hw1⟩
      · rw [frame q hq e]; exact hx q hq
    simp only [List.map_cons, List.nodup_cons] at hnd
    obtain ⟨final, hfold, hfin, hmine, hrest⟩ :=
      scrub_abstract paths hsigs hparts l x1 (fun q hq => hsub q (List.mem_cons_of_mem _ hq)) hnd.2 hx1
    refine ⟨final, ?_, hfin, ?_, ?_⟩
    · simp only [List.foldl_cons, scrubOne, Option.bind_some, hdel]
      exact hfold
    · intro q hq o hwq
      rcases List.mem_cons.1 hq with rfl | hq
      · rw [hwp] at hwq; cases hwq
        rw [hrest q hpp hnd.1, hw1]
      · have hqp := hsub q (List.mem_cons_of_mem _ hq)
        have hne : sig q ≠ sig p := by
          intro e; exact hnd.1 (e ▸ List.mem_map.2 ⟨q, hq, rfl⟩)
        exact hmine q hq o (by rw [frame q hqp hne]; exact hwq)
    · intro q hq hnot
      simp only [List.map_cons, List.mem_cons, not_or] at hnot
      rw [hrest q hq hnot.2, frame q hq hnot.1]

/-- `scrubInsertionIDs` for one listed location of a response `chunk`: search, then delete at every point found -/
def scrubLocation (infos : List PInfo) (chunk : KVs) : Option J :=
  match findPts infos chunk [] with
  | .error _ => none
  | .ok paths => paths.foldl scrubOne (some (.obj chunk))

/-- **the scrubber removes the join id from exactly the objects a listed location leads to.**  For a response whose
    kinds are as the selection promises (`Conf`): the search succeeds, every deletion succeeds, and each object the
    location leads to — in every list element, at every depth — is afterwards what it was before minus the key `id`. -/
theorem scrubLocation_exact (infos : List PInfo) (chunk : KVs) (paths : List (List RPt))
    (hfind : findPts infos chunk [] = .ok paths) (hc : Conf infos chunk) :
    ∃ final, scrubLocation infos chunk = some final ∧
      ∀ p ∈ paths, ∃ o, walk (.obj chunk) p = some (.obj o) ∧ walk final p = some (.obj (erase 0 o)) := by
  have hgood := findPts_good infos chunk [] paths hfind hc
  have hobj : ∀ q ∈ paths, ∃ o, walk (.obj chunk) q = some (.obj o) := by
    intro q hq
    obtain ⟨suf, hpath, _, o, hw, _⟩ := hgood q hq
    simp only [List.nil_append] at hpath
    subst hpath
    exact ⟨o, hw⟩
  obtain ⟨final, hfold, _, hmine, _⟩ :=
    scrub_abstract paths (findPts_nodup infos chunk [] paths hfind) (findPts_pairwise_parts infos chunk [] paths hfind)
      paths (.obj chunk) (fun p hp => hp) (findPts_nodup infos chunk [] paths hfind) hobj
  refine ⟨final, ?_, ?_⟩
  · simp only [scrubLocation, hfind]; exact hfold
  · intro p hp
    obtain ⟨o, hw⟩ := hobj p hp
    exact ⟨o, hw, hmine p hp o hw⟩

end Scr
