/-! Types of the facts that `gwfacts` extracts from the Go sources on every run (DESIGN §2.1).
    `GwModel/Gen/Facts.lean` is *generated*; the models are parameterised by these values and every
    `Props/Cxx.lean` closes with `facts_safe : Safe Gen.… := by decide`. -/
namespace Facts

/-- the three effects of `executeStep`, in source order -/
inductive Op | add | pub | spawn
deriving DecidableEq, Repr

structure ExecFacts where
  recognised : Bool
  resultCap : Nat
  errCap : Option Nat            -- none: there is no error channel
  order : List Op                -- statement order in executeStep
  collectorSelfSendsErr : Bool   -- the collector forwards step errors into a channel it alone drains
  collectors : Nat               -- goroutines receiving from resultCh
  collectorInLoop : Bool
  doneAfterInsert : Bool
  doneOnEveryPath : Bool
  errsBeforeDone : Bool          -- a step's error is recorded before the stepWg.Done() that can let Execute return
  rootAddSpawnWait : Bool
deriving DecidableEq, Repr

def ExecFacts.unrecognised : ExecFacts :=
  { recognised := false, resultCap := 0, errCap := none, order := [], collectorSelfSendsErr := true,
    collectors := 0, collectorInLoop := false, doneAfterInsert := false, doneOnEveryPath := false,
    errsBeforeDone := false, rootAddSpawnWait := false }

inductive PlanQueueKind
  | boundedSelfFedChan (cap : Nat)   -- steps travel through a bounded channel fed by its own consumer
  | localWorklist                    -- steps are kept in a local list processed synchronously
  | unrecognised
deriving DecidableEq, Repr

inductive ChooserKind | selectLocation | firstDeclared | unrecognised
deriving DecidableEq, Repr

inductive PrioSource | configured | parent | internal | unknown
deriving DecidableEq, Repr

structure SelectFacts where
  recognised : Bool
  singleShortCircuit : Bool
  order : List PrioSource
  fallbackFirst : Bool
deriving DecidableEq, Repr

structure MwFacts where
  scrubFirst : Bool
  appendInOrder : Bool
  loopUnconditional : Bool
  errorAborts : Bool
  returnsResultAndExecErr : Bool
deriving DecidableEq, Repr

/-- gateway.go, how `New` takes its options (model `Nw`) -/
structure NewOptsFacts where
  middlewaresAdd : Bool
  plannerSets : Bool
  prioritiesSet : Bool
  factorySets : Bool
  handOverAfterOptions : Bool
deriving DecidableEq, Repr

structure OpSelectFacts where
  singleUsesOnly : Bool
  emptyNameRejected : Bool
  selectsByName : Bool
  onlyIfNameMatches : Bool    -- a lone operation is used only when no name is given or the name is its own
deriving DecidableEq, Repr

inductive CacheStoreOp | loadOrStore | store | unrecognised
deriving DecidableEq, Repr
inductive EvictCmp | lastUsedBeforeNowMinusTtl | unrecognised
deriving DecidableEq, Repr

structure CacheFacts where
  storeOp : CacheStoreOp
  touchOnHit : Bool
  evict : EvictCmp
  keyIsShaOfText : Bool
  missWithoutQueryIsNotFound : Bool
  planErrorNotStored : Bool      -- a planner error returns before anything is stored
deriving DecidableEq, Repr

structure BatchFacts where
  writeByIndex : Bool
  waitsAll : Bool
  planErrAborts : Bool
  plansAllBeforeExecuting : Bool
deriving DecidableEq, Repr

inductive SwitchSubject | name | alias
deriving DecidableEq, Repr

structure IntroSwitch where
  resolver : String
  subject : SwitchSubject
  labels : List String
deriving DecidableEq, Repr

inductive ValueCompare | rawOnly | deep | unrecognised
deriving DecidableEq, Repr
inductive PossibleTypesFrom | firstDefinition | mergedDefinitions | unrecognised
deriving DecidableEq, Repr

structure MergeFacts where
  kindGuard : Bool
  nilGuards : List String
  valueCompare : ValueCompare
  possibleTypesFrom : PossibleTypesFrom
  directiveListsBothWays : Bool
deriving DecidableEq, Repr

inductive ScrubSource | firstOperation | ownOperation | unrecognised
deriving DecidableEq, Repr
inductive NaturalIdTest | aliasIsId | nameIsId | unrecognised
deriving DecidableEq, Repr

structure ScrubFacts where
  source : ScrubSource
  natural : NaturalIdTest
  deletesField : Bool
deriving DecidableEq, Repr

end Facts
