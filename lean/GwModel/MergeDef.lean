import GwModel.MergeObj
/-! Definition-level characterisation of the schema merge (merge.go mergeSchemas, one name group):
    folding `mergeDef` over the definitions the services give for one name succeeds iff the definitions
    are pairwise compatible, whatever the order.  Field detail (type, nullability, arguments, deep default
    values, applied directives compared both ways) is abstracted into the signature `sig`; the concrete
    signature function lives in `GwModel/MergeConc.lean` and is what the correspondence exercises. -/
namespace Mg

/-! ### list helpers (core only) -/

theorem subset_antisymm_of_length {α : Type} [DecidableEq α] :
    ∀ (a b : List α), a.Nodup → (∀ x ∈ a, x ∈ b) → b.length ≤ a.length → ∀ y ∈ b, y ∈ a
  | [], b, _, _, hl, y, hy => by
    have : b = [] := List.eq_nil_of_length_eq_zero (by simpa using hl)
    subst this; cases hy
  | x :: a, b, hnd, hsub, hl, y, hy => by
    have hxb : x ∈ b := hsub x (List.mem_cons_self ..)
    obtain ⟨hxa, hnd'⟩ := List.nodup_cons.1 hnd
    have hsub' : ∀ z ∈ a, z ∈ b.erase x := fun z hz =>
      (List.mem_erase_of_ne (fun (h : z = x) => hxa (h ▸ hz))).2 (hsub z (List.mem_cons_of_mem _ hz))
    have hlen : (b.erase x).length ≤ a.length := by
      rw [List.length_erase_of_mem hxb]; simp at hl; omega
    by_cases hyx : y = x
    · subst hyx; exact List.mem_cons_self ..
    · have : y ∈ b.erase x := (List.mem_erase_of_ne hyx).2 hy
      exact List.mem_cons_of_mem _ (subset_antisymm_of_length a (b.erase x) hnd' hsub' hlen y this)

theorem nodup_of_nodup_map {α β : Type} (f : α → β) : ∀ (l : List α), (l.map f).Nodup → l.Nodup
  | [], _ => List.nodup_nil
  | x :: xs, h => by
    rw [List.map_cons, List.nodup_cons] at h
    exact List.nodup_cons.2
      ⟨fun hx => h.1 (List.mem_map.2 ⟨x, hx, rfl⟩), nodup_of_nodup_map f xs h.2⟩

theorem nodup_of_nodupNames {fs : List Field} (h : NodupNames fs) : fs.Nodup :=
  nodup_of_nodup_map (fun x : Field => x.name) fs h

theorem sameSet_refl (a : List Field) : SameSet a a := fun _ => Iff.rfl
theorem sameSet_trans {a b c : List Field} (h1 : SameSet a b) (h2 : SameSet b c) : SameSet a c :=
  fun f => (h1 f).trans (h2 f)
theorem sameSet_symm {a b : List Field} (h : SameSet a b) : SameSet b a := fun f => (h f).symm

/-! ### `sameFields` decides `SameSet` on duplicate-free member lists -/

theorem sameFields_iff {a b : List Field} (ha : NodupNames a) (hb : NodupNames b) :
    sameFields a b = true ↔ SameSet a b := by
  unfold sameFields SameSet
  simp only [Bool.and_eq_true, beq_iff_eq, List.all_eq_true]
  constructor
  · rintro ⟨hlen, hall⟩
    have hsub : ∀ f ∈ a, f ∈ b := by
      intro f hf
      have h := hall f hf
      cases hl : lookupF b f.name with
      | none => rw [hl] at h; cases h
      | some g =>
        rw [hl] at h
        have hsig : g.sig = f.sig := by simpa using h
        obtain ⟨hg, hgn⟩ := lookupF_some hl
        have : g = f := by
          cases g; cases f; simp_all
        exact this ▸ hg
    intro f
    exact ⟨hsub f, subset_antisymm_of_length a b (nodup_of_nodupNames ha) hsub (by omega) f⟩
  · intro h
    have hsub : ∀ f ∈ a, f ∈ b := fun f hf => (h f).1 hf
    refine ⟨?_, ?_⟩
    · have p : a.Perm b :=
        (List.perm_ext_iff_of_nodup (nodup_of_nodupNames ha) (nodup_of_nodupNames hb)).2 h
      exact p.length_eq
    · intro f hf
      have hfb := hsub f hf
      cases hl : lookupF b f.name with
      | none => exact absurd rfl (lookupF_none hl f hfb)
      | some g =>
        obtain ⟨hg, hgn⟩ := lookupF_some hl
        have : g = f := nodupNames_unique hb hg hfb hgn
        simp [this]

/-! ### evaluation of `mergeDef` and unfolding of `Compat`, kind by kind -/

theorem mergeDef_ne {a b : Def} (h : a.kind ≠ b.kind) : mergeDef a b = none := by
  simp [mergeDef, h]

theorem mergeDef_obj {a b : Def} (hk : a.kind = b.kind) (ha : a.kind = .object) :
    mergeDef a b = (mergeFieldsUnion a.fields b.fields).map fun fs =>
      { a with fields := fs, ifaces := a.ifaces ++ b.ifaces.filter (· ∉ a.ifaces) } := by
  have hb : b.kind = .object := hk ▸ ha
  simp [mergeDef, ha, hb]

theorem mergeDef_scalar {a b : Def} (hk : a.kind = b.kind) (ha : a.kind = .scalar) :
    mergeDef a b = some a := by
  have hb : b.kind = .scalar := hk ▸ ha
  simp [mergeDef, ha, hb]

theorem mergeDef_other {a b : Def} (hk : a.kind = b.kind) (ho : a.kind ≠ .object)
    (hs : a.kind ≠ .scalar) :
    mergeDef a b = if sameFields a.fields b.fields then some a else none := by
  rcases a with ⟨n, k, f, i⟩
  simp only at hk ho hs
  cases k <;> simp_all [mergeDef]

theorem compat_obj {a b : Def} (ha : a.kind = .object) :
    Compat a b ↔ (a.kind = b.kind ∧ FieldsAgree a.fields b.fields) := by
  rcases a with ⟨n, k, f, i⟩
  simp only at ha
  subst ha
  exact Iff.rfl

theorem compat_scalar {a b : Def} (ha : a.kind = .scalar) :
    Compat a b ↔ a.kind = b.kind := by
  rcases a with ⟨n, k, f, i⟩
  simp only at ha
  subst ha
  exact ⟨fun h => h.1, fun h => ⟨h, trivial⟩⟩

theorem compat_other {a b : Def} (ho : a.kind ≠ .object) (hs : a.kind ≠ .scalar) :
    Compat a b ↔ (a.kind = b.kind ∧ SameSet a.fields b.fields) := by
  rcases a with ⟨n, k, f, i⟩
  simp only at ho hs
  cases k
  · exact absurd rfl hs
  · exact absurd rfl ho
  all_goals exact Iff.rfl

theorem Compat.symm {a b : Def} (h : Compat a b) : Compat b a := by
  have hk : a.kind = b.kind := h.1
  by_cases ho : a.kind = .object
  · have hbo : b.kind = .object := hk ▸ ho
    exact (compat_obj hbo).2 ⟨hk.symm, ((compat_obj ho).1 h).2.symm⟩
  · by_cases hs : a.kind = .scalar
    · have hbs : b.kind = .scalar := hk ▸ hs
      exact (compat_scalar hbs).2 hk.symm
    · have hbo : b.kind ≠ .object := hk ▸ ho
      have hbs : b.kind ≠ .scalar := hk ▸ hs
      exact (compat_other hbo hbs).2 ⟨hk.symm, sameSet_symm ((compat_other ho hs).1 h).2⟩

/-! ### the fold -/

/-- the accumulated definition after merging a prefix of the group -/
def foldDefs : Def → List Def → Option Def
  | acc, [] => some acc
  | acc, d :: ds => (mergeDef acc d).bind fun acc' => foldDefs acc' ds

theorem mergeGroup_eq_foldDefs (d : Def) (ds : List Def) : mergeGroup (d :: ds) = foldDefs d ds := by
  unfold mergeGroup
  induction ds generalizing d with
  | nil => rfl
  | cons x xs ih =>
    simp only [List.foldlM_cons, foldDefs]
    cases mergeDef d x with
    | none => rfl
    | some a => simpa using ih a

def DefOK (d : Def) : Prop := NodupNames d.fields

/-- what the fold keeps invariant: same kind as the first definition; for objects the accumulated
    fields represent everything seen so far, for the other kinds the first definition's members are kept
    and (except for scalars) everything seen so far has exactly those members -/
structure Inv (first acc : Def) (seen : List Def) : Prop where
  mem : first ∈ seen
  kind : acc.kind = first.kind
  skind : ∀ s ∈ seen, s.kind = first.kind
  obj : first.kind = .object → Represents acc.fields (seen.map (·.fields))
  other : first.kind ≠ .object → acc.fields = first.fields
  same : first.kind ≠ .object → first.kind ≠ .scalar → ∀ s ∈ seen, SameSet first.fields s.fields

theorem inv_self {d : Def} (hd : DefOK d) : Inv d d [d] where
  mem := List.mem_cons_self ..
  kind := rfl
  skind := fun s hs => by simp at hs; subst hs; rfl
  obj := fun _ => by simpa using represents_self hd
  other := fun _ => rfl
  same := fun _ _ s hs => by simp at hs; subst hs; exact sameSet_refl _

theorem skind_snoc {first d : Def} {seen : List Def} (h : ∀ s ∈ seen, s.kind = first.kind)
    (hd : d.kind = first.kind) : ∀ s ∈ seen ++ [d], s.kind = first.kind := by
  intro s hs
  rcases List.mem_append.1 hs with hs | hs
  · exact h s hs
  · simp at hs; subst hs; exact hd

/-- one step of the fold: it succeeds iff the new definition is compatible with everything seen,
    and then the invariant is kept -/
theorem step {first acc d : Def} {seen : List Def} (hfirst : DefOK first)
    (hinv : Inv first acc seen) (hd : DefOK d) :
    ((∃ r, mergeDef acc d = some r) ↔ ∀ s ∈ seen, Compat s d) ∧
    (∀ r, mergeDef acc d = some r → Inv first r (seen ++ [d])) := by
  by_cases hk : acc.kind = d.kind
  · have hkf : first.kind = d.kind := by rw [← hinv.kind]; exact hk
    have hmem' : first ∈ seen ++ [d] := List.mem_append.2 (Or.inl hinv.mem)
    have hskind' := skind_snoc hinv.skind hkf.symm
    by_cases ho : first.kind = .object
    · -- objects: field union
      have hao : acc.kind = .object := by rw [hinv.kind, ho]
      have hrep := hinv.obj ho
      have hcompat : (∀ s ∈ seen, Compat s d) ↔ FieldsAgree acc.fields d.fields := by
        rw [represents_agree hrep]
        constructor
        · intro h p hp
          obtain ⟨s, hs, rfl⟩ := List.mem_map.1 hp
          exact ((compat_obj ((hinv.skind s hs).trans ho)).1 (h s hs)).2
        · intro h s hs
          exact (compat_obj ((hinv.skind s hs).trans ho)).2
            ⟨(hinv.skind s hs).trans hkf, h _ (List.mem_map.2 ⟨s, hs, rfl⟩)⟩
      rw [hcompat, mergeDef_obj hk hao]
      by_cases hag : FieldsAgree acc.fields d.fields
      · rw [mergeFieldsUnion_ok d.fields acc.fields hd hag]
        refine ⟨⟨fun _ => hag, fun _ => ⟨_, rfl⟩⟩, ?_⟩
        intro r hr
        simp only [Option.map_some, Option.some.injEq] at hr
        subst hr
        exact
          { mem := hmem'
            kind := hinv.kind
            skind := hskind'
            obj := fun _ => by simpa [List.map_append] using represents_step hrep hd hag
            other := fun h => absurd ho h
            same := fun h => absurd ho h }
      · have hnone : mergeFieldsUnion acc.fields d.fields = none := by
          cases hm : mergeFieldsUnion acc.fields d.fields with
          | none => rfl
          | some r => exact absurd (mergeFieldsUnion_agree d.fields acc.fields r hm hd hrep.nodup) hag
        rw [hnone]
        refine ⟨⟨(fun ⟨r, h⟩ => by cases h), fun h => absurd h hag⟩, fun r h => by cases h⟩
    · have hao : acc.kind ≠ .object := by rw [hinv.kind]; exact ho
      have hfields : acc.fields = first.fields := hinv.other ho
      by_cases hs : first.kind = .scalar
      · -- scalars: always accepted
        have has : acc.kind = .scalar := by rw [hinv.kind, hs]
        rw [mergeDef_scalar hk has]
        refine ⟨⟨fun _ s hs' => ?_, fun _ => ⟨_, rfl⟩⟩, ?_⟩
        · exact (compat_scalar ((hinv.skind s hs').trans hs)).2 ((hinv.skind s hs').trans hkf)
        · intro r hr
          simp only [Option.some.injEq] at hr
          subst hr
          exact
            { mem := hmem'
              kind := hinv.kind
              skind := hskind'
              obj := fun h => absurd h ho
              other := hinv.other
              same := fun _ h => absurd hs h }
      · -- interface / union / enum / input: same members
        have has : acc.kind ≠ .scalar := by rw [hinv.kind]; exact hs
        have haccok : NodupNames acc.fields := by rw [hfields]; exact hfirst
        have hcompat : (∀ s ∈ seen, Compat s d) ↔ SameSet acc.fields d.fields := by
          rw [hfields]
          constructor
          · intro h
            exact ((compat_other ho hs).1 (h first hinv.mem)).2
          · intro h s hs'
            have hsk := hinv.skind s hs'
            exact (compat_other (by rw [hsk]; exact ho) (by rw [hsk]; exact hs)).2
              ⟨hsk.trans hkf, sameSet_trans (sameSet_symm (hinv.same ho hs s hs')) h⟩
        rw [hcompat, mergeDef_other hk hao has]
        by_cases hsame : sameFields acc.fields d.fields = true
        · have hss : SameSet acc.fields d.fields := (sameFields_iff haccok hd).1 hsame
          rw [if_pos hsame]
          refine ⟨⟨fun _ => hss, fun _ => ⟨_, rfl⟩⟩, ?_⟩
          intro r hr
          simp only [Option.some.injEq] at hr
          subst hr
          exact
            { mem := hmem'
              kind := hinv.kind
              skind := hskind'
              obj := fun h => absurd h ho
              other := hinv.other
              same := fun _ _ s hs' => by
                rcases List.mem_append.1 hs' with hs' | hs'
                · exact hinv.same ho hs s hs'
                · simp at hs'; subst hs'; rw [← hfields]; exact hss }
        · rw [if_neg hsame]
          refine ⟨⟨(fun ⟨r, h⟩ => by cases h), fun h => ?_⟩, fun r h => by cases h⟩
          exact absurd ((sameFields_iff haccok hd).2 h) hsame
  · -- different kind: rejected, and indeed incompatible with the first definition
    rw [mergeDef_ne hk]
    refine ⟨⟨(fun ⟨r, h⟩ => by cases h), fun h => ?_⟩, fun r h => by cases h⟩
    have := (h first hinv.mem).1
    exact absurd (hinv.kind.trans this) hk

theorem foldDefs_char {first : Def} (hfirst : DefOK first) :
    ∀ (ds : List Def) (acc : Def) (seen : List Def), Inv first acc seen → (∀ d ∈ ds, DefOK d) →
      ((∃ r, foldDefs acc ds = some r) ↔
        ((∀ d ∈ ds, ∀ s ∈ seen, Compat s d) ∧ ds.Pairwise Compat)) ∧
      (∀ r, foldDefs acc ds = some r → Inv first r (seen ++ ds))
  | [], acc, seen, hinv, _ => by
    refine ⟨⟨fun _ => ⟨(by intro d hd; cases hd), List.Pairwise.nil⟩, fun _ => ⟨acc, rfl⟩⟩, ?_⟩
    intro r h
    simp only [foldDefs, Option.some.injEq] at h
    subst h
    simpa using hinv
  | d :: ds, acc, seen, hinv, hok => by
    have hd : DefOK d := hok d (List.mem_cons_self ..)
    have hok' : ∀ x ∈ ds, DefOK x := fun x hx => hok x (List.mem_cons_of_mem _ hx)
    have hstep := step hfirst hinv hd
    cases hm : mergeDef acc d with
    | none =>
      simp only [foldDefs, hm, Option.bind_none]
      refine ⟨⟨(fun ⟨r, h⟩ => by cases h), ?_⟩, fun r h => by cases h⟩
      rintro ⟨h1, _⟩
      obtain ⟨r, hr⟩ := hstep.1.2 (fun s hs => h1 d (List.mem_cons_self ..) s hs)
      rw [hm] at hr; cases hr
    | some acc' =>
      have hinv' := hstep.2 acc' hm
      have hcd : ∀ s ∈ seen, Compat s d := hstep.1.1 ⟨acc', hm⟩
      have ih := foldDefs_char hfirst ds acc' (seen ++ [d]) hinv' hok'
      simp only [foldDefs, hm, Option.bind_some]
      refine ⟨?_, ?_⟩
      · rw [ih.1]
        constructor
        · rintro ⟨h1, h2⟩
          refine ⟨?_, List.pairwise_cons.2 ⟨fun x hx => h1 x hx d (by simp), h2⟩⟩
          intro x hx s hs
          rcases List.mem_cons.1 hx with rfl | hx
          · exact hcd s hs
          · exact h1 x hx s (List.mem_append.2 (Or.inl hs))
        · rintro ⟨h1, h2⟩
          obtain ⟨h3, h4⟩ := List.pairwise_cons.1 h2
          refine ⟨?_, h4⟩
          intro x hx s hs
          rcases List.mem_append.1 hs with hs | hs
          · exact h1 x (List.mem_cons_of_mem _ hx) s hs
          · simp at hs; subst hs; exact h3 x hx
      · intro r h
        have := ih.2 r h
        simpa [List.append_assoc] using this

theorem mergeGroup_both (d : Def) (ds : List Def) (hok : ∀ x ∈ d :: ds, DefOK x) :
    ((∃ r, mergeGroup (d :: ds) = some r) ↔ (d :: ds).Pairwise Compat) ∧
    (∀ r, mergeGroup (d :: ds) = some r → Inv d r (d :: ds)) := by
  have hd : DefOK d := hok d (List.mem_cons_self ..)
  have h := foldDefs_char hd ds d [d] (inv_self hd) (fun x hx => hok x (List.mem_cons_of_mem _ hx))
  rw [mergeGroup_eq_foldDefs]
  refine ⟨?_, fun r hr => by simpa using h.2 r hr⟩
  rw [h.1, List.pairwise_cons]
  constructor
  · rintro ⟨h1, h2⟩; exact ⟨fun x hx => h1 x hx d (by simp), h2⟩
  · rintro ⟨h1, h2⟩; exact ⟨fun x hx p hp => by simp at hp; subst hp; exact h1 x hx, h2⟩

/-- C09/C03: merging the definitions the services give for one name succeeds iff they are pairwise
    compatible -/
theorem mergeGroup_char (d : Def) (ds : List Def) (hok : ∀ x ∈ d :: ds, DefOK x) :
    (∃ r, mergeGroup (d :: ds) = some r) ↔ (d :: ds).Pairwise Compat :=
  (mergeGroup_both d ds hok).1

/-- C10: success does not depend on the order of the services -/
theorem mergeGroup_perm {g₁ g₂ : List Def} (hp : g₁.Perm g₂) (hok : ∀ x ∈ g₁, DefOK x) :
    (mergeGroup g₁).isSome = (mergeGroup g₂).isSome := by
  have hok₂ : ∀ x ∈ g₂, DefOK x := fun x hx => hok x (hp.symm.subset hx)
  cases g₁ with
  | nil =>
    have : g₂ = [] := hp.symm.eq_nil
    subst this; rfl
  | cons d ds =>
    cases g₂ with
    | nil => exact absurd hp.eq_nil (by simp)
    | cons e es =>
      have c₁ := mergeGroup_char d ds hok
      have c₂ := mergeGroup_char e es hok₂
      have hpw : (d :: ds).Pairwise Compat ↔ (e :: es).Pairwise Compat :=
        hp.pairwise_iff (fun {a b} h => Compat.symm h)
      cases h1 : mergeGroup (d :: ds) with
      | some r =>
        obtain ⟨r', hr'⟩ : ∃ r, mergeGroup (e :: es) = some r := c₂.2 (hpw.1 (c₁.1 ⟨r, h1⟩))
        simp [hr']
      | none =>
        cases h2 : mergeGroup (e :: es) with
        | none => rfl
        | some r' =>
          obtain ⟨r, hr⟩ : ∃ r, mergeGroup (d :: ds) = some r := c₁.2 (hpw.2 (c₂.1 ⟨r', h2⟩))
          rw [h1] at hr; cases hr

/-- C03: what the merged definition contains -/
theorem mergeGroup_content (d : Def) (ds : List Def) (hok : ∀ x ∈ d :: ds, DefOK x) (r : Def)
    (h : mergeGroup (d :: ds) = some r) :
    r.kind = d.kind ∧
    (d.kind = .object → Represents r.fields ((d :: ds).map (·.fields))) ∧
    (d.kind ≠ .object → r.fields = d.fields ∧
      (d.kind ≠ .scalar → ∀ x ∈ d :: ds, SameSet d.fields x.fields)) := by
  have hinv := (mergeGroup_both d ds hok).2 r h
  exact ⟨hinv.kind, hinv.obj, fun ho => ⟨hinv.other ho, fun hs => hinv.same ho hs⟩⟩

end Mg
