/-! C03/C09/C10 prototype: pairwise merge of definitions, characterised by pairwise compatibility.
    Field/argument/default/directive detail is abstracted into an opaque signature `sig`. -/
namespace Mg

inductive Kind | scalar | object | iface | union | enum | input
deriving DecidableEq, Repr

structure Field where
  name : Nat
  sig : Nat            -- type, nullability, arguments, defaults, applied directives …
deriving DecidableEq, Repr

structure Def where
  name : Nat
  kind : Kind
  fields : List Field  -- object/interface/input fields, enum values, union members (sig = 0)
  ifaces : List Nat
deriving DecidableEq, Repr

def lookupF (fs : List Field) (n : Nat) : Option Field := fs.find? (·.name == n)

/-- object fields: keep `acc`, check clashes, append the new ones (mergeObjectTypes) -/
def mergeFieldsUnion : List Field → List Field → Option (List Field)
  | acc, [] => some acc
  | acc, f :: fs =>
    match lookupF acc f.name with
    | some g => if g.sig = f.sig then mergeFieldsUnion acc fs else none
    | none => mergeFieldsUnion (acc ++ [f]) fs

/-- other kinds: same members with the same signatures (mergeFieldList / mergeEnums / mergeUnions) -/
def sameFields (a b : List Field) : Bool :=
  a.length == b.length && a.all fun f => match lookupF b f.name with
    | some g => g.sig == f.sig
    | none => false

def mergeDef (a b : Def) : Option Def :=
  if a.kind ≠ b.kind then none            -- the kind guard (absent on the unchanged tree: D19)
  else match a.kind with
    | .object => (mergeFieldsUnion a.fields b.fields).map fun fs =>
        { a with fields := fs, ifaces := a.ifaces ++ b.ifaces.filter (· ∉ a.ifaces) }
    | .scalar => some a
    | _ => if sameFields a.fields b.fields then some a else none

def mergeGroup : List Def → Option Def
  | [] => none
  | d :: ds => ds.foldlM mergeDef d

/-! ### specification -/

def FieldsAgree (a b : List Field) : Prop :=
  ∀ f ∈ a, ∀ g ∈ b, f.name = g.name → f.sig = g.sig

def NodupNames (fs : List Field) : Prop := (fs.map (·.name)).Nodup

def SameSet (a b : List Field) : Prop := (∀ f, f ∈ a ↔ f ∈ b)

def Compat (a b : Def) : Prop :=
  a.kind = b.kind ∧
  match a.kind with
  | .object => FieldsAgree a.fields b.fields
  | .scalar => True
  | _ => SameSet a.fields b.fields

/-! ### object fields -/

theorem lookupF_some {fs : List Field} {n : Nat} {g : Field} (h : lookupF fs n = some g) :
    g ∈ fs ∧ g.name = n := by
  unfold lookupF at h
  exact ⟨List.mem_of_find?_eq_some h, by simpa using List.find?_some h⟩

theorem lookupF_none {fs : List Field} {n : Nat} (h : lookupF fs n = none) : ∀ g ∈ fs, g.name ≠ n := by
  unfold lookupF at h
  intro g hg
  have := List.find?_eq_none.1 h g hg
  simpa using this

def fresh (acc : List Field) (f : Field) : Bool := (lookupF acc f.name).isNone

theorem lookupF_append_single {acc : List Field} {f : Field} {n : Nat} (h : f.name ≠ n) :
    lookupF (acc ++ [f]) n = lookupF acc n := by
  unfold lookupF
  rw [List.find?_append]
  have : [f].find? (fun x => x.name == n) = none := by simp [h]
  rw [this]; simp

/-- closed form of the field union -/
theorem mergeFieldsUnion_ok : ∀ (b acc : List Field), NodupNames b → FieldsAgree acc b →
    mergeFieldsUnion acc b = some (acc ++ b.filter (fresh acc))
  | [], acc, _, _ => by simp [mergeFieldsUnion]
  | f :: fs, acc, hnd, hag => by
    have hnd' : NodupNames fs := (List.nodup_cons.1 hnd).2
    have hfn : ∀ g ∈ fs, g.name ≠ f.name := by
      intro g hg hgn
      exact (List.nodup_cons.1 hnd).1 (List.mem_map.2 ⟨g, hg, hgn⟩)
    have hag' : FieldsAgree acc fs := fun a ha g hg => hag a ha g (List.mem_cons_of_mem _ hg)
    simp only [mergeFieldsUnion]
    cases hl : lookupF acc f.name with
    | some g =>
      obtain ⟨hg, hgn⟩ := lookupF_some hl
      have : g.sig = f.sig := hag g hg f (List.mem_cons_self ..) hgn
      simp only [this, if_true]
      rw [mergeFieldsUnion_ok fs acc hnd' hag']
      simp [List.filter_cons, fresh, hl]
    | none =>
      simp only
      have hag2 : FieldsAgree (acc ++ [f]) fs := by
        intro a ha g hg hn
        rcases List.mem_append.1 ha with ha | ha
        · exact hag' a ha g hg hn
        · simp at ha; subst ha; exact absurd hn.symm (hfn g hg)
      rw [mergeFieldsUnion_ok fs (acc ++ [f]) hnd' hag2]
      have hfil : fs.filter (fresh (acc ++ [f])) = fs.filter (fresh acc) := by
        apply List.filter_congr
        intro g hg
        simp only [fresh]
        rw [lookupF_append_single (Ne.symm (hfn g hg))]
      rw [hfil]
      simp [List.filter_cons, fresh, hl]

theorem nodupNames_unique {acc : List Field} (h : NodupNames acc) {a g : Field}
    (ha : a ∈ acc) (hg : g ∈ acc) (hn : a.name = g.name) : a = g := by
  induction acc with
  | nil => cases ha
  | cons x xs ih =>
    have hx := List.nodup_cons.1 h
    rcases List.mem_cons.1 ha with rfl | ha' <;> rcases List.mem_cons.1 hg with rfl | hg'
    · rfl
    · exact absurd (List.mem_map.2 ⟨g, hg', hn.symm⟩) hx.1
    · exact absurd (List.mem_map.2 ⟨a, ha', hn⟩) hx.1
    · exact ih hx.2 ha' hg'

theorem nodupNames_snoc {acc : List Field} {f : Field} (h : NodupNames acc)
    (hl : lookupF acc f.name = none) : NodupNames (acc ++ [f]) := by
  unfold NodupNames at h ⊢
  rw [List.map_append]
  refine List.nodup_append.2 ⟨h, by simp, ?_⟩
  intro a ha b hb
  simp at hb; subst hb
  obtain ⟨g, hg, rfl⟩ := List.mem_map.1 ha
  exact lookupF_none hl g hg

theorem mergeFieldsUnion_agree : ∀ (b acc r : List Field),
    mergeFieldsUnion acc b = some r → NodupNames b → NodupNames acc → FieldsAgree acc b
  | [], _, _, _, _, _ => by intro a _ g hg; cases hg
  | f :: fs, acc, r, h, hnd, hna => by
    have hnd' : NodupNames fs := (List.nodup_cons.1 hnd).2
    have hfn : ∀ g ∈ fs, g.name ≠ f.name := by
      intro g hg hgn
      exact (List.nodup_cons.1 hnd).1 (List.mem_map.2 ⟨g, hg, hgn⟩)
    simp only [mergeFieldsUnion] at h
    cases hl : lookupF acc f.name with
    | some g =>
      simp only [hl] at h
      by_cases hs : g.sig = f.sig
      · simp only [hs, if_true] at h
        have ih := mergeFieldsUnion_agree fs acc r h hnd' hna
        obtain ⟨hg, hgn⟩ := lookupF_some hl
        intro a ha x hx hn
        rcases List.mem_cons.1 hx with rfl | hx
        · have : a = g := nodupNames_unique hna ha hg (by rw [hn, hgn])
          rw [this]; exact hs
        · exact ih a ha x hx hn
      · simp [hs] at h
    | none =>
      simp only [hl] at h
      have ih := mergeFieldsUnion_agree fs (acc ++ [f]) r h hnd' (nodupNames_snoc hna hl)
      intro a ha x hx hn
      rcases List.mem_cons.1 hx with rfl | hx
      · exact absurd hn (lookupF_none hl a ha)
      · exact ih a (List.mem_append.2 (Or.inl ha)) x hx hn

/-! ### groups of object definitions (field lists) -/

def foldUnion : List Field → List (List Field) → Option (List Field)
  | acc, [] => some acc
  | acc, d :: ds => (mergeFieldsUnion acc d).bind fun acc' => foldUnion acc' ds

/-- `acc` represents the definitions in `P`: same names, every field of `P` has its twin in `acc` -/
structure Represents (acc : List Field) (P : List (List Field)) : Prop where
  nodup : NodupNames acc
  from_ : ∀ f ∈ acc, ∃ d ∈ P, f ∈ d
  twin : ∀ d ∈ P, ∀ f ∈ d, ∃ g ∈ acc, g.name = f.name ∧ g.sig = f.sig

theorem FieldsAgree.symm {a b : List Field} (h : FieldsAgree a b) : FieldsAgree b a :=
  fun f hf g hg hn => (h g hg f hf hn.symm).symm

theorem represents_agree {acc : List Field} {P : List (List Field)} (hr : Represents acc P)
    (x : List Field) : FieldsAgree acc x ↔ ∀ d ∈ P, FieldsAgree d x := by
  constructor
  · intro h d hd f hf g hg hn
    obtain ⟨t, ht, htn, hts⟩ := hr.twin d hd f hf
    rw [← hts]; exact h t ht g hg (by rw [htn, hn])
  · intro h f hf g hg hn
    obtain ⟨d, hd, hfd⟩ := hr.from_ f hf
    exact h d hd f hfd g hg hn

theorem represents_step {acc : List Field} {P : List (List Field)} (hr : Represents acc P)
    {x : List Field} (hx : NodupNames x) (hag : FieldsAgree acc x) :
    Represents (acc ++ x.filter (fresh acc)) (P ++ [x]) := by
  refine ⟨?_, ?_, ?_⟩
  · unfold NodupNames
    rw [List.map_append]
    refine List.nodup_append.2 ⟨hr.nodup, ?_, ?_⟩
    · exact List.Nodup.sublist (List.Sublist.map _ List.filter_sublist) hx
    · intro a ha b hb hab
      obtain ⟨f, hf, rfl⟩ := List.mem_map.1 ha
      obtain ⟨g, hg, rfl⟩ := List.mem_map.1 hb
      have hg' := List.mem_filter.1 hg
      have : lookupF acc g.name = none := by simpa [fresh] using hg'.2
      exact lookupF_none this f hf hab
  · intro f hf
    rcases List.mem_append.1 hf with hf | hf
    · obtain ⟨d, hd, hfd⟩ := hr.from_ f hf
      exact ⟨d, List.mem_append.2 (Or.inl hd), hfd⟩
    · exact ⟨x, by simp, (List.mem_filter.1 hf).1⟩
  · intro d hd f hf
    rcases List.mem_append.1 hd with hd | hd
    · obtain ⟨g, hg, h1, h2⟩ := hr.twin d hd f hf
      exact ⟨g, List.mem_append.2 (Or.inl hg), h1, h2⟩
    · simp at hd; subst hd
      cases hl : lookupF acc f.name with
      | some g =>
        obtain ⟨hg, hgn⟩ := lookupF_some hl
        exact ⟨g, List.mem_append.2 (Or.inl hg), hgn, hag g hg f hf hgn⟩
      | none =>
        exact ⟨f, List.mem_append.2 (Or.inr (List.mem_filter.2 ⟨hf, by simp [fresh, hl]⟩)), rfl, rfl⟩

/-- **characterisation**: folding the union over a group succeeds iff every later definition
    agrees with every earlier one; the result represents the whole group -/
theorem foldUnion_char : ∀ (ds : List (List Field)) (acc : List Field) (P : List (List Field)),
    Represents acc P → (∀ d ∈ ds, NodupNames d) →
    ((∃ r, foldUnion acc ds = some r) ↔
       ((∀ d ∈ ds, ∀ p ∈ P, FieldsAgree p d) ∧ ds.Pairwise FieldsAgree)) ∧
    (∀ r, foldUnion acc ds = some r → Represents r (P ++ ds))
  | [], acc, P, hr, _ => by
    refine ⟨⟨fun _ => ⟨(by intro d hd; cases hd), List.Pairwise.nil⟩, fun _ => ⟨acc, rfl⟩⟩, ?_⟩
    intro r h; simp [foldUnion] at h; subst h; simpa using hr
  | d :: ds, acc, P, hr, hnd => by
    have hd : NodupNames d := hnd d (List.mem_cons_self ..)
    have hnd' : ∀ x ∈ ds, NodupNames x := fun x hx => hnd x (List.mem_cons_of_mem _ hx)
    by_cases hag : FieldsAgree acc d
    · have hm := mergeFieldsUnion_ok d acc hd hag
      have hr' := represents_step hr hd hag
      have ih := foldUnion_char ds _ (P ++ [d]) hr' hnd'
      simp only [foldUnion, hm, Option.bind_some]
      refine ⟨?_, ?_⟩
      · rw [ih.1]
        constructor
        · rintro ⟨h1, h2⟩
          refine ⟨?_, List.pairwise_cons.2 ⟨fun x hx => h1 x hx d (by simp), h2⟩⟩
          intro x hx p hp
          rcases List.mem_cons.1 hx with rfl | hx
          · exact ((represents_agree hr x).1 hag) p hp
          · exact h1 x hx p (List.mem_append.2 (Or.inl hp))
        · rintro ⟨h1, h2⟩
          obtain ⟨h3, h4⟩ := List.pairwise_cons.1 h2
          refine ⟨?_, h4⟩
          intro x hx p hp
          rcases List.mem_append.1 hp with hp | hp
          · exact h1 x (List.mem_cons_of_mem _ hx) p hp
          · simp at hp; subst hp; exact h3 x hx
      · intro r h
        have := ih.2 r h
        simpa [List.append_assoc] using this
    · have hnone : mergeFieldsUnion acc d = none := by
        cases hm : mergeFieldsUnion acc d with
        | none => rfl
        | some r => exact absurd (mergeFieldsUnion_agree d acc r hm hd hr.nodup) hag
      simp only [foldUnion, hnone, Option.bind_none]
      refine ⟨⟨(fun ⟨r, h⟩ => by cases h), ?_⟩, fun r h => by cases h⟩
      rintro ⟨h1, _⟩
      exact absurd ((represents_agree hr d).2 (fun p hp => h1 d (List.mem_cons_self ..) p hp)) hag

/-- merge of a non-empty group of object definitions -/
def mergeObjGroup : List (List Field) → Option (List Field)
  | [] => none
  | d :: ds => foldUnion d ds

theorem represents_self {d : List Field} (h : NodupNames d) : Represents d [d] :=
  ⟨h, fun f hf => ⟨d, by simp, hf⟩, fun x hx f hf => by simp at hx; subst hx; exact ⟨f, hf, rfl, rfl⟩⟩

/-- C09 direction and C03 content for object types -/
theorem mergeObjGroup_char (d : List Field) (ds : List (List Field))
    (hnd : ∀ x ∈ d :: ds, NodupNames x) :
    ((∃ r, mergeObjGroup (d :: ds) = some r) ↔ (d :: ds).Pairwise FieldsAgree) ∧
    (∀ r, mergeObjGroup (d :: ds) = some r → Represents r (d :: ds)) := by
  have h := foldUnion_char ds d [d] (represents_self (hnd d (List.mem_cons_self ..)))
    (fun x hx => hnd x (List.mem_cons_of_mem _ hx))
  refine ⟨?_, fun r hr => by simpa using h.2 r hr⟩
  show (∃ r, foldUnion d ds = some r) ↔ _
  rw [h.1, List.pairwise_cons]
  constructor
  · rintro ⟨h1, h2⟩; exact ⟨fun x hx => h1 x hx d (by simp), h2⟩
  · rintro ⟨h1, h2⟩; exact ⟨fun x hx p hp => by simp at hp; subst hp; exact h1 x hx, h2⟩

/-- **C10 for object types**: success does not depend on the order of the services -/
theorem mergeObjGroup_perm {g₁ g₂ : List (List Field)} (hp : g₁.Perm g₂)
    (hnd : ∀ x ∈ g₁, NodupNames x) (hne : g₁ ≠ []) :
    (mergeObjGroup g₁).isSome = (mergeObjGroup g₂).isSome := by
  have hsymm : ∀ a b : List Field, FieldsAgree a b → FieldsAgree b a := fun _ _ h => h.symm
  have hnd₂ : ∀ x ∈ g₂, NodupNames x := fun x hx => hnd x (hp.symm.subset hx)
  cases g₁ with
  | nil => exact absurd rfl hne
  | cons d ds =>
    cases g₂ with
    | nil => exact absurd hp.eq_nil (by simp)
    | cons e es =>
      have c₁ := (mergeObjGroup_char d ds hnd).1
      have c₂ := (mergeObjGroup_char e es hnd₂).1
      have hpw : (d :: ds).Pairwise FieldsAgree ↔ (e :: es).Pairwise FieldsAgree :=
        hp.pairwise_iff (fun {a b} h => hsymm a b h)
      cases h1 : mergeObjGroup (d :: ds) with
      | some r =>
        have : ∃ r, mergeObjGroup (e :: es) = some r := c₂.2 (hpw.1 (c₁.1 ⟨r, h1⟩))
        obtain ⟨r', hr'⟩ := this
        simp [hr']
      | none =>
        cases h2 : mergeObjGroup (e :: es) with
        | none => rfl
        | some r' =>
          have : ∃ r, mergeObjGroup (d :: ds) = some r := c₁.2 (hpw.2 (c₂.1 ⟨r', h2⟩))
          obtain ⟨r, hr⟩ := this
          rw [h1] at hr; cases hr

#print axioms mergeObjGroup_char
#print axioms mergeObjGroup_perm
end Mg
