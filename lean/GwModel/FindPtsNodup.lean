import GwModel.FindPtsConcat
/-! Distinctness of realised insertion paths. -/
namespace Fp
open Ins

/-- **no two realised paths insert at the same place**: whatever the reply looks like, the paths the search
    returns differ pairwise in their keys/indices -/
theorem findPts_nodup : ∀ (infos : List PInfo) (chunk : KVs) (pre : List RPt) (paths : List (List RPt)),
    findPts infos chunk pre = .ok paths → (paths.map sig).Nodup
  | [], chunk, pre, paths, h => by simp [findPts] at h; subst h; simp
  | p :: rest, chunk, pre, paths, h => by
    simp only [findPts] at h
    by_cases hf : p.found = true
    · simp only [hf, Bool.not_true, Bool.false_eq_true, if_false] at h
      cases hl : lookup p.key chunk with
      | none => simp [hl] at h; subst h; simp
      | some value =>
        cases value with
        | null =>
          simp only [hl] at h
          split at h
          · cases h
          · cases h; simp
        | leaf s =>
          simp only [hl] at h
          by_cases hi : p.isList = true
          · simp [hi] at h
          · simp only [hi, Bool.false_eq_true, if_false] at h
            cases rest with
            | nil => simp at h
            | cons q rest' => exact findPts_nodup _ _ _ _ h
        | arr entries =>
          simp only [hl] at h
          by_cases hi : p.isList = true
          · simp only [hi, if_true] at h
            refine concat_nodup (key := p.key) (base := sig pre) _ entries 0 paths h ?_
            intro i e a _ hfe
            cases e with
            | null => simp at hfe; cases hfe; simp
            | leaf s => simp at hfe
            | arr l => simp at hfe
            | obj ekvs =>
              simp only at hfe
              cases rest with
              | nil =>
                cases hid : lookup 0 ekvs with
                | none => simp [hid] at hfe; cases hfe; simp
                | some id =>
                  simp [hid] at hfe; cases hfe
                  refine ⟨by simp, ?_⟩
                  intro path hpath; simp at hpath; subst hpath
                  exact ⟨[], by simp⟩
              | cons q rest' =>
                refine ⟨findPts_nodup _ _ _ _ hfe, ?_⟩
                intro path hpath
                obtain ⟨suf, hsuf⟩ := findPts_prefix _ _ _ _ hfe path hpath
                exact ⟨sig suf, by simp [hsuf]⟩
          · simp only [hi, Bool.false_eq_true, if_false] at h
            cases rest with
            | nil =>
              simp only at h
              cases entries with
              | nil => simp at h
              | cons e0 es =>
                cases e0 with
                | obj ekvs =>
                  simp only at h
                  cases hid : lookup 0 ekvs with
                  | none => simp [hid] at h
                  | some id => simp [hid] at h; subst h; simp
                | null => simp at h
                | leaf s => simp at h
                | arr l => simp at h
            | cons q rest' => exact findPts_nodup _ _ _ _ h
        | obj k =>
          simp only [hl] at h
          by_cases hi : p.isList = true
          · simp [hi] at h
          · simp only [hi, Bool.false_eq_true, if_false] at h
            cases rest with
            | nil =>
              simp only at h
              cases hid : lookup 0 k with
              | none => simp [hid] at h; subst h; simp
              | some id => simp [hid] at h; subst h; simp
            | cons q rest' => exact findPts_nodup _ _ _ _ h
    · simp [hf] at h; subst h; simp

end Fp
