/-! Model of the variable selection of `executeOneStep` (execute.go:205-233): the values sent with a step are
    the client's values of the variables the step declares, plus the join id. -/
namespace StepVars

/-- `names`: step.Variables; `client`: the request's variables; `joinId`: id of the realised insertion point -/
def stepVars {V : Type} (names : List String) (client : List (String × V)) (joinId : Option V) : List (String × V) :=
  (names.filterMap fun n => (client.lookup n).map fun v => (n, v)) ++
  (match joinId with | some i => [("id", i)] | none => [])

/-- every value sent is the client's own value of a variable the step uses, or the join id -/
theorem stepVars_sound {V : Type} (names : List String) (client : List (String × V)) (joinId : Option V)
    (k : String) (v : V) (h : (k, v) ∈ stepVars names client joinId) :
    (k ∈ names ∧ client.lookup k = some v) ∨ (k = "id" ∧ joinId = some v) := by
  unfold stepVars at h
  rcases List.mem_append.1 h with h | h
  · left
    obtain ⟨n, hn, hv⟩ := List.mem_filterMap.1 h
    cases hl : client.lookup n with
    | none => simp [hl] at hv
    | some w =>
      simp [hl] at hv
      obtain ⟨rfl, rfl⟩ := hv
      exact ⟨hn, hl⟩
  · right
    cases joinId with
    | none => simp at h
    | some i => simp at h; exact ⟨h.1, by rw [h.2]⟩

/-- nothing is withheld: a declared variable the client supplied is forwarded -/
theorem stepVars_complete {V : Type} (names : List String) (client : List (String × V)) (joinId : Option V)
    (k : String) (v : V) (hk : k ∈ names) (hv : client.lookup k = some v) :
    (k, v) ∈ stepVars names client joinId := by
  unfold stepVars
  apply List.mem_append_left
  exact List.mem_filterMap.2 ⟨k, hk, by simp [hv]⟩

end StepVars
