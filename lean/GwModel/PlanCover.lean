import GwModel.PlanShape
import GwModel.PlanTotal
/-! Nothing the client asked for is lost by planning (C01, planner half; documents without named fragments).

    A *leaf path* of a selection is the list of response keys from the selection down to a field without
    sub-selection, seen through inline fragments.  `extract_covers`: every leaf path of the selection handed to
    `extractSelection` is a leaf path of the selection it returns for the step, or — prefixed with the insertion
    point — of a pending step.  `planOperation_covers`: every leaf path of the operation is, relative to the
    step's insertion point, a leaf path of some step of the plan. -/
namespace Pl

mutual
def leafPaths : Sel → List (List String)
  | .field a _ _ _ _ _ sub => if sub.isEmpty then [[a]] else (leafPathsL sub).map (a :: ·)
  | .inline _ _ sub => leafPathsL sub
  | .spread _ _ => []
def leafPathsL : List Sel → List (List String)
  | [] => []
  | s :: ss => leafPaths s ++ leafPathsL ss
end

theorem leafPathsL_append : ∀ (a b : List Sel), leafPathsL (a ++ b) = leafPathsL a ++ leafPathsL b
  | [], b => by simp [leafPathsL]
  | s :: a, b => by simp [leafPathsL, leafPathsL_append a b, List.append_assoc]

theorem mem_leafPathsL {q : List String} : ∀ {l : List Sel}, q ∈ leafPathsL l ↔ ∃ s ∈ l, q ∈ leafPaths s
  | [] => by simp [leafPathsL]
  | s :: l => by
    simp only [leafPathsL, List.mem_append, List.mem_cons, exists_eq_or_imp]
    rw [mem_leafPathsL (l := l)]

mutual
/-- no named fragment is spread anywhere in the selection -/
def noSpread : Sel → Bool
  | .field _ _ _ _ _ _ sub => noSpreadL sub
  | .inline _ _ sub => noSpreadL sub
  | .spread _ _ => false
def noSpreadL : List Sel → Bool
  | [] => true
  | s :: ss => noSpread s && noSpreadL ss
end

theorem noSpreadL_mem : ∀ {l : List Sel}, noSpreadL l = true → ∀ s ∈ l, noSpread s = true
  | [], _, s, hs => by cases hs
  | x :: l, h, s, hs => by
    simp only [noSpreadL, Bool.and_eq_true] at h
    rcases List.mem_cons.1 hs with hs | hs
    · subst hs; exact h.1
    · exact noSpreadL_mem h.2 s hs

/-! ### buckets keep what is put into them -/

/-- some bundle of the grouping holds a selection with leaf path `q` -/
def InBuckets (q : List String) (b : Buckets Sel) : Prop := ∃ l, q ∈ leafPathsL (b.get l)

theorem inBuckets_add_old {q : List String} {b : Buckets Sel} (l : Loc) (x : Sel) (h : InBuckets q b) :
    InBuckets q (b.add l x) := by
  obtain ⟨l', hq⟩ := h
  refine ⟨l', ?_⟩
  rw [get_add]
  split
  · rw [leafPathsL_append]; exact List.mem_append.2 (Or.inl hq)
  · exact hq

theorem inBuckets_add_new {q : List String} (b : Buckets Sel) (l : Loc) (x : Sel) (h : q ∈ leafPaths x) :
    InBuckets q (b.add l x) := by
  refine ⟨l, ?_⟩
  rw [get_add]
  simp only [if_true, leafPathsL_append, leafPathsL, List.append_nil]
  exact List.mem_append.2 (Or.inr h)

theorem splitByLoc_covers {env : Env} {pl : Loc} {T : String} {q : List String} :
    ∀ (sels : List Sel) (b b' : Buckets Sel), splitByLoc env pl T sels b = .ok b' →
      (InBuckets q b ∨ q ∈ leafPathsL sels) → InBuckets q b'
  | [], b, b', h, hq => by
    simp only [splitByLoc] at h; cases h
    rcases hq with hq | hq
    · exact hq
    · simp [leafPathsL] at hq
  | .field a n g gv d t s :: rest, b, b', h, hq => by
    simp only [splitByLoc] at h
    split at h
    · cases h
    · rename_i l _
      refine splitByLoc_covers rest _ b' h ?_
      rcases hq with hq | hq
      · exact Or.inl (inBuckets_add_old _ _ hq)
      · simp only [leafPathsL, List.mem_append] at hq
        rcases hq with hq | hq
        · exact Or.inl (inBuckets_add_new _ _ _ hq)
        · exact Or.inr hq
  | .inline c d s :: rest, b, b', h, hq => by
    simp only [splitByLoc] at h
    refine splitByLoc_covers rest _ b' h ?_
    rcases hq with hq | hq
    · exact Or.inl (inBuckets_add_old _ _ hq)
    · simp only [leafPathsL, List.mem_append] at hq
      rcases hq with hq | hq
      · exact Or.inl (inBuckets_add_new _ _ _ hq)
      · exact Or.inr hq
  | .spread n d :: rest, b, b', h, hq => by
    simp only [splitByLoc] at h
    refine splitByLoc_covers rest _ b' h ?_
    rcases hq with hq | hq
    · exact Or.inl (inBuckets_add_old _ _ hq)
    · simp only [leafPathsL, leafPaths, List.nil_append] at hq
      exact Or.inr hq

theorem inBuckets_fold_inline {q : List String} (c : String) (d : List Dir) :
    ∀ (fl : Buckets Sel) (lf : Buckets Sel), (InBuckets q lf ∨ ∃ l ss, (l, ss) ∈ fl ∧ q ∈ leafPathsL ss) →
      InBuckets q (fl.foldl (fun acc p => acc.add p.1 (.inline c d p.2)) lf)
  | [], lf, h => by
    rcases h with h | ⟨_, _, hm, _⟩
    · exact h
    · cases hm
  | p :: fl, lf, h => by
    simp only [List.foldl_cons]
    refine inBuckets_fold_inline c d fl _ ?_
    rcases h with h | ⟨l, ss, hm, hq⟩
    · exact Or.inl (inBuckets_add_old _ _ h)
    · rcases List.mem_cons.1 hm with hm | hm
      · left
        refine inBuckets_add_new _ _ _ ?_
        have : p.2 = ss := by rw [← hm]
        simp only [leafPaths, this]; exact hq
      · exact Or.inr ⟨l, ss, hm, hq⟩

theorem group_covers {env : Env} {pl : Loc} {T : String} {sf : List FragDef} {q : List String} :
    ∀ (sels : List Sel) (acc res : Buckets Sel × Buckets FragDef), noSpreadL sels = true →
      group env pl T sf sels acc = .ok res → (InBuckets q acc.1 ∨ q ∈ leafPathsL sels) → InBuckets q res.1
  | [], acc, res, _, h, hq => by
    simp only [group] at h; cases h
    rcases hq with hq | hq
    · exact hq
    · simp [leafPathsL] at hq
  | .field a n g gv d t s :: rest, (lf, lfr), res, hns, h, hq => by
    simp only [group] at h
    simp only [noSpreadL, Bool.and_eq_true] at hns
    split at h
    · cases h
    · refine group_covers rest _ res hns.2 h ?_
      rcases hq with hq | hq
      · exact Or.inl (inBuckets_add_old _ _ hq)
      · simp only [leafPathsL, List.mem_append] at hq
        rcases hq with hq | hq
        · exact Or.inl (inBuckets_add_new _ _ _ hq)
        · exact Or.inr hq
  | .spread name dirs :: rest, _, _, hns, _, _ => by
    simp [noSpreadL, noSpread] at hns
  | .inline cond dirs sub :: rest, (lf, lfr), res, hns, h, hq => by
    simp only [group] at h
    simp only [noSpreadL, Bool.and_eq_true] at hns
    split at h
    · cases h
    · rename_i fl hfl
      refine group_covers rest _ res hns.2 h ?_
      rcases hq with hq | hq
      · exact Or.inl (inBuckets_fold_inline cond dirs fl lf (Or.inl hq))
      · simp only [leafPathsL, leafPaths, List.mem_append] at hq
        rcases hq with hq | hq
        · left
          refine inBuckets_fold_inline cond dirs fl lf (Or.inr ?_)
          obtain ⟨l, hl⟩ := splitByLoc_covers sub [] fl hfl (Or.inr hq)
          rcases get_mem_or_nil fl l with hm | hnil
          · exact ⟨l, _, hm, hl⟩
          · rw [hnil] at hl; simp [leafPathsL] at hl
        · exact Or.inr hq

/-! ### what is bundled has no spreads either -/
def BucketsNoSpread (b : Buckets Sel) : Prop := ∀ l ss, (l, ss) ∈ b → ∀ s ∈ ss, noSpread s = true

theorem bucketsNoSpread_add {b : Buckets Sel} {l : Loc} {x : Sel} (hb : BucketsNoSpread b) (hx : noSpread x = true) :
    BucketsNoSpread (b.add l x) := by
  intro l' ss' hm s hs
  rcases mem_add hm with hm | ⟨h1, old, h2, h3⟩
  · exact hb l' ss' hm s hs
  · subst h1; subst h2
    rcases List.mem_append.1 hs with hs | hs
    · rcases h3 with h3 | h3
      · exact hb _ _ h3 s hs
      · subst h3; cases hs
    · have : s = x := by simpa using hs
      subst this; exact hx

theorem bucketsNoSpread_nil : BucketsNoSpread [] := by intro l ss h; cases h

theorem splitByLoc_noSpread {env : Env} {pl : Loc} {T : String} :
    ∀ (sels : List Sel) (b b' : Buckets Sel), noSpreadL sels = true → splitByLoc env pl T sels b = .ok b' →
      BucketsNoSpread b → BucketsNoSpread b'
  | [], b, b', _, h, hb => by simp only [splitByLoc] at h; cases h; exact hb
  | .field a n g gv d t s :: rest, b, b', hns, h, hb => by
    simp only [splitByLoc] at h
    simp only [noSpreadL, Bool.and_eq_true] at hns
    split at h
    · cases h
    · exact splitByLoc_noSpread rest _ b' hns.2 h (bucketsNoSpread_add hb hns.1)
  | .inline c d s :: rest, b, b', hns, h, hb => by
    simp only [splitByLoc] at h
    simp only [noSpreadL, Bool.and_eq_true] at hns
    exact splitByLoc_noSpread rest _ b' hns.2 h (bucketsNoSpread_add hb hns.1)
  | .spread n d :: rest, _, _, hns, _, _ => by simp [noSpreadL, noSpread] at hns

theorem noSpreadL_of_mem : ∀ {l : List Sel}, (∀ s ∈ l, noSpread s = true) → noSpreadL l = true
  | [], _ => rfl
  | x :: l, h => by
    simp only [noSpreadL, Bool.and_eq_true]
    exact ⟨h x (List.mem_cons_self ..), noSpreadL_of_mem (fun s hs => h s (List.mem_cons_of_mem _ hs))⟩

theorem bucketsNoSpread_fold_inline (c : String) (d : List Dir) :
    ∀ (fl : Buckets Sel) (lf : Buckets Sel), BucketsNoSpread fl → BucketsNoSpread lf →
      BucketsNoSpread (fl.foldl (fun acc p => acc.add p.1 (.inline c d p.2)) lf)
  | [], _, _, h => h
  | p :: fl, lf, hfl, h => by
    simp only [List.foldl_cons]
    refine bucketsNoSpread_fold_inline c d fl _ (fun l ss hm => hfl l ss (List.mem_cons_of_mem _ hm)) (bucketsNoSpread_add h ?_)
    simp only [noSpread]
    exact noSpreadL_of_mem (hfl p.1 p.2 (List.mem_cons_self ..))

theorem group_noSpread {env : Env} {pl : Loc} {T : String} {sf : List FragDef} :
    ∀ (sels : List Sel) (acc res : Buckets Sel × Buckets FragDef), noSpreadL sels = true →
      group env pl T sf sels acc = .ok res → BucketsNoSpread acc.1 → BucketsNoSpread res.1
  | [], acc, res, _, h, ha => by simp only [group] at h; cases h; exact ha
  | .field a n g gv d t s :: rest, (lf, lfr), res, hns, h, ha => by
    simp only [group] at h
    simp only [noSpreadL, Bool.and_eq_true] at hns
    split at h
    · cases h
    · exact group_noSpread rest _ res hns.2 h (bucketsNoSpread_add ha hns.1)
  | .spread name dirs :: rest, _, _, hns, _, _ => by simp [noSpreadL, noSpread] at hns
  | .inline cond dirs sub :: rest, (lf, lfr), res, hns, h, ha => by
    simp only [group] at h
    simp only [noSpreadL, Bool.and_eq_true] at hns
    split at h
    · cases h
    · rename_i fl hfl
      refine group_noSpread rest _ res hns.2 h ?_
      have hsub : noSpreadL sub = true := by simpa [noSpread] using hns.1
      exact bucketsNoSpread_fold_inline cond dirs fl lf (splitByLoc_noSpread sub [] fl hsub hfl bucketsNoSpread_nil) ha

/-! ### wrapping in inline fragments does not change the leaf paths -/
def inlineOnly : List Sel → Bool
  | [] => true
  | .inline .. :: ws => inlineOnly ws
  | _ :: _ => false

theorem wrapNest_inlineOnly : ∀ (ws inner : List Sel) (defs : List FragDef), inlineOnly ws = true →
    ∃ x, wrapNest ws inner defs = .ok (x, defs) ∧ leafPathsL x = leafPathsL inner
  | [], inner, defs, _ => ⟨inner, rfl, rfl⟩
  | .inline c d s :: ws, inner, defs, h => by
    obtain ⟨x, h1, h2⟩ := wrapNest_inlineOnly ws inner defs (by simpa [inlineOnly] using h)
    exact ⟨[.inline c d x], by simp [wrapNest, h1], by simp [leafPathsL, leafPaths, h2]⟩
  | .spread n d :: ws, _, _, h => by simp [inlineOnly] at h
  | .field a n g gv d t s :: ws, _, _, h => by simp [inlineOnly] at h

theorem wrapDefs_inlineOnly (T : String) : ∀ (ws : List Sel), inlineOnly ws = true → wrapDefs T ws = []
  | [], _ => rfl
  | .inline c d s :: ws, h => by simp only [wrapDefs]; exact wrapDefs_inlineOnly T ws (by simpa [inlineOnly] using h)
  | .spread n d :: ws, h => by simp [inlineOnly] at h
  | .field a n g gv d t s :: ws, h => by simp [inlineOnly] at h

theorem wrap_inlineOnly (ws : List Sel) (T : String) (defs : List FragDef) (inner : List Sel) (h : inlineOnly ws = true) :
    ∃ x, wrap ws T defs inner = .ok (x, defs) ∧ leafPathsL x = leafPathsL inner := by
  unfold wrap
  rw [wrapDefs_inlineOnly T ws h, List.append_nil]
  exact wrapNest_inlineOnly ws inner defs h

theorem inlineOnly_append_inline (ws : List Sel) (c : String) (d : List Dir) (s : List Sel) (h : inlineOnly ws = true) :
    inlineOnly (ws ++ [.inline c d s]) = true := by
  induction ws with
  | nil => simp [inlineOnly]
  | cons w ws ih =>
    cases w with
    | inline c' d' s' => simp only [List.cons_append, inlineOnly]; exact ih (by simpa [inlineOnly] using h)
    | field a n g gv dd t ss => simp [inlineOnly] at h
    | spread n dd => simp [inlineOnly] at h

theorem inlineOnly_filterMap (l : List Sel) :
    inlineOnly (l.filterMap fun w => if (dirsOf w).isEmpty then none else some (Sel.inline "" (dirsOf w) [])) = true := by
  induction l with
  | nil => rfl
  | cons w l ih =>
    simp only [List.filterMap_cons]
    split
    · exact ih
    · rename_i x hx
      split at hx
      · cases hx
      · cases hx; simp only [inlineOnly]; exact ih

theorem inlineOnly_append : ∀ (a b : List Sel), inlineOnly a = true → inlineOnly b = true → inlineOnly (a ++ b) = true
  | [], b, _, hb => hb
  | .inline c d s :: a, b, ha, hb => by
    simp only [List.cons_append, inlineOnly]; exact inlineOnly_append a b (by simpa [inlineOnly] using ha) hb
  | .field .. :: a, b, ha, _ => by simp [inlineOnly] at ha
  | .spread .. :: a, b, ha, _ => by simp [inlineOnly] at ha

theorem inlineOnly_fieldWrapper (ws : List Sel) (d : List Dir) (h : inlineOnly ws = true) :
    inlineOnly (fieldWrapper ws d) = true := by
  have tail : inlineOnly (if d.isEmpty then [] else [Sel.inline "" d []]) = true := by
    split <;> simp [inlineOnly]
  cases ws with
  | nil =>
    simp only [fieldWrapper, List.length_nil, List.drop_zero, List.filterMap_nil, List.append_nil, List.nil_append]
    exact tail
  | cons w ws' =>
    cases w with
    | inline c' d' s' =>
      simp only [fieldWrapper, isInline, if_true, List.length_nil, List.drop_zero, List.nil_append]
      exact inlineOnly_append _ _ (inlineOnly_filterMap _) tail
    | field a n g gv dd t ss => simp [inlineOnly] at h
    | spread n dd => simp [inlineOnly] at h

/-! ### selections with the same printed form have the same leaf paths -/
mutual
theorem beqSel_leafPaths : ∀ (a b : Sel), beqSel a b = true → leafPaths a = leafPaths b
  | .field a n g gv d t s, .field a' n' g' gv' d' t' s', h => by
    simp only [beqSel, Bool.and_eq_true, beq_iff_eq] at h
    obtain ⟨⟨⟨⟨ha, _⟩, _⟩, _⟩, hs⟩ := h
    have hp := beqSels_leafPaths s s' hs
    have he := beqSels_isEmpty s s' hs
    simp only [leafPaths, ha, hp, he]
  | .inline c d s, .inline c' d' s', h => by
    simp only [beqSel, Bool.and_eq_true] at h
    simp only [leafPaths]; exact beqSels_leafPaths s s' h.2
  | .spread n d, .spread n' d', _ => rfl
  | .field .., .inline .., h => by simp [beqSel] at h
  | .field .., .spread .., h => by simp [beqSel] at h
  | .inline .., .field .., h => by simp [beqSel] at h
  | .inline .., .spread .., h => by simp [beqSel] at h
  | .spread .., .field .., h => by simp [beqSel] at h
  | .spread .., .inline .., h => by simp [beqSel] at h
theorem beqSels_leafPaths : ∀ (a b : List Sel), beqSels a b = true → leafPathsL a = leafPathsL b
  | [], [], _ => rfl
  | x :: xs, y :: ys, h => by
    simp only [beqSels, Bool.and_eq_true] at h
    simp only [leafPathsL, beqSel_leafPaths x y h.1, beqSels_leafPaths xs ys h.2]
  | [], _ :: _, h => by simp [beqSels] at h
  | _ :: _, [], h => by simp [beqSels] at h
theorem beqSels_isEmpty : ∀ (a b : List Sel), beqSels a b = true → a.isEmpty = b.isEmpty
  | [], [], _ => rfl
  | _ :: _, _ :: _, _ => rfl
  | [], _ :: _, h => by simp [beqSels] at h
  | _ :: _, [], h => by simp [beqSels] at h
end

/-- `appendNewSelections` loses no leaf path of either argument -/
theorem appendNew_covers (q : List String) : ∀ (source target : List Sel),
    (q ∈ leafPathsL target ∨ q ∈ leafPathsL source) → q ∈ leafPathsL (appendNew target source)
  | [], target, h => by
    rcases h with h | h
    · simpa [appendNew] using h
    · simp [leafPathsL] at h
  | x :: source, target, h => by
    simp only [appendNew, List.foldl_cons]
    have step : q ∈ leafPathsL (if target.any (fun t => beqSel t x) then target else target ++ [x]) ∨ q ∈ leafPathsL source := by
      rcases h with h | h
      · left
        split
        · exact h
        · rw [leafPathsL_append]; exact List.mem_append.2 (Or.inl h)
      · simp only [leafPathsL, List.mem_append] at h
        rcases h with h | h
        · left
          split
          · rename_i hany
            obtain ⟨t, ht, hb⟩ := List.any_eq_true.1 hany
            rw [← beqSel_leafPaths t x hb] at h
            exact mem_leafPathsL.2 ⟨t, ht, h⟩
          · rw [leafPathsL_append]
            exact List.mem_append.2 (Or.inr (by simpa [leafPathsL] using h))
        · exact Or.inr h
    exact appendNew_covers q source _ step

/-! ### pending steps -/

/-- a pending step holds the (absolute) leaf path `x` -/
def Held (queue : List Payload) (x : List String) : Prop := ∃ p ∈ queue, ∃ q ∈ leafPathsL p.sel, x = p.ip ++ q

theorem held_addStep_old {x : List String} : ∀ {queue : List Payload} (p : Payload), Held queue x → Held (addStep queue p) x
  | [], _, h => by obtain ⟨_, hm, _⟩ := h; cases hm
  | o :: os, p, h => by
    obtain ⟨p0, hm, q, hq, hx⟩ := h
    simp only [addStep]
    split
    · rcases List.mem_cons.1 hm with hm | hm
      · subst hm
        exact ⟨_, List.mem_cons_self .., q, appendNew_covers q p.sel p0.sel (Or.inl hq), hx⟩
      · exact ⟨p0, List.mem_cons_of_mem _ hm, q, hq, hx⟩
    · rcases List.mem_cons.1 hm with hm | hm
      · subst hm; exact ⟨p0, List.mem_cons_self .., q, hq, hx⟩
      · obtain ⟨p1, h1, q1, hq1, hx1⟩ := held_addStep_old p ⟨p0, hm, q, hq, hx⟩
        exact ⟨p1, List.mem_cons_of_mem _ h1, q1, hq1, hx1⟩

theorem held_addStep_new {q : List String} : ∀ (queue : List Payload) (p : Payload), q ∈ leafPathsL p.sel →
    Held (addStep queue p) (p.ip ++ q)
  | [], p, h => ⟨p, by simp [addStep], q, h, rfl⟩
  | o :: os, p, h => by
    simp only [addStep]
    split
    · rename_i hsame
      have hip : o.ip = p.ip := by
        simp only [samePlace, Bool.and_eq_true, beq_iff_eq] at hsame
        exact hsame.2
      exact ⟨_, List.mem_cons_self .., q, appendNew_covers q p.sel o.sel (Or.inr h), by simp [hip]⟩
    · obtain ⟨p1, h1, q1, hq1, hx1⟩ := held_addStep_new os p h
      exact ⟨p1, List.mem_cons_of_mem _ h1, q1, hq1, hx1⟩

/-- everything bundled for another location ends up in a pending step, below the current insertion point -/
theorem kickOff_covers {cfg : Cfg} {lfr : Buckets FragDef} (hw : inlineOnly cfg.wrapper = true) :
    ∀ (lf : Buckets Sel) (st st1 : St), kickOff cfg lfr lf st = .ok st1 →
      (∀ x, Held st.queue x → Held st1.queue x) ∧
      ∀ l ss, (l, ss) ∈ lf → l ≠ cfg.loc → ∀ q ∈ leafPathsL ss, Held st1.queue (cfg.ip ++ q)
  | [], st, st1, h => by
    simp only [kickOff] at h; cases h
    exact ⟨fun _ hx => hx, fun l ss hm => by cases hm⟩
  | (location, ss0) :: rest, st, st1, h => by
    simp only [kickOff] at h
    split at h
    · rename_i hloc
      have hl : location = cfg.loc := by simpa using hloc
      obtain ⟨hmono, hcov⟩ := kickOff_covers hw rest st st1 h
      refine ⟨hmono, ?_⟩
      intro l ss hm hne q hq
      rcases List.mem_cons.1 hm with hm | hm
      · simp only [Prod.mk.injEq] at hm
        exact absurd (hm.1.trans hl) hne
      · exact hcov l ss hm hne q hq
    · split at h
      · cases h
      · rename_i ss' fr' hwrap
        have hpaths : leafPathsL ss' = leafPathsL ss0 := by
          split at hwrap
          · cases hwrap; rfl
          · obtain ⟨x, hx1, hx2⟩ := wrap_inlineOnly cfg.wrapper cfg.parentType (lfr.get location) ss0 hw
            rw [hx1] at hwrap; cases hwrap; exact hx2
        obtain ⟨hmono, hcov⟩ := kickOff_covers hw rest _ st1 h
        refine ⟨fun x hx => hmono x (held_addStep_old _ hx), ?_⟩
        intro l ss hm hne q hq
        rcases List.mem_cons.1 hm with hm | hm
        · simp only [Prod.mk.injEq] at hm
          obtain ⟨_, hss⟩ := hm
          subst hss
          apply hmono
          have := held_addStep_new (q := q) st.queue
            { parent := some cfg.step, location := location, parentType := cfg.parentType, ip := cfg.ip, sel := ss', frags := fr' }
            (by simp only; rw [hpaths]; exact hq)
          simpa using this
        · exact hcov l ss hm hne q hq

/-- what the induction hypothesis says about a recursive call -/
def RecCovers (rec : Cfg → St → Except Err (List Sel × St)) : Prop :=
  ∀ cfg st sel st', rec cfg st = .ok (sel, st') → noSpreadL cfg.sel = true → inlineOnly cfg.wrapper = true →
    (∀ x, Held st.queue x → Held st'.queue x) ∧
    ∀ q ∈ leafPathsL cfg.sel, q ∈ leafPathsL sel ∨ Held st'.queue (cfg.ip ++ q)

theorem processSel_covers {rec : Cfg → St → Except Err (List Sel × St)} (hrec : RecCovers rec) {cfg : Cfg}
    (hw : inlineOnly cfg.wrapper = true) {localFrags : List FragDef} {s s' : Sel} {st st' : St}
    (hs : noSpread s = true) (h : processSel rec cfg localFrags s st = .ok (s', st')) :
    (∀ x, Held st.queue x → Held st'.queue x) ∧
    ∀ q ∈ leafPaths s, q ∈ leafPaths s' ∨ Held st'.queue (cfg.ip ++ q) := by
  cases s with
  | field a n g gv d t sub =>
    simp only [processSel] at h
    split at h
    · cases h
      exact ⟨fun _ hx => hx, fun q hq => Or.inl hq⟩
    · rename_i hsub
      split at h
      · cases h
      · rename_i sub' st1 hr
        cases h
        have hns : noSpreadL sub = true := by simpa [noSpread] using hs
        obtain ⟨hmono, hcov⟩ := hrec _ _ _ _ hr hns (inlineOnly_fieldWrapper cfg.wrapper d hw)
        refine ⟨fun x hx => by simpa using hmono x hx, ?_⟩
        intro q hq
        have hne : sub.isEmpty = false := by simpa using hsub
        simp only [leafPaths, hne, Bool.false_eq_true, if_false, List.mem_map] at hq
        obtain ⟨q', hq', rfl⟩ := hq
        rcases hcov q' hq' with hin | hheld
        · left
          have hne' : sub'.isEmpty = false := by
            cases sub' with
            | nil => simp [leafPathsL] at hin
            | cons _ _ => rfl
          simp only [leafPaths, hne', Bool.false_eq_true, if_false, List.mem_map]
          exact ⟨q', hin, rfl⟩
        · right
          have : cfg.ip ++ [a] ++ q' = cfg.ip ++ a :: q' := by simp
          simpa [this] using hheld
  | spread name dirs => simp [noSpread] at hs
  | inline cond dirs sub =>
    simp only [processSel] at h
    split at h
    · cases h
    · rename_i sub' st1 hr
      cases h
      have hns : noSpreadL sub = true := by simpa [noSpread] using hs
      obtain ⟨hmono, hcov⟩ := hrec _ _ _ _ hr hns (inlineOnly_append_inline cfg.wrapper cond dirs sub hw)
      refine ⟨fun x hx => hmono x (by simpa using hx), ?_⟩
      intro q hq
      simp only [leafPaths] at hq ⊢
      exact hcov q hq

theorem processSels_covers {rec : Cfg → St → Except Err (List Sel × St)} (hrec : RecCovers rec) {cfg : Cfg}
    (hw : inlineOnly cfg.wrapper = true) {localFrags : List FragDef} :
    ∀ (ss ss' : List Sel) (st st' : St), (∀ s ∈ ss, noSpread s = true) →
      processSels rec cfg localFrags ss st = .ok (ss', st') →
      (∀ x, Held st.queue x → Held st'.queue x) ∧
      ∀ q ∈ leafPathsL ss, q ∈ leafPathsL ss' ∨ Held st'.queue (cfg.ip ++ q)
  | [], ss', st, st', _, h => by
    simp only [processSels] at h; cases h
    exact ⟨fun _ hx => hx, fun q hq => by simp [leafPathsL] at hq⟩
  | s :: ss, ss', st, st', hs, h => by
    simp only [processSels] at h
    cases h1 : processSel rec cfg localFrags s st with
    | error e => rw [h1] at h; cases h
    | ok r1 =>
      obtain ⟨s1, st1⟩ := r1
      rw [h1] at h; simp only at h
      cases h2 : processSels rec cfg localFrags ss st1 with
      | error e => rw [h2] at h; cases h
      | ok r2 =>
        obtain ⟨ss1, st2⟩ := r2
        rw [h2] at h; simp only at h
        obtain ⟨m1, c1⟩ := processSel_covers hrec hw (hs s (List.mem_cons_self ..)) h1
        obtain ⟨m2, c2⟩ := processSels_covers hrec hw ss ss1 st1 st2 (fun x hx => hs x (List.mem_cons_of_mem _ hx)) h2
        cases h
        refine ⟨fun x hx => m2 x (m1 x hx), ?_⟩
        intro q hq
        simp only [leafPathsL, List.mem_append] at hq ⊢
        rcases hq with hq | hq
        · rcases c1 q hq with h' | h'
          · exact Or.inl (Or.inl h')
          · exact Or.inr (m2 _ h')
        · rcases c2 q hq with h' | h'
          · exact Or.inl (Or.inr h')
          · exact Or.inr h'

/-- **`extractSelection` loses nothing**: every leaf path of the selection it is given is a leaf path of what it
    returns for the step or, below the insertion point, of a pending step. -/
theorem extract_covers (env : Env) : ∀ (fuel : Nat), RecCovers (extract env fuel)
  | 0 => by intro cfg st sel st' h; simp only [extract] at h; cases h
  | n + 1 => by
    intro cfg st sel st' h hns hw
    simp only [extract] at h
    split at h
    · cases h
    · rename_i lf lfr hg
      split at h
      · cases h
      · rename_i st1 hk
        obtain ⟨kmono, kcov⟩ := kickOff_covers hw lf st st1 hk
        have hbns : BucketsNoSpread lf := group_noSpread cfg.sel ([], []) (lf, lfr) hns hg bucketsNoSpread_nil
        have hcur : ∀ s ∈ Buckets.get lf cfg.loc ++ (if lf.any (fun p => p.1 != cfg.loc) then [idField] else []),
            noSpread s = true := by
          intro s hs
          rcases List.mem_append.1 hs with hs | hs
          · rcases get_mem_or_nil lf cfg.loc with hm | hm
            · exact hbns _ _ hm s hs
            · rw [hm] at hs; cases hs
          · split at hs
            · have : s = idField := by simpa using hs
              subst this; rfl
            · cases hs
        obtain ⟨pmono, pcov⟩ := processSels_covers (extract_covers env n) hw _ _ _ _ hcur h
        refine ⟨fun x hx => pmono x (kmono x hx), ?_⟩
        intro q hq
        obtain ⟨l, hl⟩ := group_covers (q := q) cfg.sel ([], []) (lf, lfr) hns hg (Or.inr hq)
        by_cases hloc : l = cfg.loc
        · subst hloc
          rcases pcov q (by rw [leafPathsL_append]; exact List.mem_append.2 (Or.inl hl)) with h' | h'
          · exact Or.inl h'
          · exact Or.inr h'
        · right
          apply pmono
          rcases get_mem_or_nil lf l with hm | hm
          · exact kcov l _ hm hloc q hl
          · rw [hm] at hl; simp [leafPathsL] at hl

/-! ### pending steps stay free of spreads -/
def QueueNoSpread (queue : List Payload) : Prop := ∀ p ∈ queue, noSpreadL p.sel = true

theorem noSpreadL_append : ∀ (a b : List Sel), noSpreadL a = true → noSpreadL b = true → noSpreadL (a ++ b) = true
  | [], _, _, hb => hb
  | x :: a, b, ha, hb => by
    simp only [noSpreadL, Bool.and_eq_true, List.cons_append] at ha ⊢
    exact ⟨ha.1, noSpreadL_append a b ha.2 hb⟩

theorem appendNew_noSpread : ∀ (source target : List Sel), noSpreadL target = true → noSpreadL source = true →
    noSpreadL (appendNew target source) = true
  | [], target, ht, _ => by simpa [appendNew] using ht
  | x :: source, target, ht, hs => by
    simp only [appendNew, List.foldl_cons]
    simp only [noSpreadL, Bool.and_eq_true] at hs
    refine appendNew_noSpread source _ ?_ hs.2
    split
    · exact ht
    · exact noSpreadL_append _ _ ht (by simp [noSpreadL, hs.1])

theorem addStep_noSpread : ∀ {queue : List Payload} {p : Payload}, QueueNoSpread queue → noSpreadL p.sel = true →
    QueueNoSpread (addStep queue p)
  | [], p, _, hp => by intro p' h; simp only [addStep, List.mem_singleton] at h; subst h; exact hp
  | o :: os, p, hq, hp => by
    intro p' h
    simp only [addStep] at h
    split at h
    · rcases List.mem_cons.1 h with h | h
      · subst h; exact appendNew_noSpread p.sel o.sel (hq o (List.mem_cons_self ..)) hp
      · exact hq p' (List.mem_cons_of_mem _ h)
    · rcases List.mem_cons.1 h with h | h
      · subst h; exact hq _ (List.mem_cons_self ..)
      · exact addStep_noSpread (fun x hx => hq x (List.mem_cons_of_mem _ hx)) hp p' h

theorem wrapNest_noSpread : ∀ (ws inner : List Sel) (defs : List FragDef), inlineOnly ws = true → noSpreadL inner = true →
    ∀ x defs', wrapNest ws inner defs = .ok (x, defs') → noSpreadL x = true
  | [], inner, defs, _, hi, x, defs', h => by simp only [wrapNest] at h; cases h; exact hi
  | .inline c d s :: ws, inner, defs, hw, hi, x, defs', h => by
    simp only [wrapNest] at h
    split at h
    · cases h
    · rename_i x0 d0 h0
      have := wrapNest_noSpread ws inner defs (by simpa [inlineOnly] using hw) hi x0 d0 h0
      cases h
      simp [noSpreadL, noSpread, this]
  | .spread n d :: ws, _, _, hw, _, _, _, _ => by simp [inlineOnly] at hw
  | .field a n g gv d t s :: ws, _, _, hw, _, _, _, _ => by simp [inlineOnly] at hw

theorem kickOff_noSpread {cfg : Cfg} {lfr : Buckets FragDef} (hw : inlineOnly cfg.wrapper = true) :
    ∀ (lf : Buckets Sel) (st st1 : St), BucketsNoSpread lf → kickOff cfg lfr lf st = .ok st1 →
      QueueNoSpread st.queue → QueueNoSpread st1.queue
  | [], st, st1, _, h, hq => by simp only [kickOff] at h; cases h; exact hq
  | (location, ss0) :: rest, st, st1, hb, h, hq => by
    have hrest : BucketsNoSpread rest := fun l ss hm => hb l ss (List.mem_cons_of_mem _ hm)
    simp only [kickOff] at h
    split at h
    · exact kickOff_noSpread hw rest st st1 hrest h hq
    · split at h
      · cases h
      · rename_i ss' fr' hwrap
        have hss0 : noSpreadL ss0 = true := noSpreadL_of_mem (hb location ss0 (List.mem_cons_self ..))
        have hss' : noSpreadL ss' = true := by
          split at hwrap
          · cases hwrap; exact hss0
          · unfold wrap at hwrap
            exact wrapNest_noSpread cfg.wrapper ss0 _ hw hss0 ss' fr' hwrap
        refine kickOff_noSpread hw rest _ st1 hrest h ?_
        exact addStep_noSpread hq (by simpa using hss')

def RecNoSpread (rec : Cfg → St → Except Err (List Sel × St)) : Prop :=
  ∀ cfg st sel st', rec cfg st = .ok (sel, st') → noSpreadL cfg.sel = true → inlineOnly cfg.wrapper = true →
    QueueNoSpread st.queue → QueueNoSpread st'.queue

theorem processSel_noSpread {rec : Cfg → St → Except Err (List Sel × St)} (hrec : RecNoSpread rec) {cfg : Cfg}
    (hw : inlineOnly cfg.wrapper = true) {localFrags : List FragDef} {s s' : Sel} {st st' : St}
    (hs : noSpread s = true) (h : processSel rec cfg localFrags s st = .ok (s', st')) (hq : QueueNoSpread st.queue) :
    QueueNoSpread st'.queue := by
  cases s with
  | field a n g gv d t sub =>
    simp only [processSel] at h
    split at h
    · cases h; exact hq
    · split at h
      · cases h
      · rename_i sub' st1 hr
        cases h
        have hns : noSpreadL sub = true := by simpa [noSpread] using hs
        have := hrec _ _ _ _ hr hns (inlineOnly_fieldWrapper cfg.wrapper d hw) hq
        simpa using this
  | spread name dirs => simp [noSpread] at hs
  | inline cond dirs sub =>
    simp only [processSel] at h
    split at h
    · cases h
    · rename_i sub' st1 hr
      cases h
      have hns : noSpreadL sub = true := by simpa [noSpread] using hs
      exact hrec _ _ _ _ hr hns (inlineOnly_append_inline cfg.wrapper cond dirs sub hw) (by simpa using hq)

theorem processSels_noSpread {rec : Cfg → St → Except Err (List Sel × St)} (hrec : RecNoSpread rec) {cfg : Cfg}
    (hw : inlineOnly cfg.wrapper = true) {localFrags : List FragDef} :
    ∀ (ss ss' : List Sel) (st st' : St), (∀ s ∈ ss, noSpread s = true) →
      processSels rec cfg localFrags ss st = .ok (ss', st') → QueueNoSpread st.queue → QueueNoSpread st'.queue
  | [], ss', st, st', _, h, hq => by simp only [processSels] at h; cases h; exact hq
  | s :: ss, ss', st, st', hs, h, hq => by
    simp only [processSels] at h
    cases h1 : processSel rec cfg localFrags s st with
    | error e => rw [h1] at h; cases h
    | ok r1 =>
      obtain ⟨s1, st1⟩ := r1
      rw [h1] at h; simp only at h
      cases h2 : processSels rec cfg localFrags ss st1 with
      | error e => rw [h2] at h; cases h
      | ok r2 =>
        obtain ⟨ss1, st2⟩ := r2
        rw [h2] at h; simp only at h
        have a := processSel_noSpread hrec hw (hs s (List.mem_cons_self ..)) h1 hq
        have b := processSels_noSpread hrec hw ss ss1 st1 st2 (fun x hx => hs x (List.mem_cons_of_mem _ hx)) h2 a
        cases h
        exact b

theorem extract_noSpread (env : Env) : ∀ (fuel : Nat), RecNoSpread (extract env fuel)
  | 0 => by intro cfg st sel st' h; simp only [extract] at h; cases h
  | n + 1 => by
    intro cfg st sel st' h hns hw hq
    simp only [extract] at h
    split at h
    · cases h
    · rename_i lf lfr hg
      split at h
      · cases h
      · rename_i st1 hk
        have hbns : BucketsNoSpread lf := group_noSpread cfg.sel ([], []) (lf, lfr) hns hg bucketsNoSpread_nil
        have hq1 := kickOff_noSpread hw lf st st1 hbns hk hq
        have hcur : ∀ s ∈ Buckets.get lf cfg.loc ++ (if lf.any (fun p => p.1 != cfg.loc) then [idField] else []),
            noSpread s = true := by
          intro s hs
          rcases List.mem_append.1 hs with hs | hs
          · rcases get_mem_or_nil lf cfg.loc with hm | hm
            · exact hbns _ _ hm s hs
            · rw [hm] at hs; cases hs
          · split at hs
            · have : s = idField := by simpa using hs
              subst this; rfl
            · cases hs
        exact processSels_noSpread (extract_noSpread env n) hw _ _ _ _ hcur h hq1

/-! ### whole plans -/

/-- the (absolute) leaf path `x` is asked for by a built step or a pending one -/
def Asked (queue : List Payload) (acc : List Step) (x : List String) : Prop :=
  Held queue x ∨ ∃ s ∈ acc, ∃ q ∈ leafPathsL s.sel, x = s.ip ++ q

theorem buildSteps_covers (env : Env) (fuel : Nat) (x : List String) :
    ∀ (k next : Nat) (queue : List Payload) (acc res : List Step),
      buildSteps env fuel k next queue acc = .ok res → QueueNoSpread queue → Asked queue acc x →
      ∃ s ∈ res, ∃ q ∈ leafPathsL s.sel, x = s.ip ++ q
  | 0, _, [], acc, res, h, _, ha => by
    simp only [buildSteps] at h; cases h
    rcases ha with ⟨_, hm, _⟩ | ha
    · cases hm
    · exact ha
  | 0, _, _ :: _, _, _, h, _, _ => by simp only [buildSteps] at h; cases h
  | _ + 1, _, [], acc, res, h, _, ha => by
    simp only [buildSteps] at h; cases h
    rcases ha with ⟨_, hm, _⟩ | ha
    · cases hm
    · exact ha
  | k + 1, next, p :: queue, acc, res, h, hq, ha => by
    simp only [buildSteps] at h
    split at h
    · cases h
    · rename_i sel st he
      have hp : noSpreadL p.sel = true := hq p (List.mem_cons_self ..)
      have hq' : QueueNoSpread queue := fun o ho => hq o (List.mem_cons_of_mem _ ho)
      obtain ⟨hmono, hcov⟩ := extract_covers env fuel _ _ _ _ he hp rfl
      have hqns := extract_noSpread env fuel _ _ _ _ he hp rfl hq'
      simp only at hmono hcov hqns
      refine buildSteps_covers env fuel x k _ _ _ res h hqns ?_
      rcases ha with ⟨p0, hm, q, hq0, hx⟩ | ⟨s, hs, q, hq0, hx⟩
      · rcases List.mem_cons.1 hm with hm | hm
        · -- the payload being built held it: now the new step does, or a pending step kicked off by it
          subst hm
          rcases hcov q hq0 with hin | hheld
          · exact Or.inr ⟨_, List.mem_append.2 (Or.inr (List.mem_singleton.2 rfl)), q, hin, hx⟩
          · exact Or.inl (hx ▸ hheld)
        · exact Or.inl (hmono x ⟨p0, hm, q, hq0, hx⟩)
      · exact Or.inr ⟨s, List.mem_append.2 (Or.inl hs), q, hq0, hx⟩

/-- **Nothing the client asked for is lost by planning** (documents without named fragments; inline fragments,
    typed or not, nested and with directives, are covered): every leaf path of the operation — the response keys
    from the root down to a field without sub-selection — is, below the insertion point of some step of the plan,
    a leaf path of that step's selection.  For every routing table, priority list and fuel. -/
theorem planOperation_covers {env : Env} {fuel : Nat} {operation : String} {sels : List Sel} {steps : List Step}
    (h : planOperation env fuel operation sels = .ok steps) (hns : noSpreadL sels = true) :
    ∀ x ∈ leafPathsL sels, ∃ s ∈ steps, ∃ q ∈ leafPathsL s.sel, x = s.ip ++ q := by
  intro x hx
  refine buildSteps_covers env fuel x _ _ _ _ _ h ?_ ?_
  · intro p hp
    have : p = _ := List.mem_singleton.1 hp
    subst this; exact hns
  · exact Or.inl ⟨_, List.mem_singleton.2 rfl, x, hx, by simp⟩

end Pl
