import GwModel.FindPtsShape
/-! Results of different list entries never collide. -/
namespace Fp
open Ins

theorem enumFrom_ge {α} : ∀ {l : List α} {n i : Nat} {e : α}, (i, e) ∈ enumFrom n l → n ≤ i :=
  fun h => (mem_enumFrom h).1

theorem concat_nodup {key : Nat} {base : List (Nat × Option Nat)} (f : Nat × J → Except FErr (List (List RPt))) :
    ∀ (l : List J) (n : Nat) (r : List (List RPt)), concatM ((enumFrom n l).map f) = .ok r →
      (∀ i e a, (i, e) ∈ enumFrom n l → f (i, e) = .ok a →
        (a.map sig).Nodup ∧ ∀ path ∈ a, ∃ t, sig path = base ++ (key, some i) :: t) →
      (r.map sig).Nodup
  | [], n, r, h, _ => by simp [enumFrom, concatM] at h; cases h; simp
  | x :: xs, n, r, h, hyp => by
    simp only [enumFrom, List.map_cons, concatM] at h
    cases hfx : f (n, x) with
    | error e => simp [hfx, bind, Except.bind] at h
    | ok a =>
      cases hb : concatM ((enumFrom (n + 1) xs).map f) with
      | error e => simp [hfx, hb, bind, Except.bind] at h
      | ok b =>
        simp [hfx, hb, bind, Except.bind, pure, Except.pure] at h
        subst h
        have ha := hyp n x a (by simp [enumFrom]) hfx
        have hbn := concat_nodup f xs (n + 1) b hb (fun i e a' hm hf' =>
          hyp i e a' (by simp [enumFrom, hm]) hf')
        rw [List.map_append, List.nodup_append]
        refine ⟨ha.1, hbn, ?_⟩
        intro s1 hs1 s2 hs2 heq
        obtain ⟨p1, hp1, rfl⟩ := List.mem_map.1 hs1
        obtain ⟨p2, hp2, rfl⟩ := List.mem_map.1 hs2
        obtain ⟨t1, ht1⟩ := ha.2 p1 hp1
        rw [concatM_mem hb] at hp2
        obtain ⟨a', ha', hp2a⟩ := hp2
        obtain ⟨⟨j, e'⟩, hje, hfj⟩ := List.mem_map.1 ha'
        have hj := enumFrom_ge hje
        obtain ⟨t2, ht2⟩ := (hyp j e' a' (by simp [enumFrom, hje]) hfj).2 p2 hp2a
        rw [ht1, ht2] at heq
        have := List.append_cancel_left heq
        simp at this
        omega

end Fp
