import GwModel.Plan
/-! The variables a planned step uses are variables it declares (C02): every variable that occurs in an
    argument or directive of the step's selection set, or of a fragment definition left behind for the step,
    is in the step's variable set (from which the built operation's variable definitions are taken). -/
namespace Pl

mutual
/-- the variables occurring in a selection as it is printed -/
def usedSel : Sel → List String
  | .field _ _ _ gv d _ sub => gv ++ dirVars d ++ usedSels sub
  | .inline _ d sub => dirVars d ++ usedSels sub
  | .spread _ d => dirVars d
def usedSels : List Sel → List String
  | [] => []
  | s :: ss => usedSel s ++ usedSels ss
end

def FragsCovered (fs : List FragDef) (vars : List String) : Prop := ∀ f ∈ fs, ∀ v ∈ usedSels f.sub, v ∈ vars

theorem fragsCovered_mono {fs : List FragDef} {a b : List String} (hab : ∀ v ∈ a, v ∈ b) (h : FragsCovered fs a) :
    FragsCovered fs b := fun f hf v hv => hab v (h f hf v hv)

theorem fragsCovered_putFrag {d : FragDef} {vars : List String} (hd : ∀ v ∈ usedSels d.sub, v ∈ vars) :
    ∀ {fs : List FragDef}, FragsCovered fs vars → FragsCovered (putFrag d fs) vars
  | [], _ => by
    intro f hf
    simp only [putFrag, List.mem_singleton] at hf
    subst hf; exact hd
  | e :: es, h => by
    intro f hf
    simp only [putFrag] at hf
    split at hf
    · rcases List.mem_cons.1 hf with hf | hf
      · subst hf; exact hd
      · exact h f (List.mem_cons_of_mem _ hf)
    · rcases List.mem_cons.1 hf with hf | hf
      · subst hf; exact h _ (List.mem_cons_self ..)
      · exact fragsCovered_putFrag hd (fun g hg => h g (List.mem_cons_of_mem _ hg)) f hf

theorem kickOff_vars {cfg : Cfg} {lfr : Buckets FragDef} :
    ∀ (lf : Buckets Sel) (st st1 : St), kickOff cfg lfr lf st = .ok st1 → st1.vars = st.vars ∧ st1.frags = st.frags
  | [], st, st1, h => by simp only [kickOff] at h; cases h; exact ⟨rfl, rfl⟩
  | (location, ss) :: rest, st, st1, h => by
    simp only [kickOff] at h
    split at h
    · exact kickOff_vars rest st st1 h
    · split at h
      · cases h
      · have := kickOff_vars rest _ st1 h
        simpa using this

/-- what the induction hypothesis says about a recursive call -/
def RecVars (rec : Cfg → St → Except Err (List Sel × St)) : Prop :=
  ∀ cfg st sel st', rec cfg st = .ok (sel, st') →
    (∀ v ∈ st.vars, v ∈ st'.vars) ∧ (∀ v ∈ usedSels sel, v ∈ st'.vars) ∧
    (FragsCovered st.frags st.vars → FragsCovered st'.frags st'.vars)

theorem processSel_vars {rec : Cfg → St → Except Err (List Sel × St)} (hrec : RecVars rec) {cfg : Cfg}
    {localFrags : List FragDef} {s s' : Sel} {st st' : St}
    (h : processSel rec cfg localFrags s st = .ok (s', st')) :
    (∀ v ∈ st.vars, v ∈ st'.vars) ∧ (∀ v ∈ usedSel s', v ∈ st'.vars) ∧
    (FragsCovered st.frags st.vars → FragsCovered st'.frags st'.vars) := by
  cases s with
  | field a n g gv d t sub =>
    simp only [processSel] at h
    split at h
    · rename_i hsub
      cases h
      have : sub = [] := by simpa using hsub
      subst this
      refine ⟨?_, ?_, ?_⟩
      · intro v hv; simp only [List.mem_append]; exact Or.inl (Or.inl hv)
      · intro v hv
        simp only [usedSel, usedSels, List.append_nil, List.mem_append] at hv ⊢
        rcases hv with hv | hv
        · exact Or.inl (Or.inr hv)
        · exact Or.inr hv
      · intro hc
        exact fragsCovered_mono (by intro v hv; simp only [List.mem_append]; exact Or.inl (Or.inl hv)) hc
    · split at h
      · cases h
      · rename_i sub' st1 hr
        cases h
        obtain ⟨m, u, c⟩ := hrec _ _ _ _ hr
        refine ⟨?_, ?_, ?_⟩
        · intro v hv; simp only [List.mem_append]; exact Or.inl (Or.inl (m v hv))
        · intro v hv
          simp only [usedSel, List.mem_append] at hv ⊢
          rcases hv with (hv | hv) | hv
          · exact Or.inl (Or.inr hv)
          · exact Or.inr hv
          · exact Or.inl (Or.inl (u v hv))
        · intro hc
          exact fragsCovered_mono (by intro v hv; simp only [List.mem_append]; exact Or.inl (Or.inl hv)) (c hc)
  | spread name dirs =>
    simp only [processSel] at h
    split at h
    · cases h
    · rename_i defn _
      split at h
      · cases h
      · rename_i sub' st1 hr
        obtain ⟨m, u, c⟩ := hrec _ _ _ _ hr
        simp only at m c
        have hdirs : ∀ v ∈ dirVars dirs, v ∈ st1.vars := fun v hv => m v (by simp only [List.mem_append]; exact Or.inr hv)
        have hold : FragsCovered st.frags st.vars → FragsCovered st1.frags st1.vars := fun hc =>
          c (fragsCovered_mono (by intro v hv; simp only [List.mem_append]; exact Or.inl hv) hc)
        split at h
        · cases h
          refine ⟨fun v hv => m v (by simp only [List.mem_append]; exact Or.inl hv), ?_, ?_⟩
          · intro v hv; simp only [usedSel] at hv; exact hdirs v hv
          · intro hc f hf
            rcases List.mem_append.1 hf with hf | hf
            · exact hold hc f hf
            · have : f = _ := List.mem_singleton.1 hf
              subst this; exact u
        · split at h
          · cases h
            refine ⟨fun v hv => m v (by simp only [List.mem_append]; exact Or.inl hv), ?_, hold⟩
            intro v hv; simp only [usedSel] at hv; exact hdirs v hv
          · cases h
            refine ⟨fun v hv => m v (by simp only [List.mem_append]; exact Or.inl hv), ?_, hold⟩
            intro v hv
            simp only [usedSel, List.mem_append] at hv
            rcases hv with hv | hv
            · exact hdirs v hv
            · exact u v hv
  | inline cond dirs sub =>
    simp only [processSel] at h
    split at h
    · cases h
    · rename_i sub' st1 hr
      cases h
      obtain ⟨m, u, c⟩ := hrec _ _ _ _ hr
      simp only at m c
      refine ⟨?_, ?_, ?_⟩
      · intro v hv; exact m v (by simp only [List.mem_append]; exact Or.inl hv)
      · intro v hv
        simp only [usedSel, List.mem_append] at hv
        rcases hv with hv | hv
        · exact m v (by simp only [List.mem_append]; exact Or.inr hv)
        · exact u v hv
      · intro hc
        exact c (fragsCovered_mono (by intro v hv; simp only [List.mem_append]; exact Or.inl hv) hc)

theorem processSels_vars {rec : Cfg → St → Except Err (List Sel × St)} (hrec : RecVars rec) {cfg : Cfg}
    {localFrags : List FragDef} :
    ∀ (ss ss' : List Sel) (st st' : St), processSels rec cfg localFrags ss st = .ok (ss', st') →
      (∀ v ∈ st.vars, v ∈ st'.vars) ∧ (∀ v ∈ usedSels ss', v ∈ st'.vars) ∧
      (FragsCovered st.frags st.vars → FragsCovered st'.frags st'.vars)
  | [], ss', st, st', h => by
    simp only [processSels] at h; cases h
    exact ⟨fun _ hv => hv, fun v hv => by simp [usedSels] at hv, fun hc => hc⟩
  | s :: ss, ss', st, st', h => by
    simp only [processSels] at h
    cases h1 : processSel rec cfg localFrags s st with
    | error e => rw [h1] at h; cases h
    | ok r1 =>
      obtain ⟨s1, st1⟩ := r1
      rw [h1] at h; simp only at h
      cases h2 : processSels rec cfg localFrags ss st1 with
      | error e => rw [h2] at h; cases h
      | ok r2 =>
        obtain ⟨ss1, st2⟩ := r2
        rw [h2] at h; simp only at h
        obtain ⟨m1, u1, c1⟩ := processSel_vars hrec h1
        obtain ⟨m2, u2, c2⟩ := processSels_vars hrec ss ss1 st1 st2 h2
        cases h
        refine ⟨fun v hv => m2 v (m1 v hv), ?_, fun hc => c2 (c1 hc)⟩
        intro v hv
        simp only [usedSels, List.mem_append] at hv
        rcases hv with hv | hv
        · exact m2 v (u1 v hv)
        · exact u2 v hv

/-- **The variables used by what `extractSelection` returns are in the step's variable set.** -/
theorem extract_vars (env : Env) : ∀ (fuel : Nat), RecVars (extract env fuel)
  | 0 => by
    intro cfg st sel st' h
    simp only [extract] at h; cases h
  | n + 1 => by
    intro cfg st sel st' h
    simp only [extract] at h
    split at h
    · cases h
    · rename_i lf lfr _
      split at h
      · cases h
      · rename_i st1 hk
        obtain ⟨hv, hf⟩ := kickOff_vars lf st st1 hk
        obtain ⟨m, u, c⟩ := processSels_vars (extract_vars env n) _ _ _ _ h
        rw [hv] at m c; rw [hf] at c
        exact ⟨m, u, c⟩

/-- every variable occurring in the step's selection or in a fragment definition it carries is declared by
    the operation built for the step -/
def StepVarsCovered (s : Step) : Prop :=
  (∀ v ∈ usedSels s.sel, v ∈ builtVars s) ∧ ∀ f ∈ s.frags, ∀ v ∈ usedSels f.sub, v ∈ builtVars s

theorem mem_builtVars {s : Step} {v : String} (h : v ∈ s.vars) : v ∈ builtVars s := by
  unfold builtVars
  split
  · exact List.mem_eraseDups.2 h
  · exact List.mem_append.2 (Or.inl (List.mem_eraseDups.2 h))

theorem buildSteps_vars (env : Env) (fuel : Nat) :
    ∀ (k next : Nat) (queue : List Payload) (acc res : List Step),
      buildSteps env fuel k next queue acc = .ok res → (∀ s ∈ acc, StepVarsCovered s) → ∀ s ∈ res, StepVarsCovered s
  | 0, _, [], acc, res, h, ha => by simp only [buildSteps] at h; cases h; exact ha
  | 0, _, _ :: _, _, _, h, _ => by simp only [buildSteps] at h; cases h
  | _ + 1, _, [], acc, res, h, ha => by simp only [buildSteps] at h; cases h; exact ha
  | k + 1, next, p :: queue, acc, res, h, ha => by
    simp only [buildSteps] at h
    split at h
    · cases h
    · rename_i sel st he
      refine buildSteps_vars env fuel k _ _ _ res h ?_
      intro s hs
      rcases List.mem_append.1 hs with hs | hs
      · exact ha s hs
      · have : s = _ := List.mem_singleton.1 hs
        subst this
        obtain ⟨_, u, c⟩ := extract_vars env fuel _ _ _ _ he
        have hc := c (by intro f hf; cases hf)
        exact ⟨fun v hv => mem_builtVars (u v hv), fun f hf v hv => mem_builtVars (hc f hf v hv)⟩

/-- **Every variable a planned step uses is declared by the operation sent for it.** -/
theorem planOperation_vars {env : Env} {fuel : Nat} {operation : String} {sels : List Sel} {steps : List Step}
    (h : planOperation env fuel operation sels = .ok steps) : ∀ s ∈ steps, StepVarsCovered s :=
  buildSteps_vars env fuel _ _ _ _ _ h (by intro s hs; cases hs)

end Pl

namespace Pl

/-- the operation built for a dependent step declares the join variable `id`, and uses it in `node(id: $id)` -/
theorem dependent_step_declares_id (s : Step) (h : isRootType s.parentType = false) :
    "id" ∈ builtVars s ∧ ∃ sub, builtSelection s = [.field "node" "node" "(id: $id)" ["id"] [] "Node" sub] := by
  constructor
  · unfold builtVars
    simp only [h, Bool.false_or]
    split
    · rename_i hc
      exact List.mem_eraseDups.2 (by simpa using hc)
    · exact List.mem_append.2 (Or.inr (by simp))
  · unfold builtSelection
    simp [h]

/-- the operation built for a root step is the step's selection itself, with the step's variables -/
theorem root_step_sends_its_selection (s : Step) (h : isRootType s.parentType = true) :
    builtSelection s = s.sel ∧ builtVars s = s.vars.eraseDups := by
  unfold builtSelection builtVars
  simp [h]

end Pl
