/-! Model of how `gateway.New` (gateway.go) takes its options: every option writes one field of the gateway being
    built (`WithMiddlewares` adds to a list, the others overwrite), and only after ALL options have run does `New`
    hand the queryer factory and the location priorities to whatever planner is installed by then, and split the
    middlewares into the scrubber-first response list and the request list.

    Proved: what the built gateway ends up with is a function of, per kind of option, the options of that kind in
    their own order — the last planner, the last priority list, the last factory, all middlewares in order — so the
    order in which options of different kinds are written down is immaterial (`build_swap`).  In particular the
    priorities reach the planner whether `WithPlanner` stands before or after `WithLocationPriorities`, and two
    `WithMiddlewares` options amount to one with the lists joined.  Tied to gateway.go by the L2.new-options
    correspondence (random option lists through the real `New`, with planners, factories and middlewares that
    record what they are given). -/
namespace Nw

/-- a middleware: a response middleware or a request middleware (anything else is ignored by `New`), identified -/
structure MwRef where
  isResponse : Bool
  id : Nat
deriving Repr, DecidableEq, Inhabited

inductive Opt where
  | planner (id : Nat)                 -- `WithPlanner(p)`; planner 0 is the default `MinQueriesPlanner`
  | priorities (l : List String)       -- `WithLocationPriorities(l)`, `l` not nil
  | factory (f : Nat)                  -- `WithQueryerFactory(&f)`
  | middlewares (ms : List MwRef)      -- `WithMiddlewares(ms...)`
  | other                              -- any option that touches none of these fields
deriving Repr, Inhabited

/-- the fields of `Gateway` the options above write -/
structure G where
  planner : Nat := 0
  priorities : Option (List String) := none
  factory : Option Nat := none
  middlewares : List MwRef := []
deriving Repr

def apply (g : G) : Opt → G
  | .planner p => { g with planner := p }
  | .priorities l => { g with priorities := some l }
  | .factory f => { g with factory := some f }
  | .middlewares ms => { g with middlewares := g.middlewares ++ ms }
  | .other => g

/-- what the gateway is built with -/
structure Built where
  planner : Nat
  /-- what the installed planner's `WithLocationPriorities` / `WithQueryerFactory` was called with (if at all) -/
  toldPriorities : Option (List String)
  toldFactory : Option Nat
  /-- response middlewares after the built-in scrubber, and request middlewares, each in registration order -/
  response : List Nat
  request : List Nat
deriving Repr, DecidableEq

def finish (g : G) : Built :=
  { planner := g.planner, toldPriorities := g.priorities, toldFactory := g.factory,
    response := (g.middlewares.filter (·.isResponse)).map (·.id),
    request := (g.middlewares.filter (fun m => !m.isResponse)).map (·.id) }

/-- `New`: the options in the order given, then the hand-over -/
def build (opts : List Opt) : Built := finish (opts.foldl apply {})

/-! ### what each kind of option contributes -/
def plannerOf : Opt → Option Nat | .planner p => some p | _ => none
def prioritiesOf : Opt → Option (List String) | .priorities l => some l | _ => none
def factoryOf : Opt → Option Nat | .factory f => some f | _ => none
def mwsOf : Opt → List MwRef | .middlewares ms => ms | _ => []

/-- the last option of a kind (as seen through `f`), if any -/
def lastSome {α : Type} (f : Opt → Option α) : List Opt → Option α
  | [] => none
  | o :: os => (lastSome f os).or (f o)

theorem foldl_apply (opts : List Opt) (g : G) :
    (opts.foldl apply g).planner = (lastSome plannerOf opts).getD g.planner ∧
    (opts.foldl apply g).priorities = (lastSome prioritiesOf opts).or g.priorities ∧
    (opts.foldl apply g).factory = (lastSome factoryOf opts).or g.factory ∧
    (opts.foldl apply g).middlewares = g.middlewares ++ opts.flatMap mwsOf := by
  induction opts generalizing g with
  | nil => simp [lastSome]
  | cons o os ih =>
    obtain ⟨h1, h2, h3, h4⟩ := ih (apply g o)
    simp only [List.foldl_cons, lastSome]
    refine ⟨?_, ?_, ?_, ?_⟩
    · rw [h1]; cases lastSome plannerOf os <;> cases o <;> simp [apply, plannerOf]
    · rw [h2]; cases lastSome prioritiesOf os <;> cases o <;> simp [apply, prioritiesOf]
    · rw [h3]; cases lastSome factoryOf os <;> cases o <;> simp [apply, factoryOf]
    · rw [h4]; cases o <;> simp [apply, mwsOf, List.flatMap_cons]

/-- **the built gateway, kind by kind**: the last planner option (else the default), the last priority list and the
    last factory (handed to that planner, wherever its option stands), all middlewares of all `WithMiddlewares`
    options in order -/
theorem build_eq (opts : List Opt) :
    build opts =
      { planner := (lastSome plannerOf opts).getD 0,
        toldPriorities := lastSome prioritiesOf opts,
        toldFactory := lastSome factoryOf opts,
        response := ((opts.flatMap mwsOf).filter (·.isResponse)).map (·.id),
        request := ((opts.flatMap mwsOf).filter (fun m => !m.isResponse)).map (·.id) } := by
  obtain ⟨h1, h2, h3, h4⟩ := foldl_apply opts {}
  simp only [build, finish, h1, h2, h3, h4]
  simp

theorem lastSome_none {α : Type} (f : Opt → Option α) : ∀ (opts : List Opt), (∀ o ∈ opts, f o = none) → lastSome f opts = none
  | [], _ => rfl
  | o :: os, h => by
    simp only [lastSome, lastSome_none f os (fun x hx => h x (List.mem_cons_of_mem _ hx)), h o (List.mem_cons_self ..)]
    rfl

/-- the kind of an option (which field it writes) -/
def kind : Opt → Nat
  | .planner _ => 0 | .priorities _ => 1 | .factory _ => 2 | .middlewares _ => 3 | .other => 4

/-- options of different kinds commute -/
theorem apply_comm (g : G) (a b : Opt) (h : kind a ≠ kind b) : apply (apply g a) b = apply (apply g b) a := by
  cases a <;> cases b <;> simp_all [apply, kind]

/-- **the order in which options of different kinds are given is immaterial** -/
theorem build_swap (pre post : List Opt) (a b : Opt) (h : kind a ≠ kind b) :
    build (pre ++ a :: b :: post) = build (pre ++ b :: a :: post) := by
  simp only [build, List.foldl_append, List.foldl_cons, apply_comm _ a b h]

/-- the priorities reach the planner whether its option comes first or last -/
theorem priorities_reach_the_planner (p : Nat) (l : List String) (rest : List Opt)
    (hp : ∀ o ∈ rest, plannerOf o = none ∧ prioritiesOf o = none) :
    let b1 := build (.planner p :: .priorities l :: rest)
    let b2 := build (.priorities l :: .planner p :: rest)
    b1 = b2 ∧ b1.planner = p ∧ b1.toldPriorities = some l := by
  have hswap := build_swap [] rest (.planner p) (.priorities l) (by simp [kind])
  simp only [List.nil_append] at hswap
  refine ⟨hswap, ?_, ?_⟩
  · rw [build_eq]
    simp [lastSome, plannerOf, lastSome_none plannerOf rest (fun o ho => (hp o ho).1)]
  · rw [build_eq]
    simp [lastSome, prioritiesOf, lastSome_none prioritiesOf rest (fun o ho => (hp o ho).2)]

/-- two `WithMiddlewares` options amount to one with the lists joined (the option adds) -/
theorem middlewares_add (pre post : List Opt) (ms1 ms2 : List MwRef) :
    build (pre ++ .middlewares ms1 :: .middlewares ms2 :: post) = build (pre ++ .middlewares (ms1 ++ ms2) :: post) := by
  simp only [build, List.foldl_append, List.foldl_cons, apply, List.append_assoc]

end Nw
