import GwModel.PlanFuel
/-! Where the planner adds the join `id` (C04, planner half; documents without named fragments): only at the
    insertion point of a follow-up step it kicks off from there.  Together with `Scrub.scrubPaths_exact` (the scrub
    table lists the insertion points of all follow-up steps where the client did not ask for `id`) this says that
    every `id` the planner adds is removed again.

    The model marks the field the planner adds by its empty type name (`idField`; the client's own `id` fields carry
    the type they were validated against), which the printed query does not show. -/
namespace Pl

/-- the planner's own `id` sits at the level reached by `p` (response keys of fields; inline fragments are transparent) -/
inductive InjectedAt : List Sel → List String → Prop
  | here {sels : List Sel} : idField ∈ sels → InjectedAt sels []
  | field {sels : List Sel} {a n g : String} {gv : List String} {d : List Dir} {t : String} {sub : List Sel} {p : List String} :
      Sel.field a n g gv d t sub ∈ sels → InjectedAt sub p → InjectedAt sels (a :: p)
  | inl {sels : List Sel} {c : String} {d : List Dir} {sub : List Sel} {p : List String} :
      Sel.inline c d sub ∈ sels → InjectedAt sub p → InjectedAt sels p

mutual
/-- no field of the selection carries the planner's mark (an empty type name on a field called `id`) -/
def unmarked : Sel → Bool
  | .field _ n _ _ _ t sub => !(n == "id" && t == "") && unmarkedL sub
  | .inline _ _ sub => unmarkedL sub
  | .spread _ _ => true
def unmarkedL : List Sel → Bool
  | [] => true
  | s :: ss => unmarked s && unmarkedL ss
end

theorem unmarkedL_mem : ∀ {l : List Sel}, unmarkedL l = true → ∀ s ∈ l, unmarked s = true
  | [], _, s, hs => by cases hs
  | x :: l, h, s, hs => by
    simp only [unmarkedL, Bool.and_eq_true] at h
    rcases List.mem_cons.1 hs with hs | hs
    · subst hs; exact h.1
    · exact unmarkedL_mem h.2 s hs

theorem unmarkedL_of_mem : ∀ {l : List Sel}, (∀ s ∈ l, unmarked s = true) → unmarkedL l = true
  | [], _ => rfl
  | x :: l, h => by
    simp only [unmarkedL, Bool.and_eq_true]
    exact ⟨h x (List.mem_cons_self ..), unmarkedL_of_mem (fun s hs => h s (List.mem_cons_of_mem _ hs))⟩

theorem idField_marked : unmarked idField = false := by simp [idField, unmarked]

/-- an unmarked selection holds no injected id anywhere -/
theorem not_injectedAt_of_unmarked : ∀ {sels : List Sel} {p : List String}, InjectedAt sels p → unmarkedL sels = true → False := by
  intro sels p h
  induction h with
  | here hm =>
    intro hu
    have := unmarkedL_mem hu _ hm
    rw [idField_marked] at this; cases this
  | field hm _ ih =>
    intro hu
    have := unmarkedL_mem hu _ hm
    simp only [unmarked, Bool.and_eq_true] at this
    exact ih this.2
  | inl hm _ ih =>
    intro hu
    have := unmarkedL_mem hu _ hm
    simp only [unmarked] at this
    exact ih this

/-! the bundles of an unmarked selection are unmarked -/
def BucketsUnmarked (b : Buckets Sel) : Prop := ∀ l ss, (l, ss) ∈ b → ∀ s ∈ ss, unmarked s = true

theorem bucketsUnmarked_add {b : Buckets Sel} {l : Loc} {x : Sel} (hb : BucketsUnmarked b) (hx : unmarked x = true) :
    BucketsUnmarked (b.add l x) := by
  intro l' ss' hm s hs
  rcases mem_add hm with hm | ⟨h1, old, h2, h3⟩
  · exact hb l' ss' hm s hs
  · subst h1; subst h2
    rcases List.mem_append.1 hs with hs | hs
    · rcases h3 with h3 | h3
      · exact hb _ _ h3 s hs
      · subst h3; cases hs
    · have : s = x := by simpa using hs
      subst this; exact hx

theorem bucketsUnmarked_nil : BucketsUnmarked [] := by intro l ss h; cases h

theorem splitByLoc_unmarked {env : Env} {pl : Loc} {T : String} :
    ∀ (sels : List Sel) (b b' : Buckets Sel), unmarkedL sels = true → splitByLoc env pl T sels b = .ok b' →
      BucketsUnmarked b → BucketsUnmarked b'
  | [], b, b', _, h, hb => by simp only [splitByLoc] at h; cases h; exact hb
  | .field a n g gv d t s :: rest, b, b', hu, h, hb => by
    simp only [splitByLoc] at h
    simp only [unmarkedL, Bool.and_eq_true] at hu
    split at h
    · cases h
    · exact splitByLoc_unmarked rest _ b' hu.2 h (bucketsUnmarked_add hb hu.1)
  | .inline c d s :: rest, b, b', hu, h, hb => by
    simp only [splitByLoc] at h
    simp only [unmarkedL, Bool.and_eq_true] at hu
    exact splitByLoc_unmarked rest _ b' hu.2 h (bucketsUnmarked_add hb hu.1)
  | .spread n d :: rest, b, b', hu, h, hb => by
    simp only [splitByLoc] at h
    simp only [unmarkedL, Bool.and_eq_true] at hu
    exact splitByLoc_unmarked rest _ b' hu.2 h (bucketsUnmarked_add hb hu.1)

theorem bucketsUnmarked_fold_inline (c : String) (d : List Dir) :
    ∀ (fl : Buckets Sel) (lf : Buckets Sel), BucketsUnmarked fl → BucketsUnmarked lf →
      BucketsUnmarked (fl.foldl (fun acc p => acc.add p.1 (.inline c d p.2)) lf)
  | [], _, _, h => h
  | p :: fl, lf, hfl, h => by
    simp only [List.foldl_cons]
    refine bucketsUnmarked_fold_inline c d fl _ (fun l ss hm => hfl l ss (List.mem_cons_of_mem _ hm)) (bucketsUnmarked_add h ?_)
    simp only [unmarked]
    exact unmarkedL_of_mem (hfl p.1 p.2 (List.mem_cons_self ..))

theorem group_unmarked {env : Env} {pl : Loc} {T : String} {sf : List FragDef} :
    ∀ (sels : List Sel) (acc res : Buckets Sel × Buckets FragDef), noSpreadL sels = true → unmarkedL sels = true →
      group env pl T sf sels acc = .ok res → BucketsUnmarked acc.1 → BucketsUnmarked res.1
  | [], acc, res, _, _, h, ha => by simp only [group] at h; cases h; exact ha
  | .field a n g gv d t s :: rest, (lf, lfr), res, hns, hu, h, ha => by
    simp only [group] at h
    simp only [noSpreadL, Bool.and_eq_true] at hns
    simp only [unmarkedL, Bool.and_eq_true] at hu
    split at h
    · cases h
    · exact group_unmarked rest _ res hns.2 hu.2 h (bucketsUnmarked_add ha hu.1)
  | .spread name dirs :: rest, _, _, hns, _, _, _ => by simp [noSpreadL, noSpread] at hns
  | .inline cond dirs sub :: rest, (lf, lfr), res, hns, hu, h, ha => by
    simp only [group] at h
    simp only [noSpreadL, Bool.and_eq_true] at hns
    simp only [unmarkedL, Bool.and_eq_true] at hu
    split at h
    · cases h
    · rename_i fl hfl
      refine group_unmarked rest _ res hns.2 hu.2 h ?_
      have hsub : unmarkedL sub = true := by simpa [unmarked] using hu.1
      exact bucketsUnmarked_fold_inline cond dirs fl lf (splitByLoc_unmarked sub [] fl hsub hfl bucketsUnmarked_nil) ha

/-- a follow-up step of the step being built hangs at the (absolute) insertion point `x` -/
def KickedAt (step : Nat) (queue : List Payload) (x : List String) : Prop :=
  ∃ p ∈ queue, p.parent = some step ∧ p.ip = x

theorem kickedAt_addStep_old {step : Nat} {x : List String} : ∀ {queue : List Payload} (p : Payload),
    KickedAt step queue x → KickedAt step (addStep queue p) x
  | [], _, h => by obtain ⟨_, hm, _⟩ := h; cases hm
  | o :: os, p, h => by
    obtain ⟨p0, hm, hpar, hip⟩ := h
    simp only [addStep]
    split
    · rcases List.mem_cons.1 hm with hm | hm
      · subst hm; exact ⟨_, List.mem_cons_self .., hpar, hip⟩
      · exact ⟨p0, List.mem_cons_of_mem _ hm, hpar, hip⟩
    · rcases List.mem_cons.1 hm with hm | hm
      · subst hm; exact ⟨p0, List.mem_cons_self .., hpar, hip⟩
      · obtain ⟨p1, h1, h2, h3⟩ := kickedAt_addStep_old p ⟨p0, hm, hpar, hip⟩
        exact ⟨p1, List.mem_cons_of_mem _ h1, h2, h3⟩

theorem kickedAt_addStep_new : ∀ (queue : List Payload) (p : Payload) (step : Nat), p.parent = some step →
    KickedAt step (addStep queue p) p.ip
  | [], p, step, h => ⟨p, by simp [addStep], h, rfl⟩
  | o :: os, p, step, h => by
    simp only [addStep]
    split
    · rename_i hsame
      simp only [samePlace, Bool.and_eq_true, beq_iff_eq] at hsame
      exact ⟨_, List.mem_cons_self .., by simp [hsame.1.1.1, h], by simp [hsame.2]⟩
    · obtain ⟨p1, h1, h2, h3⟩ := kickedAt_addStep_new os p step h
      exact ⟨p1, List.mem_cons_of_mem _ h1, h2, h3⟩

/-- if something is bundled for another location, a follow-up step is kicked off at the current insertion point -/
theorem kickOff_kicks {cfg : Cfg} {lfr : Buckets FragDef} :
    ∀ (lf : Buckets Sel) (st st1 : St), kickOff cfg lfr lf st = .ok st1 →
      (∀ k x, KickedAt k st.queue x → KickedAt k st1.queue x) ∧
      (lf.any (fun p => p.1 != cfg.loc) = true → KickedAt cfg.step st1.queue cfg.ip)
  | [], st, st1, h => by
    simp only [kickOff] at h; cases h
    exact ⟨fun _ _ hx => hx, by simp⟩
  | (location, ss0) :: rest, st, st1, h => by
    simp only [kickOff] at h
    split at h
    · rename_i hloc
      obtain ⟨hmono, hk⟩ := kickOff_kicks rest st st1 h
      refine ⟨hmono, ?_⟩
      intro hany
      simp only [List.any_cons, Bool.or_eq_true] at hany
      rcases hany with hany | hany
      · simp only [bne_iff_ne, ne_eq] at hany
        have : location = cfg.loc := by simpa using hloc
        exact absurd this hany
      · exact hk hany
    · split at h
      · cases h
      · rename_i ss' fr' _
        obtain ⟨hmono, _⟩ := kickOff_kicks rest _ st1 h
        refine ⟨fun k x hx => hmono k x (kickedAt_addStep_old _ hx), fun _ => ?_⟩
        apply hmono
        have := kickedAt_addStep_new st.queue
          { parent := some cfg.step, location := location, parentType := cfg.parentType, ip := cfg.ip, sel := ss', frags := fr' }
          cfg.step rfl
        simpa using this

def RecInject (rec : Cfg → St → Except Err (List Sel × St)) : Prop :=
  ∀ cfg st sel st', rec cfg st = .ok (sel, st') → noSpreadL cfg.sel = true → unmarkedL cfg.sel = true →
    (∀ k x, KickedAt k st.queue x → KickedAt k st'.queue x) ∧
    ∀ p, InjectedAt sel p → KickedAt cfg.step st'.queue (cfg.ip ++ p)

theorem processSel_inject {rec : Cfg → St → Except Err (List Sel × St)} (hrec : RecInject rec) {cfg : Cfg}
    {localFrags : List FragDef} {s s' : Sel} {st st' : St} (hns : noSpread s = true) (hu : unmarked s = true)
    (h : processSel rec cfg localFrags s st = .ok (s', st')) :
    (∀ k x, KickedAt k st.queue x → KickedAt k st'.queue x) ∧
    (s' ≠ idField) ∧
    (∀ a n g gv d t sub p, s' = .field a n g gv d t sub → InjectedAt sub p → KickedAt cfg.step st'.queue (cfg.ip ++ a :: p)) ∧
    (∀ c d sub p, s' = .inline c d sub → InjectedAt sub p → KickedAt cfg.step st'.queue (cfg.ip ++ p)) := by
  cases s with
  | field a n g gv d t sub =>
    simp only [processSel] at h
    have hunm : ¬ (n = "id" ∧ t = "") := by
      simp only [unmarked, Bool.and_eq_true, Bool.not_eq_true'] at hu
      intro hc
      have := hu.1
      simp [hc.1, hc.2] at this
    split at h
    · rename_i hsub
      cases h
      have hse : sub = [] := by simpa using hsub
      subst hse
      refine ⟨fun _ _ hx => hx, ?_, ?_, ?_⟩
      · intro hc; simp only [idField, Sel.field.injEq] at hc; exact hunm ⟨hc.2.1, hc.2.2.2.2.2.1⟩
      · intro a' n' g' gv' d' t' sub' p he hi
        simp only [Sel.field.injEq] at he
        obtain ⟨_, _, _, _, _, _, hs⟩ := he
        subst hs
        cases hi with
        | here hm => cases hm
        | field hm _ => cases hm
        | inl hm _ => cases hm
      · intro c d' sub' p he; cases he
    · split at h
      · cases h
      · rename_i sub' st1 hr
        cases h
        have hnsub : noSpreadL sub = true := by simpa [noSpread] using hns
        have husub : unmarkedL sub = true := by
          simp only [unmarked, Bool.and_eq_true] at hu; exact hu.2
        obtain ⟨hmono, hinj⟩ := hrec _ _ _ _ hr hnsub husub
        refine ⟨fun k x hx => by simpa using hmono k x hx, ?_, ?_, ?_⟩
        · intro hc; simp only [idField, Sel.field.injEq] at hc; exact hunm ⟨hc.2.1, hc.2.2.2.2.2.1⟩
        · intro a' n' g' gv' d' t' sub'' p he hi
          simp only [Sel.field.injEq] at he
          obtain ⟨ha, _, _, _, _, _, hs⟩ := he
          subst ha; subst hs
          have := hinj p hi
          have e : cfg.ip ++ [a] ++ p = cfg.ip ++ a :: p := by simp
          simpa [e] using this
        · intro c d' sub'' p he; cases he
  | spread name dirs => simp [noSpread] at hns
  | inline cond dirs sub =>
    simp only [processSel] at h
    split at h
    · cases h
    · rename_i sub' st1 hr
      cases h
      have hnsub : noSpreadL sub = true := by simpa [noSpread] using hns
      have husub : unmarkedL sub = true := by simpa [unmarked] using hu
      obtain ⟨hmono, hinj⟩ := hrec _ _ _ _ hr hnsub husub
      refine ⟨fun x hx => hmono x (by simpa using hx), ?_, ?_, ?_⟩
      · intro hc; simp [idField] at hc
      · intro a' n' g' gv' d' t' sub'' p he; cases he
      · intro c d' sub'' p he hi
        simp only [Sel.inline.injEq] at he
        obtain ⟨_, _, hs⟩ := he
        subst hs
        exact hinj p hi

/-- `processSel` hands the planner's own `id` back unchanged -/
theorem processSel_idField {rec : Cfg → St → Except Err (List Sel × St)} {cfg : Cfg} {localFrags : List FragDef}
    {s' : Sel} {st st' : St} (h : processSel rec cfg localFrags idField st = .ok (s', st')) :
    s' = idField ∧ st'.queue = st.queue := by
  simp only [idField, processSel, List.isEmpty_nil, if_true] at h
  cases h
  exact ⟨rfl, rfl⟩

theorem processSels_inject {rec : Cfg → St → Except Err (List Sel × St)} (hrec : RecInject rec) {cfg : Cfg}
    {localFrags : List FragDef} :
    ∀ (ss ss' : List Sel) (st st' : St), (∀ s ∈ ss, (noSpread s = true ∧ unmarked s = true) ∨ s = idField) →
      processSels rec cfg localFrags ss st = .ok (ss', st') →
      (∀ k x, KickedAt k st.queue x → KickedAt k st'.queue x) ∧
      ∀ p, InjectedAt ss' p → (p = [] ∧ idField ∈ ss) ∨ KickedAt cfg.step st'.queue (cfg.ip ++ p)
  | [], ss', st, st', _, h => by
    simp only [processSels] at h; cases h
    refine ⟨fun _ _ hx => hx, ?_⟩
    intro p hi
    cases hi with
    | here hm => cases hm
    | field hm _ => cases hm
    | inl hm _ => cases hm
  | s :: ss, ss', st, st', hs, h => by
    simp only [processSels] at h
    cases h1 : processSel rec cfg localFrags s st with
    | error e => rw [h1] at h; cases h
    | ok r1 =>
      obtain ⟨s1, st1⟩ := r1
      rw [h1] at h; simp only at h
      cases h2 : processSels rec cfg localFrags ss st1 with
      | error e => rw [h2] at h; cases h
      | ok r2 =>
        obtain ⟨ss1, st2⟩ := r2
        rw [h2] at h; simp only at h
        obtain ⟨m2, i2⟩ := processSels_inject hrec ss ss1 st1 st2 (fun x hx => hs x (List.mem_cons_of_mem _ hx)) h2
        -- the head
        have head : (∀ k x, KickedAt k st.queue x → KickedAt k st1.queue x) ∧
            ((s1 = idField ∧ s = idField) ∨
             (s1 ≠ idField ∧
              (∀ a n g gv d t sub p, s1 = .field a n g gv d t sub → InjectedAt sub p → KickedAt cfg.step st1.queue (cfg.ip ++ a :: p)) ∧
              (∀ c d sub p, s1 = .inline c d sub → InjectedAt sub p → KickedAt cfg.step st1.queue (cfg.ip ++ p)))) := by
          rcases hs s (List.mem_cons_self ..) with ⟨hns, hu⟩ | hid
          · obtain ⟨m1, hne, hf, hi⟩ := processSel_inject hrec hns hu h1
            exact ⟨m1, Or.inr ⟨hne, hf, hi⟩⟩
          · subst hid
            obtain ⟨e1, e2⟩ := processSel_idField h1
            exact ⟨fun k x hx => by rw [e2]; exact hx, Or.inl ⟨e1, rfl⟩⟩
        obtain ⟨m1, hhead⟩ := head
        cases h
        refine ⟨fun k x hx => m2 k x (m1 k x hx), ?_⟩
        intro p hi
        -- where does the derivation enter: the head or the tail
        have split : ∀ {q : List String}, InjectedAt (s1 :: ss1) q →
            (q = [] ∧ s1 = idField) ∨
            (∃ a n g gv d t sub q', s1 = .field a n g gv d t sub ∧ q = a :: q' ∧ InjectedAt sub q') ∨
            (∃ c d sub, s1 = .inline c d sub ∧ InjectedAt sub q) ∨ InjectedAt ss1 q := by
          intro q hq
          cases hq with
          | here hm =>
            rcases List.mem_cons.1 hm with hm | hm
            · exact Or.inl ⟨rfl, hm.symm⟩
            · exact Or.inr (Or.inr (Or.inr (InjectedAt.here hm)))
          | field hm hsub =>
            rcases List.mem_cons.1 hm with hm | hm
            · exact Or.inr (Or.inl ⟨_, _, _, _, _, _, _, _, hm.symm, rfl, hsub⟩)
            · exact Or.inr (Or.inr (Or.inr (InjectedAt.field hm hsub)))
          | inl hm hsub =>
            rcases List.mem_cons.1 hm with hm | hm
            · exact Or.inr (Or.inr (Or.inl ⟨_, _, _, hm.symm, hsub⟩))
            · exact Or.inr (Or.inr (Or.inr (InjectedAt.inl hm hsub)))
        rcases split hi with ⟨hp, hs1⟩ | ⟨a, n, g, gv, d, t, sub, q', hs1, hp, hsub⟩ | ⟨c, d, sub, hs1, hsub⟩ | htail
        · rcases hhead with ⟨_, hsid⟩ | ⟨hne, _, _⟩
          · exact Or.inl ⟨hp, by rw [hsid]; exact List.mem_cons_self ..⟩
          · exact absurd hs1 hne
        · rcases hhead with ⟨hs1', _⟩ | ⟨_, hf, _⟩
          · rw [hs1'] at hs1; simp [idField] at hs1
            -- the planner's id has no sub-selection
            obtain ⟨_, _, _, _, _, _, hsube⟩ := hs1
            subst hsube
            cases hsub with
            | here hm => cases hm
            | field hm _ => cases hm
            | inl hm _ => cases hm
          · right; subst hp; exact m2 _ _ (hf _ _ _ _ _ _ _ _ hs1 hsub)
        · rcases hhead with ⟨hs1', _⟩ | ⟨_, _, hin⟩
          · rw [hs1'] at hs1; simp [idField] at hs1
          · right; exact m2 _ _ (hin _ _ _ _ hs1 hsub)
        · rcases i2 p htail with ⟨hp, hm⟩ | hk
          · exact Or.inl ⟨hp, List.mem_cons_of_mem _ hm⟩
          · exact Or.inr hk

/-- **the planner adds the join `id` only where it kicks a follow-up step off**: every place of the returned
    selection that holds the planner's own `id` is, below the current insertion point, the insertion point of a
    pending step whose parent is the step being built -/
theorem extract_inject (env : Env) : ∀ (fuel : Nat), RecInject (extract env fuel)
  | 0 => by intro cfg st sel st' h; simp only [extract] at h; cases h
  | n + 1 => by
    intro cfg st sel st' h hns hu
    simp only [extract] at h
    split at h
    · cases h
    · rename_i lf lfr hg
      split at h
      · cases h
      · rename_i st1 hk
        obtain ⟨kmono, kkick⟩ := kickOff_kicks lf st st1 hk
        have hbns : BucketsNoSpread lf := group_noSpread cfg.sel ([], []) (lf, lfr) hns hg bucketsNoSpread_nil
        have hbu : BucketsUnmarked lf := group_unmarked cfg.sel ([], []) (lf, lfr) hns hu hg bucketsUnmarked_nil
        have hcur : ∀ s ∈ Buckets.get lf cfg.loc ++ (if lf.any (fun p => p.1 != cfg.loc) then [idField] else []),
            (noSpread s = true ∧ unmarked s = true) ∨ s = idField := by
          intro s hs
          rcases List.mem_append.1 hs with hs | hs
          · rcases get_mem_or_nil lf cfg.loc with hm | hm
            · exact Or.inl ⟨hbns _ _ hm s hs, hbu _ _ hm s hs⟩
            · rw [hm] at hs; cases hs
          · split at hs
            · exact Or.inr (by simpa using hs)
            · cases hs
        obtain ⟨pmono, pinj⟩ := processSels_inject (extract_inject env n) _ _ _ _ hcur h
        refine ⟨fun k x hx => pmono k x (kmono k x hx), ?_⟩
        intro p hi
        rcases pinj p hi with ⟨hp, hm⟩ | hk'
        · -- the id at this very level: it was appended because another location got a bundle
          subst hp
          have hany : lf.any (fun p => p.1 != cfg.loc) = true := by
            rcases List.mem_append.1 hm with hm | hm
            · rcases get_mem_or_nil lf cfg.loc with hmem | hnil
              · have := hbu _ _ hmem _ hm
                rw [idField_marked] at this; cases this
              · rw [hnil] at hm; cases hm
            · split at hm
              · assumption
              · cases hm
          simpa using pmono _ _ (kkick hany)
        · exact hk'

/-! ### pending steps stay free of the planner's mark (what they ask for is the client's) -/
def QueueUnmarked (queue : List Payload) : Prop := ∀ p ∈ queue, unmarkedL p.sel = true

theorem unmarkedL_append : ∀ (a b : List Sel), unmarkedL a = true → unmarkedL b = true → unmarkedL (a ++ b) = true
  | [], _, _, hb => hb
  | x :: a, b, ha, hb => by
    simp only [unmarkedL, Bool.and_eq_true, List.cons_append] at ha ⊢
    exact ⟨ha.1, unmarkedL_append a b ha.2 hb⟩

theorem appendNew_unmarked : ∀ (source target : List Sel), unmarkedL target = true → unmarkedL source = true →
    unmarkedL (appendNew target source) = true
  | [], target, ht, _ => by simpa [appendNew] using ht
  | x :: source, target, ht, hs => by
    simp only [appendNew, List.foldl_cons]
    simp only [unmarkedL, Bool.and_eq_true] at hs
    refine appendNew_unmarked source _ ?_ hs.2
    split
    · exact ht
    · exact unmarkedL_append _ _ ht (by simp [unmarkedL, hs.1])

theorem addStep_unmarked : ∀ {queue : List Payload} {p : Payload}, QueueUnmarked queue → unmarkedL p.sel = true →
    QueueUnmarked (addStep queue p)
  | [], p, _, hp => by intro p' h; simp only [addStep, List.mem_singleton] at h; subst h; exact hp
  | o :: os, p, hq, hp => by
    intro p' h
    simp only [addStep] at h
    split at h
    · rcases List.mem_cons.1 h with h | h
      · subst h; exact appendNew_unmarked p.sel o.sel (hq o (List.mem_cons_self ..)) hp
      · exact hq p' (List.mem_cons_of_mem _ h)
    · rcases List.mem_cons.1 h with h | h
      · subst h; exact hq _ (List.mem_cons_self ..)
      · exact addStep_unmarked (fun x hx => hq x (List.mem_cons_of_mem _ hx)) hp p' h

theorem wrapNest_unmarked : ∀ (ws inner : List Sel) (defs : List FragDef), inlineOnly ws = true → unmarkedL inner = true →
    ∀ x defs', wrapNest ws inner defs = .ok (x, defs') → unmarkedL x = true
  | [], inner, defs, _, hi, x, defs', h => by simp only [wrapNest] at h; cases h; exact hi
  | .inline c d s :: ws, inner, defs, hw, hi, x, defs', h => by
    simp only [wrapNest] at h
    split at h
    · cases h
    · rename_i x0 d0 h0
      have := wrapNest_unmarked ws inner defs (by simpa [inlineOnly] using hw) hi x0 d0 h0
      cases h
      simp [unmarkedL, unmarked, this]
  | .spread n d :: ws, _, _, hw, _, _, _, _ => by simp [inlineOnly] at hw
  | .field a n g gv d t s :: ws, _, _, hw, _, _, _, _ => by simp [inlineOnly] at hw

theorem kickOff_unmarked {cfg : Cfg} {lfr : Buckets FragDef} (hw : inlineOnly cfg.wrapper = true) :
    ∀ (lf : Buckets Sel) (st st1 : St), BucketsUnmarked lf → kickOff cfg lfr lf st = .ok st1 →
      QueueUnmarked st.queue → QueueUnmarked st1.queue
  | [], st, st1, _, h, hq => by simp only [kickOff] at h; cases h; exact hq
  | (location, ss0) :: rest, st, st1, hb, h, hq => by
    have hrest : BucketsUnmarked rest := fun l ss hm => hb l ss (List.mem_cons_of_mem _ hm)
    simp only [kickOff] at h
    split at h
    · exact kickOff_unmarked hw rest st st1 hrest h hq
    · split at h
      · cases h
      · rename_i ss' fr' hwrap
        have hss0 : unmarkedL ss0 = true := unmarkedL_of_mem (hb location ss0 (List.mem_cons_self ..))
        have hss' : unmarkedL ss' = true := by
          split at hwrap
          · cases hwrap; exact hss0
          · unfold wrap at hwrap
            exact wrapNest_unmarked cfg.wrapper ss0 _ hw hss0 ss' fr' hwrap
        refine kickOff_unmarked hw rest _ st1 hrest h ?_
        exact addStep_unmarked hq (by simpa using hss')

def RecUnmarked (rec : Cfg → St → Except Err (List Sel × St)) : Prop :=
  ∀ cfg st sel st', rec cfg st = .ok (sel, st') → noSpreadL cfg.sel = true → unmarkedL cfg.sel = true →
    inlineOnly cfg.wrapper = true → QueueUnmarked st.queue → QueueUnmarked st'.queue

theorem processSel_unmarked {rec : Cfg → St → Except Err (List Sel × St)} (hrec : RecUnmarked rec) {cfg : Cfg}
    (hw : inlineOnly cfg.wrapper = true) {localFrags : List FragDef} {s s' : Sel} {st st' : St}
    (hs : noSpread s = true) (hu : unmarked s = true)
    (h : processSel rec cfg localFrags s st = .ok (s', st')) (hq : QueueUnmarked st.queue) :
    QueueUnmarked st'.queue := by
  cases s with
  | field a n g gv d t sub =>
    simp only [processSel] at h
    split at h
    · cases h; exact hq
    · split at h
      · cases h
      · rename_i sub' st1 hr
        cases h
        have hns : noSpreadL sub = true := by simpa [noSpread] using hs
        have husub : unmarkedL sub = true := by
          simp only [unmarked, Bool.and_eq_true] at hu; exact hu.2
        have := hrec _ _ _ _ hr hns husub (inlineOnly_fieldWrapper cfg.wrapper d hw) hq
        simpa using this
  | spread name dirs => simp [noSpread] at hs
  | inline cond dirs sub =>
    simp only [processSel] at h
    split at h
    · cases h
    · rename_i sub' st1 hr
      cases h
      have hns : noSpreadL sub = true := by simpa [noSpread] using hs
      have husub : unmarkedL sub = true := by simpa [unmarked] using hu
      exact hrec _ _ _ _ hr hns husub (inlineOnly_append_inline cfg.wrapper cond dirs sub hw) (by simpa using hq)

theorem processSels_unmarked {rec : Cfg → St → Except Err (List Sel × St)} (hrec : RecUnmarked rec) {cfg : Cfg}
    (hw : inlineOnly cfg.wrapper = true) {localFrags : List FragDef} :
    ∀ (ss ss' : List Sel) (st st' : St), (∀ s ∈ ss, (noSpread s = true ∧ unmarked s = true) ∨ s = idField) →
      processSels rec cfg localFrags ss st = .ok (ss', st') → QueueUnmarked st.queue → QueueUnmarked st'.queue
  | [], ss', st, st', _, h, hq => by simp only [processSels] at h; cases h; exact hq
  | s :: ss, ss', st, st', hs, h, hq => by
    simp only [processSels] at h
    cases h1 : processSel rec cfg localFrags s st with
    | error e => rw [h1] at h; cases h
    | ok r1 =>
      obtain ⟨s1, st1⟩ := r1
      rw [h1] at h; simp only at h
      cases h2 : processSels rec cfg localFrags ss st1 with
      | error e => rw [h2] at h; cases h
      | ok r2 =>
        obtain ⟨ss1, st2⟩ := r2
        rw [h2] at h; simp only at h
        have a : QueueUnmarked st1.queue := by
          rcases hs s (List.mem_cons_self ..) with ⟨hns, hu⟩ | hid
          · exact processSel_unmarked hrec hw hns hu h1 hq
          · subst hid
            rw [(processSel_idField h1).2]; exact hq
        have b := processSels_unmarked hrec hw ss ss1 st1 st2 (fun x hx => hs x (List.mem_cons_of_mem _ hx)) h2 a
        cases h
        exact b

theorem extract_unmarked (env : Env) : ∀ (fuel : Nat), RecUnmarked (extract env fuel)
  | 0 => by intro cfg st sel st' h; simp only [extract] at h; cases h
  | n + 1 => by
    intro cfg st sel st' h hns hu hw hq
    simp only [extract] at h
    split at h
    · cases h
    · rename_i lf lfr hg
      split at h
      · cases h
      · rename_i st1 hk
        have hbns : BucketsNoSpread lf := group_noSpread cfg.sel ([], []) (lf, lfr) hns hg bucketsNoSpread_nil
        have hbu : BucketsUnmarked lf := group_unmarked cfg.sel ([], []) (lf, lfr) hns hu hg bucketsUnmarked_nil
        have hq1 := kickOff_unmarked hw lf st st1 hbu hk hq
        have hcur : ∀ s ∈ Buckets.get lf cfg.loc ++ (if lf.any (fun p => p.1 != cfg.loc) then [idField] else []),
            (noSpread s = true ∧ unmarked s = true) ∨ s = idField := by
          intro s hs
          rcases List.mem_append.1 hs with hs | hs
          · rcases get_mem_or_nil lf cfg.loc with hm | hm
            · exact Or.inl ⟨hbns _ _ hm s hs, hbu _ _ hm s hs⟩
            · rw [hm] at hs; cases hs
          · split at hs
            · exact Or.inr (by simpa using hs)
            · cases hs
        exact processSels_unmarked (extract_unmarked env n) hw _ _ _ _ hcur h hq1

/-! ### whole plans -/

/-- the work list: every id the planner has put into a built step is waited for by a pending step or was taken
    up by a built one, at exactly that place -/
structure InjectInv (queue : List Payload) (acc : List Step) : Prop where
  qns : QueueNoSpread queue
  qun : QueueUnmarked queue
  built : ∀ t ∈ acc, ∀ p, InjectedAt t.sel p →
    KickedAt t.id queue (t.ip ++ p) ∨ ∃ u ∈ acc, u.parent = some t.id ∧ u.ip = t.ip ++ p

theorem buildSteps_inject (env : Env) (fuel : Nat) :
    ∀ (k next : Nat) (queue : List Payload) (acc res : List Step),
      buildSteps env fuel k next queue acc = .ok res → InjectInv queue acc →
      ∀ t ∈ res, ∀ p, InjectedAt t.sel p → ∃ u ∈ res, u.parent = some t.id ∧ u.ip = t.ip ++ p
  | 0, _, [], acc, res, h, hi => by
    simp only [buildSteps] at h; cases h
    intro t ht p hp
    rcases hi.built t ht p hp with ⟨_, hm, _⟩ | hb
    · cases hm
    · exact hb
  | 0, _, _ :: _, _, _, h, _ => by simp only [buildSteps] at h; cases h
  | _ + 1, _, [], acc, res, h, hi => by
    simp only [buildSteps] at h; cases h
    intro t ht p hp
    rcases hi.built t ht p hp with ⟨_, hm, _⟩ | hb
    · cases hm
    · exact hb
  | k + 1, next, p0 :: queue, acc, res, h, hi => by
    simp only [buildSteps] at h
    split at h
    · cases h
    · rename_i sel st he
      have hp : noSpreadL p0.sel = true := hi.qns p0 (List.mem_cons_self ..)
      have hpu : unmarkedL p0.sel = true := hi.qun p0 (List.mem_cons_self ..)
      have hq' : QueueNoSpread queue := fun o ho => hi.qns o (List.mem_cons_of_mem _ ho)
      have hqu' : QueueUnmarked queue := fun o ho => hi.qun o (List.mem_cons_of_mem _ ho)
      obtain ⟨hmono, hinj⟩ := extract_inject env fuel _ _ _ _ he hp hpu
      have hqns := extract_noSpread env fuel _ _ _ _ he hp rfl hq'
      have hqun := extract_unmarked env fuel _ _ _ _ he hp hpu rfl hqu'
      simp only at hmono hinj hqns hqun
      refine buildSteps_inject env fuel k _ _ _ res h ⟨hqns, hqun, ?_⟩
      intro t ht p hpi
      rcases List.mem_append.1 ht with ht | ht
      · rcases hi.built t ht p hpi with ⟨q, hm, hpar, hip⟩ | ⟨u, hu, h1, h2⟩
        · rcases List.mem_cons.1 hm with hm | hm
          · -- the pending step that waited for it is the one just built
            subst hm
            exact Or.inr ⟨_, List.mem_append.2 (Or.inr (List.mem_singleton.2 rfl)), hpar, hip⟩
          · exact Or.inl (hmono _ _ ⟨q, hm, hpar, hip⟩)
        · exact Or.inr ⟨u, List.mem_append.2 (Or.inl hu), h1, h2⟩
      · have : t = _ := List.mem_singleton.1 ht
        subst this
        exact Or.inl (hinj p hpi)

/-- **Every `id` the planner adds sits where a follow-up step is inserted**: wherever a step's query holds the
    planner's own `id` (at the level reached by the response keys `p` below the step's insertion point), the plan
    has a step whose parent is that step and whose insertion point is exactly that place.  (Documents without named
    fragments; the client's own `id` fields carry their type and are never marked.) -/
theorem planOperation_injected_ids_are_join_points {env : Env} {fuel : Nat} {operation : String} {sels : List Sel}
    {steps : List Step} (hns : noSpreadL sels = true) (hu : unmarkedL sels = true)
    (h : planOperation env fuel operation sels = .ok steps) :
    ∀ t ∈ steps, ∀ p, InjectedAt t.sel p → ∃ u ∈ steps, u.parent = some t.id ∧ u.ip = t.ip ++ p := by
  refine buildSteps_inject env fuel _ _ _ _ _ h ⟨?_, ?_, ?_⟩
  · intro p hp
    have : p = _ := List.mem_singleton.1 hp
    subst this; exact hns
  · intro p hp
    have : p = _ := List.mem_singleton.1 hp
    subst this; exact hu
  · intro t ht; cases ht

end Pl
