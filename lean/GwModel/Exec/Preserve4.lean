import GwModel.Exec.Preserve3
namespace ExecM

variable {ts : Tasks}

theorem countP_lt_of_sub {α} (p q : α → Bool) :
    ∀ (l : List α), (∀ x ∈ l, q x = true → p x = true) → (∃ x ∈ l, p x = true ∧ q x = false) →
      l.countP q < l.countP p
  | [], _, ⟨x, hx, _⟩ => by cases hx
  | a :: l, hsub, ⟨x, hx, hpx, hqx⟩ => by
    have hsub' : ∀ y ∈ l, q y = true → p y = true := fun y hy => hsub y (List.mem_cons_of_mem _ hy)
    have hle : l.countP q ≤ l.countP p :=
      List.countP_mono_left (fun y hy hqy => hsub' y hy hqy)
    simp only [List.countP_cons]
    rcases List.mem_cons.1 hx with rfl | hx'
    · simp [hpx, hqx]; omega
    · have ih := countP_lt_of_sub p q l hsub' ⟨x, hx', hpx, hqx⟩
      by_cases hqa : q a = true
      · have hpa := hsub a (List.mem_cons_self ..) hqa
        simp [hqa, hpa]; omega
      · have hqa' : q a = false := by simpa using hqa
        cases hpa : p a <;> simp [hqa'] <;> omega

theorem countP_range_eq (n t : Nat) :
    (List.range n).countP (fun c => decide (c = t)) = if t < n then 1 else 0 := by
  induction n with
  | zero => simp
  | succ n ih =>
    rw [List.range_succ, List.countP_append, ih]
    by_cases h1 : t < n
    · have : n ≠ t := by omega
      simp [h1, this]; omega
    · by_cases h2 : t = n
      · subst h2; simp
      · have : n ≠ t := fun h => h2 h.symm
        have h3 : ¬ t < n + 1 := by omega
        simp [h1, this, h3]

/-- a done task is counted -/
theorem Inv.done_counted {s : St} (hi : Inv ts s) {c : Nat} (hc : c < ts.length)
    (hd : doneT s c = true) : counted ts s c = true := by
  have hco : c ∈ s.order := by
    simp [doneT] at hd; exact hd.1
  obtain ⟨k, hk, h2⟩ := (hi.pubd c).2 (List.mem_append.2 (Or.inl hco))
  unfold counted
  cases hp : parentOf ts c with
  | none => rfl
  | some p =>
    have := (hi.spawned c p hp hc).1 (by rw [hk]; simp)
    simp [this]

theorem inv_done {s : St} (hi : Inv ts s) {t : Nat} (hh : s.held = some t) :
    Inv ts (doneSt ts s t) := by
  have hto : t ∈ s.order := hi.held t hh
  obtain ⟨k, hk, h2⟩ := (hi.pubd t).2 (List.mem_append.2 (Or.inl hto))
  have htl : t < ts.length := (hi.bound t k hk).2
  have hc : nCounted ts (doneSt ts s t) = nCounted ts s := rfl
  have hnd : doneT s t = false := by simp [doneT, hh]
  have hd : nDone ts (doneSt ts s t) = nDone ts s + 1 := by
    unfold nDone
    have : ∀ c, doneT (doneSt ts s t) c = (doneT s c || decide (c = t)) := by
      intro c
      simp only [doneT, doneSt, hh]
      by_cases hct : c = t
      · subst hct; simp [hto]
      · have hb : (t == c) = false := by
          simp; exact fun h => hct h.symm
        simp [hct, hb]
        try rfl
    rw [List.countP_congr (fun c _ => by rw [this c])]
    rw [countP_or_disjoint]
    · have : (List.range ts.length).countP (fun c => decide (c = t)) = 1 := by
        rw [countP_range_eq]; simp [htl]
      omega
    · intro c _ ⟨h1, h2⟩
      have : c = t := by simpa using h2
      subst this; rw [hnd] at h1; cases h1
  have hlt : nDone ts s < nCounted ts s := by
    apply countP_lt_of_sub
    · intro c hc hdc
      exact hi.done_counted (by simpa using hc) hdc
    · refine ⟨t, by simpa using htl, ?_, hnd⟩
      unfold counted
      cases hp : parentOf ts t with
      | none => rfl
      | some p =>
        have := (hi.spawned t p hp htl).1 (by rw [hk]; simp)
        simp [this]
  refine
    { len := hi.len
      bound := hi.bound, pubd := hi.pubd, nodup := hi.nodup, held := by simp [doneSt]
      heldLast := by intros; trivial
      spawned := hi.spawned, roots := hi.roots, wgEq := ?_, noCrash := ?_, errQ := hi.errQ
      ret := ?_, resp := hi.resp }
  · show s.wg - 1 = _
    rw [hc, hd, hi.wgEq]; push_cast; omega
  · show (s.crashed || decide (s.wg - 1 < 0)) = false
    rw [hi.noCrash, hi.wgEq]
    simp
    omega
  · intro hr c hcl
    have := hi.ret hr t htl
    rw [hnd] at this; cases this

end ExecM
