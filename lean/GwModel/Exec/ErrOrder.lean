/-! Why the collector has to record a step's error BEFORE `stepWg.Done()` (fact `errsBeforeDone`).

    The executor machine (`Machine.lean`) treats "record the error, then Done" as one action (`doneSt`): that is
    faithful exactly when no other goroutine can observe the state in between in a way that matters.  The only
    observer is `Execute` itself, which reads the error list once the counter has reached zero.  This file models
    that window: the collector finishes its last task with two effects in either order, `Execute` reads `errs`
    when `wg = 0`.  With the error recorded first, every interleaving returns the error; with `Done` first there
    is an interleaving that returns without it (the reply is lost although the data was stitched). -/
namespace ErrOrder

inductive Eff | record | done
deriving DecidableEq, Repr

structure St where
  todo : List Eff          -- what the collector still has to do for the failed task it holds
  wg : Nat
  errs : Nat               -- number of errors recorded
  returned : Option Nat    -- what Execute returned (number of errors) once it has returned
deriving DecidableEq, Repr

inductive Act | collector | main
deriving DecidableEq, Repr

def step (s : St) : Act → Option St
  | .collector =>
    match s.todo with
    | [] => none
    | .record :: rest => some { s with todo := rest, errs := s.errs + 1 }
    | .done :: rest => some { s with todo := rest, wg := s.wg - 1 }
  | .main =>
    -- `stepWg.Wait()` returns only when the counter is zero; then the error list is read once
    if s.wg = 0 ∧ s.returned = none then some { s with returned := some s.errs } else none

def run : St → List Act → Option St
  | s, [] => some s
  | s, a :: as => (step s a).bind fun s' => run s' as

/-- the collector holds one failed task, the last one outstanding -/
def init (order : List Eff) : St := { todo := order, wg := 1, errs := 0, returned := none }

/-- an invariant of the safe order: while `Done` is still to come the counter is positive; once it has
    happened the error has been recorded -/
def Inv (s : St) : Prop :=
  (s.todo = [.record, .done] ∧ s.wg = 1 ∧ s.errs = 0 ∧ s.returned = none) ∨
  (s.todo = [.done] ∧ s.wg = 1 ∧ s.errs = 1 ∧ s.returned = none) ∨
  (s.todo = [] ∧ s.wg = 0 ∧ s.errs = 1 ∧ (s.returned = none ∨ s.returned = some 1))

theorem inv_step {s s' : St} {a : Act} (h : Inv s) (hs : step s a = some s') : Inv s' := by
  rcases h with ⟨h1, h2, h3, h4⟩ | ⟨h1, h2, h3, h4⟩ | ⟨h1, h2, h3, h4⟩
  · cases a with
    | collector =>
      simp only [step, h1] at hs; cases hs
      exact Or.inr (Or.inl ⟨rfl, h2, by simp [h3], h4⟩)
    | main => simp [step, h2] at hs
  · cases a with
    | collector =>
      simp only [step, h1] at hs; cases hs
      exact Or.inr (Or.inr ⟨rfl, by simp [h2], h3, Or.inl h4⟩)
    | main => simp [step, h2] at hs
  · cases a with
    | collector => simp [step, h1] at hs
    | main =>
      simp only [step] at hs
      split at hs
      · cases hs
        exact Or.inr (Or.inr ⟨h1, h2, h3, Or.inr (by simp [h3])⟩)
      · cases hs

theorem inv_run : ∀ (as : List Act) (s s' : St), Inv s → run s as = some s' → Inv s'
  | [], s, s', h, hr => by simp only [run] at hr; cases hr; exact h
  | a :: as, s, s', h, hr => by
    simp only [run] at hr
    cases hs : step s a with
    | none => rw [hs] at hr; cases hr
    | some s1 => rw [hs] at hr; exact inv_run as s1 s' (inv_step h hs) hr

/-- **recorded first: every schedule returns the error** -/
theorem record_then_done_never_loses (as : List Act) (s : St) (n : Nat)
    (h : run (init [.record, .done]) as = some s) (hr : s.returned = some n) : n = 1 := by
  have := inv_run as _ s (Or.inl ⟨rfl, rfl, rfl, rfl⟩) h
  rcases this with ⟨_, _, _, h4⟩ | ⟨_, _, _, h4⟩ | ⟨_, _, _, h4⟩
  · rw [h4] at hr; cases hr
  · rw [h4] at hr; cases hr
  · rcases h4 with h4 | h4
    · rw [h4] at hr; cases hr
    · rw [h4] at hr; cases hr; rfl

/-- **`Done` first: a schedule exists in which `Execute` returns without the error** -/
theorem done_then_record_can_lose :
    (run (init [.done, .record]) [.collector, .main, .collector]).map (·.returned) = some (some 0) := by decide

end ErrOrder
