import GwModel.Exec.Preserve2
namespace ExecM

variable {ts : Tasks}

theorem inv_spawn (hwf : WF ts) {s : St} (hi : Inv ts s) {t : Nat} (hp : pcOf s t = some 2) :
    Inv ts (spawnSt ts s t 2) := by
  have htl : t < ts.length := (hi.bound t 2 hp).2
  have hpc : ∀ x, pcOf (spawnSt ts s t 2) x =
      if x = t then some 3 else if isKid ts t x then some 0 else pcOf s x := by
    intro x
    exact pcOf_mk' s ts.length
      (fun x => if x = t then some (2+1) else if isKid ts t x then some 0 else pcOf s x) (by
        intro y hy
        have h1 : y ≠ t := by omega
        have h2 : isKid ts t y = false := by
          cases hk : isKid ts t y with
          | false => rfl
          | true =>
            have := parentOf_lt ts (isKid_iff.1 hk)
            omega
        simp only [h1, if_false, h2]
        exact hi.pc_none_of_ge hy) x
  have kid_ne : ∀ x, isKid ts t x = true → x ≠ t := by
    intro x hx hxt
    have := hwf x t (isKid_iff.1 hx)
    omega
  have kid_none : ∀ x, isKid ts t x = true → pcOf s x = none :=
    fun x hx => hi.kid_none (isKid_iff.1 hx) hp (by omega)
  refine
    { len := by simp [spawnSt, mkPc_length]
      bound := ?_, pubd := ?_, nodup := hi.nodup, held := hi.held
      heldLast := by intros; trivial
      spawned := ?_, roots := ?_, wgEq := ?_, noCrash := hi.noCrash, errQ := hi.errQ
      ret := hi.ret, resp := hi.resp }
  · intro x k h
    rw [hpc] at h
    split at h
    · rename_i hx; cases h; subst hx; exact ⟨by omega, htl⟩
    · split at h
      · rename_i hk; cases h
        exact ⟨by omega, parentOf_lt ts (isKid_iff.1 hk)⟩
      · exact hi.bound x k h
  · intro x
    show _ ↔ x ∈ s.order ++ s.queue
    rw [hpc]
    by_cases hx : x = t
    · subst hx
      simp only [if_true]
      constructor
      · intro _; exact hi.seq_of_pc hp (by omega)
      · intro _; exact ⟨3, rfl, by omega⟩
    · simp only [hx, if_false]
      by_cases hk : isKid ts t x = true
      · simp only [hk, if_true]
        constructor
        · rintro ⟨k, h, h2⟩; cases h; omega
        · intro hm; exact absurd hm (hi.not_seq_of_none (kid_none x hk))
      · simp only [hk]; exact hi.pubd x
  · intro c p hcp hc
    rw [hpc, hpc]
    have hpc_lt : p < c := hwf c p hcp
    by_cases h2 : p = t
    · subst h2
      have hk : isKid ts p c = true := isKid_iff.2 hcp
      have hne : c ≠ p := by omega
      simp [hne, hk]
    · have hck : isKid ts t c = false := by
        cases hk : isKid ts t c with
        | false => rfl
        | true => have := isKid_iff.1 hk; rw [hcp] at this; cases this; exact absurd rfl h2
      by_cases h1 : c = t
      · subst h1
        have hpk : isKid ts c p = false := by
          cases hk : isKid ts c p with
          | false => rfl
          | true => have := hwf p c (isKid_iff.1 hk); omega
        simp only [if_true, h2, if_false, hpk]
        have := (hi.spawned c p hcp hc).1 (by rw [hp]; simp)
        simp [this]
      · simp only [h1, if_false, hck, h2]
        by_cases hpk : isKid ts t p = true
        · simp only [hpk, if_true]
          have hpn : pcOf s p = none := kid_none p hpk
          have hcn : pcOf s c = none := by
            cases hcn : pcOf s c with
            | none => rfl
            | some j =>
              have := (hi.spawned c p hcp hc).1 (by rw [hcn]; simp)
              rw [hpn] at this; cases this
          simp [hcn]
        · simp only [hpk]
          exact hi.spawned c p hcp hc
  · intro c hc hpn
    rw [hpc]
    split
    · simp
    · split
      · simp
      · exact hi.roots c hc hpn
  · have hd : nDone ts (spawnSt ts s t 2) = nDone ts s := nDone_congr rfl rfl
    have hc : nCounted ts (spawnSt ts s t 2) = nCounted ts s := by
      unfold nCounted
      apply List.countP_congr
      intro c _
      unfold counted
      cases hcp : parentOf ts c with
      | none => simp
      | some p =>
        simp only [hpc]
        by_cases hpt : p = t
        · subst hpt; simp [hp]
        · simp only [hpt, if_false]
          by_cases hpk : isKid ts t p = true
          · simp [hpk, kid_none p hpk]
          · simp [hpk]
    show s.wg = _
    rw [hd, hc, hi.wgEq]

theorem inv_recv {s : St} (hi : Inv ts s) {t : Nat} {q : List Nat} (hh : s.held = none)
    (hq : s.queue = t :: q) : Inv ts (recvSt s t q) := by
  have hseq : (recvSt s t q).order ++ (recvSt s t q).queue = s.order ++ s.queue := by
    simp [recvSt, hq, List.append_assoc]
  have htq : t ∈ s.order ++ s.queue := by simp [hq]
  have hto : t ∉ s.order := by
    intro h
    have := hi.nodup
    rw [hq] at this
    have := (List.nodup_append.1 this).2.2 t h t (List.mem_cons_self ..)
    exact this rfl
  refine
    { len := hi.len
      bound := hi.bound, pubd := ?_, nodup := by rw [hseq]; exact hi.nodup, held := ?_
      heldLast := by intros; trivial
      spawned := hi.spawned, roots := hi.roots, wgEq := ?_, noCrash := hi.noCrash, errQ := hi.errQ
      ret := ?_, resp := ?_ }
  · intro x; rw [hseq]; exact hi.pubd x
  · intro u hu
    simp [recvSt] at hu
    subst hu
    simp [recvSt]
  · have hc : nCounted ts (recvSt s t q) = nCounted ts s := rfl
    have hd : nDone ts (recvSt s t q) = nDone ts s := by
      unfold nDone
      apply List.countP_congr
      intro c _
      simp only [doneT, recvSt, hh]
      by_cases hct : c = t
      · subst hct; simp [hto]
      · have : ¬ (t = c) := fun h => hct h.symm
        simp [hct, this]
    show s.wg = _
    rw [hc, hd, hi.wgEq]
  · intro hr c hc
    have hdn := hi.ret hr t ((hi.pubd t).2 htq |>.elim fun k hk => (hi.bound t k hk.1).2)
    simp [doneT, hto] at hdn
  · intro l₁ c l₂ h; rw [hseq] at h; exact hi.resp l₁ c l₂ h

end ExecM
