import GwModel.Exec.StepLemmas
namespace ExecM

variable {ts : Tasks}

theorem pcOf_mk' (s : St) (n : Nat) (g : Nat → Option Nat) (hg : ∀ x, n ≤ x → g x = none) (x : Nat) :
    pcOf { s with pc := mkPc n g } x = g x := by
  rw [pcOf_mk]
  split
  · rfl
  · rename_i h; exact (hg x (Nat.le_of_not_lt h)).symm

theorem Inv.pc_none_of_ge {s : St} (hi : Inv ts s) {x : Nat} (hx : ts.length ≤ x) : pcOf s x = none := by
  cases h : pcOf s x with
  | none => rfl
  | some k => exact absurd (hi.bound x k h).2 (Nat.not_lt.2 hx)

theorem countP_or_disjoint {α} (p q : α → Bool) :
    ∀ (l : List α), (∀ x ∈ l, ¬ (p x = true ∧ q x = true)) →
      l.countP (fun x => p x || q x) = l.countP p + l.countP q
  | [], _ => rfl
  | a :: l, h => by
    have ih := countP_or_disjoint p q l (fun x hx => h x (List.mem_cons_of_mem _ hx))
    have ha := h a (List.mem_cons_self ..)
    simp only [List.countP_cons, ih]
    cases hp : p a <;> cases hq : q a <;> simp_all <;> omega

theorem kids_length (t : Nat) : (kids ts t).length = (List.range ts.length).countP (isKid ts t) := by
  simp [kids, List.countP_eq_length_filter]

/-- doneT does not look at pc / wg -/
theorem nDone_congr {s s' : St} (ho : s'.order = s.order) (hh : s'.held = s.held) :
    nDone ts s' = nDone ts s := by
  unfold nDone doneT
  rw [ho, hh]

theorem inv_add (hwf : WF ts) {s : St} (hi : Inv ts s) {t : Nat} (hp : pcOf s t = some 0)
    (hr : s.returned = false) :
    Inv ts (addSt ts s t 0) := by
  have htl : t < ts.length := (hi.bound t 0 hp).2
  have hpc : ∀ x, pcOf (addSt ts s t 0) x = if x = t then some 1 else pcOf s x := by
    intro x
    exact pcOf_mk' { s with wg := s.wg + (kids ts t).length } ts.length
      (fun x => if x = t then some (0+1) else pcOf s x) (by
        intro y hy
        have : y ≠ t := by omega
        simp only [this, if_false]
        exact hi.pc_none_of_ge hy) x
  refine
    { len := by simp [addSt, mkPc_length]
      bound := ?_, pubd := ?_, nodup := hi.nodup, held := hi.held
      heldLast := by intros; trivial
      spawned := ?_, roots := ?_, wgEq := ?_, noCrash := hi.noCrash, errQ := hi.errQ
      ret := ?_, resp := hi.resp }
  · intro x k h
    rw [hpc] at h
    split at h
    · rename_i hx; cases h; subst hx; exact ⟨by omega, htl⟩
    · exact hi.bound x k h
  · intro x
    rw [hpc]
    by_cases hx : x = t
    · subst hx
      simp only [if_true]
      constructor
      · rintro ⟨k, hk, h2⟩; cases hk; omega
      · intro hm
        obtain ⟨k, hk, h2⟩ := (hi.pubd x).2 hm
        rw [hp] at hk; cases hk; omega
    · simp only [hx, if_false]; exact hi.pubd x
  · intro c p hcp hc
    rw [hpc, hpc]
    have hpc_lt : p < c := hwf c p hcp
    by_cases h1 : c = t
    · subst h1
      have hne : p ≠ c := by omega
      simp only [if_true, hne, if_false]
      have := (hi.spawned c p hcp hc).1 (by rw [hp]; simp)
      simp [this]
    · by_cases h2 : p = t
      · subst h2
        simp only [h1, if_false, if_true]
        have : pcOf s c = none := by
          cases hcn : pcOf s c with
          | none => rfl
          | some k =>
            have := (hi.spawned c p hcp hc).1 (by rw [hcn]; simp)
            rw [hp] at this; cases this
        simp [this]
      · simp only [h1, h2, if_false]; exact hi.spawned c p hcp hc
  · intro c hc hpn
    rw [hpc]
    split
    · simp
    · exact hi.roots c hc hpn
  · -- wg
    have hd : nDone ts (addSt ts s t 0) = nDone ts s := nDone_congr rfl rfl
    have hc : nCounted ts (addSt ts s t 0) = nCounted ts s + (kids ts t).length := by
      rw [kids_length]
      unfold nCounted
      rw [← countP_or_disjoint]
      · apply List.countP_congr
        intro c _
        unfold counted isKid
        cases hcp : parentOf ts c with
        | none => simp
        | some p =>
          simp only [hpc]
          by_cases hpt : p = t
          · subst hpt; simp [hp]
          · simp [hpt]
      · intro c _ ⟨h1, h2⟩
        unfold isKid at h2
        have hcp : parentOf ts c = some t := by simpa using h2
        unfold counted at h1
        simp [hcp, hp] at h1
    show s.wg + ((kids ts t).length : Int) = _
    rw [hd, hc, hi.wgEq]
    push_cast
    omega
  · intro h
    have : s.returned = true := h
    rw [hr] at this; cases this
