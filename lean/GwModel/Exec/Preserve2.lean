import GwModel.Exec.Preserve1
namespace ExecM

variable {ts : Tasks}

theorem Inv.seq_of_pc {s : St} (hi : Inv ts s) {t k : Nat} (h : pcOf s t = some k) (hk : 2 ≤ k) :
    t ∈ s.order ++ s.queue := (hi.pubd t).1 ⟨k, h, hk⟩

theorem Inv.not_seq_of_pc {s : St} (hi : Inv ts s) {t k : Nat} (h : pcOf s t = some k) (hk : k < 2) :
    t ∉ s.order ++ s.queue := by
  intro hm
  obtain ⟨k', hk', h2⟩ := (hi.pubd t).2 hm
  rw [h] at hk'; cases hk'; omega

theorem Inv.not_seq_of_none {s : St} (hi : Inv ts s) {t : Nat} (h : pcOf s t = none) :
    t ∉ s.order ++ s.queue := by
  intro hm
  obtain ⟨k', hk', _⟩ := (hi.pubd t).2 hm
  rw [h] at hk'; cases hk'

theorem isKid_iff {t c : Nat} : isKid ts t c = true ↔ parentOf ts c = some t := by
  simp [isKid]

/-- a task that has not spawned its children has unspawned children -/
theorem Inv.kid_none {s : St} (hi : Inv ts s) {t c k : Nat} (hk : parentOf ts c = some t)
    (hp : pcOf s t = some k) (h3 : k ≠ 3) : pcOf s c = none := by
  cases hcn : pcOf s c with
  | none => rfl
  | some j =>
    have := (hi.spawned c t hk (parentOf_lt ts hk)).1 (by rw [hcn]; simp)
    rw [hp] at this; cases this; exact absurd rfl h3

theorem inv_pub (hwf : WF ts) {s : St} (hi : Inv ts s) {t : Nat} (hp : pcOf s t = some 1)
    (hr : s.returned = false) : Inv ts (pubSt ts s t 1) := by
  have htl : t < ts.length := (hi.bound t 1 hp).2
  have hpc : ∀ x, pcOf (pubSt ts s t 1) x = if x = t then some 2 else pcOf s x := by
    intro x
    exact pcOf_mk' { s with queue := s.queue ++ [t] } ts.length
      (fun x => if x = t then some (1+1) else pcOf s x) (by
        intro y hy
        have : y ≠ t := by omega
        simp only [this, if_false]
        exact hi.pc_none_of_ge hy) x
  have hseq : (pubSt ts s t 1).order ++ (pubSt ts s t 1).queue = (s.order ++ s.queue) ++ [t] := by
    simp [pubSt, List.append_assoc]
  have htn : t ∉ s.order ++ s.queue := hi.not_seq_of_pc hp (by omega)
  refine
    { len := by simp [pubSt, mkPc_length]
      bound := ?_, pubd := ?_, nodup := ?_, held := hi.held
      heldLast := by intros; trivial
      spawned := ?_, roots := ?_, wgEq := ?_, noCrash := hi.noCrash, errQ := hi.errQ
      ret := ?_, resp := ?_ }
  · intro x k h
    rw [hpc] at h
    split at h
    · rename_i hx; cases h; subst hx; exact ⟨by omega, htl⟩
    · exact hi.bound x k h
  · intro x
    rw [hpc, hseq]
    by_cases hx : x = t
    · subst hx
      simp
    · simp only [hx, if_false, List.mem_append, List.mem_singleton, or_false]
      have := hi.pubd x
      simp only [List.mem_append] at this
      exact this
  · rw [hseq]
    exact List.nodup_append.2 ⟨hi.nodup, by simp, by
      intro a ha b hb
      simp at hb; subst hb
      intro hab; subst hab; exact htn ha⟩
  · intro c p hcp hc
    rw [hpc, hpc]
    have hpc_lt : p < c := hwf c p hcp
    by_cases h1 : c = t
    · subst h1
      have hne : p ≠ c := by omega
      simp only [if_true, hne, if_false]
      have := (hi.spawned c p hcp hc).1 (by rw [hp]; simp)
      simp [this]
    · by_cases h2 : p = t
      · subst h2
        simp only [h1, if_false, if_true]
        have : pcOf s c = none := hi.kid_none hcp hp (by omega)
        simp [this]
      · simp only [h1, h2, if_false]; exact hi.spawned c p hcp hc
  · intro c hc hpn
    rw [hpc]
    split
    · simp
    · exact hi.roots c hc hpn
  · have hd : nDone ts (pubSt ts s t 1) = nDone ts s := nDone_congr rfl rfl
    have hc : nCounted ts (pubSt ts s t 1) = nCounted ts s := by
      unfold nCounted
      apply List.countP_congr
      intro c _
      unfold counted
      cases hcp : parentOf ts c with
      | none => simp
      | some p =>
        simp only [hpc]
        by_cases hpt : p = t
        · subst hpt; simp [hp]
        · simp [hpt]
    show s.wg = _
    rw [hd, hc, hi.wgEq]
  · intro h
    have : s.returned = true := h
    rw [hr] at this; cases this
  · intro l₁ c l₂ h p hcp
    rw [hseq] at h
    rcases List.eq_nil_or_concat l₂ with rfl | ⟨l₂', b, rfl⟩
    · have h' : (s.order ++ s.queue) ++ [t] = l₁ ++ [c] := h
      have := List.append_inj' h' rfl
      obtain ⟨h1, h2⟩ := this
      cases h2
      rw [← h1]
      -- parent of t is already in the sequence
      have hp3 := (hi.spawned t p hcp htl).1 (by rw [hp]; simp)
      exact hi.seq_of_pc hp3 (by omega)
    · have h' : (s.order ++ s.queue) ++ [t] = (l₁ ++ c :: l₂') ++ [b] := by
        rw [h]; simp [List.append_assoc]
      have := List.append_inj' h' rfl
      exact hi.resp l₁ c l₂' this.1 p hcp

end ExecM
