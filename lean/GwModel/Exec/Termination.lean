import GwModel.Exec.Main
namespace ExecM

variable {cfg : Cfg} {ts : Tasks}

def effLeft (s : St) (t : Nat) : Nat :=
  match pcOf s t with
  | none => 3
  | some k => 3 - k

def sumUpTo (f : Nat → Nat) : Nat → Nat
  | 0 => 0
  | n+1 => sumUpTo f n + f n

theorem sumUpTo_congr {f g : Nat → Nat} : ∀ n, (∀ x, x < n → f x = g x) → sumUpTo f n = sumUpTo g n
  | 0, _ => rfl
  | n+1, h => by
    simp only [sumUpTo]
    rw [sumUpTo_congr n (fun x hx => h x (Nat.lt_succ_of_lt hx)), h n (Nat.lt_succ_self n)]

/-- lowering `f` at exactly one index below `n` lowers the sum by the same amount -/
theorem sumUpTo_dec {f g : Nat → Nat} {t : Nat} :
    ∀ n, t < n → (∀ x, x ≠ t → g x = f x) → g t + 1 = f t → sumUpTo g n + 1 = sumUpTo f n
  | 0, h, _, _ => by cases h
  | n+1, h, hne, ht => by
    simp only [sumUpTo]
    by_cases htn : t = n
    · subst htn
      rw [sumUpTo_congr t (fun x hx => hne x (by omega))]
      omega
    · have := sumUpTo_dec n (by omega) hne ht
      rw [hne n (fun h => htn h.symm)]
      omega

def notRecv (s : St) (t : Nat) : Nat := if t ∈ s.order then 0 else 2

/-- number of actions still to happen -/
def mu (ts : Tasks) (s : St) : Nat :=
  sumUpTo (effLeft s) ts.length + sumUpTo (notRecv s) ts.length
    + (if s.held.isSome then 1 else 0) + (if s.returned then 0 else 1)

theorem effLeft_step (hwf : WF ts) {s : St} (hi : Inv ts s) {t k : Nat} (hp : pcOf s t = some k) (hk : k < 3)
    {s' : St} (hpc : ∀ x, pcOf s' x = if x = t then some (k+1) else if (isKid ts t x && decide (k = 2)) then some 0 else pcOf s x)
    : sumUpTo (effLeft s') ts.length + 1 = sumUpTo (effLeft s) ts.length := by
  apply sumUpTo_dec ts.length (hi.bound t k hp).2
  · intro x hx
    unfold effLeft
    rw [hpc]
    simp only [hx, if_false]
    by_cases hkid : (isKid ts t x && decide (k = 2)) = true
    · simp only [hkid, if_true]
      simp at hkid
      have : pcOf s x = none := hi.kid_none (isKid_iff.1 hkid.1) hp (by omega)
      simp [this]
    · simp only [hkid]; rfl
  · unfold effLeft
    rw [hpc, hp]
    simp; omega

theorem mu_decreases (hs : cfg.Safe) (hwf : WF ts) {s s' : St} {a : Act} (hr : Reach cfg ts s)
    (h : step cfg ts s a = some s') : mu ts s' < mu ts s := by
  have hi := inv_reach hs hwf hr
  cases a with
  | eff t =>
    rcases step_eff_safe hs h with ⟨hp, h1 | h1⟩ | ⟨hp, h1 | h1⟩ | ⟨hp, rfl⟩
    · exact (hi.no_early_effect h1.1 hp (by omega)).elim
    · obtain ⟨_, rfl⟩ := h1
      have hi' := inv_add hwf hi hp ‹_›
      have := effLeft_step (s' := addSt ts s t 0) hwf hi hp (by omega) (by
        intro x
        have := pcOf_mk' { s with wg := s.wg + (kids ts t).length } ts.length
          (fun x => if x = t then some (0+1) else pcOf s x) (by
            intro y hy; have : y ≠ t := by have := (hi.bound t 0 hp).2; omega
            simp only [this, if_false]; exact hi.pc_none_of_ge hy) x
        simp [addSt] at this ⊢; exact this)
      unfold mu
      have e1 : sumUpTo (notRecv (addSt ts s t 0)) ts.length = sumUpTo (notRecv s) ts.length := rfl
      have e2 : (addSt ts s t 0).held = s.held := rfl
      have e3 : (addSt ts s t 0).returned = s.returned := rfl
      rw [e1, e2, e3]; omega
    · exact (hi.no_early_effect h1.1 hp (by omega)).elim
    · obtain ⟨_, _, rfl⟩ := h1
      have := effLeft_step (s' := pubSt ts s t 1) hwf hi hp (by omega) (by
        intro x
        have := pcOf_mk' { s with queue := s.queue ++ [t] } ts.length
          (fun x => if x = t then some (1+1) else pcOf s x) (by
            intro y hy; have : y ≠ t := by have := (hi.bound t 1 hp).2; omega
            simp only [this, if_false]; exact hi.pc_none_of_ge hy) x
        simp [pubSt] at this ⊢; exact this)
      unfold mu
      have e1 : sumUpTo (notRecv (pubSt ts s t 1)) ts.length = sumUpTo (notRecv s) ts.length := rfl
      have e2 : (pubSt ts s t 1).held = s.held := rfl
      have e3 : (pubSt ts s t 1).returned = s.returned := rfl
      rw [e1, e2, e3]; omega
    · have := effLeft_step (s' := spawnSt ts s t 2) hwf hi hp (by omega) (by
        intro x
        have := pcOf_mk' s ts.length
          (fun x => if x = t then some (2+1) else if isKid ts t x then some 0 else pcOf s x) (by
            intro y hy
            have h1 : y ≠ t := by have := (hi.bound t 2 hp).2; omega
            have h2 : isKid ts t y = false := by
              cases hk : isKid ts t y with
              | false => rfl
              | true => have := parentOf_lt ts (isKid_iff.1 hk); omega
            simp only [h1, if_false, h2]; exact hi.pc_none_of_ge hy) x
        simp [spawnSt] at this ⊢; exact this)
      unfold mu
      have e1 : sumUpTo (notRecv (spawnSt ts s t 2)) ts.length = sumUpTo (notRecv s) ts.length := rfl
      have e2 : (spawnSt ts s t 2).held = s.held := rfl
      have e3 : (spawnSt ts s t 2).returned = s.returned := rfl
      rw [e1, e2, e3]; omega
  | recv =>
    simp only [step] at h
    cases hh : s.held with
    | some t => simp [hh] at h
    | none =>
      cases hq : s.queue with
      | nil => simp [hh, hq] at h
      | cons t q =>
        simp only [hh, hq] at h
        cases h
        have htq : t ∈ s.order ++ s.queue := by simp [hq]
        have hto : t ∉ s.order := by
          intro h
          have := hi.nodup
          rw [hq] at this
          exact (List.nodup_append.1 this).2.2 t h t (List.mem_cons_self ..) rfl
        obtain ⟨k, hk, _⟩ := (hi.pubd t).2 htq
        have htl := (hi.bound t k hk).2
        have hdec : sumUpTo (notRecv (recvSt s t q)) ts.length + 2 = sumUpTo (notRecv s) ts.length := by
          have h1 : ∀ n, t < n → sumUpTo (notRecv (recvSt s t q)) n + 2 = sumUpTo (notRecv s) n := by
            intro n
            induction n with
            | zero => intro h; cases h
            | succ n ih =>
              intro hlt
              simp only [sumUpTo]
              by_cases htn : t = n
              · subst htn
                have : sumUpTo (notRecv (recvSt s t q)) t = sumUpTo (notRecv s) t := by
                  apply sumUpTo_congr
                  intro x hx
                  have : x ≠ t := by omega
                  simp [notRecv, recvSt, this]
                rw [this]
                simp [notRecv, recvSt, hto]
              · have := ih (by omega)
                have hn : notRecv (recvSt s t q) n = notRecv s n := by
                  have : n ≠ t := fun h => htn h.symm
                  simp [notRecv, recvSt, this]
                rw [hn]; omega
          exact h1 _ htl
        unfold mu
        have e0 : sumUpTo (effLeft (recvSt s t q)) ts.length = sumUpTo (effLeft s) ts.length := rfl
        have e2 : (recvSt s t q).held = some t := rfl
        have e3 : (recvSt s t q).returned = s.returned := rfl
        rw [e0, e2, e3, hh]; simp; omega
  | done =>
    simp only [step] at h
    cases hh : s.held with
    | none => simp [hh] at h
    | some t =>
      simp only [hh, hs.noSelfSend, Bool.and_false] at h
      simp at h
      subst h
      unfold mu
      have e0 : sumUpTo (effLeft (doneSt ts s t)) ts.length = sumUpTo (effLeft s) ts.length := rfl
      have e1 : sumUpTo (notRecv (doneSt ts s t)) ts.length = sumUpTo (notRecv s) ts.length := rfl
      have e2 : (doneSt ts s t).held = none := rfl
      have e3 : (doneSt ts s t).returned = s.returned := rfl
      rw [e0, e1, e2, e3, hh]; simp
  | recvErr =>
    simp only [step] at h
    rw [hi.errQ] at h
    cases hh : s.held <;> simp [hh] at h
  | ret =>
    simp only [step] at h
    split at h
    · rename_i hc; cases h
      unfold mu
      have e0 : sumUpTo (effLeft { s with returned := true }) ts.length = sumUpTo (effLeft s) ts.length := rfl
      have e1 : sumUpTo (notRecv { s with returned := true }) ts.length = sumUpTo (notRecv s) ts.length := rfl
      rw [e0, e1]
      simp [hc.2]
    · cases h

/-- C06: every schedule is finite — at most `mu (init)` = 5·n + 1 actions -/
theorem run_length_bounded (hs : cfg.Safe) (hwf : WF ts) :
    ∀ (as : List Act) {s s' : St}, Reach cfg ts s → run cfg ts s as = some s' → as.length + mu ts s' ≤ mu ts s
  | [], s, s', _, h => by simp [run] at h; subst h; simp
  | a :: as, s, s', hr, h => by
    simp only [run] at h
    cases hst : step cfg ts s a with
    | none => simp [hst] at h
    | some s₁ =>
      simp only [hst, Option.bind_some] at h
      have := run_length_bounded hs hwf as (Reach.step hr hst) h
      have := mu_decreases hs hwf hr hst
      simp; omega

#print axioms run_length_bounded
end ExecM
