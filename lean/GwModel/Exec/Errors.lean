import GwModel.Exec.Confluence
namespace ExecM

variable {cfg : Cfg} {ts : Tasks}

/-- pending error of the result the collector is holding -/
def heldErr (ts : Tasks) (s : St) : List Nat :=
  match s.held with
  | some t => if failedOf ts t then [t] else []
  | none => []

def ErrInv (ts : Tasks) (s : St) : Prop :=
  s.errs ++ heldErr ts s = s.order.filter (failedOf ts)

theorem errInv_init : ErrInv ts (init ts) := by simp [ErrInv, init, heldErr]

theorem errInv_step (hs : cfg.Safe) (hwf : WF ts) {s s' : St} {a : Act} (hr : Reach cfg ts s)
    (he : ErrInv ts s) (h : step cfg ts s a = some s') : ErrInv ts s' := by
  have hi := inv_reach hs hwf hr
  cases a with
  | eff t =>
    rcases step_eff_safe hs h with ⟨hp, h1 | h1⟩ | ⟨hp, h1 | h1⟩ | ⟨hp, rfl⟩
    · exact (hi.no_early_effect h1.1 hp (by omega)).elim
    · rw [h1.2]; exact he
    · exact (hi.no_early_effect h1.1 hp (by omega)).elim
    · rw [h1.2.2]; exact he
    · exact he
  | recv =>
    simp only [step] at h
    cases hh : s.held with
    | some t => simp [hh] at h
    | none =>
      cases hq : s.queue with
      | nil => simp [hh, hq] at h
      | cons t q =>
        simp only [hh, hq] at h
        cases h
        unfold ErrInv at he ⊢
        simp only [heldErr, hh, List.append_nil] at he
        simp only [recvSt, heldErr, List.filter_append, he]
        by_cases hf : failedOf ts t = true <;> simp [hf]
  | done =>
    simp only [step] at h
    cases hh : s.held with
    | none => simp [hh] at h
    | some t =>
      simp only [hh, hs.noSelfSend, Bool.and_false] at h
      simp at h
      subst h
      unfold ErrInv at he ⊢
      simp only [heldErr, hh] at he
      simp only [doneSt, heldErr, List.append_nil]
      by_cases hf : failedOf ts t = true
      · simp only [hf, if_true] at he ⊢; exact he
      · simp only [hf] at he ⊢; simpa using he
  | recvErr =>
    simp only [step] at h
    rw [hi.errQ] at h
    cases hh : s.held <;> simp [hh] at h
  | ret =>
    simp only [step] at h
    split at h
    · cases h; exact he
    · cases h

theorem errInv_reach (hs : cfg.Safe) (hwf : WF ts) {s : St} (hr : Reach cfg ts s) : ErrInv ts s := by
  induction hr with
  | init => exact errInv_init
  | step hr' h ih => exact errInv_step hs hwf hr' ih h

/-- **C07 (abstract form).** At return the error list holds exactly the failed calls, each once,
    whatever the schedule: it is a permutation of the failed tasks of the forest. -/
theorem errors_exact (hs : cfg.Safe) (hwf : WF ts) {s : St} (hr : Reach cfg ts s)
    (hret : s.returned = true) :
    s.errs.Perm ((List.range ts.length).filter (failedOf ts)) := by
  have he := errInv_reach hs hwf hr
  have hi := inv_reach hs hwf hr
  have hheld : s.held = none := by
    cases hh : s.held with
    | none => rfl
    | some t =>
      have := hi.held t hh
      obtain ⟨k, hk, _⟩ := (hi.pubd t).2 (List.mem_append.2 (Or.inl this))
      exact absurd hh (returns_after_all_merged hs hwf hr hret t (hi.bound t k hk).2).2
  unfold ErrInv at he
  simp only [heldErr, hheld, List.append_nil] at he
  rw [he]
  apply List.Perm.filter
  obtain ⟨nd, _⟩ := order_respectful hs hwf hr
  exact (List.perm_ext_iff_of_nodup nd List.nodup_range).2 fun t => by
    rw [order_complete hs hwf hr hret]; simp

#print axioms errors_exact

/-! ### The hypotheses of `Safe` are necessary: concrete bad runs for each violated clause -/

def two : Tasks := [{ parent := none, failed := false }, { parent := some 0, failed := false }]

/-- `resultCh <-` before `stepWg.Add`: `Execute` can return before the child was even started -/
theorem early_return_if_publish_before_add :
    let cfg : Cfg := { cap := 10, errCap := 10, selfSend := false, order := [.pub, .add, .spawn] }
    (run cfg two (init two) [.eff 0, .recv, .done, .ret]).map
      (fun s => (s.returned, pcOf s 1)) = some (true, none) := by decide

/-- children spawned before the parent publishes: the child's result can be merged first -/
theorem child_first_if_spawn_before_publish :
    let cfg : Cfg := { cap := 10, errCap := 10, selfSend := false, order := [.add, .spawn, .pub] }
    (run cfg two (init two) [.eff 0, .eff 0, .eff 1, .eff 1, .eff 1, .recv]).map
      (fun s => s.order) = some [1] := by decide

end ExecM
