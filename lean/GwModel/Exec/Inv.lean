import GwModel.Exec.Basic
namespace ExecM

variable (ts : Tasks)

def counted (s : St) (c : Nat) : Bool :=
  match parentOf ts c with
  | none => true
  | some p => (pcOf s p).any (fun k => decide (1 ≤ k))

def doneT (s : St) (c : Nat) : Bool := decide (c ∈ s.order) && !(s.held == some c)

def nCounted (s : St) : Nat := (List.range ts.length).countP (counted ts s)
def nDone (s : St) : Nat := (List.range ts.length).countP (doneT s)

structure Inv (s : St) : Prop where
  len    : s.pc.length = ts.length
  bound  : ∀ t k, pcOf s t = some k → k ≤ 3 ∧ t < ts.length
  pubd   : ∀ t, (∃ k, pcOf s t = some k ∧ 2 ≤ k) ↔ t ∈ s.order ++ s.queue
  nodup  : (s.order ++ s.queue).Nodup
  held   : ∀ t, s.held = some t → t ∈ s.order
  heldLast : ∀ t, s.held = some t → ∀ u ∈ s.order, u ≠ t → True
  spawned : ∀ c p, parentOf ts c = some p → c < ts.length → (pcOf s c ≠ none ↔ pcOf s p = some 3)
  roots  : ∀ c, c < ts.length → parentOf ts c = none → pcOf s c ≠ none
  wgEq   : s.wg = (nCounted ts s : Int) - (nDone ts s : Int)
  noCrash : s.crashed = false
  errQ   : s.errQ = []
  ret    : s.returned = true → ∀ t, t < ts.length → doneT s t = true
  resp   : ∀ l₁ c l₂, s.order ++ s.queue = l₁ ++ c :: l₂ → ∀ p, parentOf ts c = some p → p ∈ l₁

theorem pcOf_init (c : Nat) :
    pcOf (init ts) c = if c < ts.length then (if isRoot ts c then some 0 else none) else none := by
  simp only [pcOf, init, List.getD_eq_getElem?_getD]
  exact mkPc_get _ _ c

theorem parentOf_lt {c p : Nat} (h : parentOf ts c = some p) : c < ts.length := by
  unfold parentOf at h
  by_cases hc : c < ts.length
  · exact hc
  · simp [List.getElem?_eq_none (Nat.le_of_not_lt hc)] at h

theorem inv_init (hwf : WF ts) : Inv ts (init ts) := by
  refine
    { len := by simp [init, mkPc_length]
      bound := ?_, pubd := ?_, nodup := by simp [init], held := by simp [init]
      heldLast := by intros; trivial
      spawned := ?_, roots := ?_, wgEq := ?_, noCrash := rfl, errQ := rfl
      ret := by simp [init], resp := ?_ }
  · intro t k h
    rw [pcOf_init] at h
    split at h
    · rename_i hlt
      split at h
      · cases h; exact ⟨by omega, hlt⟩
      · cases h
    · cases h
  · intro t
    constructor
    · rintro ⟨k, h, hk⟩
      rw [pcOf_init] at h
      split at h
      · split at h
        · cases h; omega
        · cases h
      · cases h
    · intro h; simp [init] at h
  · intro c p hp hc
    have hpl : p < ts.length := Nat.lt_trans (hwf c p hp) hc
    rw [pcOf_init, pcOf_init]
    simp only [hc, hpl, if_true]
    have : isRoot ts c = false := by simp [isRoot, hp]
    simp [this]
  · intro c hc hp
    rw [pcOf_init]
    simp [hc, isRoot, hp]
  · -- wg
    have h1 : nDone ts (init ts) = 0 := by
      simp [nDone, doneT, init]
    have h2 : nCounted ts (init ts) = ((List.range ts.length).filter (isRoot ts)).length := by
      unfold nCounted
      rw [← List.countP_eq_length_filter]
      apply List.countP_congr
      intro c hc
      have hc' : c < ts.length := by simpa using hc
      unfold counted isRoot
      cases hp : parentOf ts c with
      | none => simp
      | some p =>
        have hpl : p < ts.length := Nat.lt_trans (hwf c p hp) hc'
        simp only [pcOf_init ts p, hpl, if_true]
        split <;> simp
    rw [h1, h2]
    simp [init]
  · intro l₁ c l₂ h
    simp [init] at h
