import GwModel.Exec.Main
import GwModel.Exec.Conf
namespace ExecM

variable {cfg : Cfg} {ts : Tasks}

/-- `Anc ts a c`: `a` is a strict ancestor of `c` in the task forest -/
inductive Anc (ts : Tasks) : Nat → Nat → Prop
  | base {p c} : parentOf ts c = some p → Anc ts p c
  | step {a p c} : parentOf ts c = some p → Anc ts a p → Anc ts a c

def ParentFirst (ts : Tasks) (l : List Nat) : Prop :=
  ∀ l₁ c l₂, l = l₁ ++ c :: l₂ → ∀ p, parentOf ts c = some p → p ∈ l₁

theorem anc_mem_closed {S : List Nat} (hcl : ∀ x ∈ S, ∀ p, parentOf ts x = some p → p ∈ S) :
    ∀ {a x}, Anc ts a x → x ∈ S → a ∈ S := by
  intro a x h
  induction h with
  | base hp => intro hx; exact hcl _ hx _ hp
  | step hp _ ih => intro hx; exact ih (hcl _ hx _ hp)

theorem ParentFirst.anc_before {l : List Nat} (hpf : ParentFirst ts l) {l₁ : List Nat} {c : Nat}
    {l₂ : List Nat} (h : l = l₁ ++ c :: l₂) {a : Nat} (ha : Anc ts a c) : a ∈ l₁ := by
  have hcl : ∀ x ∈ l₁, ∀ p, parentOf ts x = some p → p ∈ l₁ := by
    intro x hx p hp
    obtain ⟨m₁, m₂, rfl⟩ := List.append_of_mem hx
    have := hpf m₁ x (m₂ ++ c :: l₂) (by rw [h]; simp [List.append_assoc]) p hp
    exact List.mem_append.2 (Or.inl this)
  cases ha with
  | base hp => exact hpf l₁ c l₂ h _ hp
  | step hp hap => exact anc_mem_closed hcl hap (hpf l₁ c l₂ h _ hp)

theorem respectful_of_split {anc : Nat → Nat → Prop} :
    ∀ (l : List Nat), (∀ l₁ a l₂, l = l₁ ++ a :: l₂ → ∀ b ∈ l₂, ¬ anc b a) → Respectful anc l
  | [], _ => trivial
  | a :: l, h => by
    refine ⟨fun b hb => h [] a l rfl b hb, respectful_of_split l ?_⟩
    intro l₁ x l₂ hl b hb
    exact h (a :: l₁) x l₂ (by rw [hl]; rfl) b hb

theorem respectful_of_parentFirst {l : List Nat} (hnd : l.Nodup) (hpf : ParentFirst ts l) :
    Respectful (Anc ts) l := by
  apply respectful_of_split
  intro l₁ a l₂ h b hb hanc
  have hb1 : b ∈ l₁ := hpf.anc_before h hanc
  rw [h] at hnd
  have := (List.nodup_append.1 hnd).2.2 b hb1 b (List.mem_cons_of_mem _ hb)
  exact this rfl

/-- the set of merged tasks at return is exactly the forest -/
theorem order_complete (hs : cfg.Safe) (hwf : WF ts) {s : St} (hr : Reach cfg ts s)
    (hret : s.returned = true) : ∀ t, t ∈ s.order ↔ t < ts.length := by
  intro t
  have hi := inv_reach hs hwf hr
  constructor
  · intro h
    obtain ⟨k, hk, _⟩ := (hi.pubd t).2 (List.mem_append.2 (Or.inl h))
    exact (hi.bound t k hk).2
  · intro h; exact (returns_after_all_merged hs hwf hr hret t h).1

/-- **C05 (abstract form).** Whatever the schedule, the accumulated response is the same:
    any two completed executions fold the same messages in ancestor-respecting orders. -/
theorem confluent_final {S : Type} (ins : S → Nat → S)
    (comm : ∀ s a b, ¬ Anc ts a b → ¬ Anc ts b a → ins (ins s a) b = ins (ins s b) a)
    (hs : cfg.Safe) (hwf : WF ts) {s₁ s₂ : St} (h₁ : Reach cfg ts s₁) (h₂ : Reach cfg ts s₂)
    (r₁ : s₁.returned = true) (r₂ : s₂.returned = true) (a0 : S) :
    s₁.order.foldl ins a0 = s₂.order.foldl ins a0 := by
  obtain ⟨nd₁, pf₁⟩ := order_respectful hs hwf h₁
  obtain ⟨nd₂, pf₂⟩ := order_respectful hs hwf h₂
  have hperm : s₁.order.Perm s₂.order :=
    (List.perm_ext_iff_of_nodup nd₁ nd₂).2 fun t => by
      rw [order_complete hs hwf h₁ r₁, order_complete hs hwf h₂ r₂]
  exact confluent ins (Anc ts) comm s₁.order s₂.order a0 hperm nd₁
    (respectful_of_parentFirst nd₁ pf₁) (respectful_of_parentFirst nd₂ pf₂)

#print axioms confluent_final
end ExecM
