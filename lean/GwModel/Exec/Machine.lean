/-! Executor concurrency skeleton (abstract messages): definitions. Core-only, executable. -/
namespace ExecM

inductive Op | add | pub | spawn
deriving DecidableEq, Repr

structure Cfg where
  cap : Nat
  errCap : Nat
  selfSend : Bool
  order : List Op
deriving Repr, DecidableEq

structure Task where
  parent : Option Nat
  failed : Bool
deriving Repr, DecidableEq

abbrev Tasks := List Task

def parentOf (ts : Tasks) (c : Nat) : Option Nat := (ts[c]?).bind (·.parent)
def failedOf (ts : Tasks) (c : Nat) : Bool := ((ts[c]?).map (·.failed)).getD false
def isKid (ts : Tasks) (t c : Nat) : Bool := parentOf ts c == some t
def kids (ts : Tasks) (t : Nat) : List Nat := (List.range ts.length).filter (isKid ts t)

structure St where
  pc      : List (Option Nat)
  queue   : List Nat
  held    : Option Nat
  order   : List Nat
  errQ    : List Nat
  errs    : List Nat
  wg      : Int
  returned : Bool
  crashed : Bool
deriving Repr, DecidableEq

def pcOf (s : St) (t : Nat) : Option Nat := s.pc.getD t none

/-- pointwise rebuild of the pc table -/
def mkPc (n : Nat) (f : Nat → Option Nat) : List (Option Nat) := (List.range n).map f

inductive Act
  | eff (t : Nat) | recv | done | recvErr | ret
deriving Repr, DecidableEq

def addSt (ts : Tasks) (s : St) (t k : Nat) : St :=
  { s with pc := mkPc ts.length (fun x => if x = t then some (k+1) else pcOf s x),
           wg := s.wg + (kids ts t).length }
def pubSt (ts : Tasks) (s : St) (t k : Nat) : St :=
  { s with pc := mkPc ts.length (fun x => if x = t then some (k+1) else pcOf s x),
           queue := s.queue ++ [t] }
def spawnSt (ts : Tasks) (s : St) (t k : Nat) : St :=
  { s with pc := mkPc ts.length (fun x =>
             if x = t then some (k+1) else if isKid ts t x then some 0 else pcOf s x) }
def crashSt (s : St) : St := { s with crashed := true }
def recvSt (s : St) (t : Nat) (q : List Nat) : St :=
  { s with held := some t, queue := q, order := s.order ++ [t] }
def doneSt (ts : Tasks) (s : St) (t : Nat) : St :=
  { s with held := none, wg := s.wg - 1,
           errs := if failedOf ts t then s.errs ++ [t] else s.errs,
           crashed := s.crashed || decide (s.wg - 1 < 0) }

def step (cfg : Cfg) (ts : Tasks) (s : St) : Act → Option St
  | .eff t =>
    match pcOf s t with
    | none => none
    | some k =>
      match cfg.order[k]? with
      | none => none
      | some .add =>
        if s.returned then some (crashSt s) else some (addSt ts s t k)
      | some .pub =>
        if s.returned then some (crashSt s) else
        if s.queue.length < cfg.cap then some (pubSt ts s t k) else none
      | some .spawn =>
        some (spawnSt ts s t k)
  | .recv =>
    match s.held, s.queue with
    | none, t :: q => some (recvSt s t q)
    | _, _ => none
  | .done =>
    match s.held with
    | none => none
    | some t =>
      if failedOf ts t && cfg.selfSend then
        if s.errQ.length < cfg.errCap then some { s with held := none, errQ := s.errQ ++ [t] } else none
      else
        some (doneSt ts s t)
  | .recvErr =>
    match s.held, s.errQ with
    | none, t :: q =>
      some { s with errQ := q, errs := s.errs ++ [t], wg := s.wg - 1,
                    crashed := s.crashed || decide (s.wg - 1 < 0) }
    | _, _ => none
  | .ret => if s.wg = 0 ∧ s.returned = false then some { s with returned := true } else none

def isRoot (ts : Tasks) (c : Nat) : Bool := parentOf ts c == none

def init (ts : Tasks) : St :=
  { pc := mkPc ts.length fun c => if isRoot ts c then some 0 else none,
    queue := [], held := none, order := [], errQ := [], errs := [],
    wg := ((List.range ts.length).filter (isRoot ts)).length,
    returned := false, crashed := false }

def run (cfg : Cfg) (ts : Tasks) : St → List Act → Option St
  | s, [] => some s
  | s, a :: as => (step cfg ts s a).bind fun s' => run cfg ts s' as

inductive Reach (cfg : Cfg) (ts : Tasks) : St → Prop
  | init : Reach cfg ts (init ts)
  | step {s s' a} : Reach cfg ts s → step cfg ts s a = some s' → Reach cfg ts s'

def allActs (ts : Tasks) : List Act :=
  ((List.range ts.length).map Act.eff) ++ [.recv, .done, .recvErr, .ret]

def enabled (cfg : Cfg) (ts : Tasks) (s : St) : List Act :=
  (allActs ts).filter fun a => (step cfg ts s a).isSome

def stuck (cfg : Cfg) (ts : Tasks) (s : St) : Bool :=
  !s.returned && (enabled cfg ts s).isEmpty

/-- forest well-formedness: parents precede children -/
def WF (ts : Tasks) : Prop := ∀ c p, parentOf ts c = some p → p < c

def safeOrder : List Op := [.add, .pub, .spawn]
structure Cfg.Safe (cfg : Cfg) : Prop where
  noSelfSend : cfg.selfSend = false
  order : cfg.order = safeOrder
  cap : 0 < cfg.cap

end ExecM
