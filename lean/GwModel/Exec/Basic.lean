import GwModel.Exec.Machine
namespace ExecM

theorem mkPc_length (n f) : (mkPc n f).length = n := by simp [mkPc]

theorem mkPc_get (n : Nat) (f : Nat → Option Nat) (x : Nat) :
    ((mkPc n f)[x]?).getD none = if x < n then f x else none := by
  unfold mkPc
  by_cases h : x < n
  · simp [h]
  · simp [h]

theorem pcOf_mk (s : St) (n : Nat) (f : Nat → Option Nat) (x : Nat) :
    pcOf { s with pc := mkPc n f } x = if x < n then f x else none := by
  simp only [pcOf, List.getD_eq_getElem?_getD]
  exact mkPc_get n f x

/-- counting lemma: if q ⊆ p pointwise on l and the counts agree then p ⊆ q on l -/
theorem countP_eq_of_sub {α} (p q : α → Bool) :
    ∀ (l : List α), (∀ x ∈ l, q x = true → p x = true) → l.countP q = l.countP p →
      ∀ x ∈ l, p x = true → q x = true
  | [], _, _, x, hx, _ => by cases hx
  | a :: l, hsub, hcnt, x, hx, hpx => by
    have hle : l.countP q ≤ l.countP p := by
      apply List.countP_mono_left
      intro y hy hqy
      exact hsub y (List.mem_cons_of_mem _ hy) hqy
    have hsub' : ∀ y ∈ l, q y = true → p y = true := fun y hy => hsub y (List.mem_cons_of_mem _ hy)
    simp only [List.countP_cons] at hcnt
    by_cases hqa : q a = true
    · have hpa := hsub a (List.mem_cons_self ..) hqa
      simp only [hqa, hpa, if_true] at hcnt
      rcases List.mem_cons.1 hx with rfl | hx'
      · exact hqa
      · exact countP_eq_of_sub p q l hsub' (by omega) x hx' hpx
    · by_cases hpa : p a = true
      · simp only [hqa, hpa] at hcnt
        simp at hcnt
        omega
      · simp only [hqa, hpa] at hcnt
        rcases List.mem_cons.1 hx with rfl | hx'
        · exact absurd hpx hpa
        · exact countP_eq_of_sub p q l hsub' (by simpa using hcnt) x hx' hpx

end ExecM
