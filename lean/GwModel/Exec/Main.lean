import GwModel.Exec.Preserve4
namespace ExecM

variable {cfg : Cfg} {ts : Tasks}

/-- wg = 0 means every task has been absorbed -/
theorem Inv.all_done_of_wg_zero (hwf : WF ts) {s : St} (hi : Inv ts s) (hw : s.wg = 0) :
    ∀ t, t < ts.length → doneT s t = true := by
  have heq : nDone ts s = nCounted ts s := by
    have := hi.wgEq; rw [hw] at this; omega
  have hsub : ∀ c ∈ List.range ts.length, counted ts s c = true → doneT s c = true :=
    countP_eq_of_sub (counted ts s) (doneT s) (List.range ts.length)
      (fun c hc hd => hi.done_counted (by simpa using hc) hd) heq
  intro t
  induction t using Nat.strongRecOn with
  | _ t ih =>
    intro htl
    apply hsub t (by simpa using htl)
    unfold counted
    cases hp : parentOf ts t with
    | none => rfl
    | some p =>
      have hpl : p < t := hwf t p hp
      have hpd := ih p hpl (Nat.lt_trans hpl htl)
      have hpo : p ∈ s.order := by simp [doneT] at hpd; exact hpd.1
      obtain ⟨k, hk, h2⟩ := (hi.pubd p).2 (List.mem_append.2 (Or.inl hpo))
      simp [hk]; omega

theorem inv_ret (hwf : WF ts) {s : St} (hi : Inv ts s) (hw : s.wg = 0) :
    Inv ts { s with returned := true } :=
  { len := hi.len, bound := hi.bound, pubd := hi.pubd, nodup := hi.nodup, held := hi.held
    heldLast := by intros; trivial
    spawned := hi.spawned, roots := hi.roots, wgEq := hi.wgEq, noCrash := hi.noCrash, errQ := hi.errQ
    ret := fun _ => hi.all_done_of_wg_zero hwf hw, resp := hi.resp }

/-- a returned execution has no task left before its publish -/
theorem Inv.no_early_effect {s : St} (hi : Inv ts s) (hr : s.returned = true) {t k : Nat}
    (hp : pcOf s t = some k) (hk : k < 2) : False := by
  have htl := (hi.bound t k hp).2
  have hd := hi.ret hr t htl
  have hto : t ∈ s.order := by simp [doneT] at hd; exact hd.1
  exact hi.not_seq_of_pc hp hk (List.mem_append.2 (Or.inl hto))

theorem inv_step (hs : cfg.Safe) (hwf : WF ts) {s s' : St} {a : Act} (hi : Inv ts s)
    (h : step cfg ts s a = some s') : Inv ts s' := by
  cases a with
  | eff t =>
    rcases step_eff_safe hs h with ⟨hp, h1 | h1⟩ | ⟨hp, h1 | h1⟩ | ⟨hp, rfl⟩
    · exact (hi.no_early_effect h1.1 hp (by omega)).elim
    · rw [h1.2]; exact inv_add hwf hi hp h1.1
    · exact (hi.no_early_effect h1.1 hp (by omega)).elim
    · rw [h1.2.2]; exact inv_pub hwf hi hp h1.1
    · exact inv_spawn hwf hi hp
  | recv =>
    simp only [step] at h
    cases hh : s.held with
    | some t => simp [hh] at h
    | none =>
      cases hq : s.queue with
      | nil => simp [hh, hq] at h
      | cons t q =>
        simp only [hh, hq] at h
        cases h
        exact inv_recv hi hh hq
  | done =>
    simp only [step] at h
    cases hh : s.held with
    | none => simp [hh] at h
    | some t =>
      simp only [hh, hs.noSelfSend, Bool.and_false] at h
      simp at h
      subst h
      exact inv_done hi hh
  | recvErr =>
    simp only [step] at h
    rw [hi.errQ] at h
    cases hh : s.held <;> simp [hh] at h
  | ret =>
    simp only [step] at h
    split at h
    · rename_i hc; cases h; exact inv_ret hwf hi hc.1
    · cases h

theorem inv_reach (hs : cfg.Safe) (hwf : WF ts) {s : St} (hr : Reach cfg ts s) : Inv ts s := by
  induction hr with
  | init => exact inv_init ts hwf
  | step _ h ih => exact inv_step hs hwf ih h

/-! ### Headline corollaries -/

/-- C06/C07: no panic (negative WaitGroup, send on closed channel) is reachable -/
theorem no_crash (hs : cfg.Safe) (hwf : WF ts) {s : St} (hr : Reach cfg ts s) : s.crashed = false :=
  (inv_reach hs hwf hr).noCrash

/-- C06: `Execute` returns only after every task's result has been merged -/
theorem returns_after_all_merged (hs : cfg.Safe) (hwf : WF ts) {s : St} (hr : Reach cfg ts s)
    (hret : s.returned = true) : ∀ t, t < ts.length → t ∈ s.order ∧ s.held ≠ some t := by
  intro t ht
  have := (inv_reach hs hwf hr).ret hret t ht
  simp [doneT] at this
  exact ⟨this.1, fun h => this.2 (by simp [h])⟩

/-- C05: results are merged parent-first, each at most once -/
theorem order_respectful (hs : cfg.Safe) (hwf : WF ts) {s : St} (hr : Reach cfg ts s) :
    s.order.Nodup ∧ ∀ l₁ c l₂, s.order = l₁ ++ c :: l₂ → ∀ p, parentOf ts c = some p → p ∈ l₁ := by
  have hi := inv_reach hs hwf hr
  refine ⟨(List.nodup_append.1 hi.nodup).1, ?_⟩
  intro l₁ c l₂ h p hp
  exact hi.resp l₁ c (l₂ ++ s.queue) (by rw [h]; simp [List.append_assoc]) p hp

/-- C06: deadlock freedom — some action is enabled until `Execute` has returned -/
theorem deadlock_free (hs : cfg.Safe) (hwf : WF ts) {s : St} (hr : Reach cfg ts s)
    (hnr : s.returned = false) : ∃ a s', step cfg ts s a = some s' := by
  have hi := inv_reach hs hwf hr
  cases hh : s.held with
  | some t =>
    refine ⟨.done, doneSt ts s t, ?_⟩
    simp [step, hh, hs.noSelfSend]
  | none =>
    cases hq : s.queue with
    | cons t q => exact ⟨.recv, recvSt s t q, by simp [step, hh, hq]⟩
    | nil =>
      by_cases hw : s.wg = 0
      · exact ⟨.ret, { s with returned := true }, by simp [step, hw, hnr]⟩
      · -- some counted task is not done
        have hne : nDone ts s ≠ nCounted ts s := by
          intro h; apply hw; rw [hi.wgEq, h]; omega
        have : ∃ t, t < ts.length ∧ counted ts s t = true ∧ doneT s t = false := by
          apply Classical.byContradiction
          intro hcon
          apply hne
          unfold nDone nCounted
          apply List.countP_congr
          intro c hc
          have hcl : c < ts.length := by simpa using hc
          constructor
          · exact hi.done_counted hcl
          · intro hcc
            cases hd : doneT s c with
            | true => rfl
            | false => exact (hcon ⟨c, hcl, hcc, hd⟩).elim
        obtain ⟨t, htl, hct, hdt⟩ := this
        have hto : t ∉ s.order := by
          intro h; simp [doneT, hh, h] at hdt
        -- t is not yet published: find an enabled effect on t or on its parent
        have effEnabled : ∀ u k, pcOf s u = some k → k < 3 → ∃ a s', step cfg ts s a = some s' := by
          intro u k hk hk3
          refine ⟨.eff u, ?_⟩
          unfold step
          simp only [hk, hs.order, safeOrder]
          match k, hk3 with
          | 0, _ => simp [hnr]
          | 1, _ => simp [hnr, hq, hs.cap]
          | 2, _ => simp
        cases hpt : pcOf s t with
        | some k =>
          have hk2 : k < 2 := by
            cases Nat.lt_or_ge k 2 with
            | inl h => exact h
            | inr h =>
              have := hi.seq_of_pc hpt h
              rw [hq] at this; simp at this; exact absurd this hto
          exact effEnabled t k hpt (by omega)
        | none =>
          cases hp : parentOf ts t with
          | none => exact absurd hpt (hi.roots t htl hp)
          | some p =>
            unfold counted at hct
            simp only [hp] at hct
            cases hpp : pcOf s p with
            | none => simp [hpp] at hct
            | some k =>
              have hk3 : k ≠ 3 := by
                intro h3; subst h3
                have := (hi.spawned t p hp htl).2 hpp
                exact this hpt
              have := (hi.bound p k hpp).1
              exact effEnabled p k hpp (by omega)

#print axioms no_crash
#print axioms returns_after_all_merged
#print axioms order_respectful
#print axioms deadlock_free

end ExecM
