import GwModel.Exec.Inv
namespace ExecM

variable {cfg : Cfg} {ts : Tasks}

/-- shape of a task effect under the safe order -/
theorem step_eff_safe (hs : cfg.Safe) {s s' : St} {t : Nat} (h : step cfg ts s (.eff t) = some s') :
    (pcOf s t = some 0 ∧
      ((s.returned = true ∧ s' = crashSt s) ∨ (s.returned = false ∧ s' = addSt ts s t 0))) ∨
    (pcOf s t = some 1 ∧
      ((s.returned = true ∧ s' = crashSt s) ∨
       (s.returned = false ∧ s.queue.length < cfg.cap ∧ s' = pubSt ts s t 1))) ∨
    (pcOf s t = some 2 ∧ s' = spawnSt ts s t 2) := by
  unfold step at h
  rw [hs.order] at h
  cases hp : pcOf s t with
  | none => simp [hp] at h
  | some k =>
    simp only [hp] at h
    match k, h with
    | 0, h =>
      left
      refine ⟨rfl, ?_⟩
      simp only [safeOrder, List.getElem?_cons_zero] at h
      by_cases hr : s.returned = true
      · rw [if_pos hr] at h; exact Or.inl ⟨hr, (Option.some.inj h).symm⟩
      · have hr' : s.returned = false := by simpa using hr
        rw [if_neg hr] at h; exact Or.inr ⟨hr', (Option.some.inj h).symm⟩
    | 1, h =>
      right; left
      refine ⟨rfl, ?_⟩
      simp only [safeOrder, List.getElem?_cons_succ, List.getElem?_cons_zero] at h
      by_cases hr : s.returned = true
      · rw [if_pos hr] at h; exact Or.inl ⟨hr, (Option.some.inj h).symm⟩
      · have hr' : s.returned = false := by simpa using hr
        rw [if_neg hr] at h
        by_cases hq : s.queue.length < cfg.cap
        · rw [if_pos hq] at h; exact Or.inr ⟨hr', hq, (Option.some.inj h).symm⟩
        · rw [if_neg hq] at h; cases h
    | 2, h =>
      right; right
      refine ⟨rfl, ?_⟩
      simp only [safeOrder, List.getElem?_cons_succ, List.getElem?_cons_zero] at h
      exact (Option.some.inj h).symm
    | k+3, h =>
      simp [safeOrder] at h

end ExecM
