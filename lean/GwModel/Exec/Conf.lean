/-! Abstract confluence of folds over ancestor-respecting orders. -/
namespace ExecM
variable {M S : Type}

/-- ancestors come first: nothing after `a` is an ancestor of `a` -/
def Respectful (anc : M → M → Prop) : List M → Prop
  | [] => True
  | a :: l => (∀ b ∈ l, ¬ anc b a) ∧ Respectful anc l

theorem Respectful.erase_mid {anc : M → M → Prop} :
    ∀ {l₁ : List M} {a : M} {l₂ : List M}, Respectful anc (l₁ ++ a :: l₂) → Respectful anc (l₁ ++ l₂)
  | [], _, _, h => h.2
  | b :: l₁, a, l₂, h => by
    refine ⟨?_, Respectful.erase_mid (l₁ := l₁) h.2⟩
    intro c hc
    apply h.1 c
    rcases List.mem_append.1 hc with hc | hc
    · exact List.mem_append.2 (Or.inl hc)
    · exact List.mem_append.2 (Or.inr (List.mem_cons_of_mem _ hc))

theorem Respectful.not_anc_of_before {anc : M → M → Prop} :
    ∀ {p : List M} {a : M} {q : List M}, Respectful anc (p ++ a :: q) → ∀ b ∈ p, ¬ anc a b
  | [], _, _, _, b, hb => by cases hb
  | c :: p, a, q, h, b, hb => by
    rcases List.mem_cons.1 hb with rfl | hb
    · exact h.1 a (List.mem_append.2 (Or.inr (List.mem_cons_self ..)))
    · exact Respectful.not_anc_of_before (p := p) h.2 b hb

theorem bubble (ins : S → M → S) (anc : M → M → Prop)
    (comm : ∀ s a b, ¬ anc a b → ¬ anc b a → ins (ins s a) b = ins (ins s b) a) :
    ∀ (l₁ : List M) (a : M) (l₂ : List M) (s : S),
      (∀ b ∈ l₁, ¬ anc b a) → (∀ b ∈ l₁, ¬ anc a b) →
      (l₁ ++ a :: l₂).foldl ins s = (a :: (l₁ ++ l₂)).foldl ins s
  | [], _, _, _, _, _ => rfl
  | b :: l₁, a, l₂, s, h1, h2 => by
    have ih := bubble ins anc comm l₁ a l₂ (ins s b) (fun c hc => h1 c (List.mem_cons_of_mem _ hc))
      (fun c hc => h2 c (List.mem_cons_of_mem _ hc))
    simp only [List.cons_append, List.foldl_cons] at ih ⊢
    rw [ih, comm s b a (h1 b (List.mem_cons_self ..)) (h2 b (List.mem_cons_self ..))]

theorem confluent (ins : S → M → S) (anc : M → M → Prop)
    (comm : ∀ s a b, ¬ anc a b → ¬ anc b a → ins (ins s a) b = ins (ins s b) a) :
    ∀ (l₁ l₂ : List M) (s : S), l₁.Perm l₂ → l₁.Nodup →
      Respectful anc l₁ → Respectful anc l₂ → l₁.foldl ins s = l₂.foldl ins s
  | [], l₂, s, hp, _, _, _ => by
    have : l₂ = [] := hp.symm.eq_nil
    subst this; rfl
  | a :: l₁, l₂, s, hp, hnd, hr1, hr2 => by
    have ha : a ∈ l₂ := hp.subset (List.mem_cons_self ..)
    obtain ⟨p, q, rfl⟩ := List.append_of_mem ha
    have hperm : l₁.Perm (p ++ q) := by
      have := hp.trans (List.perm_middle (a := a) (l₁ := p) (l₂ := q))
      exact (List.perm_cons a).1 this
    have hnd' := List.nodup_cons.1 hnd
    have hp_sub : ∀ b ∈ p, b ∈ l₁ := fun b hb =>
      hperm.symm.subset (List.mem_append.2 (Or.inl hb))
    have h1 : ∀ b ∈ p, ¬ anc b a := fun b hb => hr1.1 b (hp_sub b hb)
    have h2 : ∀ b ∈ p, ¬ anc a b := Respectful.not_anc_of_before hr2
    rw [bubble ins anc comm p a q s h1 h2]
    simp only [List.foldl_cons]
    exact confluent ins anc comm l₁ (p ++ q) (ins s a) hperm hnd'.2 hr1.2 (Respectful.erase_mid hr2)


end ExecM
