/-! Model of the JSON request path of `GraphQLHandler` (http.go): decoding a body into operations the way
    `encoding/json` fills `*HTTPOperation` (case-insensitive keys, `null` leaves the zero value, a wrong JSON
    type is an error, `null` for an operation is a nil pointer and is rejected), then the handler's
    per-operation decisions and the status code.  Planning and execution are parameters. -/
namespace Http

inductive JV where
  | null | bool (b : Bool) | num (isInt : Bool) | str (s : String)
  | arr (xs : List JV) | obj (kvs : List (String × JV))
deriving Repr, Inhabited

structure OpReq where
  query : String
  opName : String
  hash : String        -- extensions.persistedQuery.sha256Hash ("" when absent)
deriving Repr, DecidableEq, Inhabited

/-- the last member whose key equals `name` ignoring (ASCII) case — what encoding/json does -/
def lowerChar (c : Char) : Char := if 'A' ≤ c ∧ c ≤ 'Z' then Char.ofNat (c.toNat + 32) else c

/-- `name` is given in lower case -/
def eqFold (key name : String) : Bool := key.toList.map lowerChar == name.toList

/-- all members whose key equals `name` ignoring (ASCII) case, in document order: encoding/json decodes
    each of them into the same struct field, one after the other -/
def members (kvs : List (String × JV)) (name : String) : List JV :=
  (kvs.filter fun p => eqFold p.1 name).map (·.2)

/-- a string field: `null` leaves the field as it is, a string sets it, anything else is a type error -/
def decStr (vs : List JV) : Option String :=
  vs.foldl (fun acc v => match acc, v with
    | none, _ => none
    | some s, .null => some s
    | some _, .str s => some s
    | some _, _ => none) (some "")

def decVersionOK (vs : List JV) : Bool :=
  vs.all fun v => match v with | .null => true | .num true => true | _ => false

/-- persistedQuery (a pointer to a struct): null → nil; an object fills sha256Hash / version -/
def decPersisted (vs : List JV) : Option String :=
  vs.foldl (fun acc v => match acc, v with
    | none, _ => none
    | some _, .null => some ""
    | some h, .obj kvs =>
      if decVersionOK (members kvs "version") then
        match decStr (members kvs "sha256hash") with
        | some "" => some h     -- absent or null: unchanged
        | some h' => some h'
        | none => none
      else none
    | some _, _ => none) (some "")

def decExtensions (vs : List JV) : Option String :=
  vs.foldl (fun acc v => match acc, v with
    | none, _ => none
    | some h, .null => some h
    | some h, .obj kvs =>
      match decPersisted (members kvs "persistedquery") with
      | some "" => if (members kvs "persistedquery").any (fun x => match x with | .null => true | _ => false) then some "" else some h
      | some h' => some h'
      | none => none
    | some _, _ => none) (some "")

def decVariables (vs : List JV) : Bool :=
  vs.all fun v => match v with | .null => true | .obj _ => true | _ => false

/-- `json.Unmarshal(x, &op)` with `op *HTTPOperation`: `none` = decoding error, `some none` = nil pointer -/
def decodeOp : JV → Option (Option OpReq)
  | .null => some none
  | .obj kvs =>
    match decStr (members kvs "query"), decStr (members kvs "operationname"), decExtensions (members kvs "extensions"),
          decVariables (members kvs "variables") with
    | some q, some n, some h, true => some (some ⟨q, n, h⟩)
    | _, _, _, _ => none
  | _ => none

inductive ParseErr | notJSON | notOperations | nullOperation
deriving Repr, DecidableEq

def allSome {α : Type} : List (Option α) → Option (List α)
  | [] => some []
  | some a :: rest => (allSome rest).map (a :: ·)
  | none :: _ => none

/-- `parseOperations`: a single object, else a list of objects; `body = none` is syntactically invalid JSON -/
def parseOperations (body : Option JV) : Except ParseErr (List OpReq × Bool) :=
  match body with
  | none => .error .notJSON
  | some v =>
    match decodeOp v with
    | some (some op) => .ok ([op], false)
    | some none => .error .nullOperation
    | none =>
      match v with
      | .arr xs =>
        match allSome (xs.map decodeOp) with
        | none => .error .notOperations
        | some ops =>
          match allSome ops with
          | none => .error .nullOperation
          | some l => .ok (l, true)
      | _ => .error .notOperations

inductive Entry | data | errors
deriving Repr, DecidableEq

inductive Body | single (e : Entry) | list (es : List Entry)
deriving Repr, DecidableEq

structure Resp where
  status : Nat
  body : Body
  executed : Nat      -- operations handed to the executor (the only place services are contacted)
deriving Repr, DecidableEq

def needsQuery (o : OpReq) : Bool := o.query == "" && o.hash == ""

def statusOK (ops : List OpReq) : Nat := if ops.any needsQuery then 422 else 200

def bodyOf (batch : Bool) (entries : List Entry) : Body :=
  match batch, entries with
  | false, e :: _ => .single e
  | false, [] => .list []
  | true, es => .list es

/-- the handler after parsing: an operation without query and key gets a 422 entry; the first operation that
    can not be planned answers the whole request with 400; only then everything else is executed -/
def handleOps (plannable : OpReq → Bool) (execOK : OpReq → Bool) (ops : List OpReq) (batch : Bool) : Resp :=
  let runnable := ops.filter fun o => !needsQuery o
  if runnable.any (fun o => !plannable o) then ⟨400, .single .errors, 0⟩
  else
    ⟨statusOK ops,
     bodyOf batch (ops.map fun o => if needsQuery o then Entry.errors else if execOK o then Entry.data else Entry.errors),
     runnable.length⟩

def handlePost (plannable execOK : OpReq → Bool) (body : Option JV) : Resp :=
  match parseOperations body with
  | .error _ => ⟨422, .single .errors, 0⟩
  | .ok (ops, batch) => handleOps plannable execOK ops batch

def Body.entries : Body → List Entry
  | .single e => [e]
  | .list es => es

theorem statusOK_ne_400 (ops : List OpReq) : statusOK ops ≠ 400 := by
  unfold statusOK; split <;> decide

/-- an unplannable operation refuses the whole request: 400, an errors entry, nothing executed -/
theorem unplannable_request_contacts_nobody (plannable execOK : OpReq → Bool) (ops : List OpReq) (batch : Bool)
    (h : (ops.filter fun o => !needsQuery o).any (fun o => !plannable o) = true) :
    handleOps plannable execOK ops batch = ⟨400, .single .errors, 0⟩ := by
  unfold handleOps; simp only [h, if_true]

/-- conversely status 400 only arises that way -/
theorem status_400_iff (plannable execOK : OpReq → Bool) (ops : List OpReq) (batch : Bool) :
    (handleOps plannable execOK ops batch).status = 400 ↔
      (ops.filter fun o => !needsQuery o).any (fun o => !plannable o) = true := by
  unfold handleOps
  simp only
  split
  · simp_all
  · rename_i h
    simp only [h]
    constructor
    · intro hs; exact absurd hs (statusOK_ne_400 ops)
    · intro hf; cases hf

/-- a body that is not a (list of) operation object(s) is refused with 422, an errors entry, nothing executed -/
theorem malformed_body_contacts_nobody (plannable execOK : OpReq → Bool) (body : Option JV) (e : ParseErr)
    (h : parseOperations body = .error e) : handlePost plannable execOK body = ⟨422, .single .errors, 0⟩ := by
  unfold handlePost; rw [h]

/-- the status is always one of 200, 400, 422 on this path and at most the operations that carry a query
    (or a persisted-query key) are executed -/
theorem status_and_executed (plannable execOK : OpReq → Bool) (ops : List OpReq) (batch : Bool) :
    let r := handleOps plannable execOK ops batch
    (r.status = 200 ∨ r.status = 400 ∨ r.status = 422) ∧ r.executed ≤ (ops.filter fun o => !needsQuery o).length := by
  unfold handleOps
  simp only
  split
  · simp
  · refine ⟨?_, Nat.le_refl _⟩
    unfold statusOK; split <;> simp

/-- when nothing is missing and everything can be planned, a batch answers with one entry per operation,
    in the operations' order -/
theorem batch_shape (plannable execOK : OpReq → Bool) (ops : List OpReq)
    (h : (ops.filter fun o => !needsQuery o).any (fun o => !plannable o) = false) :
    ((handleOps plannable execOK ops true).body.entries).length = ops.length := by
  unfold handleOps
  simp [h, bodyOf, Body.entries]

end Http
