import GwModel.Insert
/-! Laws of the stitching model: lookup/put, key order, and the algebra of `merge`. -/
namespace Ins

theorem lookup_put (k k' : Nat) (v : J) (l : KVs) : lookup k (put k' v l) = if k = k' then some v else lookup k l := by
  induction l with
  | nil => simp only [put, lookup]; grind
  | cons p r ih =>
    obtain ⟨a, w⟩ := p
    simp only [put]
    grind [lookup]

theorem put_put_same (k : Nat) (v w : J) (l : KVs) : put k v (put k w l) = put k v l := by
  induction l with
  | nil => simp [put]
  | cons p r ih =>
    obtain ⟨a, x⟩ := p
    simp only [put]
    grind [put]

theorem put_comm (k k' : Nat) (v w : J) (l : KVs) (h : k ≠ k') : put k v (put k' w l) = put k' w (put k v l) := by
  induction l with
  | nil => simp only [put]; grind
  | cons p r ih =>
    obtain ⟨a, x⟩ := p
    simp only [put]
    grind [put]


def keys (l : KVs) : List Nat := l.map Prod.fst
def Sorted (l : KVs) : Prop := (keys l).Pairwise (· < ·)

@[simp] theorem keys_nil : keys [] = [] := rfl
@[simp] theorem keys_cons (a : Nat) (w : J) (r : KVs) : keys ((a, w) :: r) = a :: keys r := rfl

theorem sorted_cons {a : Nat} {w : J} {r : KVs} : Sorted ((a, w) :: r) ↔ (∀ x ∈ keys r, a < x) ∧ Sorted r := by
  simp [Sorted, List.pairwise_cons]

theorem mem_keys_put {x k : Nat} {v : J} {l : KVs} (h : x ∈ keys (put k v l)) : x = k ∨ x ∈ keys l := by
  induction l with
  | nil => simp [put] at h; exact Or.inl h
  | cons p r ih =>
    obtain ⟨a, w⟩ := p
    simp only [put] at h
    split at h
    · simp at h ⊢; grind
    · split at h
      · simp at h ⊢; grind
      · simp at h ⊢
        rcases h with h | h
        · exact Or.inr (Or.inl h)
        · rcases ih h with h | h
          · exact Or.inl h
          · exact Or.inr (Or.inr h)

theorem sorted_put {k : Nat} {v : J} {l : KVs} (h : Sorted l) : Sorted (put k v l) := by
  induction l with
  | nil => simp [put, Sorted]
  | cons p r ih =>
    obtain ⟨a, w⟩ := p
    rw [sorted_cons] at h
    simp only [put]
    split
    · subst_vars; rw [sorted_cons]; exact h
    · split
      · rw [sorted_cons]; refine ⟨?_, sorted_cons.2 h⟩
        intro x hx; simp at hx
        rcases hx with hx | hx
        · omega
        · have := h.1 x hx; omega
      · rw [sorted_cons]; refine ⟨?_, ih h.2⟩
        intro x hx
        rcases mem_keys_put hx with hx | hx
        · omega
        · exact h.1 x hx

theorem mem_of_lookup {k : Nat} {v : J} {l : KVs} (h : lookup k l = some v) : (k, v) ∈ l := by
  induction l with
  | nil => simp [lookup] at h
  | cons p r ih =>
    obtain ⟨a, w⟩ := p
    simp only [lookup] at h
    split at h
    · cases h; subst_vars; exact List.mem_cons_self ..
    · split at h
      · cases h
      · exact List.mem_cons_of_mem _ (ih h)

theorem mem_keys_of_mem {k : Nat} {v : J} {l : KVs} (h : (k, v) ∈ l) : k ∈ keys l :=
  List.mem_map.2 ⟨(k, v), h, rfl⟩

theorem lookup_of_mem {k : Nat} {v : J} {l : KVs} (hs : Sorted l) (h : (k, v) ∈ l) : lookup k l = some v := by
  induction l with
  | nil => cases h
  | cons p r ih =>
    obtain ⟨a, w⟩ := p
    rw [sorted_cons] at hs
    simp only [lookup]
    rcases List.mem_cons.1 h with h | h
    · cases h; simp
    · have hk := hs.1 k (mem_keys_of_mem h)
      have : ¬ k = a := by omega
      have : ¬ k < a := by omega
      simp [*, ih hs.2 h]

theorem lookup_none_of_lt {k : Nat} {l : KVs} (h : ∀ x ∈ keys l, k < x) : lookup k l = none := by
  cases l with
  | nil => rfl
  | cons p r =>
    obtain ⟨a, w⟩ := p
    have := h a (by simp)
    simp only [lookup]
    have h1 : ¬ k = a := by omega
    simp [h1, this]

theorem sorted_ext {a b : KVs} (ha : Sorted a) (hb : Sorted b) (h : ∀ k, lookup k a = lookup k b) : a = b := by
  induction a generalizing b with
  | nil =>
    cases b with
    | nil => rfl
    | cons p r =>
      obtain ⟨k, w⟩ := p
      have := h k; simp [lookup] at this
  | cons p r ih =>
    obtain ⟨k, w⟩ := p
    cases b with
    | nil => have := h k; simp [lookup] at this
    | cons q s =>
      obtain ⟨k2, w2⟩ := q
      rw [sorted_cons] at ha hb
      have hk : k = k2 := by
        have h1 := h k
        have h2 := h k2
        simp only [lookup] at h1 h2
        by_cases e : k = k2
        · exact e
        · exfalso
          by_cases lt : k < k2
          · simp [e, lt] at h1
          · have e' : ¬ k2 = k := fun x => e x.symm
            have lt' : k2 < k := by omega
            simp [e', lt'] at h2
      subst hk
      have hw : w = w2 := by have := h k; simpa [lookup] using this
      subst hw
      congr 1
      apply ih ha.2 hb.2
      intro x
      have hx := h x
      simp only [lookup] at hx
      by_cases e : x = k
      · subst e
        rw [lookup_none_of_lt ha.1, lookup_none_of_lt hb.1]
      · by_cases lt : x < k
        · rw [lookup_none_of_lt (fun y hy => by have := ha.1 y hy; omega),
              lookup_none_of_lt (fun y hy => by have := hb.1 y hy; omega)]
        · simpa [e, lt] using hx


end Ins
