import GwModel.PlanQueue
import GwModel.Select
import GwModel.Gen.Facts
import GwModel.PlanTotal
import GwModel.PlanFuel
import GwModel.PlanTerm
import GwModel.Route
/-! # C08 — Planning is total: always returns, with a plan for every valid query

Model level: (1) step discovery through the queue discipline the source uses (extracted on every run)
builds every step once and stops, for any number of branch points per step and any depth; (2) the chooser
is total on declared fields and re-asking from the chosen service returns the same service (no ping-pong
between services); (3) no goroutine, channel or wait group is involved in planning any more, so there is
nothing to leak, close twice or wait for (fact: `planQueue = localWorklist`, `planErrPathClosesLiveChan =
false`).  Totality of gqlparser's parser/validator on arbitrary strings is outside the model and is watched
by the harness (watchdog, goroutine census, child processes). -/
namespace Props.C08
open Facts PlanQueue

def PlanFactsSafe : Prop :=
  QueueSafe Gen.planQueue ∧ Gen.planErrPathClosesLiveChan = false ∧ Sel.FactsSafe Gen.selectLoc ∧
  Gen.chooserPlain = .selectLocation ∧ Gen.chooserNamed = .selectLocation ∧ Gen.chooserInline = .selectLocation

instance : Decidable PlanFactsSafe := by unfold PlanFactsSafe; exact inferInstance

theorem facts_safe : PlanFactsSafe := by decide

/-- every step of the plan is built exactly once and planning stops, for every step tree -/
theorem step_discovery_terminates (q : List PTree) : drain (sizeL q) q = some (sizeL q) :=
  drain_total (sizeL q) q (Nat.le_refl _)

/-- in particular for any number of cross-service branch points inside one step -/
theorem any_number_of_branch_points (n : Nat) : drain (n + 1) [wide n] = some (n + 1) :=
  worklist_handles_any_width n

/-- a declared field always gets a location … -/
theorem chooser_total (possible configured : List Sel.Loc) (parent internal : Sel.Loc) (h : possible ≠ []) :
    ∃ l, Sel.selectLocation Gen.selectLoc possible configured parent internal = some l :=
  Sel.choose_total h

/-- … and a dependent step does not send its own top-level fields away again (the non-termination D26) -/
theorem no_ping_pong (possible configured : List Sel.Loc) (parent internal l : Sel.Loc)
    (h : Sel.selectLocation Gen.selectLoc possible configured parent internal = some l) :
    Sel.selectLocation Gen.selectLoc possible configured l internal = some l := by
  have ho : Gen.selectLoc.order = [.configured, .parent, .internal] := facts_safe.2.2.1.2.2.2
  unfold Sel.selectLocation at h ⊢
  rw [ho, Sel.prioOf_safe] at h ⊢
  exact Sel.choose_stable h

/-- **The planner fails only for reasons that lie in its input** (planner model `Pl`, tied to plan.go by the
    L1.plan correspondence).  For every routing table without empty entries, priority list, document (any
    nesting of fragments, wrappers, directives) and fuel: planning an operation never ends in one of the
    planner's internal errors ("Could not find definition for fragment", "Could not find defn") nor in a
    panic; the only failures are a field without a location, a spread of an undefined fragment — neither
    exists in a document that validates against the schema the routing table was built from — and the
    model's own fuel. -/
theorem planning_fails_only_for_its_input {env : Pl.Env} (hr : Pl.RoutesNonempty env) {fuel : Nat} {operation : String}
    {sels : List Pl.Sel} {e : Pl.Err} (h : Pl.planOperation env fuel operation sels = .error e) :
    (∃ t f, e = .noRoute t f) ∨ (∃ n, e = .noFragment n) ∨ e = .fuel := by
  have := Pl.planOperation_error_benign hr h
  cases e with
  | noRoute t f => exact Or.inl ⟨t, f, rfl⟩
  | noFragment n => exact Or.inr (Or.inl ⟨n, rfl⟩)
  | fuel => exact Or.inr (Or.inr rfl)
  | noLocalFragment n => exact absurd this (by simp [Pl.Benign])
  | noWrapDefn => exact absurd this (by simp [Pl.Benign])
  | crash s => exact absurd this (by simp [Pl.Benign])

/-- **`extractSelection` is total on selections without named fragments**: with more fuel than the nesting depth
    of the selection (fields and inline fragments), and a routing table without empty entries, it ends with the
    step's selection or with "a field has no location" — never out of fuel, never with an internal error. -/
theorem extract_selection_is_total {env : Pl.Env} (hr : Pl.RoutesNonempty env) (fuel : Nat) (cfg : Pl.Cfg) (st : Pl.St)
    (hns : Pl.noSpreadL cfg.sel = true) (hd : Pl.depthL cfg.sel < fuel) :
    (∃ sel st', Pl.extract env fuel cfg st = .ok (sel, st')) ∨ ∃ t f, Pl.extract env fuel cfg st = .error (.noRoute t f) := by
  cases h : Pl.extract env fuel cfg st with
  | ok r => exact Or.inl ⟨r.1, r.2, rfl⟩
  | error e =>
    right
    have hb := Pl.extract_error_benign hr fuel cfg st e h
    have hf := Pl.extract_fuel env fuel cfg st hns hd
    cases e with
    | noRoute t f => exact ⟨t, f, rfl⟩
    | noFragment n =>
      -- a selection without spreads never looks a fragment up
      exact absurd h (Pl.extract_no_fragment_error env fuel cfg st hns n)
    | fuel => exact absurd h hf
    | noLocalFragment n => exact absurd hb (by simp [Pl.Benign])
    | noWrapDefn => exact absurd hb (by simp [Pl.Benign])
    | crash s => exact absurd hb (by simp [Pl.Benign])

/-- **A routed document is never refused for want of a location** (documents without named fragments): whatever the
    planner does with the selection — bundling for other services, re-wrapping in the inline fragments a bundle was
    found under, merging into pending steps, descending — every field it looks up is one the document named, read
    against the type the document named it under.  `Pl.routedL env T sels`: every field of `sels` has an entry in the
    routing table under the type it is selected on. -/
theorem a_routed_document_is_never_refused_for_want_of_a_location {env : Pl.Env} {fuel : Nat} {operation : String}
    {sels : List Pl.Sel} (hns : Pl.noSpreadL sels = true) (hr : Pl.routedL env (Pl.rootTypeOf operation) sels = true)
    (t f : String) : Pl.planOperation env fuel operation sels ≠ .error (.noRoute t f) :=
  Pl.planOperation_routed hns hr t f

/-- … and the routing table has an entry for every field a service declares (`Route`, the model of `fieldURLs`, tied by
    the L1.routing correspondence of C03): so every field of a document that validates against the merged schema —
    each field of which is declared by some service — is routed -/
theorem a_declared_field_has_a_location (srcs : List Route.Src) (internal : Route.Src) (gwTypes : List String)
    (t f : String) (s : Route.Src) (hs : s ∈ srcs) (hd : Route.declares s t f = true) (hi : Route.isIntrospection t f = false) :
    Route.urlsFor srcs internal gwTypes t f ≠ [] := by
  intro h
  have : s.url ∈ Route.urlsFor srcs internal gwTypes t f := by
    unfold Route.urlsFor
    simp only [List.mem_append, List.mem_map, List.mem_filter, Bool.and_eq_true, Bool.not_eq_true']
    exact Or.inl (Or.inl ⟨s, ⟨hs, hd, hi⟩, rfl⟩)
  rw [h] at this; cases this

/-- **Planning terminates** (documents without named fragments): with more fuel than the nesting depth of the document
    and than its number of fields plus one, the model never runs out of fuel — not inside one `extractSelection`
    (the nesting of everything the planner queues, wrappers included, stays within the document's), and not in the
    work list of `generatePlans`: every pending step other than the root is anchored — it holds a client field whose
    service is chosen again when asked from that service (`no_ping_pong`) — so it keeps at least one field for itself,
    and the number of client fields still waiting strictly decreases with every step built. -/
theorem planning_does_not_run_out_of_fuel {env : Pl.Env} {fuel : Nat} {operation : String} {sels : List Pl.Sel}
    (hns : Pl.noSpreadL sels = true) (hu : Pl.unmarkedL sels = true) (hd : Pl.depthL sels < fuel)
    (hc : Pl.cfcL sels + 1 < fuel) : Pl.planOperation env fuel operation sels ≠ .error .fuel :=
  Pl.planOperation_no_fuel hns hu hd hc

/-- **A valid query gets a plan** (documents without named fragments): for every routing table without empty entries,
    every priority list and every routed document, with enough fuel planning ends with a plan. -/
theorem a_routed_document_without_named_fragments_gets_a_plan {env : Pl.Env} (hr : Pl.RoutesNonempty env) {fuel : Nat}
    {operation : String} {sels : List Pl.Sel} (hns : Pl.noSpreadL sels = true) (hu : Pl.unmarkedL sels = true)
    (hrt : Pl.routedL env (Pl.rootTypeOf operation) sels = true) (hd : Pl.depthL sels < fuel)
    (hc : Pl.cfcL sels + 1 < fuel) : ∃ steps, Pl.planOperation env fuel operation sels = .ok steps :=
  Pl.planOperation_total hr hns hu hrt hd hc

/-- non-vacuity of the hypotheses: `{ me { firstName ... on User { lastName nick } } }` over three services -/
def exEnv : Pl.Env :=
  { routes := [("Query.me", ["A"]), ("User.firstName", ["A"]), ("User.lastName", ["B", "C"]), ("User.nick", ["C"]),
               ("User.id", ["A", "B", "C"])],
    configured := [], internal := "gw", planFrags := [] }
def exSels : List Pl.Sel :=
  [.field "me" "me" "" [] [] "User" [.field "firstName" "firstName" "" [] [] "String" [],
     .inline "User" [] [.field "lastName" "lastName" "" [] [] "String" [], .field "nick" "nick" "" [] [] "String" []]]]
example : Pl.noSpreadL exSels = true ∧ Pl.unmarkedL exSels = true ∧ Pl.routedL exEnv "Query" exSels = true ∧
    Pl.depthL exSels < 10 ∧ Pl.cfcL exSels + 1 < 10 := by decide
example : (Pl.planOperation exEnv 10 "query" exSels).toOption.map (fun steps => steps.map (fun s => (s.location, s.ip))) =
    some [("", []), ("A", []), ("B", ["me"]), ("C", ["me"])] := by decide

/-- non-vacuity: an unroutable field is reported as such, and a routable document under fragments and
    wrappers plans -/
example : (match Pl.planOperation { routes := [("Query.me", ["A"])], configured := [], internal := "gw", planFrags := [] } 9 "query"
      [.field "me" "me" "" [] [] "User" [.field "x" "x" "" [] [] "String" []]] with
    | .error e => e == .noRoute "User" "x"
    | .ok _ => false) = true := by decide

/-- why the queue fact matters: the discipline of the code before the repair gets stuck at 51 branch points -/
theorem bounded_self_fed_queue_blocks : drainBounded 50 1000 [wide 51] = none := bounded_queue_blocks

end Props.C08
