import GwModel.Select
import GwModel.StepVars
import GwModel.Gen.Facts
import GwModel.PlanConfined
import GwModel.PlanVars
/-! # C02 — Every outbound query is valid for, and confined to, its target service

Proved on the model: (1) confinement — the location the chooser returns for a field is one of the services
that declare it, for every routing table, priority list and parent (and all three ways of writing a field
go through that chooser: fact-checked); (2) the values sent with a step are exactly the client's values of
the variables the step declares, plus the join id.
Validity of the *text* of each step query against the service's own schema (arguments, fragments carried
⇔ spread, variables declared ⇔ used, operation kind) is decided by the real gqlparser validator inside
every in-process service on every generated case (L0), not by a theorem: a formal semantics of GraphQL
validation is outside this model (DESIGN §9). -/
namespace Props.C02
open Facts

def PlanFactsSafe : Prop :=
  Sel.FactsSafe Gen.selectLoc ∧ Gen.chooserPlain = .selectLocation ∧ Gen.chooserNamed = .selectLocation ∧
  Gen.chooserInline = .selectLocation ∧ Gen.execVarsOnlyStepSet = true ∧ Gen.stepOperationKindFromParentType = true ∧
  "fieldArgs" ∈ Gen.planVarsFrom ∧ "directives" ∈ Gen.planVarsFrom ∧ "spreadDirectives" ∈ Gen.planVarsFrom ∧
  "inlineDirectives" ∈ Gen.planVarsFrom

instance : Decidable PlanFactsSafe := by unfold PlanFactsSafe; exact inferInstance

theorem facts_safe : PlanFactsSafe := by decide

/-- confinement: a field is only ever sent to a service that declares it -/
theorem field_sent_to_declaring_service (possible configured : List Sel.Loc) (parent internal l : Sel.Loc)
    (h : Sel.selectLocation Gen.selectLoc possible configured parent internal = some l) : l ∈ possible :=
  Sel.choose_mem h

/-- every value that accompanies a step is the client's unchanged value of a variable the step declares,
    or the join id -/
theorem values_sent_are_the_clients {V : Type} (names : List String) (client : List (String × V)) (joinId : Option V)
    (k : String) (v : V) (h : (k, v) ∈ StepVars.stepVars names client joinId) :
    (k ∈ names ∧ client.lookup k = some v) ∨ (k = "id" ∧ joinId = some v) :=
  StepVars.stepVars_sound names client joinId k v h

theorem declared_values_are_sent {V : Type} (names : List String) (client : List (String × V)) (joinId : Option V)
    (k : String) (v : V) (hk : k ∈ names) (hv : client.lookup k = some v) :
    (k, v) ∈ StepVars.stepVars names client joinId :=
  StepVars.stepVars_complete names client joinId k v hk hv

/-- **Confinement of whole plans** (planner model `Pl`, tied to plan.go by the L1.plan correspondence): every
    field, at every depth, of every step's selection set and of the fragment definitions left behind for the
    step is the join id or is listed by the routing table for the service the step is sent to — for every
    routing table, priority list, document (fragments, wrappers, directives, any nesting) and fuel. -/
theorem every_step_asks_only_what_its_service_offers {env : Pl.Env} {fuel : Nat} {operation : String}
    {sels : List Pl.Sel} {steps : List Pl.Step} (h : Pl.planOperation env fuel operation sels = .ok steps) :
    ∀ s ∈ steps, Pl.ConfSels env s.location s.parentType s.sel ∧
      ∀ f ∈ s.frags, Pl.ConfSels env s.location f.cond f.sub :=
  fun s hs => Pl.planOperation_confined h s hs

/-- **Variables declared ⇐ used** (planner model `Pl`): every variable that occurs in an argument or directive
    of a step's selection set, or of a fragment definition the step carries, is among the variable definitions
    of the operation built for that step — for every document, routing table and fuel. -/
theorem every_variable_a_step_uses_is_declared {env : Pl.Env} {fuel : Nat} {operation : String}
    {sels : List Pl.Sel} {steps : List Pl.Step} (h : Pl.planOperation env fuel operation sels = .ok steps) :
    ∀ s ∈ steps, (∀ v ∈ Pl.usedSels s.sel, v ∈ Pl.builtVars s) ∧
      ∀ f ∈ s.frags, ∀ v ∈ Pl.usedSels f.sub, v ∈ Pl.builtVars s :=
  fun s hs => Pl.planOperation_vars h s hs

/-- the operation built for a follow-up step is `node(id: $id) { ... on T { … } }` and declares `$id`; the one built
    for a root step is the step's selection with the step's variables -/
theorem follow_up_operations_declare_the_join_id (s : Pl.Step) (h : Pl.isRootType s.parentType = false) :
    "id" ∈ Pl.builtVars s ∧ ∃ sub, Pl.builtSelection s = [.field "node" "node" "(id: $id)" ["id"] [] "Node" sub] :=
  Pl.dependent_step_declares_id s h

/-- non-vacuity of the plan theorem: `{ me { firstName lastName } }` with `lastName` served elsewhere plans
    into a root step and one dependent step, and the dependent step holds `lastName` only -/
def exEnv : Pl.Env :=
  { routes := [("Query.me", ["A"]), ("User.firstName", ["A"]), ("User.lastName", ["B"]), ("User.id", ["A", "B"])],
    configured := [], internal := "gw", planFrags := [] }
def exSels : List Pl.Sel :=
  [.field "me" "me" "" [] [] "User" [.field "firstName" "firstName" "" [] [] "String" [],
                                      .field "lastName" "lastName" "" [] [] "String" []]]
example : (Pl.planOperation exEnv 10 "query" exSels).toOption.map (fun steps => steps.map (fun s => (s.location, s.parentType, s.ip, s.sel.length))) =
    some [("", "Query", [], 1), ("A", "Query", [], 1), ("B", "User", ["me"], 1)] := by decide

/-- non-vacuity -/
example : Sel.selectLocation Gen.selectLoc ["B", "C"] ["C"] "A" "gw" = some "C" ∧
    StepVars.stepVars ["s"] [("s", 1), ("t", 2)] (some 7) = [("s", 1), ("id", 7)] := by decide

end Props.C02
