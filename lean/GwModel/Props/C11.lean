import GwModel.Product
import GwModel.ExecFacts
import GwModel.Gen.Facts
/-! # C11 — Requests are isolated and plans are reusable

Model level: an execution is a run of the executor machine `ExecM` whose only inputs are the (immutable)
task forest derived from plan + answers and its own state; n executions over one plan are the product of n
such machines, and every interleaving projects per request to a run of the single machine on that
request's own actions (`product_projects`).  With C05's schedule independence each request therefore ends
like a solitary execution.  What this model cannot exhibit is aliasing inside Go values shared between
requests (the plan's ASTs, queryers, fragment definitions): that clause is decided by the correspondence
only — plan hash before/after, per-call variables and contexts attributed to their request, responses
equal to solitary executions, all under the race detector. -/
namespace Props.C11
open ExecM Product

/-- execute.go's skeleton as the machine assumes it, and gateway.go: `Gateway.Execute` builds a fresh
    `ExecutionContext` per call — the plan chosen for this request and this request's own variables — and never
    assigns to it afterwards (so nothing of one request's context can be seen by another) -/
def IsolationFactsSafe : Prop := FactsSafe Gen.exec ∧ Gen.execContextFresh = true

instance : Decidable IsolationFactsSafe := by unfold IsolationFactsSafe; exact inferInstance

theorem facts_safe : IsolationFactsSafe := by decide

/-- n concurrent executions over one plan: each request's component evolves by its own actions only -/
theorem executions_do_not_interfere (cfg : Cfg) (ts : Tasks) (sched : List (Nat × Act)) (ss ss' : List St)
    (h : Product.run (pstep (step cfg ts)) ss sched = some ss') (i : Nat) (s : St) (hs : ss[i]? = some s) :
    ∃ s', ss'[i]? = some s' ∧ Product.run (step cfg ts) s (proj i sched) = some s' :=
  product_projects (step cfg ts) sched ss ss' h i s hs

/-- non-vacuity: two executions of the two-task forest interleaved; request 1 ends returned -/
example : (Product.run (pstep (step (cfgOfFacts Gen.exec) two)) [init two, init two]
    [(0, .eff 0), (1, .eff 0), (1, .eff 0), (0, .eff 0), (1, .eff 0), (1, .recv), (0, .eff 0), (1, .done),
     (1, .eff 1), (1, .eff 1), (1, .eff 1), (1, .recv), (1, .done), (1, .ret)]).map
      (fun ss => ss.map (·.returned)) = some [false, true] := by decide

end Props.C11
