import GwModel.Intro
import GwModel.GwQuery
import GwModel.Gen.Facts
/-! # C14 — Introspection tells the truth about the merged schema

The specification side is `Intro.introSpec` (GwModel/Intro.lean): the answer the GraphQL specification
prescribes for an introspection selection over a schema.  The gateway's resolvers are table-driven walkers
over gqlgen's reflection wrapper; the tables (which field names each resolver answers, and whether it
dispatches on the field's name or on its alias) are extracted from internal.go on every run and compared
here with the fields the introspection types declare.  The accessor layer itself (gqlgen) is not modelled:
its output is compared with `introSpec` by the correspondence on every run. -/
namespace Props.C14
open Facts

/-- the fields of the introspection types, as declared by the schema queries are validated against
    (gqlparser's prelude) -/
def specTable : List (String × List String) :=
  [("Query", ["__schema", "__type"]),
   ("introspectSchema", ["description", "directives", "mutationType", "queryType", "subscriptionType", "types"]),
   ("introspectType", ["description", "enumValues", "fields", "inputFields", "interfaces", "kind", "name", "ofType", "possibleTypes", "specifiedByURL"]),
   ("introspectField", ["args", "deprecationReason", "description", "isDeprecated", "name", "type"]),
   ("introspectEnumValue", ["deprecationReason", "description", "isDeprecated", "name"]),
   ("introspectDirective", ["args", "description", "isRepeatable", "locations", "name"]),
   ("introspectInputValue", ["defaultValue", "description", "name", "type"])]

/-- a resolver is complete when it dispatches on the field NAME and has a case for every declared field
    (plus `__typename`) -/
def resolverComplete (tbl : List IntroSwitch) (r : String × List String) : Bool :=
  match tbl.find? (fun s => s.resolver == r.1) with
  | none => false
  | some s => s.subject == .name && r.2.all (fun f => s.labels.contains f) && s.labels.contains "__typename"

def WalkersComplete : Prop :=
  specTable.all (resolverComplete Gen.introSwitch) = true ∧ Gen.introArgsRawOnly = false

instance : Decidable WalkersComplete := by unfold WalkersComplete; exact inferInstance

/-- every field of every introspection type has a case in the corresponding resolver, every resolver
    switches on the name (the result key is the alias), and arguments are read after variable resolution -/
theorem facts_safe : WalkersComplete := by decide

/-- specification facts used by the oracle, proved on the model: an excluded selection contributes no key -/
theorem skipped_field_absent (env : Mono.Env) (tn : String)
    (resolve : String → List (String × Mono.ArgVal) → List Mono.Sel → Option Mono.Val)
    (alias name : String) (args : List (String × Mono.ArgVal)) (dirs : List Mono.Dir) (sub : List Mono.Sel)
    (rest : List Mono.Sel) (acc : List (String × Mono.Val)) (h : Mono.included env dirs = false) :
    Intro.walk env tn resolve (.field alias name args dirs sub :: rest) acc = Intro.walk env tn resolve rest acc := by
  simp [Intro.walk, h]

/-- `__typename` answers the name of the introspection type being walked, under the alias -/
theorem typename_answers_type_name (env : Mono.Env) (tn : String)
    (resolve : String → List (String × Mono.ArgVal) → List Mono.Sel → Option Mono.Val) (alias : String) :
    Intro.walk env tn resolve [.field alias "__typename" [] [] []] [] = [(alias, .str tn)] := by
  simp [Intro.walk, Mono.included, Mono.mergeKey]

/-! ### the gateway's own resolver (`Gq`, the model of `(*Gateway).Query`, tied by L2.gateway-query) -/

/-- **a selection the gateway answers itself is included exactly when every conditional directive lets it in** -/
theorem included_iff_every_condition_lets_it_in (vars : Gq.Vars) (dirs : List Gq.Dir) :
    Gq.isIncluded vars dirs = true ↔ ∀ d ∈ dirs, ∀ c, d.cond = some c →
      (d.name = "skip" → Gq.condition vars c = false) ∧ (d.name = "include" → Gq.condition vars c = true) :=
  Gq.isIncluded_iff vars dirs

/-- … whatever order the directives are written in -/
theorem directive_order_is_immaterial (vars : Gq.Vars) {a b : List Gq.Dir} (h : a.Perm b) :
    Gq.isIncluded vars a = Gq.isIncluded vars b := Gq.isIncluded_perm vars h

/-- `@skip(if: true)` leaves a selection out whatever else it carries (in particular an `@include(if: true)` before it) -/
theorem skip_true_wins (vars : Gq.Vars) (pre post : List Gq.Dir) (c : Gq.Val) (h : Gq.condition vars c = true) :
    Gq.isIncluded vars (pre ++ ⟨"skip", some c⟩ :: post) = false := Gq.skip_true_excludes vars pre post c h

/-- **a field is treated alike inside a fragment and outside**: flattening an inline fragment without directives is
    flattening its selections in its place — inclusion, argument values and dispatch are the field's own -/
theorem fields_inside_fragments_are_treated_alike (fuel : Nat) (sub rest : List Gq.Sel) (acc : List Gq.FlatField) :
    Gq.flattenTop (fuel + 1) (.inline [] sub :: rest) acc = Gq.flattenTop fuel rest (Gq.flattenTop fuel sub acc) :=
  Gq.flattenTop_inline fuel sub rest acc

/-- non-vacuity: `node(id: $id) @include(if: true) @skip(if: $s)` with `s = true` is left out, with `s` missing it
    is answered with the id the variable holds; `__type(name: $n)` inside a fragment finds the type -/
def exResolve (_ : String) (args : List (String × Gq.VV)) : Except String String :=
  match args.lookup "id" with
  | some (.str s) => .ok s
  | _ => .error "bad"
def exEnv : Gq.Env := { types := ["User"], fields := ["node"], resolve := exResolve }
def exSels : List Gq.Sel :=
  [.field "a" "node" [("id", .var "id")] [⟨"include", some (.bool true)⟩, ⟨"skip", some (.var "s")⟩] [],
   .inline [] [.field "t" "__type" [("name", .var "n")] [] []]]
example :
    Gq.query exEnv [] [("id", .str "u1"), ("n", .str "User"), ("s", .bool true)] 8 exSels = [("t", .typeFound "User")] ∧
    Gq.query exEnv [] [("id", .str "u1"), ("n", .str "User")] 8 exSels = [("a", .entity "u1"), ("t", .typeFound "User")] := by decide

end Props.C14
