import GwModel.InjectLemmas
import GwModel.InjectBatch
import GwModel.Gen.Facts
/-! # C18 — Uploaded files land exactly where the multipart map says -/
namespace Props.C18
open InjF Inj Facts

def InjectFactsSafe : Prop :=
  "batchIndexRange" ∈ Gen.injectGuards ∧ "indexNonNeg" ∈ Gen.injectGuards ∧ "indexUpper" ∈ Gen.injectGuards ∧
  "partsNonEmpty" ∈ Gen.injectGuards ∧ "leafMustBeNull" ∈ Gen.injectGuards

instance : Decidable InjectFactsSafe := by unfold InjectFactsSafe; exact inferInstance

theorem facts_safe : InjectFactsSafe := by decide

/-- a successful map entry: exactly one operation changes (the one the batch index selects); the position the
    path names held `null` and now holds the file; every other operation is untouched -/
theorem file_lands_where_the_path_says (ops : Ops) (batch : Bool) (f : Nat) (path : String) (ops' : Ops)
    (h : injectPath ops batch f path = .ok ops') :
    ∃ (idx : Nat) (vars vars' : J) (rest : List String),
      ops[idx]? = some vars ∧ ops' = ops.set idx vars' ∧ rest ≠ [] ∧
      getAtGo vars rest = some .null ∧ getAtGo vars' rest = some (.file f) ∧
      (∀ j, j ≠ idx → ops'[j]? = ops[j]?) :=
  injectPath_spec ops batch f path ops' h

/-- inside the variables, an object step leaves every other key alone and a list step every other element -/
theorem other_keys_unchanged (f : Nat) (kvs : List (String × J)) (k : String) (rest : List String)
    (kvs' : List (String × J)) (h : setKeyGo f kvs k rest = .ok kvs') :
    kvs'.map (·.1) = kvs.map (·.1) ∧ ∀ k2, k2 ≠ k → kvs'.lookup k2 = kvs.lookup k2 :=
  setKeyGo_frame f kvs k rest kvs' h

theorem other_elements_unchanged (f : Nat) (xs : List J) (i : Nat) (rest : List String) (xs' : List J)
    (h : setIdxGo f xs i rest = .ok xs') : xs'.length = xs.length ∧ ∀ j, j ≠ i → xs'[j]? = xs[j]? :=
  setIdxGo_frame f xs i rest xs' h

/-- a path that ends at a non-null value, runs through a scalar, leaves a list's range (also with a negative
    index) or names a missing key is an error — never a crash, never a misplaced file -/
example :
    let vars := J.obj [("f", .null), ("fs", .arr [.null, .null]), ("o", .obj [("f", .null)]), ("s", .atom "x")]
    (setAtGo 7 vars ["s"]).toOption.isNone = true ∧ (setAtGo 7 vars ["o"]).toOption.isNone = true ∧
    (setAtGo 7 vars ["fs", "2"]).toOption.isNone = true ∧ (setAtGo 7 vars ["fs", "-1"]).toOption.isNone = true ∧
    (setAtGo 7 vars ["missing"]).toOption.isNone = true ∧ (setAtGo 7 vars ["f", "g"]).toOption.isNone = true ∧
    (setAtGo 7 vars ["fs", "x"]).toOption.isNone = true ∧
    (setAtGo 7 vars ["fs", "1"]).isOk = true ∧ (setAtGo 7 vars ["fs", "+1"]).isOk = true ∧ (setAtGo 7 vars ["o", "f"]).isOk = true := by
  decide

/-- **a member of a multipart batch gets from a map path exactly what it gets when it is sent alone** (`InjF`, the model
    of `injectFile`, tied by L2.inject): a batch path `i.<path>` is the path walked in member `i` alone; every other
    member is left as it was -/
theorem a_batch_member_gets_the_file_it_gets_alone (ops : InjF.Ops) (f : Nat) (path path' : String) (p : String) (i : Nat)
    (v : Inj.J) (hparts : InjF.splitDots path = p :: InjF.splitDots path') (hidx : InjF.atoi p = some (Int.ofNat i))
    (hv : ops[i]? = some v) :
    InjF.injectPath ops true f path = (InjF.injectPath [v] false f path').map (fun one => ops.set i (one.headD v)) :=
  InjF.batch_member_gets_what_it_gets_alone ops f path path' p i v hparts hidx hv

/-- non-vacuity (on the parts of the path; that `"1.variables.f"` splits into `"1"` and the parts of `"variables.f"`
    is what `strings.Split` does and is exercised by L2.inject): member 1 of a batch of two gets the file, a member
    that does not exist is refused -/
example :
    ((InjF.afterSelection [.obj [("f", .null)], .obj [("f", .null)]] 7 1 ["variables", "f"]).toOption.bind
      (fun ops => ops[1]?.bind (InjF.getAtGo · ["f"]))).isSome = true ∧
    (InjF.afterSelection [.obj [("f", .null)], .obj [("f", .null)]] 7 2 ["variables", "f"]).toOption.isNone = true := by decide

end Props.C18
