import GwModel.MergeDef
import GwModel.Gen.Facts
/-! # C10 — Merging does not depend on service order or on the run -/
namespace Props.C10
open Mg Facts

def OrderFactsSafe : Prop :=
  Gen.merge.kindGuard = true ∧ Gen.merge.possibleTypesFrom = .mergedDefinitions ∧ Gen.merge.directiveListsBothWays = true ∧
  Gen.merge.valueCompare = .deep

instance : Decidable OrderFactsSafe := by unfold OrderFactsSafe; exact inferInstance

/-- the kind guard is symmetric, possible types come from the merged definitions (not from whichever
    definition came first), applied directive lists are compared both ways -/
theorem facts_safe : OrderFactsSafe := by decide

/-- whether the definitions of a name merge does not depend on the order of the services -/
theorem success_order_independent {g₁ g₂ : List Def} (hp : g₁.Perm g₂) (hok : ∀ x ∈ g₁, DefOK x) :
    (mergeGroup g₁).isSome = (mergeGroup g₂).isSome :=
  mergeGroup_perm hp hok

/-- and neither does the content: an object's merged fields represent all definitions of the group, every
    other kind keeps a member set equal to every definition's -/
theorem content_order_independent (d : Def) (ds : List Def) (hok : ∀ x ∈ d :: ds, DefOK x) (r : Def)
    (h : mergeGroup (d :: ds) = some r) :
    r.kind = d.kind ∧
    (d.kind = .object → Represents r.fields ((d :: ds).map (·.fields))) ∧
    (d.kind ≠ .object → r.fields = d.fields ∧ (d.kind ≠ .scalar → ∀ x ∈ d :: ds, SameSet d.fields x.fields)) :=
  mergeGroup_content d ds hok r h

/-- compatibility is symmetric: there is no "first wins" -/
theorem compat_symmetric {a b : Def} (h : Compat a b) : Compat b a := h.symm

example : (mergeGroup [⟨3, .object, [⟨0, 7⟩], [9]⟩, ⟨3, .object, [⟨0, 7⟩, ⟨1, 8⟩], []⟩]).isSome =
          (mergeGroup [⟨3, .object, [⟨0, 7⟩, ⟨1, 8⟩], []⟩, ⟨3, .object, [⟨0, 7⟩], [9]⟩]).isSome := by decide

end Props.C10
