import GwModel.MergeDef
import GwModel.Gen.Facts
import GwModel.MergeSig
import GwModel.MergeDirs
import GwModel.MergeLocs
/-! # C10 — Merging does not depend on service order or on the run -/
namespace Props.C10
open Mg Facts

def OrderFactsSafe : Prop :=
  Gen.merge.kindGuard = true ∧ Gen.merge.possibleTypesFrom = .mergedDefinitions ∧ Gen.merge.directiveListsBothWays = true ∧
  Gen.merge.valueCompare = .deep

instance : Decidable OrderFactsSafe := by unfold OrderFactsSafe; exact inferInstance

/-- the kind guard is symmetric, possible types come from the merged definitions (not from whichever
    definition came first), applied directive lists are compared both ways -/
theorem facts_safe : OrderFactsSafe := by decide

/-- whether the definitions of a name merge does not depend on the order of the services -/
theorem success_order_independent {g₁ g₂ : List Def} (hp : g₁.Perm g₂) (hok : ∀ x ∈ g₁, DefOK x) :
    (mergeGroup g₁).isSome = (mergeGroup g₂).isSome :=
  mergeGroup_perm hp hok

/-- and neither does the content: an object's merged fields represent all definitions of the group, every
    other kind keeps a member set equal to every definition's -/
theorem content_order_independent (d : Def) (ds : List Def) (hok : ∀ x ∈ d :: ds, DefOK x) (r : Def)
    (h : mergeGroup (d :: ds) = some r) :
    r.kind = d.kind ∧
    (d.kind = .object → Represents r.fields ((d :: ds).map (·.fields))) ∧
    (d.kind ≠ .object → r.fields = d.fields ∧ (d.kind ≠ .scalar → ∀ x ∈ d :: ds, SameSet d.fields x.fields)) :=
  mergeGroup_content d ds hok r h

/-- compatibility is symmetric: there is no "first wins" -/
theorem compat_symmetric {a b : Def} (h : Compat a b) : Compat b a := h.symm

example : (mergeGroup [⟨3, .object, [⟨0, 7⟩], [9]⟩, ⟨3, .object, [⟨0, 7⟩, ⟨1, 8⟩], []⟩]).isSome =
          (mergeGroup [⟨3, .object, [⟨0, 7⟩, ⟨1, 8⟩], []⟩, ⟨3, .object, [⟨0, 7⟩], [9]⟩]).isSome := by decide

/-- the comparison of two argument lists (`Ms.argDefsEq`, the model of mergeArgumentDefinitionList) holds in both
    directions or in neither — which service is listed first does not decide whether their declarations agree -/
theorem argument_comparison_is_symmetric {l1 l2 : List Ms.ArgDef} (hn1 : (l1.map (·.name)).Nodup)
    (hn2 : (l2.map (·.name)).Nodup) : Ms.argDefsEq l1 l2 = Ms.argDefsEq l2 l1 := by
  cases h1 : Ms.argDefsEq l1 l2 with
  | true => exact (Ms.argDefsEq_symm hn1 hn2 h1).symm
  | false =>
    cases h2 : Ms.argDefsEq l2 l1 with
    | true => rw [Ms.argDefsEq_symm hn2 hn1 h2] at h1; cases h1
    | false => rfl

/-- types and default values are compared by equality, which has no direction -/
theorem type_and_default_comparisons_are_symmetric (a b : Option Ms.Ty) (v w : Option Ms.V) :
    Ms.typesEqual a b = Ms.typesEqual b a ∧ Ms.valuesEqual v w = Ms.valuesEqual w v := by
  constructor
  · cases h : Ms.typesEqual a b with
    | true => rw [(Ms.typesEqual_iff a b).1 h]; exact ((Ms.typesEqual_iff b b).2 rfl).symm
    | false =>
      cases h2 : Ms.typesEqual b a with
      | true => rw [(Ms.typesEqual_iff b a).1 h2, (Ms.typesEqual_iff a a).2 rfl] at h; cases h
      | false => rfl
  · cases h : Ms.valuesEqual v w with
    | true => rw [(Ms.valuesEqual_iff v w).1 h]; exact ((Ms.valuesEqual_iff w w).2 rfl).symm
    | false =>
      cases h2 : Ms.valuesEqual w v with
      | true => rw [(Ms.valuesEqual_iff w v).1 h2, (Ms.valuesEqual_iff v v).2 rfl] at h; cases h
      | false => rfl


/-- **the directives applied to two declarations compare the same whichever comes first** (`Md.listsEqual`, the model
    of mergeDirectiveListsEqual, which the fact `directiveListsBothWays` recognises by its `matched[]` bookkeeping) -/
theorem applied_directives_compare_the_same_either_way {α : Type} [DecidableEq α] (l1 l2 : List α) :
    Md.listsEqual l1 l2 = Md.listsEqual l2 l1 := Md.listsEqual_symm l1 l2

/-- and what it decides has no direction: the same applications, each as many times -/
theorem applied_directives_agree_iff_same_applications {α : Type} [DecidableEq α] (l1 l2 : List α) :
    Md.listsEqual l1 l2 = true ↔ l1.Perm l2 := Md.listsEqual_iff l1 l2

/-- a third service is judged alike against either of two services that agree -/
theorem applied_directives_agreement_is_transitive {α : Type} [DecidableEq α] {l1 l2 l3 : List α}
    (h12 : Md.listsEqual l1 l2 = true) (h23 : Md.listsEqual l2 l3 = true) : Md.listsEqual l1 l3 = true :=
  Md.listsEqual_trans h12 h23

/-- without the bookkeeping — every application of the first list only needs SOME equal one in the second — the
    verdict depends on the order of the services (kernel-checked witness: `@r(1) @r(1)` against `@r(1) @r(2)`) -/
theorem without_the_pairing_the_order_of_the_services_decides :
    Md.listsEqualNoBookkeeping [1, 1] [1, 2] = true ∧ Md.listsEqualNoBookkeeping [1, 2] [1, 1] = false :=
  Md.noBookkeeping_is_not_symmetric

example : Md.listsEqual ["@r(n: 1)", "@s", "@r(n: 1)"] ["@s", "@r(n: 1)", "@r(n: 1)"] = true ∧
          Md.listsEqual ["@r(n: 1)", "@r(n: 1)"] ["@r(n: 1)", "@r(n: 2)"] = false := by decide


/-- **whether two definitions of a directive merge, and which locations the merged one allows, do not depend on the
    order of the services** -/
theorem directive_locations_merge_the_same_either_way {α : Type} [DecidableEq α] (isTS : α → Bool) (l1 l2 : List α) :
    (Ml.mergeLocs isTS l1 l2).isSome = (Ml.mergeLocs isTS l2 l1).isSome ∧
    ∀ r r', Ml.mergeLocs isTS l1 l2 = some r → Ml.mergeLocs isTS l2 l1 = some r' → ∀ x, x ∈ r ↔ x ∈ r' :=
  ⟨Ml.mergeLocs_isSome_comm isTS l1 l2, fun r r' h h' x => Ml.mergeLocs_mem_comm isTS l1 l2 r r' h h' x⟩

end Props.C10
