import GwModel.Http
import GwModel.HttpErrors
import GwModel.HttpReq
import GwModel.InjectLemmas
import GwModel.Gen.Facts
/-! # C15 — The HTTP endpoint never crashes and always speaks GraphQL-over-HTTP

The JSON request path of the handler is modelled in `Http` (decoding of bodies into operations the way
encoding/json fills `*HTTPOperation`, per-operation decisions, status), the multipart map in `InjF`.  Both
are total functions: every partial Go operation on these paths (nil operation, slice index, batch index) is
guarded in the source — checked as facts on every run — and is an explicit error in the model.
`encoding/json`, `mime/multipart` and `net/http` themselves are trusted. -/
namespace Props.C15
open Http Facts

def HttpFactsSafe : Prop :=
  Gen.parseRejectsNullOperations = true ∧ "batchIndexRange" ∈ Gen.injectGuards ∧ "indexNonNeg" ∈ Gen.injectGuards ∧
  "indexUpper" ∈ Gen.injectGuards ∧ "partsNonEmpty" ∈ Gen.injectGuards ∧ "leafMustBeNull" ∈ Gen.injectGuards ∧
  Gen.batch.planErrAborts = true ∧ Gen.batch.plansAllBeforeExecuting = true ∧ Gen.httpErrorsKeepMessages = true

instance : Decidable HttpFactsSafe := by unfold HttpFactsSafe; exact inferInstance

theorem facts_safe : HttpFactsSafe := by decide

/-- **every error object of a response has a message** (the GraphQL specification requires one): whatever error an
    operation ends with — a list with entries of any kind, or a single error — `formatErrorsWithCode` (model
    `HttpErr.format`) writes only objects with a message -/
theorem every_error_object_has_a_message (err : HttpErr.Err) (code : String) :
    ∀ o ∈ HttpErr.format err code, o.message.isSome = true := HttpErr.format_has_message err code

/-- a body that does not decode into operations: 422, one errors entry, nothing executed -/
theorem malformed_body (plannable execOK : OpReq → Bool) (body : Option JV) (e : ParseErr)
    (h : parseOperations body = .error e) : handlePost plannable execOK body = ⟨422, .single .errors, 0⟩ :=
  malformed_body_contacts_nobody plannable execOK body e h

/-- an unplannable operation refuses the whole request with 400 and nothing is executed, batch or not -/
theorem unplannable_request (plannable execOK : OpReq → Bool) (ops : List OpReq) (batch : Bool)
    (h : (ops.filter fun o => !needsQuery o).any (fun o => !plannable o) = true) :
    handleOps plannable execOK ops batch = ⟨400, .single .errors, 0⟩ :=
  unplannable_request_contacts_nobody plannable execOK ops batch h

/-- the status on this path is 200, 400 or 422, and only operations carrying a query or key are executed -/
theorem status_and_executed (plannable execOK : OpReq → Bool) (ops : List OpReq) (batch : Bool) :
    let r := handleOps plannable execOK ops batch
    (r.status = 200 ∨ r.status = 400 ∨ r.status = 422) ∧ r.executed ≤ (ops.filter fun o => !needsQuery o).length :=
  Http.status_and_executed plannable execOK ops batch

/-- `null`, `[null]` and `[{…}, null]` are rejected, not dereferenced; keys match ignoring case -/
example : (parseOperations (some .null)).toOption.isNone = true ∧
          (parseOperations (some (.arr [.null]))).toOption.isNone = true ∧
          (parseOperations (some (.arr [.obj [("query", .str "{a}")], .null]))).toOption.isNone = true ∧
          (parseOperations (some (.obj [("Query", .str "{a}")]))).toOption = some ([⟨"{a}", "", ""⟩], false) ∧
          (parseOperations (some (.obj [("query", .num true)]))).toOption.isNone = true := by
  decide

/-- the front of the handler (`Http.parseReq`: method, content type, GET parameters; tied by L2.http-front): a
    request that does not parse into operations is refused with 405 or 422, one errors entry, nothing executed -/
theorem refused_request (plannable execOK : OpReq → Bool) (r : Req) (status : Nat) (h : parseReq r = .error status) :
    handleReq plannable execOK r = ⟨status, .single .errors, 0⟩ ∧ (status = 405 ∨ status = 422) :=
  refused_request_contacts_nobody plannable execOK r status h

/-- every response has one of the statuses 200, 400, 405, 422 -/
theorem statuses (plannable execOK : OpReq → Bool) (r : Req) :
    let s := (handleReq plannable execOK r).status
    s = 200 ∨ s = 400 ∨ s = 405 ∨ s = 422 :=
  status_classes plannable execOK r

/-- a GET request whose `variables` is not a JSON object is refused whatever else it carries -/
theorem get_bad_variables (plannable execOK : OpReq → Bool) (p : GetParams) (ct : CType) (body : Option JV)
    (h : getVariablesOK p.variables = false) :
    handleReq plannable execOK ⟨.get, ct, p, body⟩ = ⟨422, .single .errors, 0⟩ :=
  get_with_bad_variables_is_refused plannable execOK p ct body h

/-- non-vacuity -/
example : handleReq (fun _ => true) (fun _ => true)
    ⟨.get, .json, { query := some "{ me { id } }", variables := some (some (.arr [])), operationName := none,
                    extensions := some (some (.obj [])) }, none⟩ = ⟨422, .single .errors, 0⟩ ∧
  handleReq (fun _ => true) (fun _ => true)
    ⟨.get, .json, { query := some "{ me { id } }", variables := some (some (.obj [])), operationName := none,
                    extensions := none }, none⟩ = ⟨200, .single .data, 1⟩ := by decide

end Props.C15
