import GwModel.ExecFacts
import GwModel.ErrList
import GwModel.Gen.Facts
import GwModel.Exec.ErrOrder
import GwModel.ExecSeq
import GwModel.HttpErrors
import GwModel.Middleware
/-! # C07 — Failures are reported faithfully and stay contained

Machine level (any forest, any failure pattern, any schedule): at return the collector has recorded
exactly the failed calls, each once, and has merged every call's data, failed or not.  Payload level: the
error list is the flattening of the recorded errors.  That a malformed payload cannot crash the stitching
code and that untouched data stays intact is decided by the fault correspondence (all six outcome kinds
per call) until the JSON-level insertion model carries it (DESIGN §6 C07). -/
namespace Props.C07
open ExecM

theorem facts_safe : FactsSafe Gen.exec := by decide

/-- http.go `formatErrorsWithCode` has the shape `HttpErr.format` models: entries that are not graphql errors are
    rewritten as graphql errors carrying their message (regenerated on every run) -/
theorem http_facts_safe : Gen.httpErrorsKeepMessages = true ∧ Gen.mw.errorAborts = true := by decide

def cfg : Cfg := cfgOfFacts Gen.exec
theorem cfg_safe : cfg.Safe := cfg_safe_of_facts facts_safe

/-- every failure that occurred is in the list, nothing else is, whatever the schedule -/
theorem errors_are_exactly_the_failed_calls (ts : Tasks) (hwf : WF ts) {s : St} (hr : Reach cfg ts s)
    (hret : s.returned = true) : s.errs.Perm ((List.range ts.length).filter (failedOf ts)) :=
  errors_exact cfg_safe hwf hr hret

/-- … hence empty when none did -/
theorem no_failure_no_error (ts : Tasks) (hwf : WF ts) {s : St} (hr : Reach cfg ts s)
    (hret : s.returned = true) (hok : ∀ t, failedOf ts t = false) : s.errs = [] := by
  have h := errors_exact cfg_safe hwf hr hret
  have : (List.range ts.length).filter (failedOf ts) = [] := by
    apply List.filter_eq_nil_iff.2; intro t _; simp [hok t]
  rw [this] at h; exact h.eq_nil

/-- a failing call does not keep other calls' data out: every call is merged before return -/
theorem failed_or_not_every_result_is_merged (ts : Tasks) (hwf : WF ts) {s : St} (hr : Reach cfg ts s)
    (hret : s.returned = true) : ∀ t < ts.length, t ∈ s.order :=
  fun t ht => (returns_after_all_merged cfg_safe hwf hr hret t ht).1

/-- the machine's `done` action records the error and lets `Execute` go on in one step; that is faithful because
    the source records the error first (`errsBeforeDone`, part of `facts_safe`): with that order no schedule
    of collector and `Execute` returns without the error of the last reply … -/
theorem the_error_of_the_last_reply_is_not_lost (as : List ErrOrder.Act) (s : ErrOrder.St) (n : Nat)
    (h : ErrOrder.run (ErrOrder.init [.record, .done]) as = some s) (hr : s.returned = some n) : n = 1 :=
  ErrOrder.record_then_done_never_loses as s n h hr

/-- … and the other order has a schedule that does -/
theorem done_before_recording_can_lose_it :
    (ErrOrder.run (ErrOrder.init [.done, .record]) [.collector, .main, .collector]).map (·.returned) = some (some 0) :=
  ErrOrder.done_then_record_can_lose

/-- data-path level (`Xs.run`, the sequential model of executeOneStep + the collector's stitching, tied to
    execute.go by the L2.exec correspondence): a root call that came back with an error is counted as a failed
    task whatever else it returned (data, malformed data, nothing) and whatever its dependents do afterwards … -/
theorem a_failed_call_is_always_counted (idText : Xs.IdText) (replies : List Xs.Reply) (fuel sid : Nat)
    (strip nodeParent : Bool) (kids : List (List Fp.PInfo × Xs.XStep)) (st : Xs.St) (r : Xs.Reply)
    (hr : Xs.findReply replies sid "" = some r) (herr : r.err = true) :
    st.failed + 1 ≤ (Xs.runTask idText replies (fuel + 1) (.mk sid strip nodeParent kids) [] st).failed :=
  Xs.failed_reply_is_counted idText replies fuel sid strip nodeParent kids st r hr herr

/-- … and no later task, successful or not, takes a recorded failure away -/
theorem failures_are_never_uncounted (idText : Xs.IdText) (replies : List Xs.Reply) (fuel : Nat) (s : Xs.XStep)
    (ip : List Fp.RPt) (st : Xs.St) : st.failed ≤ (Xs.runTask idText replies fuel s ip st).failed :=
  Xs.runTask_failed_le idText replies fuel s ip st

/-- the reported list is the flattening of what was recorded, independent of the order of recording -/
theorem reported_errors_order_independent {α : Type} {a b : List (ErrList.E α)} (h : a.Perm b) :
    (ErrList.accumulate a).Perm (ErrList.accumulate b) := ErrList.accumulate_perm h

/-- **every failure reaches the client with its text** (`HttpErr.format`, the model of `formatErrorsWithCode`, tied by
    `http_facts_safe` and the L0.http-errors channel): the response has one error object per entry of the error the
    execution returned, in order, each carrying that entry's message — also for an entry that is no graphql error
    (a transport failure handed up the way the queryer returned it) -/
theorem every_failure_reaches_the_client_with_its_message (err : HttpErr.Err) (code : String) :
    (HttpErr.format err code).map (·.message) = (HttpErr.entries err code).map (fun e => some e.message) :=
  HttpErr.format_messages err code

/-- **no error the execution reported is hidden by a response middleware** (`Mw.execute`, the model of the tail of
    `Gateway.Execute` after the repair of D65; fact `mw.errorAborts` is the exact loop body): whatever the middlewares
    do — the built-in scrubber tripping over a null at a join included — every error of the execution is among the
    errors returned -/
theorem a_failing_middleware_does_not_hide_the_executions_errors {D E : Type} (scrub : Mw.RMw D E)
    (user : List (Mw.RMw D E)) (result : D) (ee : List E) : ∀ x ∈ ee, x ∈ (Mw.execute scrub user result ee).2.2 :=
  Mw.execute_keeps_exec_errors scrub user result ee

/-- what the code did before that repair: the scrubber's error alone (kernel-checked witness: the service's error
    "db down" is gone) -/
theorem before_the_repair_the_scrubbers_error_replaced_the_services :
    (Mw.executeOld (D := Nat) (E := String) ⟨0, fun _ => .error "Received null for required field"⟩ [] 5 ["db down"]).2.2 =
      ["Received null for required field"] := by decide

/-- what the code did before the repair of D64 (kept as a witness of what the theorem above excludes) -/
theorem before_the_repair_a_transport_failure_lost_its_message :
    HttpErr.formatOld (.list [⟨false, "connection refused", []⟩]) "INTERNAL_SERVER_ERROR" = [{ message := none, path := [], code := none }] :=
  HttpErr.formatOld_loses_message

/-- non-vacuity: a forest with a failing child; the run returns with exactly that error -/
def oneFails : Tasks := [{ parent := none, failed := false }, { parent := some 0, failed := true }]
example : (run cfg oneFails (init oneFails)
    [.eff 0, .eff 0, .eff 0, .recv, .done, .eff 1, .eff 1, .eff 1, .recv, .done, .ret]).map (fun s => (s.returned, s.errs)) = some (true, [1]) := by
  decide

end Props.C07
