import GwModel.MergeDef
import GwModel.MergeSchema
import GwModel.Gen.Facts
import GwModel.MergeSig
import GwModel.MergeLocs
/-! # C09 — Incompatible definitions are rejected with an error, never guessed or a crash

Model: `Mg.mergeGroup` folds `mergeDef` (kind guard; object fields unioned with equal signatures on common
names; every other kind must have the same member set with equal signatures) over the definitions the
services give for one name.  A field's signature is its type (name, nullability, list depth), its arguments
with types and deep default values, its own default and its applied directives; enum values and union
members are members with trivial signatures; a directive definition is a member list of its arguments plus
its set of executable locations.  The merge is total by construction in the model (`Option`, no partial
operation); that the Go code has no nil dereference left on these paths is a fact check and is exercised by
the correspondence on the whole difference catalogue in every service order. -/
namespace Props.C09
open Mg Facts

def MergeFactsSafe : Prop :=
  Gen.merge.kindGuard = true ∧ "mergeInterfaces" ∈ Gen.merge.nilGuards ∧ "mergeEnums" ∈ Gen.merge.nilGuards ∧
  Gen.merge.valueCompare = .deep ∧ Gen.merge.directiveListsBothWays = true

instance : Decidable MergeFactsSafe := by unfold MergeFactsSafe; exact inferInstance

theorem facts_safe : MergeFactsSafe := by decide

/-- the definitions of one name merge iff they are pairwise compatible -/
theorem merges_iff_pairwise_compatible (d : Def) (ds : List Def) (hok : ∀ x ∈ d :: ds, DefOK x) :
    (∃ r, mergeGroup (d :: ds) = some r) ↔ (d :: ds).Pairwise Compat :=
  mergeGroup_char d ds hok

/-- two incompatible definitions anywhere in the group make construction fail — nothing is guessed -/
theorem incompatible_pair_rejected (d : Def) (ds : List Def) (hok : ∀ x ∈ d :: ds, DefOK x)
    (a b : Def) (hsub : [a, b].Sublist (d :: ds)) (hinc : ¬ Compat a b) : mergeGroup (d :: ds) = none := by
  cases h : mergeGroup (d :: ds) with
  | none => rfl
  | some r =>
    have hp := (mergeGroup_char d ds hok).1 ⟨r, h⟩
    have := hp.sublist hsub
    simp at this
    exact absurd this hinc

/-- a different kind is an incompatibility -/
theorem different_kind_incompatible (a b : Def) (h : a.kind ≠ b.kind) : ¬ Compat a b := fun hc => h hc.1

/-- a schema-level failure of any group fails the whole construction -/
theorem group_failure_fails_merge (g : Nat × List Def) (gs : List (Nat × List Def)) (h : mergeGroup g.2 = none) :
    MergeS.mergeGroups (g :: gs) = none := by
  simp [MergeS.mergeGroups, h]

/-- non-vacuity: an object and an input of the same name; two enums with different values -/
example : mergeGroup [⟨1, .object, [⟨0, 7⟩], []⟩, ⟨1, .input, [⟨0, 7⟩], []⟩] = none ∧
          mergeGroup [⟨2, .enum, [⟨0, 0⟩, ⟨1, 0⟩], []⟩, ⟨2, .enum, [⟨0, 0⟩, ⟨5, 0⟩], []⟩] = none ∧
          (mergeGroup [⟨3, .object, [⟨0, 7⟩], []⟩, ⟨3, .object, [⟨0, 7⟩, ⟨1, 8⟩], []⟩]).isSome = true := by decide

/-- what a signature is made of (`Ms`, the model of mergeTypesEqual / mergeValuesEqual / mergeArgumentDefinitionList,
    tied to merge.go by L2.mergesig): two field types are accepted exactly when they are the same type — name,
    nullability and list structure at every level … -/
theorem types_accepted_iff_identical (a b : Option Ms.Ty) : Ms.typesEqual a b = true ↔ a = b := Ms.typesEqual_iff a b

/-- … two default values exactly when they are the same value — kind, text, and for lists and objects every child's
    name and value, at every depth (so `1` and `"1"`, `[1, 2]` and `[3]`, `{a: 1}` and `{a: 2}` are told apart) … -/
theorem defaults_accepted_iff_identical (a b : Option Ms.V) : Ms.valuesEqual a b = true ↔ a = b := Ms.valuesEqual_iff a b

/-- … and two argument lists only when every argument of the one is, by name, an argument of the other with the same
    type and the same default, and the lists are equally long -/
theorem arguments_accepted_only_if_same {l1 l2 : List Ms.ArgDef} (h : Ms.argDefsEq l1 l2 = true) :
    l1.length = l2.length ∧ ∀ a ∈ l1, ∃ b ∈ l2, b.name = a.name ∧ b.type = a.type ∧ b.default = a.default :=
  Ms.argDefsEq_subset h


/-- **definitions of a directive that differ in an executable location are refused** — in whichever list the
    location is missing -/
theorem directive_definitions_differing_in_an_executable_location_are_refused {α : Type} [DecidableEq α]
    (isTS : α → Bool) (l1 l2 : List α) (x : α) (hx : isTS x = false) (h1 : x ∈ l1) (h2 : x ∉ l2) :
    Ml.mergeLocs isTS l1 l2 = none ∧ Ml.mergeLocs isTS l2 l1 = none := by
  refine ⟨Ml.mergeLocs_refuses isTS l1 l2 x hx h1 h2, ?_⟩
  have := Ml.mergeLocs_isSome_comm isTS l2 l1
  rw [Ml.mergeLocs_refuses isTS l1 l2 x hx h1 h2] at this
  cases h : Ml.mergeLocs isTS l2 l1 with
  | none => rfl
  | some r => rw [h] at this; cases this

example : Ml.mergeLocs Ml.isTypeSystem ["FIELD", "OBJECT"] ["QUERY", "FIELD"] = none ∧
          Ml.mergeLocs Ml.isTypeSystem ["FIELD"] ["FIELD", "VARIABLE_DEFINITION"] = none := by decide

end Props.C09
