import GwModel.ScrubLemmas
import GwModel.Gen.Facts
/-! # C04 — Responses hold exactly the requested keys; join ids never leak or vanish

Proved on the model of the scrub-path computation (`Scrub`, mirroring generateScrubFields and generateScrubFieldsWalk and
graphql.ApplyFragments): `FieldsToScrub["id"]` lists exactly those insertion points of the plan at which
the client's flattened selection has no response key `id` (so a client `id`, under any alias position that
keeps the key `id`, is never removed and an injected one always is), each path once.
What the flattening cannot see — `id` requested only under a type condition or @skip/@include — is the
recorded known finding KF-D11 and is excluded by the generator.
The key-set equality of every response object with the monolith's, including partial data under faults,
is decided by the L0 correspondence. -/
namespace Props.C04
open Scrub Facts

def ScrubFactsSafe : Prop :=
  Gen.scrub.source = .ownOperation ∧ Gen.scrub.natural = .aliasIsId ∧ Gen.scrub.deletesField = true ∧
  Gen.mw.scrubFirst = true

instance : Decidable ScrubFactsSafe := by unfold ScrubFactsSafe; exact inferInstance

theorem facts_safe : ScrubFactsSafe := by decide

/-- exactly the join points where the client did not ask for `id`, each listed once -/
theorem scrub_paths_exact (sel : List S) (roots : List PStep) (ps : List (List String))
    (h : scrubPaths sel roots = some ps) :
    ps.Nodup ∧ (∀ p, p ∈ ps ↔ (∃ t ∈ allStepsL roots, t.ip = p) ∧ NeedsScrub sel p) :=
  scrubPaths_exact sel roots ps h

/-- a requested id is never removed: a path whose selection carries the key `id` is not scrubbed -/
theorem requested_id_kept (sel : List S) (roots : List PStep) (ps : List (List String))
    (h : scrubPaths sel roots = some ps) (p : List String) (target : List S)
    (hw : walkTo sel p = some target) (hid : hasIdKey target = true) : p ∉ ps := by
  intro hp
  obtain ⟨_, _, tg, htg, hno⟩ := ((scrubPaths_exact sel roots ps h).2 p).1 hp
  rw [hw] at htg; cases htg
  rw [hid] at hno; cases hno

/-- non-vacuity: `{ me { firstName friends { id nick } } }` with steps at [me] and [me, friends] -/
example :
    scrubPaths [.mk "me" "me" [.mk "firstName" "firstName" [], .mk "friends" "friends" [.mk "id" "id" [], .mk "nick" "nick" []]]]
      [.mk [] [.mk ["me"] [.mk ["me", "friends"] []], .mk ["me"] []]] = some [["me"]] := by decide

end Props.C04
