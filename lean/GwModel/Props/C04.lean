import GwModel.ScrubLemmas
import GwModel.Gen.Facts
import GwModel.ScrubApply
import GwModel.PlanInject
import GwModel.Middleware
/-! # C04 — Responses hold exactly the requested keys; join ids never leak or vanish

Proved on the model of the scrub-path computation (`Scrub`, mirroring generateScrubFields and generateScrubFieldsWalk and
graphql.ApplyFragments): `FieldsToScrub["id"]` lists exactly those insertion points of the plan at which
the client's flattened selection has no response key `id` (so a client `id`, under any alias position that
keeps the key `id`, is never removed and an injected one always is), each path once.
What the flattening cannot see — `id` requested only under a type condition or @skip/@include — is the
recorded known finding KF-D11 and is excluded by the generator.
The key-set equality of every response object with the monolith's, including partial data under faults,
is decided by the L0 correspondence. -/
namespace Props.C04
open Scrub Facts

def ScrubFactsSafe : Prop :=
  Gen.scrub.source = .ownOperation ∧ Gen.scrub.natural = .aliasIsId ∧ Gen.scrub.deletesField = true ∧
  Gen.mw.scrubFirst = true ∧ Gen.mw.errorAborts = true

instance : Decidable ScrubFactsSafe := by unfold ScrubFactsSafe; exact inferInstance

theorem facts_safe : ScrubFactsSafe := by decide

/-- exactly the join points where the client did not ask for `id`, each listed once -/
theorem scrub_paths_exact (sel : List S) (roots : List PStep) (ps : List (List String))
    (h : scrubPaths sel roots = some ps) :
    ps.Nodup ∧ (∀ p, p ∈ ps ↔ (∃ t ∈ allStepsL roots, t.ip = p) ∧ NeedsScrub sel p) :=
  scrubPaths_exact sel roots ps h

/-- a requested id is never removed: a path whose selection carries the key `id` is not scrubbed -/
theorem requested_id_kept (sel : List S) (roots : List PStep) (ps : List (List String))
    (h : scrubPaths sel roots = some ps) (p : List String) (target : List S)
    (hw : walkTo sel p = some target) (hid : hasIdKey target = true) : p ∉ ps := by
  intro hp
  obtain ⟨_, _, tg, htg, hno⟩ := ((scrubPaths_exact sel roots ps h).2 p).1 hp
  rw [hw] at htg; cases htg
  rw [hid] at hno; cases hno

/-- **what the scrubber does to the response** (`Scr`, the model of middlewares.go `scrubInsertionIDs`, tied by the
    L2.scrub correspondence): for a listed location and a response with the promised kinds, the join id is deleted
    from exactly the objects the location leads to — in every list element, at every depth — and each of them keeps
    every other key … -/
theorem the_join_id_is_removed_where_listed (infos : List Fp.PInfo) (chunk : Ins.KVs) (paths : List (List Fp.RPt))
    (hfind : Fp.findPts infos chunk [] = .ok paths) (hc : Fp.Conf infos chunk) :
    ∃ final, Scr.scrubLocation infos chunk = some final ∧
      ∀ p ∈ paths, ∃ o, Fp.walk (.obj chunk) p = some (.obj o) ∧ Fp.walk final p = some (.obj (Scr.erase 0 o)) :=
  Scr.scrubLocation_exact infos chunk paths hfind hc

/-- … (an object without its `id` key has no `id`, and every other key is where it was) … -/
theorem erased_object_has_no_id_and_keeps_the_rest {o : Ins.KVs} (h : Ins.Sorted o) :
    Ins.lookup 0 (Scr.erase 0 o) = none ∧ ∀ k, k ≠ 0 → Ins.lookup k (Scr.erase 0 o) = Ins.lookup k o :=
  ⟨Scr.lookup_erase_self h, fun _ hk => Scr.lookup_erase_other hk h⟩

/-- … and a deletion at one place leaves every place that parts from it at a list index as it was, so the order
    of the deletions is immaterial -/
theorem scrubbing_one_place_leaves_the_others (p q : List Fp.RPt) (x : Ins.J) (op oq : Ins.KVs)
    (hp : Fp.walk x p = some (.obj op)) (hq : Fp.walk x q = some (.obj oq)) (h : Fp.Parts p q) :
    ∃ x', Scr.deleteAt x (p.map Fp.toPt) = some x' ∧ Fp.walk x' q = some (.obj oq) :=
  Scr.deleteAt_frame p q x op oq hp hq h

/-- **the planner adds the join `id` only where a follow-up step is inserted** (`Pl`, the model of plan.go tied by
    the L1.plan correspondence; documents without named fragments): wherever the query of a step holds an `id` the
    planner put there — the client's own `id` fields carry the type they were validated against and are never
    taken for it — the plan has a step hanging off that step whose insertion point is exactly that place.  With
    `scrub_paths_exact` (every insertion point where the client did not ask for `id` is listed) and
    `the_join_id_is_removed_where_listed`, no `id` the planner adds survives into the response. -/
theorem every_id_the_planner_adds_is_at_a_join_point {env : Pl.Env} {fuel : Nat} {operation : String}
    {sels : List Pl.Sel} {steps : List Pl.Step} (hns : Pl.noSpreadL sels = true) (hu : Pl.unmarkedL sels = true)
    (h : Pl.planOperation env fuel operation sels = .ok steps) :
    ∀ t ∈ steps, ∀ p, Pl.InjectedAt t.sel p → ∃ u ∈ steps, u.parent = some t.id ∧ u.ip = t.ip ++ p :=
  Pl.planOperation_injected_ids_are_join_points hns hu h

/-- **a scrubber that cannot finish hands nothing back** (`Mw.execute`, the model of the tail of `Gateway.Execute`,
    tied by the regenerated facts `mw.errorAborts` / `mw.returnsResultAndExecErr`): when the scrubber trips over a
    place it cannot walk to — half of the listed places cleaned, half not — the data is dropped; the errors returned are those the executor had reported followed by the scrubber's -/
theorem a_scrubber_that_fails_hands_back_no_data {D E : Type} (scrub : Mw.RMw D E) (user : List (Mw.RMw D E))
    (result : D) (ee : List E) (e : E) (h : scrub.run result = .error e) :
    Mw.execute scrub user result ee = ([scrub.id], none, ee ++ [e]) := Mw.execute_scrubber_fails scrub user result ee e h

/-- **planner and scrub table together**: take a plan of the planner model and the scrub table computed over a plan
    tree that holds the planner's steps (every insertion point of a step of the plan is the insertion point of a
    step of the tree — the tree is the `Then` nesting of those very steps).  Then wherever a step's query holds an
    `id` the planner added, and the client's flattened selection has no `id` at that place, the place is listed for
    scrubbing — so by `the_join_id_is_removed_where_listed` it is gone from the response; where the client did ask for
    `id` it is not listed (`requested_id_kept`) and stays. -/
theorem an_added_id_the_client_did_not_ask_for_is_listed {env : Pl.Env} {fuel : Nat} {operation : String}
    {sels : List Pl.Sel} {steps : List Pl.Step} (hns : Pl.noSpreadL sels = true) (hu : Pl.unmarkedL sels = true)
    (hplan : Pl.planOperation env fuel operation sels = .ok steps)
    (clientSel : List S) (roots : List PStep) (ps : List (List String)) (hscrub : scrubPaths clientSel roots = some ps)
    (htree : ∀ u ∈ steps, ∃ t ∈ allStepsL roots, t.ip = u.ip)
    (t : Pl.Step) (ht : t ∈ steps) (p : List String) (hinj : Pl.InjectedAt t.sel p)
    (hneeds : NeedsScrub clientSel (t.ip ++ p)) : (t.ip ++ p) ∈ ps := by
  obtain ⟨u, hu', _, hip⟩ := Pl.planOperation_injected_ids_are_join_points hns hu hplan t ht p hinj
  obtain ⟨t', ht', hip'⟩ := htree u hu'
  exact ((scrubPaths_exact clientSel roots ps hscrub).2 (t.ip ++ p)).2 ⟨⟨t', ht', by rw [hip', hip]⟩, hneeds⟩

/-- non-vacuity: `{ me { firstName lastName } }` with `lastName` served elsewhere — the client's selection is
    unmarked, the step for A gets `me { firstName id }` and the step for B is inserted at [me] (step 0 is the
    empty root step, which is never sent: its `id` stands for the root steps hanging off it at []) -/
def exEnv : Pl.Env :=
  { routes := [("Query.me", ["A"]), ("User.firstName", ["A"]), ("User.lastName", ["B"]), ("User.id", ["A", "B"])],
    configured := [], internal := "gw", planFrags := [] }
def exSels : List Pl.Sel :=
  [.field "me" "me" "" [] [] "User" [.field "firstName" "firstName" "" [] [] "String" [],
                                      .field "lastName" "lastName" "" [] [] "String" []]]
example : Pl.noSpreadL exSels = true ∧ Pl.unmarkedL exSels = true := by decide
example : (Pl.planOperation exEnv 10 "query" exSels).toOption.map
      (fun steps => steps.map (fun s => (s.id, s.parent, s.ip))) =
    some [(0, none, []), (1, some 0, []), (2, some 1, ["me"])] := by decide
example : (Pl.planOperation exEnv 10 "query" exSels).toOption.map
      (fun steps => steps.map (fun s => (Pl.leafPathsL s.sel, Pl.unmarkedL s.sel))) =
    some [([["id"]], false), ([["me", "firstName"], ["me", "id"]], false), ([["lastName"]], true)] := by decide

/-- non-vacuity: `{ me { firstName friends { id nick } } }` with steps at [me] and [me, friends] -/
example :
    scrubPaths [.mk "me" "me" [.mk "firstName" "firstName" [], .mk "friends" "friends" [.mk "id" "id" [], .mk "nick" "nick" []]]]
      [.mk [] [.mk ["me"] [.mk ["me", "friends"] []], .mk ["me"] []]] = some [["me"]] := by decide

end Props.C04
