import GwModel.MergeDef
import GwModel.MergeSchema
import GwModel.Route
import GwModel.Gen.Facts
import GwModel.MergeLocs
/-! # C03 — Merging is a conservative union of the service schemas -/
namespace Props.C03
open Mg Facts

def UnionFactsSafe : Prop :=
  Gen.merge.kindGuard = true ∧ Gen.merge.possibleTypesFrom = .mergedDefinitions ∧ Gen.routeStripsIntrospection = true

instance : Decidable UnionFactsSafe := by unfold UnionFactsSafe; exact inferInstance

theorem facts_safe : UnionFactsSafe := by decide

/-- every field of every service's definition of an object type is in the merged type with the same
    signature, and nothing else is -/
theorem object_fields_are_the_union (d : Def) (ds : List Def) (hok : ∀ x ∈ d :: ds, DefOK x) (r : Def)
    (h : mergeGroup (d :: ds) = some r) (hobj : d.kind = .object) :
    (∀ x ∈ d :: ds, ∀ f ∈ x.fields, ∃ g ∈ r.fields, g.name = f.name ∧ g.sig = f.sig) ∧
    (∀ g ∈ r.fields, ∃ x ∈ d :: ds, g ∈ x.fields) ∧ NodupNames r.fields := by
  have hrep := (mergeGroup_content d ds hok r h).2.1 hobj
  refine ⟨?_, ?_, hrep.nodup⟩
  · intro x hx f hf
    exact hrep.twin x.fields (List.mem_map.2 ⟨x, hx, rfl⟩) f hf
  · intro g hg
    obtain ⟨fs, hfs, hgf⟩ := hrep.from_ g hg
    obtain ⟨x, hx, rfl⟩ := List.mem_map.1 hfs
    exact ⟨x, hx, hgf⟩

/-- every other kind is kept with exactly the members every service declares -/
theorem other_kinds_keep_their_members (d : Def) (ds : List Def) (hok : ∀ x ∈ d :: ds, DefOK x) (r : Def)
    (h : mergeGroup (d :: ds) = some r) (hno : d.kind ≠ .object) (hns : d.kind ≠ .scalar) :
    r.kind = d.kind ∧ ∀ x ∈ d :: ds, SameSet r.fields x.fields := by
  obtain ⟨hk, _, hoth⟩ := mergeGroup_content d ds hok r h
  obtain ⟨hf, hs⟩ := hoth hno
  exact ⟨hk, fun x hx => hf ▸ hs hns x hx⟩

/-- the routing table lists, for a field, exactly the services that declare it … -/
theorem routed_exactly_to_declaring_services (srcs : List Route.Src) (internal : Route.Src) (gwTypes : List String)
    (t f loc : String) (hloc : loc ≠ internal.url) :
    loc ∈ Route.urlsFor srcs internal gwTypes t f ↔
      ∃ s ∈ srcs, s.url = loc ∧ Route.declares s t f = true ∧ Route.isIntrospection t f = false :=
  Route.service_routed_iff srcs internal gwTypes t f loc hloc

/-- … and never routes introspection to a service -/
theorem introspection_stays_at_the_gateway (srcs : List Route.Src) (internal : Route.Src) (gwTypes : List String)
    (t f loc : String) (hloc : loc ≠ internal.url) (hi : Route.isIntrospection t f = true) :
    loc ∉ Route.urlsFor srcs internal gwTypes t f :=
  Route.introspection_not_routed srcs internal gwTypes t f loc hloc hi

example : Route.urlsFor [⟨"A", [("User", ["id", "a"])]⟩, ⟨"B", [("User", ["id"]), ("Query", ["__schema"])]⟩] ⟨"gw", [("Node", ["id"])]⟩ ["Node"] "User" "id" = ["A", "B"] ∧
          Route.urlsFor [⟨"B", [("Query", ["__schema"])]⟩] ⟨"gw", [("Query", ["__schema", "node"])]⟩ ["Node"] "Query" "__schema" = ["gw"] := by decide


/-- **a directive that merges allows every location any of its definitions allows, and nothing else** (`Ml.mergeLocs`,
    the model of mergeDirectiveLocations, tied by L2.mergelocs) -/
theorem a_merged_directive_allows_the_union_of_locations {α : Type} [DecidableEq α] (isTS : α → Bool) (l1 l2 r : List α)
    (h : Ml.mergeLocs isTS l1 l2 = some r) (x : α) : x ∈ r ↔ x ∈ l1 ∨ x ∈ l2 := Ml.mergeLocs_mem isTS l1 l2 r h x

/-- **where a client may write the directive is what each service said**: no service's query that uses the directive
    becomes invalid, and none becomes valid that a service would refuse -/
theorem a_merged_directive_is_usable_in_queries_where_each_service_allows_it {α : Type} [DecidableEq α] (isTS : α → Bool)
    (l1 l2 r : List α) (h : Ml.mergeLocs isTS l1 l2 = some r) (x : α) (hx : isTS x = false) :
    (x ∈ r ↔ x ∈ l1) ∧ (x ∈ r ↔ x ∈ l2) := Ml.mergeLocs_executable isTS l1 l2 r h x hx

example : Ml.mergeLocs Ml.isTypeSystem ["FIELD", "OBJECT"] ["SCALAR", "FIELD"] = some ["FIELD", "OBJECT", "SCALAR"] := by decide

end Props.C03
