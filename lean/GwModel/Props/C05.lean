import GwModel.ExecFacts
import GwModel.Gen.Facts
/-! # C05 — Stitching does not depend on reply order or scheduling

Machine level: for every forest, every capacity ≥ 1 and every schedule, results are merged parents-first,
each exactly once, and any insertion function whose independent (non ancestor-related) messages commute
yields the same accumulated response in any two completed executions.  The statement order that makes
this true (count children → publish → spawn children; a single collector; Done after insert) is read from
execute.go on every run.  Data-race freedom is a property of the Go memory model, not of this model: it is
observed with the race detector only. -/
namespace Props.C05
open ExecM

theorem facts_safe : FactsSafe Gen.exec := by decide

def cfg : Cfg := cfgOfFacts Gen.exec
theorem cfg_safe : cfg.Safe := cfg_safe_of_facts facts_safe

/-- parents are merged before their children and nothing is merged twice, in every reachable state -/
theorem parents_first_no_duplicates (ts : Tasks) (hwf : WF ts) {s : St} (hr : Reach cfg ts s) :
    s.order.Nodup ∧ ∀ l₁ c l₂, s.order = l₁ ++ c :: l₂ → ∀ p, parentOf ts c = some p → p ∈ l₁ :=
  order_respectful cfg_safe hwf hr

/-- schedule independence: two completed executions of the same forest fold the same messages into the
    same response, for every insertion function whose independent messages commute -/
theorem response_independent_of_schedule {S : Type} (ins : S → Nat → S) (ts : Tasks)
    (comm : ∀ s a b, ¬ Anc ts a b → ¬ Anc ts b a → ins (ins s a) b = ins (ins s b) a)
    (hwf : WF ts) {s₁ s₂ : St} (h₁ : Reach cfg ts s₁) (h₂ : Reach cfg ts s₂)
    (r₁ : s₁.returned = true) (r₂ : s₂.returned = true) (a0 : S) :
    s₁.order.foldl ins a0 = s₂.order.foldl ins a0 :=
  confluent_final ins comm cfg_safe hwf h₁ h₂ r₁ r₂ a0

/-- and the error lists of two completed executions are permutations of each other -/
theorem errors_independent_of_schedule (ts : Tasks) (hwf : WF ts) {s₁ s₂ : St}
    (h₁ : Reach cfg ts s₁) (h₂ : Reach cfg ts s₂) (r₁ : s₁.returned = true) (r₂ : s₂.returned = true) :
    s₁.errs.Perm s₂.errs :=
  (errors_exact cfg_safe hwf h₁ r₁).trans (errors_exact cfg_safe hwf h₂ r₂).symm

/-- necessity witnesses (kernel-checked bad runs when the source order is different) -/
theorem spawn_before_publish_merges_child_first :
    (run { cap := 10, errCap := 10, selfSend := false, order := [.add, .spawn, .pub] } two (init two)
      [.eff 0, .eff 0, .eff 1, .eff 1, .eff 1, .recv]).map (fun s => s.order) = some [1] := by decide

theorem publish_before_add_returns_early :
    (run { cap := 10, errCap := 10, selfSend := false, order := [.pub, .add, .spawn] } two (init two)
      [.eff 0, .recv, .done, .ret]).map (fun s => (s.returned, pcOf s 1)) = some (true, none) := by decide

/-- non-vacuity: two schedules of one forest with two independent children -/
def fork : Tasks := [{ parent := none, failed := false }, { parent := some 0, failed := false }, { parent := some 0, failed := false }]
example : (run cfg fork (init fork) [.eff 0, .eff 0, .eff 0, .recv, .done, .eff 1, .eff 1, .eff 1, .eff 2, .eff 2, .eff 2, .recv, .done, .recv, .done, .ret]).map (·.order) = some [0, 1, 2] ∧
          (run cfg fork (init fork) [.eff 0, .eff 0, .eff 0, .recv, .done, .eff 2, .eff 2, .eff 2, .eff 1, .eff 1, .eff 1, .recv, .done, .recv, .done, .ret]).map (·.order) = some [0, 2, 1] := by
  decide

end Props.C05
