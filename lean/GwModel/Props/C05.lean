import GwModel.ExecFacts
import GwModel.Gen.Facts
import GwModel.InsertApply
import GwModel.FindPtsIndep
/-! # C05 — Stitching does not depend on reply order or scheduling

Machine level: for every forest, every capacity ≥ 1 and every schedule, results are merged parents-first,
each exactly once, and any insertion function whose independent (non ancestor-related) messages commute
yields the same accumulated response in any two completed executions.  The statement order that makes
this true (count children → publish → spawn children; a single collector; Done after insert) is read from
execute.go on every run.  Data-race freedom is a property of the Go memory model, not of this model: it is
observed with the race detector only. -/
namespace Props.C05
open ExecM

theorem facts_safe : FactsSafe Gen.exec := by decide

def cfg : Cfg := cfgOfFacts Gen.exec
theorem cfg_safe : cfg.Safe := cfg_safe_of_facts facts_safe

/-- parents are merged before their children and nothing is merged twice, in every reachable state -/
theorem parents_first_no_duplicates (ts : Tasks) (hwf : WF ts) {s : St} (hr : Reach cfg ts s) :
    s.order.Nodup ∧ ∀ l₁ c l₂, s.order = l₁ ++ c :: l₂ → ∀ p, parentOf ts c = some p → p ∈ l₁ :=
  order_respectful cfg_safe hwf hr

/-- schedule independence: two completed executions of the same forest fold the same messages into the
    same response, for every insertion function whose independent messages commute -/
theorem response_independent_of_schedule {S : Type} (ins : S → Nat → S) (ts : Tasks)
    (comm : ∀ s a b, ¬ Anc ts a b → ¬ Anc ts b a → ins (ins s a) b = ins (ins s b) a)
    (hwf : WF ts) {s₁ s₂ : St} (h₁ : Reach cfg ts s₁) (h₂ : Reach cfg ts s₂)
    (r₁ : s₁.returned = true) (r₂ : s₂.returned = true) (a0 : S) :
    s₁.order.foldl ins a0 = s₂.order.foldl ins a0 :=
  confluent_final ins comm cfg_safe hwf h₁ h₂ r₁ r₂ a0

/-- and the error lists of two completed executions are permutations of each other -/
theorem errors_independent_of_schedule (ts : Tasks) (hwf : WF ts) {s₁ s₂ : St}
    (h₁ : Reach cfg ts s₁) (h₂ : Reach cfg ts s₂) (r₁ : s₁.returned = true) (r₂ : s₂.returned = true) :
    s₁.errs.Perm s₂.errs :=
  (errors_exact cfg_safe hwf h₁ r₁).trans (errors_exact cfg_safe hwf h₂ r₂).symm

/-- necessity witnesses (kernel-checked bad runs when the source order is different) -/
theorem spawn_before_publish_merges_child_first :
    (run { cap := 10, errCap := 10, selfSend := false, order := [.add, .spawn, .pub] } two (init two)
      [.eff 0, .eff 0, .eff 1, .eff 1, .eff 1, .recv]).map (fun s => s.order) = some [1] := by decide

theorem publish_before_add_returns_early :
    (run { cap := 10, errCap := 10, selfSend := false, order := [.pub, .add, .spawn] } two (init two)
      [.eff 0, .recv, .done, .ret]).map (fun s => (s.returned, pcOf s 1)) = some (true, none) := by decide

/-- non-vacuity: two schedules of one forest with two independent children -/
def fork : Tasks := [{ parent := none, failed := false }, { parent := some 0, failed := false }, { parent := some 0, failed := false }]
example : (run cfg fork (init fork) [.eff 0, .eff 0, .eff 0, .recv, .done, .eff 1, .eff 1, .eff 1, .eff 2, .eff 2, .eff 2, .recv, .done, .recv, .done, .ret]).map (·.order) = some [0, 1, 2] ∧
          (run cfg fork (init fork) [.eff 0, .eff 0, .eff 0, .recv, .done, .eff 2, .eff 2, .eff 2, .eff 1, .eff 1, .eff 1, .recv, .done, .recv, .done, .ret]).map (·.order) = some [0, 2, 1] := by
  decide

/-- the accumulated response: an optional JSON value (`none` once an insertion failed) that is well-formed -/
def Acc := { s : Option Ins.J // ∀ x, s = some x → Ins.WF x }

def stitch (msg : Nat → Ins.Msg) (hval : ∀ n, Ins.WF (msg n).val) (acc : Acc) (n : Nat) : Acc :=
  ⟨Ins.apply acc.1 (msg n).path (msg n).val, Ins.wf_apply acc.2 (hval n)⟩

theorem foldl_stitch_val (msg : Nat → Ins.Msg) (hval : ∀ n, Ins.WF (msg n).val) (l : List Nat) (a : Acc) :
    (l.foldl (stitch msg hval) a).1 = l.foldl (fun s n => Ins.apply s (msg n).path (msg n).val) a.1 := by
  induction l generalizing a with
  | nil => rfl
  | cons n l ih => simp only [List.foldl_cons]; rw [ih]; rfl

/-- **C05 at the JSON level.**  Step `n` delivers the message `msg n` = (insertion path, payload) — a function
    of the services' replies alone.  If messages of steps that are not ancestor and descendant are independent
    (`Ins.Indep`: where their paths part they touch different keys or list entries, and where they meet they
    carry compatible values), then any two completed executions of the forest, under any schedule, stitch the
    same response with the executor's real insertion function (`Ins.apply` = executorInsertObject, tied to
    execute.go by the L2 correspondence). -/
theorem stitch_independent_of_schedule (ts : Tasks) (msg : Nat → Ins.Msg)
    (hval : ∀ n, Ins.WF (msg n).val)
    (hroot : ∀ n, (msg n).path = [] → ∃ inc, (msg n).val = .obj inc)
    (hind : ∀ a b, a ≠ b → ¬ Anc ts a b → ¬ Anc ts b a →
      Ins.Indep (msg a).path (msg a).val (msg b).path (msg b).val)
    (hwf : WF ts) {s₁ s₂ : St} (h₁ : Reach cfg ts s₁) (h₂ : Reach cfg ts s₂)
    (r₁ : s₁.returned = true) (r₂ : s₂.returned = true) :
    s₁.order.foldl (fun s n => Ins.apply s (msg n).path (msg n).val) (some (.obj [])) =
      s₂.order.foldl (fun s n => Ins.apply s (msg n).path (msg n).val) (some (.obj [])) := by
  let a0 : Acc := ⟨some (.obj []), fun x hx => by cases hx; exact Ins.wf_empty⟩
  have comm : ∀ (s : Acc) (a b : Nat), ¬ Anc ts a b → ¬ Anc ts b a →
      stitch msg hval (stitch msg hval s a) b = stitch msg hval (stitch msg hval s b) a := by
    intro s a b hab hba
    by_cases e : a = b
    · subst e; rfl
    · apply Subtype.ext
      exact Ins.apply_comm s.2 (hval a) (hval b) (hroot a) (hroot b) (hind a b e hab hba)
  have := response_independent_of_schedule (stitch msg hval) ts comm hwf h₁ h₂ r₁ r₂ a0
  have h := congrArg Subtype.val this
  rw [foldl_stitch_val, foldl_stitch_val] at h
  exact h

/-- the independence hypothesis of `stitch_independent_of_schedule` holds for the messages of one dependent step:
    the places `executorFindInsertionPoints` realises for it part at a list index, so two follow-up answers of the
    same step never contend, whatever they carry and however malformed the parent's reply was -/
theorem sibling_follow_ups_independent (infos : List Fp.PInfo) (chunk : Ins.KVs) (pre : List Fp.RPt)
    (paths : List (List Fp.RPt)) (h : Fp.findPts infos chunk pre = .ok paths)
    (p q : List Fp.RPt) (hp : p ∈ paths) (hq : q ∈ paths) (hne : Fp.sig p ≠ Fp.sig q) (v w : Ins.J) :
    Ins.Indep (p.map Fp.toPt) v (q.map Fp.toPt) w :=
  Fp.findPts_pairwise_indep infos chunk pre paths h p hp q hq hne v w

/-- non-vacuity: a root message and two children that insert at different entries of one list; the children
    are independent and both orders stitch the same value -/
def rootMsg : Ins.Msg := ⟨[], .obj [(0, .arr [.obj [(1, .leaf "\"u1\"")], .obj [(1, .leaf "\"u2\"")]])]⟩
def kid1 : Ins.Msg := ⟨[⟨0, some 0⟩], .obj [(2, .leaf "\"a\"")]⟩
def kid2 : Ins.Msg := ⟨[⟨0, some 1⟩], .obj [(2, .leaf "\"b\"")]⟩
example : Ins.Indep kid1.path kid1.val kid2.path kid2.val := by simp [Ins.Indep, kid1, kid2]
example :
    Ins.apply (Ins.apply (Ins.apply (some (.obj [])) rootMsg.path rootMsg.val) kid1.path kid1.val) kid2.path kid2.val =
    Ins.apply (Ins.apply (Ins.apply (some (.obj [])) rootMsg.path rootMsg.val) kid2.path kid2.val) kid1.path kid1.val := rfl
/-- and why parents must come first (what the machine-level theorem guarantees): a child stitched before its
    parent is overwritten when the parent's list has another length than the child's placeholder -/
example :
    Ins.apply (Ins.apply (some (.obj [])) kid1.path kid1.val) rootMsg.path rootMsg.val ≠
    Ins.apply (Ins.apply (some (.obj [])) rootMsg.path rootMsg.val) kid1.path kid1.val := by
  intro h; injection h with h; injection h with h; injection h with h _; injection h with _ h; injection h with h; injection h with h _; injection h with h; injection h with _ h; cases h

end Props.C05
