import GwModel.Batch
import GwModel.InjectBatch
import GwModel.Gen.Facts
/-! # C16 — Batched operations keep their order and equal their single-request answers -/
namespace Props.C16
open Batch Facts

def BatchFactsSafe : Prop :=
  Gen.batch.writeByIndex = true ∧ Gen.batch.waitsAll = true ∧ Gen.batch.plansAllBeforeExecuting = true

instance : Decidable BatchFactsSafe := by unfold BatchFactsSafe; exact inferInstance

/-- each operation writes its own slot (`results[opNum] = r`), and the table is serialised only after
    `opWg.Wait()` -/
theorem facts_safe : BatchFactsSafe := by decide

/-- whatever order the operations complete in, the i-th element of the response list is the response to the
    i-th operation, i.e. the response that operation gets when sent alone -/
theorem order_independent {O R : Type} (respond : O → R) (ops : List O) (σ : List Nat)
    (hall : ∀ j, j < ops.length → j ∈ σ) :
    runBatch respond ops σ = ops.map (fun o => some (respond o)) :=
  batch_order_independent respond ops σ hall

/-- in particular two completion orders give the same list -/
theorem any_two_orders_agree {O R : Type} (respond : O → R) (ops : List O) (σ₁ σ₂ : List Nat)
    (h₁ : ∀ j, j < ops.length → j ∈ σ₁) (h₂ : ∀ j, j < ops.length → j ∈ σ₂) :
    runBatch respond ops σ₁ = runBatch respond ops σ₂ := by
  rw [order_independent respond ops σ₁ h₁, order_independent respond ops σ₂ h₂]

example : runBatch (fun n : Nat => n * 10) [1, 2, 3] [2, 0, 1] = [some 10, some 20, some 30] := by decide

/-- **a member of a multipart batch gets from a map path exactly what it gets when it is sent alone** (`InjF`, the model
    of `injectFile`, tied by L2.inject): a batch path `i.<path>` is the path walked in member `i` alone; every other
    member is left as it was -/
theorem a_batch_member_gets_the_file_it_gets_alone (ops : InjF.Ops) (f : Nat) (path path' : String) (p : String) (i : Nat)
    (v : Inj.J) (hparts : InjF.splitDots path = p :: InjF.splitDots path') (hidx : InjF.atoi p = some (Int.ofNat i))
    (hv : ops[i]? = some v) :
    InjF.injectPath ops true f path = (InjF.injectPath [v] false f path').map (fun one => ops.set i (one.headD v)) :=
  InjF.batch_member_gets_what_it_gets_alone ops f path path' p i v hparts hidx hv

/-- non-vacuity (on the parts of the path; that `"1.variables.f"` splits into `"1"` and the parts of `"variables.f"`
    is what `strings.Split` does and is exercised by L2.inject): member 1 of a batch of two gets the file, a member
    that does not exist is refused -/
example :
    ((InjF.afterSelection [.obj [("f", .null)], .obj [("f", .null)]] 7 1 ["variables", "f"]).toOption.bind
      (fun ops => ops[1]?.bind (InjF.getAtGo · ["f"]))).isSome = true ∧
    (InjF.afterSelection [.obj [("f", .null)], .obj [("f", .null)]] 7 2 ["variables", "f"]).toOption.isNone = true := by decide

end Props.C16
