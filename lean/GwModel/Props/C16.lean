import GwModel.Batch
import GwModel.Gen.Facts
/-! # C16 — Batched operations keep their order and equal their single-request answers -/
namespace Props.C16
open Batch Facts

def BatchFactsSafe : Prop :=
  Gen.batch.writeByIndex = true ∧ Gen.batch.waitsAll = true ∧ Gen.batch.plansAllBeforeExecuting = true

instance : Decidable BatchFactsSafe := by unfold BatchFactsSafe; exact inferInstance

/-- each operation writes its own slot (`results[opNum] = r`), and the table is serialised only after
    `opWg.Wait()` -/
theorem facts_safe : BatchFactsSafe := by decide

/-- whatever order the operations complete in, the i-th element of the response list is the response to the
    i-th operation, i.e. the response that operation gets when sent alone -/
theorem order_independent {O R : Type} (respond : O → R) (ops : List O) (σ : List Nat)
    (hall : ∀ j, j < ops.length → j ∈ σ) :
    runBatch respond ops σ = ops.map (fun o => some (respond o)) :=
  batch_order_independent respond ops σ hall

/-- in particular two completion orders give the same list -/
theorem any_two_orders_agree {O R : Type} (respond : O → R) (ops : List O) (σ₁ σ₂ : List Nat)
    (h₁ : ∀ j, j < ops.length → j ∈ σ₁) (h₂ : ∀ j, j < ops.length → j ∈ σ₂) :
    runBatch respond ops σ₁ = runBatch respond ops σ₂ := by
  rw [order_independent respond ops σ₁ h₁, order_independent respond ops σ₂ h₂]

example : runBatch (fun n : Nat => n * 10) [1, 2, 3] [2, 0, 1] = [some 10, some 20, some 30] := by decide

end Props.C16
