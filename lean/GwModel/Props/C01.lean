import GwModel.Trans.Transparent
import GwModel.Gen.Facts
/-! # C01 — Federated execution is transparent: gateway data equals monolith data

Proved here (model `Tr`, GwModel/Trans): for the core query class (fields, aliases, nested selections,
lists, nulls, cyclic references, arbitrary routing of fields to services and an arbitrary chooser) the
meaning of the plan the planner's recursion produces — evaluate the step's selection at its service, then
for every dependent step walk its insertion path through the reply, through lists and skipping nulls,
and merge what it fetches for each object found there — equals the monolith's evaluation.

The full statement for fragments/directives/arguments stays the target (DESIGN §6 C01); beyond the core
class the property is decided at run time by the L0 correspondence against `Mono.mono`. -/
namespace Props.C01
open Tr Facts

/-- planner facts the transparency argument relies on: one chooser for every way of writing a field,
    steps discovered through a local work list, scrub paths computed from the plan's own operation -/
def PlannerFactsSafe : Prop :=
  Gen.planQueue = .localWorklist ∧ Gen.chooserPlain = .selectLocation ∧ Gen.chooserNamed = .selectLocation ∧
  Gen.chooserInline = .selectLocation ∧ Gen.scrub.source = .ownOperation ∧ Gen.scrub.natural = .aliasIsId ∧
  Gen.scrub.deletesField = true

instance : Decidable PlannerFactsSafe := by unfold PlannerFactsSafe; exact inferInstance

theorem facts_safe : PlannerFactsSafe := by decide

/-- **transparency, core class**: every store, every routing, every chooser, every nesting depth -/
theorem transparent_core (st : Store) (r : Routing) (L T : Nat) (l : List Sel) (o : Obj)
    (h : NodupSels l) :
    applyKids st (splitSels r L T l).2 o (evalSels st o (splitSels r L T l).1 []) = evalSels st o l [] :=
  transparent st r L T l o h

/-- non-vacuity: the smoke-test query has distinct response keys at every level and really is split -/
example : NodupSels qT ∧ (splitSels rT 0 0 qT).2.length = 2 := by
  refine ⟨?_, by decide⟩
  simp [qT, NodupSels, NodupSel, aliases, aliasOf]

end Props.C01
