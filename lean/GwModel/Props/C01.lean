import GwModel.Trans.Transparent
import GwModel.Gen.Facts
import GwModel.Point
import GwModel.FindPtsInsert
import GwModel.FindPtsStitch
import GwModel.FindPtsFamily
import GwModel.PlanCover
/-! # C01 — Federated execution is transparent: gateway data equals monolith data

Proved here (model `Tr`, GwModel/Trans): for the core query class (fields, aliases, nested selections,
lists, nulls, cyclic references, arbitrary routing of fields to services and an arbitrary chooser) the
meaning of the plan the planner's recursion produces — evaluate the step's selection at its service, then
for every dependent step walk its insertion path through the reply, through lists and skipping nulls,
and merge what it fetches for each object found there — equals the monolith's evaluation.

The full statement for fragments/directives/arguments stays the target (DESIGN §6 C01); beyond the core
class the property is decided at run time by the L0 correspondence against `Mono.mono`. -/
namespace Props.C01
open Tr Facts

/-- planner facts the transparency argument relies on: one chooser for every way of writing a field,
    steps discovered through a local work list, scrub paths computed from the plan's own operation -/
def PlannerFactsSafe : Prop :=
  Gen.planQueue = .localWorklist ∧ Gen.chooserPlain = .selectLocation ∧ Gen.chooserNamed = .selectLocation ∧
  Gen.chooserInline = .selectLocation ∧ Gen.scrub.source = .ownOperation ∧ Gen.scrub.natural = .aliasIsId ∧
  Gen.scrub.deletesField = true

instance : Decidable PlannerFactsSafe := by unfold PlannerFactsSafe; exact inferInstance

theorem facts_safe : PlannerFactsSafe := by decide

/-- **transparency, core class**: every store, every routing, every chooser, every nesting depth -/
theorem transparent_core (st : Store) (r : Routing) (L T : Nat) (l : List Sel) (o : Obj)
    (h : NodupSels l) :
    applyKids st (splitSels r L T l).2 o (evalSels st o (splitSels r L T l).1 []) = evalSels st o l [] :=
  transparent st r L T l o h

/-- non-vacuity: the smoke-test query has distinct response keys at every level and really is split -/
example : NodupSels qT ∧ (splitSels rT 0 0 qT).2.length = 2 := by
  refine ⟨?_, by decide⟩
  simp [qT, NodupSels, NodupSel, aliases, aliasOf]

/-- **insertion points survive their string encoding**: a realised insertion point is rendered as
    `<key>[:<index>][#<id>]` and parsed back by `executorGetPointData`; whatever the id (':' '#' blanks, any
    unicode, empty) and the index, the parts come back unchanged — "no value is attached to the wrong list
    element" does not depend on what ids look like.  (`Pt.parsePoint`/`Pt.isListElement` are tied to execute.go
    by the L2.point correspondence.) -/
theorem point_roundtrip (key : List Char) (idx : Option Nat) (id : Option (List Char))
    (hk1 : '#' ∉ key) (hk2 : ':' ∉ key) :
    Pt.parsePoint (Pt.renderPoint key idx id) = some ⟨key, idx, id.getD []⟩ :=
  Pt.point_roundtrip key idx id hk1 hk2

theorem point_is_list_element_iff_indexed (key : List Char) (idx : Option Nat) (id : Option (List Char))
    (hk0 : key ≠ []) (hk1 : '#' ∉ key) (hk2 : ':' ∉ key) :
    Pt.isListElement (Pt.renderPoint key idx id) = idx.isSome :=
  Pt.isListElement_render key idx id hk0 hk1 hk2

/-- non-vacuity: an id made of separators only -/
example : Pt.parsePoint (Pt.renderPoint "users".toList (some 12) (some "#:#".toList)) = some ⟨"users".toList, some 12, "#:#".toList⟩ :=
  point_roundtrip _ _ _ (by decide) (by decide)

/-- **a follow-up answer lands on the object it was fetched for.**  Every insertion path the executor realises
    from a reply that has the promised kinds along the target path (`Fp.Conf`) leads, through that reply, to an
    object whose id is the id recorded in the path (the id the follow-up call is made with); and inserting an
    object payload at that path succeeds and merges it into exactly that object.  This is "no value is attached to
    the wrong list element" for the real `executorFindInsertionPoints` + `executorInsertObject` (models tied to
    execute.go by the L2.findpoints and L2.insert correspondences), for every list length, nesting depth, null
    entry and id. -/
theorem follow_up_lands_on_its_object (infos : List Fp.PInfo) (chunk : Ins.KVs) (paths : List (List Fp.RPt))
    (h : Fp.findPts infos chunk [] = .ok paths) (hc : Fp.Conf infos chunk) (path : List Fp.RPt) (hp : path ∈ paths)
    (inc : Ins.KVs) :
    ∃ o x', Fp.walk (.obj chunk) path = some (.obj o) ∧
      (∀ last, path.getLast? = some last → ∃ id, last.id = some id ∧ Ins.lookup 0 o = some id) ∧
      Ins.insertAt (.obj chunk) (path.map Fp.toPt) (.obj inc) = some x' ∧
      Fp.walk x' path = some (.obj (Ins.mergeK o inc)) := by
  obtain ⟨suf, hsuf, _, o, hw, hlast⟩ := Fp.findPts_good infos chunk [] paths h hc path hp
  simp only [List.nil_append] at hsuf
  subst hsuf
  obtain ⟨x', hi, hw'⟩ := Fp.insertAt_walk path (.obj chunk) o inc hw
  exact ⟨o, x', hw, hlast, hi, hw'⟩

/-- **one dependent step, any order, any fan-out: every object gets exactly its own follow-up answer.**
    `paths` are the places `executorFindInsertionPoints` realises for a dependent step in a reply with the promised
    kinds; `payload p` is what the follow-up call for the object at `p` returns; `l` is any selection of the places
    in any order, each once.  All insertions succeed; afterwards the object at each stitched place is the object that
    was there with exactly its own payload merged in, and every place not stitched is as it was.  Nothing is
    attached to the wrong list element, nothing is lost or overwritten by a sibling. -/
theorem every_object_gets_its_own_answer (infos : List Fp.PInfo) (chunk : Ins.KVs) (paths : List (List Fp.RPt))
    (hfind : Fp.findPts infos chunk [] = .ok paths) (hc : Fp.Conf infos chunk) (payload : List Fp.RPt → Ins.KVs)
    (l : List (List Fp.RPt)) (hsub : ∀ p ∈ l, p ∈ paths) (hnd : (l.map Fp.sig).Nodup) :
    ∃ final, l.foldl (Fp.stitchOne payload) (some (.obj chunk)) = some final ∧
      (∀ p ∈ l, ∃ o, Fp.walk (.obj chunk) p = some (.obj o) ∧
        Fp.walk final p = some (.obj (Ins.mergeK o (payload p)))) ∧
      (∀ q ∈ paths, Fp.sig q ∉ l.map Fp.sig → Fp.walk final q = Fp.walk (.obj chunk) q) := by
  have hx : ∀ q ∈ paths, ∃ o, Fp.walk (.obj chunk) q = some (.obj o) := by
    intro q hq
    obtain ⟨suf, hsuf, _, o, hw, _⟩ := Fp.findPts_good infos chunk [] paths hfind hc q hq
    simp only [List.nil_append] at hsuf; subst hsuf
    exact ⟨o, hw⟩
  obtain ⟨final, hfold, _, hmine, hrest⟩ := Fp.step_stitch infos chunk paths hfind payload l (.obj chunk) hsub hnd hx
  refine ⟨final, hfold, ?_, hrest⟩
  intro p hp
  obtain ⟨o, hw⟩ := hx p (hsub p hp)
  exact ⟨o, hw, hmine p hp o hw⟩

/-- **two levels.**  A step's reply `P` is stitched at its own insertion point `ip` into the accumulated response
    (where the object found does not yet hold the field the dependent's path starts with); the places of a dependent
    step are computed from `P` alone, as the executor does; its follow-up answers are then stitched below `ip` in any
    order.  Every insertion succeeds, and each object `P` delivered ends up with exactly its own follow-up answer: the
    places computed from a reply are the right places in the accumulated response. -/
theorem a_step_and_its_follow_ups (acc : Ins.J) (ip : List Fp.RPt) (o P : Ins.KVs) (hPs : Ins.Sorted P)
    (hip : Fp.walk acc ip = some (.obj o)) (i0 : Fp.PInfo) (infos : List Fp.PInfo)
    (hfresh : Ins.lookup i0.key o = none) (paths : List (List Fp.RPt))
    (hfind : Fp.findPts (i0 :: infos) P [] = .ok paths) (hc : Fp.Conf (i0 :: infos) P)
    (payload : List Fp.RPt → Ins.KVs) (l : List (List Fp.RPt)) (hsub : ∀ p ∈ l, p ∈ paths)
    (hnd : (l.map Fp.sig).Nodup) :
    ∃ acc' final, Ins.insertAt acc (ip.map Fp.toPt) (.obj P) = some acc' ∧
      (l.map (ip ++ ·)).foldl (Fp.stitchOne payload) (some acc') = some final ∧
      ∀ p ∈ l, ∃ o', Fp.walk (.obj P) p = some (.obj o') ∧
        Fp.walk final (ip ++ p) = some (.obj (Ins.mergeK o' (payload (ip ++ p)))) :=
  Fp.parent_then_children acc ip o P hPs hip i0 infos hfresh paths hfind hc payload l hsub hnd

/-- **nothing the client asked for is lost by planning** (planner model `Pl`, the whole of plan.go, tied by L1.plan;
    documents without named fragments — inline fragments typed or untyped, nested, with directives, are covered):
    every leaf path of the operation, i.e. the response keys from the root down to a field without sub-selection, is
    found, below the insertion point of some step of the plan, as a leaf path of that step's selection.  For every
    routing table, priority list, wrapper nesting and fuel. -/
theorem no_requested_field_is_lost_by_planning {env : Pl.Env} {fuel : Nat} {operation : String} {sels : List Pl.Sel}
    {steps : List Pl.Step} (h : Pl.planOperation env fuel operation sels = .ok steps) (hns : Pl.noSpreadL sels = true) :
    ∀ x ∈ Pl.leafPathsL sels, ∃ s ∈ steps, ∃ q ∈ Pl.leafPathsL s.sel, x = s.ip ++ q :=
  Pl.planOperation_covers h hns

/-- **every follow-up step is inserted below the step it hangs off** (whole planner model): the insertion point of a
    dependent step extends its parent's — which is what lets the executor search the parent's own reply for the rest
    of the path. -/
theorem follow_ups_are_inserted_below_their_parents {env : Pl.Env} {fuel : Nat} {operation : String} {sels : List Pl.Sel}
    {steps : List Pl.Step} (h : Pl.planOperation env fuel operation sels = .ok steps) :
    ∀ t ∈ steps, ∀ q, t.parent = some q → ∃ s ∈ steps, s.id = q ∧ ∃ rest, t.ip = s.ip ++ rest :=
  Pl.planOperation_ip_below h

/-- non-vacuity: `{ me { firstName ... { lastName } } }` with `lastName` elsewhere: the path me/lastName is asked
    by the step at insertion point [me] -/
example :
    let env : Pl.Env := { routes := [("Query.me", ["A"]), ("User.firstName", ["A"]), ("User.lastName", ["B"])],
                          configured := [], internal := "gw", planFrags := [] }
    let sels : List Pl.Sel := [.field "me" "me" "" [] [] "User"
      [.field "firstName" "firstName" "" [] [] "String" [], .inline "" [] [.field "lastName" "lastName" "" [] [] "String" []]]]
    Pl.noSpreadL sels = true ∧ Pl.leafPathsL sels = [["me", "firstName"], ["me", "lastName"]] ∧
    (Pl.planOperation env 10 "query" sels).toOption.map (fun steps => steps.map fun s => (s.ip, Pl.leafPathsL s.sel)) =
      some [([], [["id"]]), ([], [["me", "firstName"], ["me", "id"]]), (["me"], [["lastName"]])] := by decide

end Props.C01
