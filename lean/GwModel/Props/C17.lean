import GwModel.OpSelect
import GwModel.Gen.Facts
/-! # C17 — Exactly the named operation is executed, unaffected by its neighbours -/
namespace Props.C17
open OpSelect Facts

def SelFactsSafe : Prop := OpSelect.FactsSafe Gen.opSelect ∧ Gen.scrub.source = .ownOperation

instance : Decidable SelFactsSafe := by unfold SelFactsSafe; exact inferInstance

/-- plan selection has the recognised shape and every plan's scrub table comes from its own operation -/
theorem facts_safe : SelFactsSafe := by decide

theorem f_single : Gen.opSelect.singleUsesOnly = true := facts_safe.1.1
theorem f_empty : Gen.opSelect.emptyNameRejected = true := facts_safe.1.2.1
theorem f_match : Gen.opSelect.onlyIfNameMatches = true := facts_safe.1.2.2.2

/-- with several operations, exactly the named one is executed — and its plan is the plan that operation
    gets when it is alone in the document (plans are made operation by operation) -/
theorem named_operation_selected {O P : Type} (nameOf : O → String) (planOp : O → P)
    (ops : List O) (o : O) (hmem : o ∈ ops) (hnd : (ops.map nameOf).Nodup) (hname : nameOf o ≠ "")
    (hmany : 2 ≤ ops.length) :
    selectPlan Gen.opSelect (planDoc nameOf planOp ops) (nameOf o) = .ok (planOp o) ∧
    selectPlan Gen.opSelect (planDoc nameOf planOp [o]) (nameOf o) = .ok (planOp o) := by
  constructor
  · have hfor := forOperation_map nameOf planOp ops o hmem hnd
    unfold selectPlan
    match hops : planDoc nameOf planOp ops with
    | [] => simp [planDoc] at hops; subst hops; simp at hmany
    | [p] =>
      have : (planDoc nameOf planOp ops).length = 1 := by rw [hops]; rfl
      simp [planDoc] at this; omega
    | p :: q :: rest =>
      simp only [f_empty, Bool.true_and]
      have : (nameOf o == "") = false := by simpa using hname
      simp only [this]
      rw [← hops]; exact hfor
  · unfold selectPlan planDoc
    simp [f_single, f_match]

/-- a missing name among several operations is an error -/
theorem missing_name_rejected {P : Type} (p q : String × P) (rest : List (String × P)) :
    selectPlan Gen.opSelect (p :: q :: rest) "" = .error .needName := by
  unfold selectPlan; simp [f_empty]

/-- an unknown name is an error, also when the document has a single operation -/
theorem unknown_name_rejected {P : Type} (plans : List (String × P)) (name : String)
    (hne : name ≠ "") (h : ∀ p ∈ plans, p.1 ≠ name) : ∃ e, selectPlan Gen.opSelect plans name = .error e := by
  unfold selectPlan
  match plans, h with
  | [], _ =>
    have h1 : (name == "") = false := by simpa using hne
    simp only [f_empty, h1, Bool.and_false]
    exact ⟨_, forOperation_unknown [] name (by simp)⟩
  | [p], h =>
    have hp : p.1 ≠ name := h p (by simp)
    have h1 : (name == "") = false := by simpa using hne
    have h2 : (p.1 == name) = false := by simpa using hp
    simp [f_single, f_match, h1, h2]
  | p :: q :: rest, h =>
    have h1 : (name == "") = false := by simpa using hne
    simp only [f_empty, h1, Bool.and_false]
    exact ⟨_, forOperation_unknown _ name h⟩

/-- **names are compared exactly**: of two operations whose names differ only in the case of a letter, the one that is
    named is the one that is executed, and a name that is a case variant of an operation's name without being any
    operation's name selects nothing -/
theorem names_are_compared_exactly {P : Type} (a b : P) :
    selectPlan Gen.opSelect [("Op0", a), ("op0", b)] "op0" = .ok b ∧
    selectPlan Gen.opSelect [("Op0", a), ("op0", b)] "Op0" = .ok a ∧
    (∃ e, selectPlan Gen.opSelect [("Op0", a), ("op0", b)] "OP0" = .error e) ∧
    (∃ e, selectPlan Gen.opSelect [("Op0", a)] "op0" = .error e) := by
  refine ⟨?_, ?_, ?_, ?_⟩
  · unfold selectPlan; simp [f_empty, forOperation]
  · unfold selectPlan; simp [f_empty, forOperation]
  · exact unknown_name_rejected _ "OP0" (by decide) (by intro p hp; simp at hp; rcases hp with rfl | rfl <;> simp)
  · exact unknown_name_rejected _ "op0" (by decide) (by intro p hp; simp at hp; subst hp; simp)

/-- non-vacuity -/
example : (selectPlan Gen.opSelect [("A", 1), ("B", 2)] "B").toOption = some 2 ∧
          (selectPlan Gen.opSelect [("A", 1)] "Z").toOption = none := by
  decide

end Props.C17
