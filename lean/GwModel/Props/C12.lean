import GwModel.CacheRun
import GwModel.Gen.Facts
/-! # C12 — The query-plan cache is transparent

Model: `PCache` — `AutomaticQueryPlanCache.Retrieve` split into its atomic steps (Load by client hash /
plan / LoadOrStore under the hash, or under the sha256 of the text when none was sent), arbitrary
interleaving of in-flight requests, garbage collection as a filter on last-use times.  `planOf` (the
planner), `sha` and `textOf` (the text a hash stands for in a consistent history) are parameters. -/
namespace Props.C12
open PCache Facts

def CacheFactsSafe : Prop :=
  Gen.cache.storeOp = .loadOrStore ∧ Gen.cache.touchOnHit = true ∧ Gen.cache.evict = .lastUsedBeforeNowMinusTtl ∧
  Gen.cache.keyIsShaOfText = true ∧ Gen.cache.missWithoutQueryIsNotFound = true ∧ Gen.cache.planErrorNotStored = true

instance : Decidable CacheFactsSafe := by unfold CacheFactsSafe; exact inferInstance

theorem facts_safe : CacheFactsSafe := by decide

variable {Plan Err : Type} (planOf : Text → Except Err Plan) (sha : Text → Hash) (ttl : Nat) (textOf : Hash → Text)

/-- any single atomic step of any in-flight request, whatever the other requests have done to the cache in
    between: the cache keeps holding only plans of the texts its keys stand for, and a response, if produced,
    is the cache-less one or NotFound for a text-less request -/
theorem every_step_sound (s : St Plan Err) (r : Req Plan)
    (hc : CacheOK planOf textOf s.cache) (hr : ReqOK planOf sha textOf r) :
    let (c', r', resp) := stepReq planOf sha s r
    CacheOK planOf textOf c' ∧
    (∀ r'', r' = some r'' → ReqOK planOf sha textOf r'' ∧ r''.query = r.query ∧ r''.hash = r.hash) ∧
    (∀ x, resp = some x → Sound planOf textOf r x) :=
  stepReq_sound planOf sha textOf s r hc hr

/-- every history of requests, idle periods and collections -/
theorem every_history_sound (es : List (Ev Plan)) (cache : List (Entry Plan))
    (hc : CacheOK planOf textOf cache) (hr : ∀ e ∈ es, ReqOK planOf sha textOf e.req) :
    CacheOK planOf textOf (runHistory planOf sha ttl (Err := Err) cache es).2 ∧
    ∀ (i : Nat) (e : Ev Plan) x, es[i]? = some e → (runHistory planOf sha ttl (Err := Err) cache es).1[i]? = some (some x) →
      Sound planOf textOf e.req x :=
  runHistory_sound planOf sha ttl textOf es cache hc hr

/-- expiry never removes an entry used within the TTL -/
theorem expiry_only_removes_stale {c : List (Entry Plan)} {now : Nat} {e : Entry Plan}
    (he : e ∈ c) (hgone : e ∉ gc ttl c now) : e.lastUsed + ttl < now :=
  gc_evicts_only_stale ttl he hgone

end Props.C12
