import GwModel.Trans.Local
import GwModel.PlanTerm
import GwModel.Select
import GwModel.ExecFacts
import GwModel.Gen.Facts
import GwModel.FindPtsInsert
import GwModel.PlanShape
/-! # C13 — Every fetch is issued exactly once and no hop is needless -/
namespace Props.C13
open Facts

def FactsSafe : Prop :=
  Sel.FactsSafe Gen.selectLoc ∧ Gen.chooserPlain = .selectLocation ∧ Gen.chooserNamed = .selectLocation ∧
  Gen.chooserInline = .selectLocation ∧ ExecM.FactsSafe Gen.exec ∧ Gen.planQueue = .localWorklist

instance : Decidable FactsSafe := by unfold FactsSafe; exact inferInstance

theorem facts_safe : FactsSafe := by decide

/-- no needless hop, chooser level: without an applicable priority a field offered by the service already
    being queried stays there -/
theorem stays_with_parent (possible configured : List Sel.Loc) (parent internal : Sel.Loc)
    (hnone : configured.find? (fun q => decide (q ∈ possible)) = none) (hpar : parent ∈ possible) :
    Sel.selectLocation Gen.selectLoc possible configured parent internal = some parent := by
  have ho : Gen.selectLoc.order = [.configured, .parent, .internal] := facts_safe.1.2.2.2
  unfold Sel.selectLocation; rw [ho, Sel.prioOf_safe]; exact Sel.choose_parent hnone hpar

/-- **no needless hop, plan level, whole planner** (model `Pl`, tied to plan.go by L1.plan): in every plan — any
    document, fragments, wrappers, routing table, priorities, fuel — the step a follow-up step hangs off is at a
    service the chooser leaves for some field; so a step at a service that keeps everything it is asked has no
    follow-up steps … -/
theorem follow_ups_only_below_services_the_chooser_leaves {env : Pl.Env} {fuel : Nat} {operation : String}
    {sels : List Pl.Sel} {steps : List Pl.Step} (h : Pl.planOperation env fuel operation sels = .ok steps) :
    ∀ t ∈ steps, ∀ q, t.parent = some q → ∃ s ∈ steps, s.id = q ∧ ¬ Pl.AllLocal env s.location :=
  Pl.planOperation_no_needless_hop h

/-- … and a service keeps everything it is asked when no priorities are configured and it offers every field of
    the routing table -/
theorem a_service_offering_everything_keeps_everything {env : Pl.Env} {L : Pl.Loc} (hp : env.configured = [])
    (hall : ∀ k possible, env.routes.lookup k = some possible → L ∈ possible) : Pl.AllLocal env L :=
  Pl.allLocal_of_offers_everything hp hall

/-- no needless hop, plan level (core query class): if the chooser keeps every field at the current
    service, the split creates no dependent step at all — the query is answered by a single request -/
theorem single_service_single_step (r : Tr.Routing) (L T : Nat) (l : List Tr.Sel)
    (h : ∀ T f, r.choose T f L = L) : (Tr.splitSels r L T l).2 = [] ∧ (Tr.splitSels r L T l).1 = l := by
  rw [Tr.splitSels_local r L h T l]; exact ⟨rfl, rfl⟩

/-- exactly once, executor level: whatever the schedule, when `Execute` returns every task (one per
    (step, realised parent object)) has been merged, and none twice -/
theorem every_task_merged_exactly_once (ts : ExecM.Tasks) (hwf : ExecM.WF ts) {s : ExecM.St}
    (hr : ExecM.Reach (ExecM.cfgOfFacts Gen.exec) ts s) (hret : s.returned = true) :
    s.order.Nodup ∧ ∀ t, t ∈ s.order ↔ t < ts.length :=
  have hs := ExecM.cfg_safe_of_facts facts_safe.2.2.2.2.1
  ⟨(ExecM.order_respectful hs hwf hr).1, ExecM.order_complete hs hwf hr hret⟩

/-- exactly once, insertion-point level: whatever the reply looks like (well-formed or not), the places a
    dependent step is started for are pairwise different — no object is fetched, and no place is written, twice
    by one step.  (`Fp.findPts` is tied to executorFindInsertionPoints by the L2.findpoints correspondence.) -/
theorem follow_ups_at_distinct_places (infos : List Fp.PInfo) (chunk : Ins.KVs) (pre : List Fp.RPt)
    (paths : List (List Fp.RPt)) (h : Fp.findPts infos chunk pre = .ok paths) : (paths.map Fp.sig).Nodup :=
  Fp.findPts_nodup infos chunk pre paths h

/-- non-vacuity: two users, the second without id (a fragment did not apply to it), three photos under the first -/
example :
    (Fp.findPts [⟨1, true, true, true⟩, ⟨2, true, true, false⟩]
      [(1, .arr [.obj [(0, .leaf "\"u1\""), (2, .arr [.obj [(0, .leaf "\"p1\"")], .null, .obj [(0, .leaf "\"p2\"")]])],
                 .obj [(2, .arr [])]])] []).toOption.map (fun ps => ps.map Fp.sig) =
      some [[(1, some 0), (2, some 0)], [(1, some 0), (2, some 2)]] := by decide

/-- non-vacuity: a routing that keeps everything local, on the smoke-test query -/
example : (Tr.splitSels { choose := fun _ _ L => L, ftype := fun _ _ => 0 } 0 0 Tr.qT).2 = [] := by decide

/-- **no client field is asked for twice** (planner model `Pl`, documents without named fragments): over all steps of
    the plan the client's fields the steps ask their services for, counted with multiplicity, are at most the fields
    of the client's document (`Pl.cfcL` counts the client's fields; the `id` the planner adds is not one).  With
    `Props.C01.no_requested_field_is_lost_by_planning` every requested field is asked for exactly once. -/
theorem no_client_field_is_asked_for_twice {env : Pl.Env} {fuel : Nat} {operation : String} {sels : List Pl.Sel}
    {steps : List Pl.Step} (hns : Pl.noSpreadL sels = true) (h : Pl.planOperation env fuel operation sels = .ok steps) :
    Pl.asked steps ≤ Pl.cfcL sels := Pl.planOperation_no_field_twice hns h

/-- **no step only carries plumbing**: every step other than the (empty) root step asks its service for at least one of
    the client's fields — a hop is never made for nothing (`Pl.planOperation_no_empty_step`: every pending step is
    anchored at its location by a client field whose service is chosen again when asked from that service) -/
theorem every_step_fetches_something_the_client_asked_for {env : Pl.Env} {fuel : Nat} {operation : String}
    {sels : List Pl.Sel} {steps : List Pl.Step} (hns : Pl.noSpreadL sels = true) (hu : Pl.unmarkedL sels = true)
    (h : Pl.planOperation env fuel operation sels = .ok steps) : ∀ s ∈ steps, s.id ≠ 0 → 1 ≤ Pl.cfcL s.sel :=
  Pl.planOperation_no_empty_step hns hu h

/-- non-vacuity: `{ me { firstName lastName } }` with `lastName` elsewhere: three client fields, three asked for -/
def exEnv2 : Pl.Env :=
  { routes := [("Query.me", ["A"]), ("User.firstName", ["A"]), ("User.lastName", ["B"]), ("User.id", ["A", "B"])],
    configured := [], internal := "gw", planFrags := [] }
def exSels2 : List Pl.Sel :=
  [.field "me" "me" "" [] [] "User" [.field "firstName" "firstName" "" [] [] "String" [],
                                      .field "lastName" "lastName" "" [] [] "String" []]]
example : (Pl.planOperation exEnv2 10 "query" exSels2).toOption.map Pl.asked = some 3 ∧ Pl.cfcL exSels2 = 3 := by decide

end Props.C13
