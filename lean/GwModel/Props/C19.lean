import GwModel.Middleware
import GwModel.Gen.Facts
/-! # C19 — Middlewares run exactly once, in order, on success and on failure -/
namespace Props.C19
open Mw Facts

def MwFactsSafe : Prop := Mw.FactsSafe Gen.mw ∧ Gen.requestMwEveryCall = true

instance : Decidable MwFactsSafe := by unfold MwFactsSafe; exact inferInstance

/-- gateway.go: scrubber first, user middlewares appended in order, the loop is not guarded by the executor's
    error, a middleware error returns (nil, err), otherwise (result, executeErr); execute.go: request
    middlewares are handed to every queryer that accepts them before each call -/
theorem facts_safe : MwFactsSafe := by decide

theorem all_run_once_in_order {D E : Type} (ms : List (RMw D E)) (d : D)
    (h : ∀ m ∈ ms, ∀ x, ∃ y, m.run x = .ok y) :
    (runLoop ms d).1 = ms.map (·.id) ∧ ∃ d', (runLoop ms d).2 = .ok d' := runLoop_all_ok ms d h

theorem never_twice_never_out_of_order {D E : Type} (ms : List (RMw D E)) (d : D) :
    ∃ rest, ms.map (·.id) = (runLoop ms d).1 ++ rest := runLoop_log_prefix ms d

theorem first_error_aborts {D E : Type} (pre : List (RMw D E)) (m : RMw D E) (post : List (RMw D E)) (d : D)
    (hpre : ∀ p ∈ pre, ∀ x, ∃ y, p.run x = .ok y) (e : E) (hm : ∀ x, m.run x = .error e) :
    (runLoop (pre ++ m :: post) d).1 = pre.map (·.id) ++ [m.id] ∧ (runLoop (pre ++ m :: post) d).2 = .error e :=
  runLoop_first_failure pre m post d hpre e hm

theorem same_on_success_and_failure {D E : Type} (scrub : RMw D E) (user : List (RMw D E)) (result : D) (e₁ e₂ : Option E) :
    (execute scrub user result e₁).1 = (execute scrub user result e₂).1 :=
  execute_log_independent_of_exec_error scrub user result e₁ e₂

theorem scrubber_runs_first {D E : Type} (scrub : RMw D E) (user : List (RMw D E)) (result : D) (ee : Option E) :
    (execute scrub user result ee).1.head? = some scrub.id := execute_scrub_first scrub user result ee

theorem data_left_is_data_returned {D E : Type} (scrub : RMw D E) (user : List (RMw D E)) (result d : D) (ee : Option E)
    (h : (runLoop (scrub :: user) result).2 = .ok d) : (execute scrub user result ee).2 = (some d, ee) :=
  execute_returns_middleware_data scrub user result d ee h

/-- non-vacuity: scrubber 0, then 1 (ok), 2 (fails), 3 (never runs) -/
example : (execute (D := Nat) (E := String) ⟨0, fun d => .ok (d + 1)⟩
    [⟨1, fun d => .ok (d * 2)⟩, ⟨2, fun _ => .error "no"⟩, ⟨3, fun d => .ok d⟩] 5 none).1 = [0, 1, 2] := by decide

end Props.C19
