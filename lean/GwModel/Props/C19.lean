import GwModel.Middleware
import GwModel.NewOpts
import GwModel.Gen.Facts
/-! # C19 — Middlewares run exactly once, in order, on success and on failure -/
namespace Props.C19
open Mw Facts

def MwFactsSafe : Prop := Mw.FactsSafe Gen.mw ∧ Gen.requestMwEveryCall = true ∧
  -- how New takes its options (model Nw): WithMiddlewares adds to the list, every other option writes its own field
  Gen.newOpts.middlewaresAdd = true

instance : Decidable MwFactsSafe := by unfold MwFactsSafe; exact inferInstance

/-- gateway.go: scrubber first, user middlewares appended in order, the loop is not guarded by the executor's
    error, a middleware error returns (nil, err), otherwise (result, executeErr); execute.go: request
    middlewares are handed to every queryer that accepts them before each call -/
theorem facts_safe : MwFactsSafe := by decide

theorem all_run_once_in_order {D E : Type} (ms : List (RMw D E)) (d : D)
    (h : ∀ m ∈ ms, ∀ x, ∃ y, m.run x = .ok y) :
    (runLoop ms d).1 = ms.map (·.id) ∧ ∃ d', (runLoop ms d).2 = .ok d' := runLoop_all_ok ms d h

theorem never_twice_never_out_of_order {D E : Type} (ms : List (RMw D E)) (d : D) :
    ∃ rest, ms.map (·.id) = (runLoop ms d).1 ++ rest := runLoop_log_prefix ms d

theorem first_error_aborts {D E : Type} (pre : List (RMw D E)) (m : RMw D E) (post : List (RMw D E)) (d : D)
    (hpre : ∀ p ∈ pre, ∀ x, ∃ y, p.run x = .ok y) (e : E) (hm : ∀ x, m.run x = .error e) :
    (runLoop (pre ++ m :: post) d).1 = pre.map (·.id) ++ [m.id] ∧ (runLoop (pre ++ m :: post) d).2 = .error e :=
  runLoop_first_failure pre m post d hpre e hm

theorem same_on_success_and_failure {D E : Type} (scrub : RMw D E) (user : List (RMw D E)) (result : D) (e₁ e₂ : List E) :
    (execute scrub user result e₁).1 = (execute scrub user result e₂).1 :=
  execute_log_independent_of_exec_error scrub user result e₁ e₂

theorem scrubber_runs_first {D E : Type} (scrub : RMw D E) (user : List (RMw D E)) (result : D) (ee : List E) :
    (execute scrub user result ee).1.head? = some scrub.id := execute_scrub_first scrub user result ee

theorem data_left_is_data_returned {D E : Type} (scrub : RMw D E) (user : List (RMw D E)) (result d : D) (ee : List E)
    (h : (runLoop (scrub :: user) result).2 = .ok d) : (execute scrub user result ee).2 = (some d, ee) :=
  execute_returns_middleware_data scrub user result d ee h

/-- a failing middleware aborts the request: no data, and its error is returned — after the errors the execution had
    reported, which it does not hide -/
theorem a_failing_middleware_leaves_no_data {D E : Type} (scrub : RMw D E) (user : List (RMw D E)) (result : D)
    (ee : List E) (e : E) (h : (runLoop (scrub :: user) result).2 = .error e) :
    (execute scrub user result ee).2 = (none, ee ++ [e]) := execute_error_no_data scrub user result ee e h

/-- **`New` (model `Nw`, tied by L2.new-options): the middlewares of all `WithMiddlewares` options, in the order
    given, split into response and request middlewares** — two options amount to one with the lists joined, and
    options of other kinds in between change nothing -/
theorem middleware_options_add (pre post : List Nw.Opt) (ms1 ms2 : List Nw.MwRef) :
    Nw.build (pre ++ .middlewares ms1 :: .middlewares ms2 :: post) = Nw.build (pre ++ .middlewares (ms1 ++ ms2) :: post) :=
  Nw.middlewares_add pre post ms1 ms2

theorem middlewares_of_all_options_in_order (opts : List Nw.Opt) :
    (Nw.build opts).response = ((opts.flatMap Nw.mwsOf).filter (·.isResponse)).map (·.id) ∧
    (Nw.build opts).request = ((opts.flatMap Nw.mwsOf).filter (fun m => !m.isResponse)).map (·.id) := by
  rw [Nw.build_eq]; exact ⟨rfl, rfl⟩

theorem option_order_across_kinds_is_immaterial (pre post : List Nw.Opt) (a b : Nw.Opt) (h : Nw.kind a ≠ Nw.kind b) :
    Nw.build (pre ++ a :: b :: post) = Nw.build (pre ++ b :: a :: post) := Nw.build_swap pre post a b h

/-- non-vacuity -/
example : Nw.build [.middlewares [⟨true, 1⟩, ⟨false, 2⟩], .planner 3, .middlewares [⟨true, 4⟩], .priorities ["B"]] =
    { planner := 3, toldPriorities := some ["B"], toldFactory := none, response := [1, 4], request := [2] } := by decide

/-- non-vacuity: scrubber 0, then 1 (ok), 2 (fails), 3 (never runs) -/
example : (execute (D := Nat) (E := String) ⟨0, fun d => .ok (d + 1)⟩
    [⟨1, fun d => .ok (d * 2)⟩, ⟨2, fun _ => .error "no"⟩, ⟨3, fun d => .ok d⟩] 5 []).1 = [0, 1, 2] := by decide

end Props.C19
