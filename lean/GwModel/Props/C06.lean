import GwModel.ExecFacts
import GwModel.Gen.Facts
/-! # C06 — Execution always terminates, after all its work, leaving nothing behind

Model: `ExecM` (GwModel/Exec/Machine.lean) — the goroutine/channel/wait-group skeleton of
`ParallelExecutor.Execute`, `executeStep` and the collector, for an arbitrary task forest `ts`
(one task per (plan step, realised insertion point); `failed` marks calls that err).
The configuration is *read from the source on every run* (`Gen.exec`, produced by gwfacts). -/
namespace Props.C06
open ExecM

/-- the proof obligation that ties the theorems to the current execute.go -/
theorem facts_safe : FactsSafe Gen.exec := by decide

def cfg : Cfg := cfgOfFacts Gen.exec
theorem cfg_safe : cfg.Safe := cfg_safe_of_facts facts_safe

/-- never blocks forever: every reachable state that has not returned can take a step — for any plan
    size, fan-out and number of failing calls -/
theorem never_blocks (ts : Tasks) (hwf : WF ts) {s : St} (hr : Reach cfg ts s) (h : s.returned = false) :
    ∃ a s', step cfg ts s a = some s' :=
  deadlock_free cfg_safe hwf hr h

/-- and every schedule is finite: at most 5·n+1 machine steps -/
theorem bounded_runs (ts : Tasks) (hwf : WF ts) {s s' : St} {as : List Act}
    (hr : Reach cfg ts s) (h : run cfg ts s as = some s') : as.length + mu ts s' ≤ mu ts s :=
  run_length_bounded cfg_safe hwf as hr h

/-- returns only after every call's result has been merged (and acknowledged) -/
theorem returns_after_everything (ts : Tasks) (hwf : WF ts) {s : St} (hr : Reach cfg ts s)
    (h : s.returned = true) : ∀ t < ts.length, t ∈ s.order ∧ s.held ≠ some t :=
  returns_after_all_merged cfg_safe hwf hr h

/-- no send on a closed channel, no negative wait-group counter -/
theorem never_crashes (ts : Tasks) (hwf : WF ts) {s : St} (hr : Reach cfg ts s) : s.crashed = false :=
  no_crash cfg_safe hwf hr

/-- necessity: with the collector forwarding step errors into its own bounded channel (the shape of the
    code before the repair, D23) 11 failing calls reach a state where nothing can move. -/
def cfgSelfSend : Cfg := { cap := 10, errCap := 10, selfSend := true, order := safeOrder }

/-- non-vacuity: a concrete forest meets the hypotheses and a run reaches `returned` -/
example : WF two ∧ (run cfg two (init two)
    [.eff 0, .eff 0, .eff 0, .recv, .done, .eff 1, .eff 1, .eff 1, .recv, .done, .ret]).map (·.returned) = some true := by
  refine ⟨?_, by decide⟩
  intro c p h
  match c, h with
  | 0, h => simp [parentOf, two] at h
  | 1, h => simp [parentOf, two] at h; omega
  | c + 2, h => simp [parentOf, two] at h

end Props.C06
