import GwModel.Select
import GwModel.Gen.Facts
import GwModel.PlanPlaced
import GwModel.NewOpts
import GwModel.UrlMap
/-! # C20 — Multi-homed fields are fetched by priority, then locality

The chooser of plan.go is modelled by `Sel.selectLocation`, instantiated with the priority order extracted
from the source (`Gen.selectLoc`); which expression picks the location for a plain field, for a field of an
inline fragment and for a field of a named fragment is extracted as well (`Gen.chooser*`). -/
namespace Props.C20
open Facts Sel

def ChooserFactsSafe : Prop :=
  Sel.FactsSafe Gen.selectLoc ∧ Gen.chooserPlain = .selectLocation ∧ Gen.chooserNamed = .selectLocation ∧
  Gen.chooserInline = .selectLocation ∧
  -- how New takes its options (model Nw): the options only write fields; the planner installed by then is handed
  -- the priorities after the loop over the options
  Gen.newOpts.plannerSets = true ∧ Gen.newOpts.prioritiesSet = true ∧ Gen.newOpts.handOverAfterOptions = true

instance : Decidable ChooserFactsSafe := by unfold ChooserFactsSafe; exact inferInstance

/-- one chooser, with the order configured priorities → parent → gateway, for all three ways of writing a field -/
theorem facts_safe : ChooserFactsSafe := by decide

theorem order_is : Gen.selectLoc.order = [.configured, .parent, .internal] := facts_safe.1.2.2.2

/-- the source denotes the specified rule — the one the driver answers the correspondence with -/
theorem source_is_spec (possible configured : List Loc) (parent internal : Loc) :
    selectLocation Gen.selectLoc possible configured parent internal = selectLocation Sel.spec possible configured parent internal :=
  selectLocation_of_safe facts_safe.1 possible configured parent internal

theorem unfold_select (possible configured : List Loc) (parent internal : Loc) :
    selectLocation Gen.selectLoc possible configured parent internal = choose possible (configured ++ [parent, internal]) := by
  unfold selectLocation; rw [order_is, prioOf_safe]

/-- the first service of the configured priority list that offers the field wins -/
theorem priority_first (possible configured : List Loc) (parent internal p : Loc)
    (hmulti : 2 ≤ possible.length)
    (hp : configured.find? (fun q => decide (q ∈ possible)) = some p) :
    selectLocation Gen.selectLoc possible configured parent internal = some p := by
  rw [unfold_select]; exact choose_priority hmulti hp

/-- without an applicable priority the field stays with the service already being queried, if it offers it -/
theorem then_locality (possible configured : List Loc) (parent internal : Loc)
    (hnone : configured.find? (fun q => decide (q ∈ possible)) = none) (hpar : parent ∈ possible) :
    selectLocation Gen.selectLoc possible configured parent internal = some parent := by
  rw [unfold_select]; exact choose_parent hnone hpar

/-- the gateway's own fields are answered by the gateway -/
theorem gateway_fields_local (possible configured : List Loc) (parent internal : Loc)
    (hmulti : 2 ≤ possible.length)
    (hnone : configured.find? (fun q => decide (q ∈ possible)) = none) (hpar : parent ∉ possible)
    (hint : internal ∈ possible) :
    selectLocation Gen.selectLoc possible configured parent internal = some internal := by
  rw [unfold_select]; exact choose_internal hmulti hnone hpar hint

/-- the choice is a declaring service and is stable under re-asking from the chosen service -/
theorem chosen_declares (possible configured : List Loc) (parent internal l : Loc)
    (h : selectLocation Gen.selectLoc possible configured parent internal = some l) : l ∈ possible :=
  choose_mem h

theorem chosen_stable (possible configured : List Loc) (parent internal l : Loc)
    (h : selectLocation Gen.selectLoc possible configured parent internal = some l) :
    selectLocation Gen.selectLoc possible configured l internal = some l := by
  rw [unfold_select] at h ⊢; exact choose_stable h

/-- **an entry of the configured list that does not offer the field changes nothing, wherever it stands**: a blank,
    a name no service has, a service that does not declare the field — the entries after it keep their rank -/
theorem entries_that_do_not_offer_the_field_are_immaterial (possible pre post : List Loc) (x parent internal : Loc)
    (hx : x ∉ possible) :
    selectLocation Gen.selectLoc possible (pre ++ x :: post) parent internal =
    selectLocation Gen.selectLoc possible (pre ++ post) parent internal := by
  rw [unfold_select, unfold_select]
  have h1 : (pre ++ x :: post) ++ [parent, internal] = pre ++ x :: (post ++ [parent, internal]) := by simp
  have h2 : (pre ++ post) ++ [parent, internal] = pre ++ (post ++ [parent, internal]) := by simp
  rw [h1, h2]; exact choose_skip_irrelevant possible pre _ x hx

/-- **naming a service twice changes nothing**: its first occurrence is its rank and what follows the repetition
    keeps its order (a list that is "cleaned" of repetitions must therefore keep the order of what remains) -/
theorem a_repeated_entry_is_immaterial (possible pre mid post : List Loc) (x parent internal : Loc) :
    selectLocation Gen.selectLoc possible (pre ++ x :: (mid ++ x :: post)) parent internal =
    selectLocation Gen.selectLoc possible (pre ++ x :: (mid ++ post)) parent internal := by
  rw [unfold_select, unfold_select]
  have h1 : (pre ++ x :: (mid ++ x :: post)) ++ [parent, internal] = pre ++ x :: (mid ++ x :: (post ++ [parent, internal])) := by simp
  have h2 : (pre ++ x :: (mid ++ post)) ++ [parent, internal] = pre ++ x :: (mid ++ (post ++ [parent, internal])) := by simp
  rw [h1, h2]; exact choose_repeat_irrelevant possible pre mid _ x

example : selectLocation Gen.selectLoc ["B", "C"] ["", "C", "B"] "A" "gw" = some "C" ∧
          selectLocation Gen.selectLoc ["B", "C"] ["A", "A", "C", "B"] "A" "gw" = some "C" := by decide

/-- **the table the chooser reads lists a field's services once per registration, in the order of registration** —
    whatever the locations look like next to one another (one a prefix or a substring of the other) and however long
    the key is (`Um`, the model of FieldURLMap, tied by L2.urlmap) -/
theorem registered_locations_are_listed_in_order (m : Um.Tbl) (parent field : String) (a b : Um.Loc)
    (h : Um.get m (Um.keyFor parent field) = none) :
    Um.urlFor (Um.register m parent field [a, b]) parent field = .ok [a, b] := Um.register_two m parent field a b h

/-- registering a location for one field leaves every other field's list as it was -/
theorem registering_elsewhere_changes_nothing (m : Um.Tbl) (parent field parent' field' : String) (loc : Um.Loc)
    (hne : Um.keyFor parent' field' ≠ Um.keyFor parent field) :
    Um.urlFor (Um.register1 m parent field loc) parent' field' = Um.urlFor m parent' field' :=
  Um.urlFor_register1_other m parent field parent' field' loc hne

/-- **concatenating the tables of the services keeps their order**: a field's list is what the table had followed
    by what the concatenated one has (the order the chooser's fallback "first declared location" relies on) -/
theorem concatenated_tables_keep_the_order_of_the_services (m other : Um.Tbl) (hnd : (other.map (·.1)).Nodup)
    (key : String) (a b : List Um.Loc) (ha : Um.get m key = some a) (hb : other.lookup key = some b) :
    Um.get (Um.concat m other) key = some (a ++ b) := by
  rw [Um.get_concat other hnd m key, ha, hb]

/-- and what was registered is found, as the last entry of the field's list -/
theorem a_registered_location_is_found (m : Um.Tbl) (parent field : String) (loc : Um.Loc) :
    ∃ before, Um.urlFor (Um.register1 m parent field loc) parent field = .ok (before ++ [loc]) := by
  obtain ⟨b, h, _⟩ := Um.urlFor_register1 m parent field loc
  exact ⟨b, h⟩

/-- non-vacuity -/
example : selectLocation Gen.selectLoc ["A", "B", "C"] ["Z", "C", "B"] "A" "gw" = some "C" ∧
          selectLocation Gen.selectLoc ["A", "B"] ["Z"] "B" "gw" = some "B" ∧
          selectLocation Gen.selectLoc ["A", "gw"] [] "B" "gw" = some "gw" := by decide

/-- **plan level, whole planner** (model `Pl`, tied to plan.go by L1.plan): every field a step asks its service for —
    written plain, inside inline fragments or inside named fragments, at every depth of the step's selection and of the
    fragment definitions it carries — is the join id or a field the rule (configured priorities, then the service
    already being asked, then the gateway, then the first service offering it) assigns to that very service when
    asked from it.  For every routing table, priority list, document and fuel. -/
theorem every_field_is_fetched_where_the_rule_puts_it {env : Pl.Env} {fuel : Nat} {operation : String}
    {sels : List Pl.Sel} {steps : List Pl.Step} (h : Pl.planOperation env fuel operation sels = .ok steps) :
    ∀ s ∈ steps, Pl.PlacedSels env s.location s.parentType s.sel ∧
      ∀ f ∈ s.frags, Pl.PlacedSels env s.location f.cond f.sub :=
  fun s hs => Pl.planOperation_placed h s hs

/-- the rule is stable under re-asking: a field assigned to a service is assigned to it again when asked from it -/
theorem asked_again_chosen_again {env : Pl.Env} {pl : Pl.Loc} {T f : String} {l : Pl.Loc}
    (h : Pl.locate env pl T f = .ok l) : Pl.locate env l T f = .ok l :=
  Pl.locate_stable h

/-- **the configured priorities reach the planner that is installed, wherever its option stands** (`Nw`, the model
    of how `New` takes its options, tied by L2.new-options) -/
theorem priorities_reach_the_installed_planner (p : Nat) (l : List String) (rest : List Nw.Opt)
    (hp : ∀ o ∈ rest, Nw.plannerOf o = none ∧ Nw.prioritiesOf o = none) :
    let b1 := Nw.build (.planner p :: .priorities l :: rest)
    let b2 := Nw.build (.priorities l :: .planner p :: rest)
    b1 = b2 ∧ b1.planner = p ∧ b1.toldPriorities = some l := Nw.priorities_reach_the_planner p l rest hp

/-- … in general: the installed planner is the last one given (else the default) and is told the last priority list -/
theorem the_last_planner_is_told_the_last_priorities (opts : List Nw.Opt) :
    (Nw.build opts).planner = (Nw.lastSome Nw.plannerOf opts).getD 0 ∧
    (Nw.build opts).toldPriorities = Nw.lastSome Nw.prioritiesOf opts := by
  rw [Nw.build_eq]; exact ⟨rfl, rfl⟩

/-- non-vacuity -/
example : (Nw.build [.priorities ["B", "A"], .other, .planner 2]).toldPriorities = some ["B", "A"] ∧
    (Nw.build [.planner 2, .priorities ["B", "A"]]).toldPriorities = some ["B", "A"] := by decide

end Props.C20
