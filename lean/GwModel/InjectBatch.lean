import GwModel.InjectLemmas
/-! A member of a multipart batch gets from a map path exactly what it gets when it is sent alone (C16 ∩ C18).

    `injectPath` on a batch reads a leading batch index and then does, to the operation it selects, what it does to
    the only operation of a single request with the rest of the path.  `afterSelection` is that common part; the two
    ways in (`batch = true` with parts `p :: rest`, `batch = false` with parts `rest`) are related through it. -/
namespace InjF
open Inj

/-- what `injectPath` does once the operation index and the remaining parts are known -/
def afterSelection (ops : Ops) (f : Nat) (idx : Nat) (parts : List String) : Except Err Ops :=
  match ops[idx]? with
  | none => .error .batchIndexOutOfRange
  | some vars =>
    match parts with
    | [] => .error .noVariables
    | p :: rest =>
      if p ≠ "variables" then .error .noVariables
      else if rest.isEmpty then .error .tooFewParts
      else match setAtGo f vars rest with
        | .ok v' => .ok (ops.set idx v')
        | .error e => .error (.walk e)

/-- a single request: the whole path is walked in the only operation -/
theorem injectPath_single (ops : Ops) (f : Nat) (path : String) :
    injectPath ops false f path = afterSelection ops f 0 (splitDots path) := by
  unfold injectPath afterSelection
  simp only [Bool.false_eq_true, if_false]
  rfl

/-- a batch: the first part selects the member, the rest is walked in it -/
theorem injectPath_batch (ops : Ops) (f : Nat) (path : String) (p : String) (rest : List String) (i : Nat)
    (hparts : splitDots path = p :: rest) (hidx : atoi p = some (Int.ofNat i)) :
    injectPath ops true f path = afterSelection ops f i rest := by
  unfold injectPath afterSelection
  simp only [if_true, hparts, hidx]
  rfl

/-- the common part touches the selected operation only, and does to it what it does to it alone -/
theorem afterSelection_member (ops : Ops) (f : Nat) (i : Nat) (parts : List String) (v : J) (hv : ops[i]? = some v) :
    afterSelection ops f i parts = (afterSelection [v] f 0 parts).map (fun one => ops.set i (one.headD v)) := by
  unfold afterSelection
  simp only [hv, List.getElem?_cons_zero]
  cases parts with
  | nil => rfl
  | cons p rest =>
    simp only
    split
    · rfl
    · split
      · rfl
      · cases setAtGo f v rest with
        | ok v' => simp [Except.map]
        | error e => rfl

/-- **a member of a batch gets from a map path what it gets alone**: for a batch path `i.<path'>` (the parts of the
    whole are the index followed by the parts of `path'`), injecting it into the batch is injecting `path'` into
    member `i` sent alone, and every other member is left as it was -/
theorem batch_member_gets_what_it_gets_alone (ops : Ops) (f : Nat) (path path' : String) (p : String) (i : Nat) (v : J)
    (hparts : splitDots path = p :: splitDots path') (hidx : atoi p = some (Int.ofNat i)) (hv : ops[i]? = some v) :
    injectPath ops true f path = (injectPath [v] false f path').map (fun one => ops.set i (one.headD v)) := by
  rw [injectPath_batch ops f path p (splitDots path') i hparts hidx, injectPath_single,
    afterSelection_member ops f i (splitDots path') v hv]

end InjF
