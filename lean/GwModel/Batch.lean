/-! Model of the batch handler's result table (http.go GraphQLHandler / setResultFunc): the table has one slot
    per operation; operation `i`, whenever it completes, writes its response into slot `i` (under a mutex: one
    write at a time); the handler serialises the table after all operations have completed. -/
namespace Batch

/-- write response `r` into slot `i` -/
def write {R : Type} (tbl : List (Option R)) (i : Nat) (r : R) : List (Option R) := tbl.set i (some r)

/-- the table after the operations completed in the order `σ` (a list of operation indexes) -/
def runBatch {O R : Type} (respond : O → R) (ops : List O) (σ : List Nat) : List (Option R) :=
  σ.foldl (fun tbl i => match ops[i]? with
    | some o => write tbl i (respond o)
    | none => tbl) (List.replicate ops.length none)

theorem write_length {R : Type} (tbl : List (Option R)) (i : Nat) (r : R) : (write tbl i r).length = tbl.length := by
  simp [write]

/-- slot `j` after a run: written iff `j` completed, and then it holds the response to operation `j` -/
theorem runBatch_get {O R : Type} (respond : O → R) (ops : List O) :
    ∀ (σ : List Nat) (tbl : List (Option R)), tbl.length = ops.length →
      ∀ j (hj : j < ops.length),
        (σ.foldl (fun tbl i => match ops[i]? with
          | some o => write tbl i (respond o)
          | none => tbl) tbl)[j]? =
        if j ∈ σ then some (some (respond ops[j])) else tbl[j]?
  | [], tbl, _, j, _ => by simp
  | i :: σ, tbl, hl, j, hj => by
    simp only [List.foldl_cons]
    cases hi : ops[i]? with
    | none =>
      have hne : j ≠ i := by
        intro h; subst h
        have : ops[j]? = some ops[j] := List.getElem?_eq_getElem hj
        rw [this] at hi; cases hi
      rw [runBatch_get respond ops σ tbl hl j hj]
      simp [hne]
    | some o =>
      have hl' : (write tbl i (respond o)).length = ops.length := by rw [write_length]; exact hl
      rw [runBatch_get respond ops σ _ hl' j hj]
      by_cases hjs : j ∈ σ
      · simp [hjs]
      · simp only [hjs, if_false, List.mem_cons]
        by_cases hji : j = i
        · subst hji
          have : ops[j]? = some ops[j] := List.getElem?_eq_getElem hj
          rw [this] at hi; cases hi
          simp [write, hl, hj]
        · simp [hji, write, List.getElem?_set_ne (Ne.symm hji)]

/-- **C16**: whatever order the operations complete in, once all have completed slot `i` holds the response
    to operation `i` — the response that operation gets when it is sent alone -/
theorem batch_order_independent {O R : Type} (respond : O → R) (ops : List O) (σ : List Nat)
    (hall : ∀ j, j < ops.length → j ∈ σ) :
    runBatch respond ops σ = ops.map (fun o => some (respond o)) := by
  apply List.ext_getElem?
  intro j
  by_cases hj : j < ops.length
  · unfold runBatch
    rw [runBatch_get respond ops σ _ (by simp) j hj]
    simp [hall j hj, hj]
  · have h1 : (runBatch respond ops σ).length = ops.length := by
      unfold runBatch
      have : ∀ (σ : List Nat) (tbl : List (Option R)), (σ.foldl (fun tbl i => match ops[i]? with
          | some o => write tbl i (respond o)
          | none => tbl) tbl).length = tbl.length := by
        intro σ
        induction σ with
        | nil => intro tbl; rfl
        | cons i σ ih =>
          intro tbl
          simp only [List.foldl_cons]
          cases ops[i]? with
          | none => exact ih tbl
          | some o => rw [ih]; exact write_length ..
      rw [this]; simp
    rw [List.getElem?_eq_none (by omega), List.getElem?_eq_none (by simp; omega)]

end Batch
