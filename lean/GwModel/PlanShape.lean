import GwModel.PlanConfined
/-! Shape of plans (C13): when the chooser keeps every field at the service that is already being asked, planning a
    step kicks off no further step — a query one service can answer is answered by one request to it. -/
namespace Pl

/-- asked from location `L`, the chooser keeps every field at `L` -/
def AllLocal (env : Env) (L : Loc) : Prop := ∀ T f l, locate env L T f = .ok l → l = L

/-- every bundle of the grouping is for location `L` -/
def OnlyLoc {α : Type} (L : Loc) (b : Buckets α) : Prop := ∀ l ss, (l, ss) ∈ b → l = L

theorem onlyLoc_add {α : Type} {L : Loc} {b : Buckets α} (x : α) (h : OnlyLoc L b) : OnlyLoc L (b.add L x) := by
  intro l ss hm
  rcases mem_add hm with hm | ⟨h1, _⟩
  · exact h l ss hm
  · exact h1

theorem splitByLoc_onlyLoc {env : Env} {L : Loc} (hl : AllLocal env L) {T : String} :
    ∀ (sels : List Sel) (b b' : Buckets Sel), splitByLoc env L T sels b = .ok b' → OnlyLoc L b → OnlyLoc L b'
  | [], b, b', h, hb => by simp only [splitByLoc] at h; cases h; exact hb
  | .field a n g gv d t s :: rest, b, b', h, hb => by
    simp only [splitByLoc] at h
    split at h
    · cases h
    · rename_i l hloc
      have : l = L := hl _ _ _ hloc
      subst this
      exact splitByLoc_onlyLoc hl rest _ b' h (onlyLoc_add _ hb)
  | .inline c d s :: rest, b, b', h, hb => by
    simp only [splitByLoc] at h
    exact splitByLoc_onlyLoc hl rest _ b' h (onlyLoc_add _ hb)
  | .spread n d :: rest, b, b', h, hb => by
    simp only [splitByLoc] at h
    exact splitByLoc_onlyLoc hl rest _ b' h (onlyLoc_add _ hb)

theorem onlyLoc_fold_inline {L : Loc} (c : String) (d : List Dir) :
    ∀ (fl : Buckets Sel) (lf : Buckets Sel), OnlyLoc L fl → OnlyLoc L lf →
      OnlyLoc L (fl.foldl (fun acc p => acc.add p.1 (.inline c d p.2)) lf)
  | [], _, _, h => h
  | p :: fl, lf, hfl, h => by
    simp only [List.foldl_cons]
    have hp : p.1 = L := hfl p.1 p.2 (List.mem_cons_self ..)
    rw [hp]
    exact onlyLoc_fold_inline c d fl _ (fun l ss hm => hfl l ss (List.mem_cons_of_mem _ hm)) (onlyLoc_add _ h)

theorem onlyLoc_fold_spread {L : Loc} (name : String) (d : List Dir) (defn : FragDef) :
    ∀ (fl : Buckets Sel) (acc : Buckets Sel × Buckets FragDef), OnlyLoc L fl → OnlyLoc L acc.1 →
      OnlyLoc L (fl.foldl (fun acc p => (acc.1.add p.1 (.spread name d), acc.2.add p.1 ⟨name, defn.cond, defn.dirs, p.2⟩)) acc).1
  | [], _, _, h => h
  | p :: fl, acc, hfl, h => by
    simp only [List.foldl_cons]
    have hp : p.1 = L := hfl p.1 p.2 (List.mem_cons_self ..)
    refine onlyLoc_fold_spread name d defn fl _ (fun l ss hm => hfl l ss (List.mem_cons_of_mem _ hm)) ?_
    simp only [hp]
    exact onlyLoc_add _ h

theorem onlyLoc_nil {α : Type} (L : Loc) : OnlyLoc L ([] : Buckets α) := by intro l ss h; cases h

theorem group_onlyLoc {env : Env} {L : Loc} (hl : AllLocal env L) {T : String} {sf : List FragDef} :
    ∀ (sels : List Sel) (acc res : Buckets Sel × Buckets FragDef),
      group env L T sf sels acc = .ok res → OnlyLoc L acc.1 → OnlyLoc L res.1
  | [], acc, res, h, ha => by simp only [group] at h; cases h; exact ha
  | .field a n g gv d t s :: rest, (lf, lfr), res, h, ha => by
    simp only [group] at h
    split at h
    · cases h
    · rename_i l hloc
      have : l = L := hl _ _ _ hloc
      subst this
      exact group_onlyLoc hl rest _ res h (onlyLoc_add _ ha)
  | .spread name dirs :: rest, (lf, lfr), res, h, ha => by
    simp only [group] at h
    split at h
    · cases h
    · rename_i defn _
      split at h
      · cases h
      · rename_i fl hfl
        exact group_onlyLoc hl rest _ res h
          (onlyLoc_fold_spread name dirs defn fl (lf, lfr) (splitByLoc_onlyLoc hl _ _ _ hfl (onlyLoc_nil L)) ha)
  | .inline cond dirs sub :: rest, (lf, lfr), res, h, ha => by
    simp only [group] at h
    split at h
    · cases h
    · rename_i fl hfl
      exact group_onlyLoc hl rest _ res h
        (onlyLoc_fold_inline cond dirs fl lf (splitByLoc_onlyLoc hl _ _ _ hfl (onlyLoc_nil L)) ha)

/-- with nothing bundled for another location, no step is kicked off -/
theorem kickOff_onlyLoc {cfg : Cfg} {lfr : Buckets FragDef} :
    ∀ (lf : Buckets Sel) (st : St), OnlyLoc cfg.loc lf → kickOff cfg lfr lf st = .ok st
  | [], st, _ => rfl
  | (location, ss) :: rest, st, h => by
    have hl : location = cfg.loc := h location ss (List.mem_cons_self ..)
    simp only [kickOff, hl, beq_self_eq_true, if_true]
    exact kickOff_onlyLoc rest st (fun l ss' hm => h l ss' (List.mem_cons_of_mem _ hm))

def RecQuiet (L : Loc) (rec : Cfg → St → Except Err (List Sel × St)) : Prop :=
  ∀ cfg st sel st', rec cfg st = .ok (sel, st') → cfg.loc = L → st'.queue = st.queue

theorem processSel_quiet {L : Loc} {rec : Cfg → St → Except Err (List Sel × St)} (hrec : RecQuiet L rec) {cfg : Cfg}
    (hc : cfg.loc = L) {localFrags : List FragDef} {s s' : Sel} {st st' : St}
    (h : processSel rec cfg localFrags s st = .ok (s', st')) : st'.queue = st.queue := by
  cases s with
  | field a n g gv d t sub =>
    simp only [processSel] at h
    split at h
    · cases h; rfl
    · split at h
      · cases h
      · rename_i sub' st1 hr
        cases h
        have := hrec _ _ _ _ hr hc
        simpa using this
  | spread name dirs =>
    simp only [processSel] at h
    split at h
    · cases h
    · split at h
      · cases h
      · rename_i sub' st1 hr
        have := hrec _ _ _ _ hr hc
        split at h
        · cases h; simpa using this
        · split at h <;> (cases h; simpa using this)
  | inline cond dirs sub =>
    simp only [processSel] at h
    split at h
    · cases h
    · rename_i sub' st1 hr
      cases h
      have := hrec _ _ _ _ hr hc
      simpa using this

theorem processSels_quiet {L : Loc} {rec : Cfg → St → Except Err (List Sel × St)} (hrec : RecQuiet L rec) {cfg : Cfg}
    (hc : cfg.loc = L) {localFrags : List FragDef} :
    ∀ (ss ss' : List Sel) (st st' : St), processSels rec cfg localFrags ss st = .ok (ss', st') → st'.queue = st.queue
  | [], ss', st, st', h => by simp only [processSels] at h; cases h; rfl
  | s :: ss, ss', st, st', h => by
    simp only [processSels] at h
    cases h1 : processSel rec cfg localFrags s st with
    | error e => rw [h1] at h; cases h
    | ok r1 =>
      obtain ⟨s1, st1⟩ := r1
      rw [h1] at h; simp only at h
      cases h2 : processSels rec cfg localFrags ss st1 with
      | error e => rw [h2] at h; cases h
      | ok r2 =>
        obtain ⟨ss1, st2⟩ := r2
        rw [h2] at h; simp only at h
        have a := processSel_quiet hrec hc h1
        have b := processSels_quiet hrec hc ss ss1 st1 st2 h2
        cases h
        exact b.trans a

/-- **no step is kicked off while planning a step at a location the chooser never leaves** -/
theorem extract_quiet {env : Env} {L : Loc} (hl : AllLocal env L) : ∀ (fuel : Nat), RecQuiet L (extract env fuel)
  | 0 => by intro cfg st sel st' h _; simp only [extract] at h; cases h
  | n + 1 => by
    intro cfg st sel st' h hc
    simp only [extract] at h
    split at h
    · cases h
    · rename_i lf lfr hg
      have ho : OnlyLoc cfg.loc lf := by
        rw [hc]
        have := group_onlyLoc hl cfg.sel ([], []) (lf, lfr) (by rw [← hc]; exact hg) (onlyLoc_nil L)
        exact this
      rw [kickOff_onlyLoc lf st ho] at h
      exact processSels_quiet (extract_quiet hl n) hc _ _ _ _ h

/-- what the root step kicks off when every root field is chosen at `L`: at most one payload, at `L` -/
def QueueAt (L : Loc) (q : List Payload) : Prop := q = [] ∨ ∃ p, q = [p] ∧ p.location = L ∧ p.parent = some 0 ∧ p.ip = []

end Pl

/-! ### plan level: a step at a location the chooser never leaves has no follow-up step -/
namespace Pl

/-- `addStep` only ever merges into an entry (keeping its parent) or appends the new payload -/
theorem addStep_parents (q : List Payload) (p : Payload) :
    ∀ p' ∈ addStep q p, (∃ o ∈ q, p'.parent = o.parent) ∨ p'.parent = p.parent := by
  induction q with
  | nil => intro p' h; simp only [addStep, List.mem_singleton] at h; subst h; exact Or.inr rfl
  | cons x xs ih =>
    intro p' h
    simp only [addStep] at h
    split at h
    · rcases List.mem_cons.1 h with h | h
      · subst h; exact Or.inl ⟨x, List.mem_cons_self .., rfl⟩
      · exact Or.inl ⟨p', List.mem_cons_of_mem _ h, rfl⟩
    · rcases List.mem_cons.1 h with h | h
      · subst h; exact Or.inl ⟨p', List.mem_cons_self .., rfl⟩
      · rcases ih p' h with ⟨o, ho, he⟩ | he
        · exact Or.inl ⟨o, List.mem_cons_of_mem _ ho, he⟩
        · exact Or.inr he

/-- every pending step after a call is one that was pending before (possibly grown) or was kicked off by the step
    being built -/
def QueueFrom (step : Nat) (before after : List Payload) : Prop :=
  ∀ p' ∈ after, (∃ o ∈ before, p'.parent = o.parent) ∨ p'.parent = some step

theorem queueFrom_refl (step : Nat) (q : List Payload) : QueueFrom step q q :=
  fun p' h => Or.inl ⟨p', h, rfl⟩

theorem queueFrom_trans {step : Nat} {a b c : List Payload} (h1 : QueueFrom step a b) (h2 : QueueFrom step b c) :
    QueueFrom step a c := by
  intro p' hp
  rcases h2 p' hp with ⟨o, ho, he⟩ | he
  · rcases h1 o ho with ⟨o', ho', he'⟩ | he'
    · exact Or.inl ⟨o', ho', he.trans he'⟩
    · exact Or.inr (he.trans he')
  · exact Or.inr he

theorem kickOff_queueFrom {cfg : Cfg} {lfr : Buckets FragDef} :
    ∀ (lf : Buckets Sel) (st st1 : St), kickOff cfg lfr lf st = .ok st1 → QueueFrom cfg.step st.queue st1.queue
  | [], st, st1, h => by simp only [kickOff] at h; cases h; exact queueFrom_refl _ _
  | (location, ss) :: rest, st, st1, h => by
    simp only [kickOff] at h
    split at h
    · exact kickOff_queueFrom rest st st1 h
    · split at h
      · cases h
      · rename_i ss' fr' _
        refine queueFrom_trans ?_ (kickOff_queueFrom rest _ st1 h)
        intro p' hp
        exact addStep_parents st.queue _ p' hp

def RecFrom (rec : Cfg → St → Except Err (List Sel × St)) : Prop :=
  ∀ cfg st sel st', rec cfg st = .ok (sel, st') → QueueFrom cfg.step st.queue st'.queue

theorem processSel_queueFrom {rec : Cfg → St → Except Err (List Sel × St)} (hrec : RecFrom rec) {cfg : Cfg}
    {localFrags : List FragDef} {s s' : Sel} {st st' : St}
    (h : processSel rec cfg localFrags s st = .ok (s', st')) : QueueFrom cfg.step st.queue st'.queue := by
  cases s with
  | field a n g gv d t sub =>
    simp only [processSel] at h
    split at h
    · cases h; exact queueFrom_refl _ _
    · split at h
      · cases h
      · rename_i sub' st1 hr
        cases h
        have := hrec _ _ _ _ hr
        simpa using this
  | spread name dirs =>
    simp only [processSel] at h
    split at h
    · cases h
    · split at h
      · cases h
      · rename_i sub' st1 hr
        have := hrec _ _ _ _ hr
        split at h
        · cases h; simpa using this
        · split at h <;> (cases h; simpa using this)
  | inline cond dirs sub =>
    simp only [processSel] at h
    split at h
    · cases h
    · rename_i sub' st1 hr
      cases h
      have := hrec _ _ _ _ hr
      simpa using this

theorem processSels_queueFrom {rec : Cfg → St → Except Err (List Sel × St)} (hrec : RecFrom rec) {cfg : Cfg}
    {localFrags : List FragDef} :
    ∀ (ss ss' : List Sel) (st st' : St), processSels rec cfg localFrags ss st = .ok (ss', st') →
      QueueFrom cfg.step st.queue st'.queue
  | [], ss', st, st', h => by simp only [processSels] at h; cases h; exact queueFrom_refl _ _
  | s :: ss, ss', st, st', h => by
    simp only [processSels] at h
    cases h1 : processSel rec cfg localFrags s st with
    | error e => rw [h1] at h; cases h
    | ok r1 =>
      obtain ⟨s1, st1⟩ := r1
      rw [h1] at h; simp only at h
      cases h2 : processSels rec cfg localFrags ss st1 with
      | error e => rw [h2] at h; cases h
      | ok r2 =>
        obtain ⟨ss1, st2⟩ := r2
        rw [h2] at h; simp only at h
        have a := processSel_queueFrom hrec h1
        have b := processSels_queueFrom hrec ss ss1 st1 st2 h2
        cases h
        exact queueFrom_trans a b

theorem extract_queueFrom (env : Env) : ∀ (fuel : Nat), RecFrom (extract env fuel)
  | 0 => by intro cfg st sel st' h; simp only [extract] at h; cases h
  | n + 1 => by
    intro cfg st sel st' h
    simp only [extract] at h
    split at h
    · cases h
    · rename_i lf lfr _
      split at h
      · cases h
      · rename_i st1 hk
        exact queueFrom_trans (kickOff_queueFrom lf st st1 hk) (processSels_queueFrom (extract_queueFrom env n) _ _ _ _ h)

/-- the invariant of the work list: ids of built steps are below `next`; whoever is named as a parent, by a built
    step or a pending one, is a built step at a location the chooser does leave -/
structure WorkInv (env : Env) (next : Nat) (queue : List Payload) (acc : List Step) : Prop where
  ids : ∀ t ∈ acc, t.id < next
  pending : ∀ p ∈ queue, ∀ q, p.parent = some q → ∃ s ∈ acc, s.id = q ∧ ¬ AllLocal env s.location
  built : ∀ t ∈ acc, ∀ q, t.parent = some q → ∃ s ∈ acc, s.id = q ∧ ¬ AllLocal env s.location

theorem buildSteps_inv (env : Env) (fuel : Nat) :
    ∀ (k next : Nat) (queue : List Payload) (acc res : List Step),
      buildSteps env fuel k next queue acc = .ok res → WorkInv env next queue acc →
      ∀ t ∈ res, ∀ q, t.parent = some q → ∃ s ∈ res, s.id = q ∧ ¬ AllLocal env s.location
  | 0, _, [], acc, res, h, hi => by simp only [buildSteps] at h; cases h; exact hi.built
  | 0, _, _ :: _, _, _, h, _ => by simp only [buildSteps] at h; cases h
  | _ + 1, _, [], acc, res, h, hi => by simp only [buildSteps] at h; cases h; exact hi.built
  | k + 1, next, p :: queue, acc, res, h, hi => by
    simp only [buildSteps] at h
    split at h
    · cases h
    · rename_i sel st he
      refine buildSteps_inv env fuel k _ _ _ res h ?_
      have hq := extract_queueFrom env fuel _ _ _ _ he
      simp only at hq
      have hpar : ∀ q, p.parent = some q → ∃ s ∈ acc, s.id = q ∧ ¬ AllLocal env s.location :=
        hi.pending p (List.mem_cons_self ..)
      constructor
      · intro t ht
        rcases List.mem_append.1 ht with ht | ht
        · exact Nat.lt_succ_of_lt (hi.ids t ht)
        · have : t = _ := List.mem_singleton.1 ht
          subst this; exact Nat.lt_succ_self _
      · intro p' hp' q hpq
        rcases hq p' hp' with ⟨o, ho, he'⟩ | he'
        · obtain ⟨s, hs, h1, h2⟩ := hi.pending o (List.mem_cons_of_mem _ ho) q (he' ▸ hpq)
          exact ⟨s, List.mem_append.2 (Or.inl hs), h1, h2⟩
        · -- kicked off by the step just built: then that step's location is one the chooser leaves
          have hqn : q = next := by rw [he'] at hpq; exact (Option.some.inj hpq).symm
          subst hqn
          refine ⟨_, List.mem_append.2 (Or.inr (List.mem_singleton.2 rfl)), rfl, ?_⟩
          intro hloc
          have hquiet := extract_quiet hloc fuel _ _ _ _ he rfl
          simp only at hquiet
          -- the queue did not change, so p' was pending before; its parent is a built step with a smaller id
          rw [hquiet] at hp'
          obtain ⟨s, hs, h1, _⟩ := hi.pending p' (List.mem_cons_of_mem _ hp') q he'
          have := hi.ids s hs
          omega
      · intro t ht q htq
        rcases List.mem_append.1 ht with ht | ht
        · obtain ⟨s, hs, h1, h2⟩ := hi.built t ht q htq
          exact ⟨s, List.mem_append.2 (Or.inl hs), h1, h2⟩
        · have : t = _ := List.mem_singleton.1 ht
          subst this
          obtain ⟨s, hs, h1, h2⟩ := hpar q htq
          exact ⟨s, List.mem_append.2 (Or.inl hs), h1, h2⟩

/-- **No needless hop**: in every plan, the step a follow-up step hangs off is at a location the chooser leaves for
    some field; a step at a service that keeps everything it is asked (`AllLocal`) has no follow-up steps. -/
theorem planOperation_no_needless_hop {env : Env} {fuel : Nat} {operation : String} {sels : List Sel} {steps : List Step}
    (h : planOperation env fuel operation sels = .ok steps) :
    ∀ t ∈ steps, ∀ q, t.parent = some q → ∃ s ∈ steps, s.id = q ∧ ¬ AllLocal env s.location := by
  refine buildSteps_inv env fuel _ _ _ _ _ h ?_
  constructor
  · intro t ht; cases ht
  · intro p hp q hpq
    have : p = _ := List.mem_singleton.1 hp
    subst this; cases hpq
  · intro t ht; cases ht

end Pl

namespace Pl

/-- when does the chooser never leave `L`: no priorities configured, and `L` offers every field of the routing table -/
theorem allLocal_of_offers_everything {env : Env} {L : Loc} (hp : env.configured = [])
    (hall : ∀ k possible, env.routes.lookup k = some possible → L ∈ possible) : AllLocal env L := by
  intro T f l h
  unfold locate at h
  split at h
  · cases h
  · rename_i possible hpos
    have hmem : L ∈ possible := hall _ _ hpos
    have : Sel.selectLocation Sel.spec possible env.configured L env.internal = some L := by
      unfold Sel.selectLocation
      show Sel.choose possible (Sel.prioOf [.configured, .parent, .internal] env.configured L env.internal) = some L
      rw [Sel.prioOf_safe, hp]
      exact Sel.choose_parent (configured := []) rfl hmem
    rw [this] at h
    cases h; rfl

end Pl

/-! ### a follow-up step's insertion point lies below the insertion point of the step it hangs off -/
namespace Pl

/-- `a` is a prefix of `b` -/
def IsPrefix (a b : List String) : Prop := ∃ t, b = a ++ t

theorem isPrefix_refl (a : List String) : IsPrefix a a := ⟨[], by simp⟩
theorem isPrefix_trans {a b c : List String} (h1 : IsPrefix a b) (h2 : IsPrefix b c) : IsPrefix a c := by
  obtain ⟨t1, rfl⟩ := h1; obtain ⟨t2, rfl⟩ := h2; exact ⟨t1 ++ t2, by simp⟩

/-- every pending step after a call is one that was pending before (same parent, same insertion point) or was
    kicked off by the step being built, at or below the insertion point the call was made for -/
def QueueBelow (step : Nat) (ip : List String) (before after : List Payload) : Prop :=
  ∀ p' ∈ after, (∃ o ∈ before, p'.parent = o.parent ∧ p'.ip = o.ip) ∨ (p'.parent = some step ∧ IsPrefix ip p'.ip)

theorem queueBelow_refl (step : Nat) (ip : List String) (q : List Payload) : QueueBelow step ip q q :=
  fun p' h => Or.inl ⟨p', h, rfl, rfl⟩

theorem queueBelow_trans {step : Nat} {ip : List String} {a b c : List Payload}
    (h1 : QueueBelow step ip a b) (h2 : QueueBelow step ip b c) : QueueBelow step ip a c := by
  intro p' hp
  rcases h2 p' hp with ⟨o, ho, he1, he2⟩ | he
  · rcases h1 o ho with ⟨o', ho', he1', he2'⟩ | ⟨he1', he2'⟩
    · exact Or.inl ⟨o', ho', he1.trans he1', he2.trans he2'⟩
    · exact Or.inr ⟨he1.trans he1', by rw [he2]; exact he2'⟩
  · exact Or.inr he

/-- a call made for a deeper insertion point only adds steps below the shallower one as well -/
theorem queueBelow_weaken {step : Nat} {ip ip' : List String} {a b : List Payload} (hp : IsPrefix ip ip')
    (h : QueueBelow step ip' a b) : QueueBelow step ip a b := by
  intro p' hp'
  rcases h p' hp' with h' | ⟨h1, h2⟩
  · exact Or.inl h'
  · exact Or.inr ⟨h1, isPrefix_trans hp h2⟩

theorem addStep_below (q : List Payload) (p : Payload) :
    ∀ p' ∈ addStep q p, (∃ o ∈ q, p'.parent = o.parent ∧ p'.ip = o.ip) ∨ (p'.parent = p.parent ∧ p'.ip = p.ip) := by
  induction q with
  | nil => intro p' h; simp only [addStep, List.mem_singleton] at h; subst h; exact Or.inr ⟨rfl, rfl⟩
  | cons x xs ih =>
    intro p' h
    simp only [addStep] at h
    split at h
    · rcases List.mem_cons.1 h with h | h
      · subst h; exact Or.inl ⟨x, List.mem_cons_self .., rfl, rfl⟩
      · exact Or.inl ⟨p', List.mem_cons_of_mem _ h, rfl, rfl⟩
    · rcases List.mem_cons.1 h with h | h
      · subst h; exact Or.inl ⟨p', List.mem_cons_self .., rfl, rfl⟩
      · rcases ih p' h with ⟨o, ho, he⟩ | he
        · exact Or.inl ⟨o, List.mem_cons_of_mem _ ho, he⟩
        · exact Or.inr he

theorem kickOff_below {cfg : Cfg} {lfr : Buckets FragDef} :
    ∀ (lf : Buckets Sel) (st st1 : St), kickOff cfg lfr lf st = .ok st1 → QueueBelow cfg.step cfg.ip st.queue st1.queue
  | [], st, st1, h => by simp only [kickOff] at h; cases h; exact queueBelow_refl _ _ _
  | (location, ss) :: rest, st, st1, h => by
    simp only [kickOff] at h
    split at h
    · exact kickOff_below rest st st1 h
    · split at h
      · cases h
      · rename_i ss' fr' _
        refine queueBelow_trans ?_ (kickOff_below rest _ st1 h)
        intro p' hp
        rcases addStep_below st.queue _ p' hp with h' | ⟨h1, h2⟩
        · exact Or.inl h'
        · exact Or.inr ⟨h1, by rw [h2]; exact isPrefix_refl _⟩

def RecBelow (rec : Cfg → St → Except Err (List Sel × St)) : Prop :=
  ∀ cfg st sel st', rec cfg st = .ok (sel, st') → QueueBelow cfg.step cfg.ip st.queue st'.queue

theorem processSel_below {rec : Cfg → St → Except Err (List Sel × St)} (hrec : RecBelow rec) {cfg : Cfg}
    {localFrags : List FragDef} {s s' : Sel} {st st' : St}
    (h : processSel rec cfg localFrags s st = .ok (s', st')) : QueueBelow cfg.step cfg.ip st.queue st'.queue := by
  cases s with
  | field a n g gv d t sub =>
    simp only [processSel] at h
    split at h
    · cases h; exact queueBelow_refl _ _ _
    · split at h
      · cases h
      · rename_i sub' st1 hr
        cases h
        have := hrec _ _ _ _ hr
        have := queueBelow_weaken (ip := cfg.ip) ⟨[a], rfl⟩ this
        simpa using this
  | spread name dirs =>
    simp only [processSel] at h
    split at h
    · cases h
    · split at h
      · cases h
      · rename_i sub' st1 hr
        have := hrec _ _ _ _ hr
        split at h
        · cases h; simpa using this
        · split at h <;> (cases h; simpa using this)
  | inline cond dirs sub =>
    simp only [processSel] at h
    split at h
    · cases h
    · rename_i sub' st1 hr
      cases h
      have := hrec _ _ _ _ hr
      simpa using this

theorem processSels_below {rec : Cfg → St → Except Err (List Sel × St)} (hrec : RecBelow rec) {cfg : Cfg}
    {localFrags : List FragDef} :
    ∀ (ss ss' : List Sel) (st st' : St), processSels rec cfg localFrags ss st = .ok (ss', st') →
      QueueBelow cfg.step cfg.ip st.queue st'.queue
  | [], ss', st, st', h => by simp only [processSels] at h; cases h; exact queueBelow_refl _ _ _
  | s :: ss, ss', st, st', h => by
    simp only [processSels] at h
    cases h1 : processSel rec cfg localFrags s st with
    | error e => rw [h1] at h; cases h
    | ok r1 =>
      obtain ⟨s1, st1⟩ := r1
      rw [h1] at h; simp only at h
      cases h2 : processSels rec cfg localFrags ss st1 with
      | error e => rw [h2] at h; cases h
      | ok r2 =>
        obtain ⟨ss1, st2⟩ := r2
        rw [h2] at h; simp only at h
        have a := processSel_below hrec h1
        have b := processSels_below hrec ss ss1 st1 st2 h2
        cases h
        exact queueBelow_trans a b

theorem extract_below (env : Env) : ∀ (fuel : Nat), RecBelow (extract env fuel)
  | 0 => by intro cfg st sel st' h; simp only [extract] at h; cases h
  | n + 1 => by
    intro cfg st sel st' h
    simp only [extract] at h
    split at h
    · cases h
    · rename_i lf lfr _
      split at h
      · cases h
      · rename_i st1 hk
        exact queueBelow_trans (kickOff_below lf st st1 hk) (processSels_below (extract_below env n) _ _ _ _ h)

/-- the work list: whoever is named as a parent is a built step whose insertion point is a prefix of the namer's -/
structure BelowInv (next : Nat) (queue : List Payload) (acc : List Step) : Prop where
  ids : ∀ t ∈ acc, t.id < next
  pending : ∀ p ∈ queue, ∀ q, p.parent = some q → ∃ s ∈ acc, s.id = q ∧ IsPrefix s.ip p.ip
  built : ∀ t ∈ acc, ∀ q, t.parent = some q → ∃ s ∈ acc, s.id = q ∧ IsPrefix s.ip t.ip

theorem buildSteps_below (env : Env) (fuel : Nat) :
    ∀ (k next : Nat) (queue : List Payload) (acc res : List Step),
      buildSteps env fuel k next queue acc = .ok res → BelowInv next queue acc →
      ∀ t ∈ res, ∀ q, t.parent = some q → ∃ s ∈ res, s.id = q ∧ IsPrefix s.ip t.ip
  | 0, _, [], acc, res, h, hi => by simp only [buildSteps] at h; cases h; exact hi.built
  | 0, _, _ :: _, _, _, h, _ => by simp only [buildSteps] at h; cases h
  | _ + 1, _, [], acc, res, h, hi => by simp only [buildSteps] at h; cases h; exact hi.built
  | k + 1, next, p :: queue, acc, res, h, hi => by
    simp only [buildSteps] at h
    split at h
    · cases h
    · rename_i sel st he
      refine buildSteps_below env fuel k _ _ _ res h ?_
      have hq := extract_below env fuel _ _ _ _ he
      simp only at hq
      constructor
      · intro t ht
        rcases List.mem_append.1 ht with ht | ht
        · exact Nat.lt_succ_of_lt (hi.ids t ht)
        · have : t = _ := List.mem_singleton.1 ht
          subst this; exact Nat.lt_succ_self _
      · intro p' hp' q hpq
        rcases hq p' hp' with ⟨o, ho, he1, he2⟩ | ⟨he1, he2⟩
        · obtain ⟨s, hs, h1, h2⟩ := hi.pending o (List.mem_cons_of_mem _ ho) q (he1 ▸ hpq)
          exact ⟨s, List.mem_append.2 (Or.inl hs), h1, he2 ▸ h2⟩
        · have hqn : q = next := by rw [he1] at hpq; exact (Option.some.inj hpq).symm
          subst hqn
          exact ⟨_, List.mem_append.2 (Or.inr (List.mem_singleton.2 rfl)), rfl, he2⟩
      · intro t ht q htq
        rcases List.mem_append.1 ht with ht | ht
        · obtain ⟨s, hs, h1, h2⟩ := hi.built t ht q htq
          exact ⟨s, List.mem_append.2 (Or.inl hs), h1, h2⟩
        · have : t = _ := List.mem_singleton.1 ht
          subst this
          obtain ⟨s, hs, h1, h2⟩ := hi.pending p (List.mem_cons_self ..) q htq
          exact ⟨s, List.mem_append.2 (Or.inl hs), h1, h2⟩

/-- **Every follow-up step is inserted below the step it hangs off**: its insertion point extends its parent's
    (what the executor relies on when it searches the parent's own reply for the rest of the path). -/
theorem planOperation_ip_below {env : Env} {fuel : Nat} {operation : String} {sels : List Sel} {steps : List Step}
    (h : planOperation env fuel operation sels = .ok steps) :
    ∀ t ∈ steps, ∀ q, t.parent = some q → ∃ s ∈ steps, s.id = q ∧ IsPrefix s.ip t.ip := by
  refine buildSteps_below env fuel _ _ _ _ _ h ?_
  constructor
  · intro t ht; cases ht
  · intro p hp q hpq
    have : p = _ := List.mem_singleton.1 hp
    subst this; cases hpq
  · intro t ht; cases ht

end Pl
