import GwModel.FindPts
/-! Helpers for the insertion-point model: monadic concatenation, indexed entries, following a realised path. -/
namespace Fp
open Ins

theorem concatM_mem {α ε} : ∀ {xs : List (Except ε (List α))} {r : List α}, concatM xs = .ok r →
    ∀ y, y ∈ r ↔ ∃ a, Except.ok a ∈ xs ∧ y ∈ a
  | [], r, h, y => by
    simp [concatM] at h; cases h; simp
  | x :: xs, r, h, y => by
    cases x with
    | error e => simp [concatM, bind, Except.bind] at h
    | ok a =>
      cases hb : concatM xs with
      | error e => simp [concatM, bind, Except.bind, hb] at h
      | ok b =>
        simp [concatM, bind, Except.bind, hb, pure, Except.pure] at h
        subst h
        have ih := concatM_mem hb y
        simp only [List.mem_append, ih, List.mem_cons]
        constructor
        · rintro (h | ⟨a', ha', hy⟩)
          · exact ⟨a, Or.inl rfl, h⟩
          · exact ⟨a', Or.inr ha', hy⟩
        · rintro ⟨a', (h | h), hy⟩
          · cases h; exact Or.inl hy
          · exact Or.inr ⟨a', h, hy⟩

theorem mem_enumFrom {α} : ∀ {l : List α} {n i : Nat} {e : α}, (i, e) ∈ enumFrom n l → n ≤ i ∧ l[i - n]? = some e
  | [], _, _, _, h => by simp [enumFrom] at h
  | x :: xs, n, i, e, h => by
    simp only [enumFrom, List.mem_cons] at h
    rcases h with h | h
    · cases h; simp
    · have ⟨h1, h2⟩ := mem_enumFrom h
      refine ⟨by omega, ?_⟩
      have : i - n = (i - (n + 1)) + 1 := by omega
      rw [this]; simpa using h2

/-- follow a realised path through a value -/
def walk : J → List RPt → Option J
  | x, [] => some x
  | .obj k, pt :: r =>
    match lookup pt.key k, pt.idx with
    | some v, none => walk v r
    | some (.arr l), some i =>
      match l[i]? with
      | some e => walk e r
      | none => none
    | _, _ => none
  | _, _ :: _ => none

end Fp
