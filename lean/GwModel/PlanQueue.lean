import GwModel.FactTypes
/-! The planner's step discovery (plan.go generatePlans): building a step discovers its dependent steps,
    which are queued and built later.  Two queue disciplines are modelled, selected by the fact extracted
    from the source: a local work list (current code) and the bounded channel fed by its own — only —
    consumer (the code before the repair; kept to state why the fact matters). -/
namespace PlanQueue

/-- the step tree a query denotes: a step and the steps discovered while building it -/
inductive PTree where
  | node (kids : List PTree)
deriving Repr, Inhabited

def PTree.kids : PTree → List PTree | .node k => k

mutual
def size : PTree → Nat
  | .node ks => 1 + sizeL ks
def sizeL : List PTree → Nat
  | [] => 0
  | t :: ts => size t + sizeL ts
end

theorem sizeL_append : ∀ (a b : List PTree), sizeL (a ++ b) = sizeL a + sizeL b
  | [], b => by simp [sizeL]
  | t :: a, b => by simp [sizeL, sizeL_append a b, Nat.add_assoc]

/-- local work list: pop the first pending step, build it, append what it discovered.
    Returns the number of steps built, `none` if the fuel ran out. -/
def drain : Nat → List PTree → Option Nat
  | _, [] => some 0
  | 0, _ :: _ => none
  | fuel + 1, .node ks :: rest => (drain fuel (rest ++ ks)).map (· + 1)

/-- the work list builds every step exactly once and then stops: `sizeL q` iterations suffice, whatever
    the number of steps discovered per step (branch points) and the depth -/
theorem drain_total : ∀ (fuel : Nat) (q : List PTree), sizeL q ≤ fuel → drain fuel q = some (sizeL q)
  | _, [], _ => by simp [drain, sizeL]
  | 0, t :: rest, h => by
    cases t with
    | node ks => simp [sizeL, size] at h
  | fuel + 1, .node ks :: rest, h => by
    have hs : sizeL (rest ++ ks) ≤ fuel := by
      rw [sizeL_append]; simp [sizeL, size] at h; omega
    simp only [drain]
    rw [drain_total fuel (rest ++ ks) hs, sizeL_append]
    simp [sizeL, size]; omega

/-- bounded channel of capacity `cap` whose only consumer is the task that also fills it: while a step is
    being built its discoveries are sent one by one; a send blocks when the channel is full, and nobody
    else receives.  `none` = the planner is stuck forever. -/
def drainBounded (cap : Nat) : Nat → List PTree → Option Nat
  | _, [] => some 0
  | 0, _ :: _ => some 0
  | fuel + 1, .node ks :: rest =>
    if rest.length + ks.length ≤ cap then (drainBounded cap fuel (rest ++ ks)).map (· + 1) else none

def wide (n : Nat) : PTree := .node (List.replicate n (.node []))

/-- the reason the repair was needed: one step with 51 cross-service branch points never finishes planning
    through a channel of capacity 50 … -/
theorem bounded_queue_blocks : drainBounded 50 1000 [wide 51] = none := by decide

/-- … while the work list plans any width -/
theorem worklist_handles_any_width (n : Nat) : drain (n + 1) [wide n] = some (n + 1) := by
  have h : sizeL [wide n] = n + 1 := by
    have : ∀ m, sizeL (List.replicate m (PTree.node [])) = m := by
      intro m; induction m with
      | zero => simp [sizeL]
      | succ m ih => simp [List.replicate_succ, sizeL, size, ih]; omega
    simp [sizeL, wide, size, this]; omega
  have := drain_total (n + 1) [wide n] (by omega)
  rw [this, h]

def QueueSafe : Facts.PlanQueueKind → Prop
  | .localWorklist => True
  | _ => False

instance (k : Facts.PlanQueueKind) : Decidable (QueueSafe k) := by
  cases k <;> unfold QueueSafe <;> exact inferInstance

end PlanQueue
