import GwModel.FindPtsNodup
/-! Inserting at a realised path reaches the object the path was computed from. -/
namespace Fp
open Ins

def toPt (q : RPt) : Pt := ⟨q.key, q.idx⟩

theorem updAt_of_getElem {F : J → Option J} : ∀ {l : List J} {i : Nat} {e e' : J}, l[i]? = some e → F e = some e' →
    updAt l i F = some (l.set i e')
  | [], i, _, _, h, _ => by simp at h
  | x :: xs, 0, e, e', h, hF => by simp at h; subst h; simp [updAt, hF]
  | x :: xs, i + 1, e, e', h, hF => by
    simp at h
    simp [updAt, updAt_of_getElem h hF]

/-- **the payload lands in the object the path was computed from**: if following a realised path through the
    accumulated response reaches an object, inserting an object payload at that path succeeds, and following the
    same path afterwards reaches that object with the payload merged in -/
theorem insertAt_walk : ∀ (suf : List RPt) (x : J) (o inc : KVs), walk x suf = some (.obj o) →
    ∃ x', insertAt x (suf.map toPt) (.obj inc) = some x' ∧ walk x' suf = some (.obj (mergeK o inc))
  | [], x, o, inc, h => by
    simp [walk] at h; subst h
    exact ⟨.obj (mergeK o inc), by simp [insertAt, finish], by simp [walk]⟩
  | q :: r, x, o, inc, h => by
    cases x with
    | null => simp [walk] at h
    | leaf s => simp [walk] at h
    | arr l => simp [walk] at h
    | obj k =>
      obtain ⟨key, idx, id⟩ := q
      cases hl : lookup key k with
      | none => simp [walk, hl] at h
      | some v =>
        cases idx with
        | none =>
          have hw : walk v r = some (.obj o) := by simpa [walk, hl] using h
          have hv : childOfCur (some v) = v := by
            cases v with
            | null => cases r <;> simp [walk] at hw
            | leaf s => rfl
            | arr l => rfl
            | obj k' => rfl
          obtain ⟨v', hi, hw'⟩ := insertAt_walk r v o inc hw
          refine ⟨.obj (put key v' k), ?_, ?_⟩
          · simp [List.map_cons, toPt, insertAt_cons, stepOf, hl, hv, hi]
          · simp [walk, lookup_put, hw']
        | some i =>
          cases v with
          | null => simp [walk, hl] at h
          | leaf s => simp [walk, hl] at h
          | obj k' => simp [walk, hl] at h
          | arr l =>
            cases he : l[i]? with
            | none => simp [walk, hl, he] at h
            | some e =>
              have hw : walk e r = some (.obj o) := by simpa [walk, hl, he] using h
              obtain ⟨e', hi, hw'⟩ := insertAt_walk r e o inc hw
              have hu := updAt_of_getElem (F := fun e => insertAt e (r.map toPt) (.obj inc)) he hi
              refine ⟨.obj (put key (.arr (l.set i e')) k), ?_, ?_⟩
              · simp [List.map_cons, toPt, insertAt_cons, stepOf, hl, hu]
              · have hlt : i < l.length := by
                  rcases List.getElem?_eq_some_iff.1 he with ⟨hlt, _⟩; exact hlt
                simp [walk, lookup_put, hlt, hw']

end Fp
