/-! Model of the gateway's own resolver, `(*Gateway).Query` (internal.go): what the gateway does with a step it answers
    itself — `node`, the query fields it was given, `Query.__typename`, `__schema`, `__type`.

    The pipeline, as in the code: (1) `includedSelections` drops what `@skip`/`@include` exclude under the request's
    variables and replaces fragment spreads by the included part of their definition; (2) `graphql.ApplyFragments`
    flattens inline fragments and merges selections with the same response key (the first one's name and arguments are
    kept); (3) `resolveArgumentVariables` puts the values of string, boolean and null variables where arguments refer
    to them; (4) every top-level field is dispatched on its NAME.  Introspection proper (`__schema`, the selection
    beneath `__type`) is `Intro`'s subject and appears here as a marker.

    Tied to internal.go by the L2.gateway-query correspondence: generated documents over the gateway's own fields —
    directives singly and in pairs, variables given, missing, null or of another kind, fields inside inline and named
    fragments, repeated response keys — go through the real `Gateway.Query` and through `Gq.query`. -/
namespace Gq

/-- an argument value as written -/
inductive Val where
  | var (name : String)
  | str (s : String)
  | bool (b : Bool)
  | null
  | other (raw : String)        -- numbers, enums, lists, objects: never looked into here
deriving Repr, DecidableEq, Inhabited

/-- the value of a variable in the request -/
inductive VV where
  | str (s : String)
  | bool (b : Bool)
  | null
  | other (raw : String)
deriving Repr, DecidableEq, Inhabited

abbrev Vars := List (String × VV)

/-- a directive; `cond` is its `if` argument (if it has one) -/
structure Dir where
  name : String
  cond : Option Val
deriving Repr, DecidableEq, Inhabited

inductive Sel where
  | field (key name : String) (args : List (String × Val)) (dirs : List Dir) (sub : List Sel)
  | inline (dirs : List Dir) (sub : List Sel)
  | spread (name : String) (dirs : List Dir)
deriving Repr, Inhabited

structure Frag where
  name : String
  sub : List Sel
deriving Repr, Inhabited

/-- `ast.Value.Value(variables)` for the kinds that matter: a variable without a value is nil -/
def valueOf (vars : Vars) : Val → VV
  | .var n => (vars.lookup n).getD .null
  | .str s => .str s
  | .bool b => .bool b
  | .null => .null
  | .other r => .other r

/-- `condition, _ := value.(bool)` -/
def condition (vars : Vars) (c : Val) : Bool :=
  match valueOf vars c with
  | .bool b => b
  | _ => false

/-- does this one directive let the selection in -/
def lets (vars : Vars) (d : Dir) : Bool :=
  match d.cond with
  | none => true
  | some c =>
    if d.name == "skip" then !condition vars c
    else if d.name == "include" then condition vars c
    else true

/-- `isIncluded`: every conditional directive has to let the selection in -/
def isIncluded (vars : Vars) (dirs : List Dir) : Bool := dirs.all (lets vars)

def findFrag (frags : List Frag) (name : String) : Option Frag := frags.find? (fun f => f.name == name)

/-- `includedSelections` (fuel: fragments may refer to one another; `visited` is the code's cycle guard) -/
def included (frags : List Frag) (vars : Vars) : Nat → List String → List Sel → List Sel
  | 0, _, _ => []
  | _ + 1, _, [] => []
  | fuel + 1, visited, .field k n a d sub :: rest =>
    if isIncluded vars d then .field k n a d (included frags vars fuel visited sub) :: included frags vars fuel visited rest
    else included frags vars fuel visited rest
  | fuel + 1, visited, .inline d sub :: rest =>
    if isIncluded vars d then .inline d (included frags vars fuel visited sub) :: included frags vars fuel visited rest
    else included frags vars fuel visited rest
  | fuel + 1, visited, .spread name d :: rest =>
    match (if isIncluded vars d && !visited.contains name then findFrag frags name else none) with
    | none => included frags vars fuel visited rest
    | some f => .inline [] (included frags vars fuel (name :: visited) f.sub) :: included frags vars fuel visited rest

/-- a field after flattening: the first selection of its response key, and the merged selections beneath it -/
structure FlatField where
  key : String
  name : String
  args : List (String × Val)
deriving Repr, DecidableEq, Inhabited

/-- `ApplyFragments` at the top level (only the top level is dispatched on; what lies beneath a field is the
    resolvers' business): response keys in first-occurrence order, the first selection of a key wins -/
def flattenTop : Nat → List Sel → List FlatField → List FlatField
  | 0, _, acc => acc
  | _ + 1, [], acc => acc
  | fuel + 1, .field k n a _ _ :: rest, acc =>
    flattenTop fuel rest (if acc.any (·.key == k) then acc else acc ++ [⟨k, n, a⟩])
  | fuel + 1, .inline _ sub :: rest, acc => flattenTop fuel rest (flattenTop fuel sub acc)
  | fuel + 1, .spread _ _ :: rest, acc => flattenTop fuel rest acc     -- none is left after `included`

/-- `resolveArgumentVariables` on one argument: string, boolean and null values replace the reference -/
def resolveArg (vars : Vars) : Val → Val
  | .var n =>
    match (vars.lookup n).getD .null with
    | .str s => .str s
    | .bool b => .bool b
    | .null => .null
    | .other _ => .var n
  | v => v

/-- `Value.Raw` -/
def raw : Val → String
  | .var n => n
  | .str s => s
  | .bool b => if b then "true" else "false"
  | .null => "null"
  | .other r => r

/-- what a top-level field is answered with -/
inductive Ans where
  | typename                         -- "Query"
  | schema                           -- the introspection of the schema (Intro's subject)
  | typeFound (name : String)        -- the introspection of that type
  | typeMissing                      -- null
  | entity (id : String)             -- {"id": id}
  | failed (message : String)        -- the resolver's error
  | crash                            -- a nil dereference (`__type` without a `name` argument)
  | nothing                          -- a name nobody answers: the key is left out
deriving Repr, DecidableEq, Inhabited

structure Env where
  types : List String                               -- the names of the types introspection knows
  fields : List String                              -- the gateway's query fields (node first)
  /-- the resolver of a query field on the values of its arguments -/
  resolve : String → List (String × VV) → Except String String

def answer (env : Env) (vars : Vars) (f : FlatField) : Ans :=
  let args := f.args.map fun (n, v) => (n, resolveArg vars v)
  if f.name == "__typename" then .typename
  else if f.name == "__schema" then .schema
  else if f.name == "__type" then
    match args.lookup "name" with
    | none => .crash
    | some v => if env.types.contains (raw v) then .typeFound (raw v) else .typeMissing
  else if env.fields.contains f.name then
    match env.resolve f.name (args.map fun (n, v) => (n, valueOf vars v)) with
    | .ok id => .entity id
    | .error m => .failed m
  else .nothing

/-- `Gateway.Query`: the answers by response key; the first failing resolver ends the request -/
def query (env : Env) (frags : List Frag) (vars : Vars) (fuel : Nat) (sels : List Sel) : List (String × Ans) :=
  (flattenTop fuel (included frags vars fuel [] sels) []).map fun f => (f.key, answer env vars f)

/-! ### what holds of it -/

/-- **a selection is included exactly when every conditional directive lets it in** — `@skip` with a true condition
    or `@include` with a false one, anywhere in the list, leaves it out -/
theorem isIncluded_iff (vars : Vars) (dirs : List Dir) :
    isIncluded vars dirs = true ↔ ∀ d ∈ dirs, ∀ c, d.cond = some c →
      (d.name = "skip" → condition vars c = false) ∧ (d.name = "include" → condition vars c = true) := by
  simp only [isIncluded, List.all_eq_true]
  constructor
  · intro h d hd c hc
    have := h d hd
    simp only [lets, hc] at this
    constructor
    · intro hn; simp [hn] at this; exact this
    · intro hn
      have hns : (d.name == "skip") = false := by simp [hn]
      simp [hns, hn] at this; exact this
  · intro h d hd
    simp only [lets]
    cases hc : d.cond with
    | none => rfl
    | some c =>
      obtain ⟨h1, h2⟩ := h d hd c hc
      simp only
      by_cases hs : d.name = "skip"
      · simp [hs, h1 hs]
      · have hns : (d.name == "skip") = false := by simpa using hs
        simp only [hns]
        by_cases hi : d.name = "include"
        · simp [hi, h2 hi]
        · have hni : (d.name == "include") = false := by simpa using hi
          simp [hni]

/-- the order of the directives does not matter -/
theorem isIncluded_perm (vars : Vars) {a b : List Dir} (h : a.Perm b) : isIncluded vars a = isIncluded vars b := by
  simp only [isIncluded]
  exact h.all_eq

/-- a selection carrying `@skip(if: true)` is left out whatever else it carries -/
theorem skip_true_excludes (vars : Vars) (pre post : List Dir) (c : Val) (h : condition vars c = true) :
    isIncluded vars (pre ++ ⟨"skip", some c⟩ :: post) = false := by
  simp [isIncluded, lets, h]

theorem include_false_excludes (vars : Vars) (pre post : List Dir) (c : Val) (h : condition vars c = false) :
    isIncluded vars (pre ++ ⟨"include", some c⟩ :: post) = false := by
  simp [isIncluded, lets, h]

/-- **wrapping selections in an inline fragment without directives changes no answer**: a field gets the same
    treatment (inclusion, argument values) inside a fragment as outside -/
theorem flattenTop_inline (fuel : Nat) (sub rest : List Sel) (acc : List FlatField) :
    flattenTop (fuel + 1) (.inline [] sub :: rest) acc = flattenTop fuel rest (flattenTop fuel sub acc) := rfl

/-- the answer to a field depends on its name, its arguments and the variables only — not on the response key, not
    on where it stood -/
theorem answer_congr (env : Env) (vars : Vars) (k1 k2 n : String) (a : List (String × Val)) :
    answer env vars ⟨k1, n, a⟩ = answer env vars ⟨k2, n, a⟩ := rfl

/-- an argument given through a string, boolean or null variable is the argument given as that literal -/
theorem resolveArg_var (vars : Vars) (n : String) :
    resolveArg vars (.var n) = (match (vars.lookup n).getD .null with
      | .str s => .str s | .bool b => .bool b | .null => .null | .other _ => .var n) := rfl

end Gq
