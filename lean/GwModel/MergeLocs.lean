/-! Model of `mergeDirectiveLocations` (merge.go): two definitions of one directive may differ in the TYPE-SYSTEM
    locations they allow (the merged definition allows the union) but must allow the same EXECUTABLE locations —
    where a client may write the directive in a query is not for one service to widen.

    Locations are values of any type with decidable equality; `isTS` says which are type-system locations (the code's
    `isTypeSystemDirectiveLocation`, a fixed table).  The code sorts the union; here the result is a duplicate-free
    list and the theorems speak about membership, so they hold for every order (the harness sorts both sides).

    Tied to merge.go by the L2.mergelocs correspondence (generated pairs of location lists through `gateway.New`, both
    service orders; outcome and the merged definition's locations). -/
namespace Ml

variable {α : Type} [DecidableEq α]

def addNew (acc : List α) (x : α) : List α := if x ∈ acc then acc else acc ++ [x]

/-- the union without repetitions, first occurrences first -/
def union (l1 l2 : List α) : List α := (l1 ++ l2).foldl addNew []

def execOf (isTS : α → Bool) (l : List α) : List α := l.filter (fun x => !isTS x)

def subset (a b : List α) : Bool := a.all (fun x => decide (x ∈ b))

/-- `mergeDirectiveLocations` -/
def mergeLocs (isTS : α → Bool) (l1 l2 : List α) : Option (List α) :=
  if subset (execOf isTS l1) (execOf isTS l2) && subset (execOf isTS l2) (execOf isTS l1) then some (union l1 l2) else none

theorem mem_foldl_addNew (l acc : List α) (x : α) : x ∈ l.foldl addNew acc ↔ x ∈ acc ∨ x ∈ l := by
  induction l generalizing acc with
  | nil => simp
  | cons y ys ih =>
    simp only [List.foldl_cons, ih, addNew, List.mem_cons]
    by_cases hy : y ∈ acc
    · simp only [hy, if_true]
      constructor
      · rintro (h | h)
        · exact Or.inl h
        · exact Or.inr (Or.inr h)
      · rintro (h | h | h)
        · exact Or.inl h
        · subst h; exact Or.inl hy
        · exact Or.inr h
    · simp only [hy, if_false, List.mem_append, List.mem_singleton]
      constructor
      · rintro ((h | h) | h)
        · exact Or.inl h
        · exact Or.inr (Or.inl h)
        · exact Or.inr (Or.inr h)
      · rintro (h | h | h)
        · exact Or.inl (Or.inl h)
        · exact Or.inl (Or.inr h)
        · exact Or.inr h

theorem nodup_foldl_addNew (l acc : List α) (h : acc.Nodup) : (l.foldl addNew acc).Nodup := by
  induction l generalizing acc with
  | nil => simpa
  | cons y ys ih =>
    simp only [List.foldl_cons]
    apply ih
    unfold addNew
    by_cases hy : y ∈ acc
    · simp [hy, h]
    · simp only [hy, if_false]
      rw [List.nodup_append]
      refine ⟨h, by simp, ?_⟩
      intro a ha b hb
      simp at hb; subst hb
      intro e; subst e; exact hy ha

/-- **the merged definition allows a location exactly when one of the two definitions does** -/
theorem mem_union (l1 l2 : List α) (x : α) : x ∈ union l1 l2 ↔ x ∈ l1 ∨ x ∈ l2 := by
  unfold union
  rw [mem_foldl_addNew]; simp

theorem union_nodup (l1 l2 : List α) : (union l1 l2).Nodup := nodup_foldl_addNew _ [] List.nodup_nil

theorem subset_iff (a b : List α) : subset a b = true ↔ ∀ x ∈ a, x ∈ b := by
  simp [subset, List.all_eq_true]

/-- **whether two definitions merge does not depend on which comes first** -/
theorem mergeLocs_isSome_comm (isTS : α → Bool) (l1 l2 : List α) :
    (mergeLocs isTS l1 l2).isSome = (mergeLocs isTS l2 l1).isSome := by
  unfold mergeLocs
  rw [Bool.and_comm]
  split <;> rfl

/-- **and neither does what the merged definition allows** -/
theorem mergeLocs_mem_comm (isTS : α → Bool) (l1 l2 r r' : List α)
    (h : mergeLocs isTS l1 l2 = some r) (h' : mergeLocs isTS l2 l1 = some r') (x : α) : x ∈ r ↔ x ∈ r' := by
  unfold mergeLocs at h h'
  split at h
  · split at h'
    · cases h; cases h'
      rw [mem_union, mem_union]; exact Or.comm
    · cases h'
  · cases h

/-- a successful merge contains every location of both definitions (containment) and nothing else -/
theorem mergeLocs_mem (isTS : α → Bool) (l1 l2 r : List α) (h : mergeLocs isTS l1 l2 = some r) (x : α) :
    x ∈ r ↔ x ∈ l1 ∨ x ∈ l2 := by
  unfold mergeLocs at h
  split at h
  · cases h; exact mem_union l1 l2 x
  · cases h

/-- **where a client may write the directive is what EACH service said**: the executable locations of the merged
    definition are those of the first definition, and those of the second -/
theorem mergeLocs_executable (isTS : α → Bool) (l1 l2 r : List α) (h : mergeLocs isTS l1 l2 = some r) (x : α)
    (hx : isTS x = false) : (x ∈ r ↔ x ∈ l1) ∧ (x ∈ r ↔ x ∈ l2) := by
  have hm := mergeLocs_mem isTS l1 l2 r h x
  unfold mergeLocs at h
  split at h
  · rename_i hc
    simp only [Bool.and_eq_true, subset_iff, execOf, List.mem_filter, Bool.not_eq_true'] at hc
    obtain ⟨h12, h21⟩ := hc
    constructor
    · rw [hm]
      constructor
      · rintro (h1 | h2)
        · exact h1
        · exact (h21 x ⟨h2, hx⟩).1
      · exact Or.inl
    · rw [hm]
      constructor
      · rintro (h1 | h2)
        · exact (h12 x ⟨h1, hx⟩).1
        · exact h2
      · exact Or.inr
  · cases h

/-- definitions that differ in an executable location are refused -/
theorem mergeLocs_refuses (isTS : α → Bool) (l1 l2 : List α) (x : α) (hx : isTS x = false) (h1 : x ∈ l1) (h2 : x ∉ l2) :
    mergeLocs isTS l1 l2 = none := by
  unfold mergeLocs
  split
  · rename_i hc
    simp only [Bool.and_eq_true, subset_iff, execOf, List.mem_filter, Bool.not_eq_true'] at hc
    exact absurd (hc.1 x ⟨h1, hx⟩).1 h2
  · rfl

/-- the type-system locations of the specification (June 2018 … October 2021) -/
def specTypeSystem : List String :=
  ["SCHEMA", "SCALAR", "OBJECT", "FIELD_DEFINITION", "ARGUMENT_DEFINITION", "INTERFACE", "UNION", "ENUM", "ENUM_VALUE",
   "INPUT_OBJECT", "INPUT_FIELD_DEFINITION"]

def isTypeSystem (l : String) : Bool := specTypeSystem.contains l

example : mergeLocs (fun n : Nat => n ≥ 10) [1, 11] [12, 1] = some [1, 11, 12] ∧ mergeLocs (fun n : Nat => n ≥ 10) [1, 11] [2, 11] = none := by decide

end Ml
