import GwModel.Trans.Map
/-! K₀⁻ prototype: fields with aliases, nested selections, lists, nulls, references (cyclic data allowed). -/
namespace Tr

inductive Sel where
  | mk (alias name : Nat) (sub : List Sel)
deriving Repr, Inhabited

inductive Data where
  | null | scalar (n : Nat) | ref (id : Nat) | list (xs : List Data)
deriving Repr, Inhabited

/-- response values; an object value remembers which object it renders (the join id) -/
inductive Val where
  | null | scalar (n : Nat) | list (xs : List Val) | obj (id : Nat) (kvs : List (Nat × Val))
deriving Repr, Inhabited

structure Obj where
  id : Nat
  type : Nat
  fields : List (Nat × Data)
deriving Repr, Inhabited

abbrev Store := List Obj
def Store.find (st : Store) (id : Nat) : Option Obj := List.find? (fun o => o.id == id) st
def fieldOf (o : Obj) (n : Nat) : Data := ((o.fields.find? (fun p => p.1 == n)).map (·.2)).getD .null

mutual
def mapData (st : Store) (f : Obj → Val) : Data → Val
  | .null => .null
  | .scalar n => .scalar n
  | .ref id => match st.find id with
    | none => .null
    | some o' => f o'
  | .list xs => .list (mapDataL st f xs)
def mapDataL (st : Store) (f : Obj → Val) : List Data → List Val
  | [] => []
  | d :: ds => mapData st f d :: mapDataL st f ds
end

-- the monolith semantics
mutual
def evalSels (st : Store) (o : Obj) : List Sel → KV Val → KV Val
  | [], acc => acc
  | s :: ss, acc => evalSels st o ss (evalSel st o s acc)
def evalSel (st : Store) (o : Obj) : Sel → KV Val → KV Val
  | .mk a n sub, acc =>
    ins a (mapData st (fun o' => .obj o'.id (evalSels st o' sub [])) (fieldOf o n)) acc
end

-- apply `g` to every object value reached through lists (not descending into objects)
mutual
def mapObjs (st : Store) (g : Obj → KV Val → KV Val) : Val → Val
  | .null => .null
  | .scalar n => .scalar n
  | .obj id kvs => match st.find id with
    | none => .obj id kvs
    | some o' => .obj id (g o' kvs)
  | .list xs => .list (mapObjsL st g xs)
def mapObjsL (st : Store) (g : Obj → KV Val → KV Val) : List Val → List Val
  | [] => []
  | v :: vs => mapObjs st g v :: mapObjsL st g vs
end

def modKey (k : Nat) (g : Val → Val) : KV Val → KV Val
  | [] => []
  | (k', v) :: m => if k = k' then (k', g v) :: m else (k', v) :: modKey k g m

/-- merge what `f` fetches for the object(s) found at `path` below object `o` -/
def mergeAt (st : Store) (f : Obj → KV Val) : List Nat → Obj → KV Val → KV Val
  | [], o, kvs => union kvs (f o)
  | a :: rest, _, kvs => modKey a (mapObjs st (fun o' kvs' => mergeAt st f rest o' kvs')) kvs

/-- a plan step: which service, what it is asked, and dependent steps at relative paths -/
inductive Step where
  | mk (loc : Nat) (sels : List Sel) (kids : List (List Nat × Step))
deriving Inhabited

mutual
def den (st : Store) : Step → Obj → KV Val
  | .mk _ sels kids, o => applyKids st kids o (evalSels st o sels [])
def applyKids (st : Store) : List (List Nat × Step) → Obj → KV Val → KV Val
  | [], _, kvs => kvs
  | (path, kid) :: ks, o, kvs => applyKids st ks o (mergeAt st (fun o' => den st kid o') path o kvs)
end

/-- planner (ungrouped): `choose T f parent` is the chooser, `ftype` the static field type -/
structure Routing where
  choose : Nat → Nat → Nat → Nat
  ftype : Nat → Nat → Nat

def prefixKids (a : Nat) (ks : List (List Nat × Step)) : List (List Nat × Step) :=
  ks.map fun p => (a :: p.1, p.2)

mutual
def splitSels (r : Routing) (L T : Nat) : List Sel → List Sel × List (List Nat × Step)
  | [] => ([], [])
  | s :: ss =>
    let h := splitSel r L T s
    let t := splitSels r L T ss
    (h.1 ++ t.1, h.2 ++ t.2)
def splitSel (r : Routing) (L T : Nat) : Sel → List Sel × List (List Nat × Step)
  | .mk a n sub =>
    let l := r.choose T n L
    if l = L then
      let x := splitSels r L (r.ftype T n) sub
      ([.mk a n x.1], prefixKids a x.2)
    else
      let x := splitSels r l (r.ftype T n) sub
      ([], [([], .mk l [.mk a n x.1] (prefixKids a x.2))])
end

-- smoke test
def stT : Store := [⟨1, 0, [(10, .scalar 7), (11, .list [.ref 2, .null, .ref 1]), (12, .scalar 9)]⟩,
                    ⟨2, 0, [(10, .scalar 8), (11, .list []), (12, .scalar 5)]⟩]
def rT : Routing := { choose := fun _ f _ => if f = 12 then 1 else 0, ftype := fun _ _ => 0 }
def qT : List Sel := [.mk 100 10 [], .mk 101 11 [.mk 100 10 [], .mk 102 12 []], .mk 102 12 []]
#eval evalSels stT stT[0]! qT []
#eval let p := splitSels rT 0 0 qT; applyKids stT p.2 stT[0]! (evalSels stT stT[0]! p.1 [])

end Tr
