/-! Canonical finite maps Nat → α as key-sorted association lists (prototype for response objects). -/
namespace Tr

abbrev KV (α : Type) := List (Nat × α)

def ins {α} (k : Nat) (v : α) : KV α → KV α
  | [] => [(k, v)]
  | (k', v') :: m =>
    if k < k' then (k, v) :: (k', v') :: m
    else if k = k' then (k, v) :: m
    else (k', v') :: ins k v m

def get {α} (k : Nat) : KV α → Option α
  | [] => none
  | (k', v') :: m => if k = k' then some v' else get k m

/-- right-biased union: entries of `b` are inserted into `a` -/
def union {α} (a b : KV α) : KV α := b.foldl (fun m p => ins p.1 p.2 m) a

theorem ins_comm {α} (k₁ k₂ : Nat) (v₁ v₂ : α) (h : k₁ ≠ k₂) :
    ∀ m : KV α, ins k₁ v₁ (ins k₂ v₂ m) = ins k₂ v₂ (ins k₁ v₁ m)
  | [] => by
    simp only [ins]; grind [ins]
  | (k, v) :: m => by
    have ih := ins_comm k₁ k₂ v₁ v₂ h m
    simp only [ins]; grind [ins]

theorem ins_idem {α} (k : Nat) (v w : α) : ∀ m : KV α, ins k v (ins k w m) = ins k v m
  | [] => by simp [ins]
  | (k', v') :: m => by
    have ih := ins_idem k v w m
    simp only [ins]; grind [ins]

theorem get_ins_same {α} (k : Nat) (v : α) : ∀ m : KV α, get k (ins k v m) = some v
  | [] => by simp [ins, get]
  | (k', v') :: m => by
    have ih := get_ins_same k v m
    simp only [ins]; grind [get]

theorem get_ins_other {α} (k k' : Nat) (v : α) (h : k' ≠ k) : ∀ m : KV α, get k' (ins k v m) = get k' m
  | [] => by simp [ins, get, h]
  | (k₀, v₀) :: m => by
    have ih := get_ins_other k k' v h m
    simp only [ins]; grind [get]

end Tr
