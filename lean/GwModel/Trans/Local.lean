import GwModel.Trans.Sem
/-! No needless hop (C13): when the chooser keeps every field at the current location, the planner's
    split produces no dependent step and leaves the selection unchanged. -/
namespace Tr

mutual
theorem splitSels_local (r : Routing) (L : Nat) (h : ∀ T f, r.choose T f L = L) :
    ∀ (T : Nat) (l : List Sel), splitSels r L T l = (l, [])
  | _, [] => by simp [splitSels]
  | T, s :: ss => by
    simp only [splitSels]
    rw [splitSel_local r L h T s, splitSels_local r L h T ss]
    simp
theorem splitSel_local (r : Routing) (L : Nat) (h : ∀ T f, r.choose T f L = L) :
    ∀ (T : Nat) (s : Sel), splitSel r L T s = ([s], [])
  | T, .mk a n sub => by
    simp only [splitSel, h T n, if_true]
    rw [splitSels_local r L h (r.ftype T n) sub]
    simp [prefixKids]
end

end Tr
