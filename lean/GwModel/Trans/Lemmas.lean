import GwModel.Trans.Sem
namespace Tr

/-! ### assoc-list helpers -/

theorem modKey_ins_same (a : Nat) (g : Val → Val) (v : Val) :
    ∀ m : KV Val, modKey a g (ins a v m) = ins a (g v) m
  | [] => by simp [ins, modKey]
  | (k, w) :: m => by
    have ih := modKey_ins_same a g v m
    simp only [ins]; grind [modKey, ins]

theorem modKey_ins_other (a b : Nat) (g : Val → Val) (v : Val) (h : a ≠ b) :
    ∀ m : KV Val, modKey a g (ins b v m) = ins b v (modKey a g m)
  | [] => by simp [ins, modKey, h]
  | (k, w) :: m => by
    have ih := modKey_ins_other a b g v h m
    simp only [ins, modKey]; grind [modKey, ins]

theorem union_single (m : KV Val) (a : Nat) (w : Val) : union m (ins a w []) = ins a w m := by
  simp [union, ins]

/-! ### structure lemmas -/

def aliasOf : Sel → Nat | .mk a _ _ => a
def aliases (l : List Sel) : List Nat := l.map aliasOf

theorem find_id {st : Store} {i : Nat} {o : Obj} (h : st.find i = some o) : st.find o.id = some o := by
  unfold Store.find at h ⊢
  have hi : o.id = i := by simpa using List.find?_some h
  rw [hi]; exact h

mutual
theorem mapObjs_mapData (st : Store) (g : Obj → KV Val → KV Val) (F : Obj → KV Val) :
    ∀ d : Data, mapObjs st g (mapData st (fun o' => .obj o'.id (F o')) d)
      = mapData st (fun o' => .obj o'.id (g o' (F o'))) d
  | .null => by simp [mapData, mapObjs]
  | .scalar n => by simp [mapData, mapObjs]
  | .ref id => by
    simp only [mapData]
    cases h : st.find id with
    | none => simp [mapObjs]
    | some o' => simp [mapObjs, find_id h]
  | .list xs => by
    simp only [mapData, mapObjs]
    rw [mapObjsL_mapDataL st g F xs]
theorem mapObjsL_mapDataL (st : Store) (g : Obj → KV Val → KV Val) (F : Obj → KV Val) :
    ∀ ds : List Data, mapObjsL st g (mapDataL st (fun o' => .obj o'.id (F o')) ds)
      = mapDataL st (fun o' => .obj o'.id (g o' (F o'))) ds
  | [] => by simp [mapDataL, mapObjsL]
  | d :: ds => by
    simp only [mapDataL, mapObjsL]
    rw [mapObjs_mapData st g F d, mapObjsL_mapDataL st g F ds]
end

mutual
theorem mapData_congr (st : Store) (f g : Obj → Val) (h : ∀ o, f o = g o) :
    ∀ d : Data, mapData st f d = mapData st g d
  | .null => by simp [mapData]
  | .scalar n => by simp [mapData]
  | .ref id => by simp only [mapData]; cases st.find id <;> simp [h]
  | .list xs => by simp only [mapData]; rw [mapDataL_congr st f g h xs]
theorem mapDataL_congr (st : Store) (f g : Obj → Val) (h : ∀ o, f o = g o) :
    ∀ ds : List Data, mapDataL st f ds = mapDataL st g ds
  | [] => rfl
  | d :: ds => by simp only [mapDataL]; rw [mapData_congr st f g h d, mapDataL_congr st f g h ds]
end

mutual
theorem mapObjs_comp (st : Store) (g₁ g₂ : Obj → KV Val → KV Val) :
    ∀ v : Val, mapObjs st g₂ (mapObjs st g₁ v) = mapObjs st (fun o kvs => g₂ o (g₁ o kvs)) v
  | .null => by simp [mapObjs]
  | .scalar n => by simp [mapObjs]
  | .obj id kvs => by
    simp only [mapObjs]
    cases h : st.find id with
    | none => simp [mapObjs, h]
    | some o' => simp [mapObjs, h]
  | .list xs => by simp only [mapObjs]; rw [mapObjsL_comp st g₁ g₂ xs]
theorem mapObjsL_comp (st : Store) (g₁ g₂ : Obj → KV Val → KV Val) :
    ∀ vs : List Val, mapObjsL st g₂ (mapObjsL st g₁ vs) = mapObjsL st (fun o kvs => g₂ o (g₁ o kvs)) vs
  | [] => rfl
  | v :: vs => by simp only [mapObjsL]; rw [mapObjs_comp st g₁ g₂ v, mapObjsL_comp st g₁ g₂ vs]
end

mutual
theorem mapObjs_id (st : Store) : ∀ v : Val, mapObjs st (fun _ kvs => kvs) v = v
  | .null => by simp [mapObjs]
  | .scalar n => by simp [mapObjs]
  | .obj id kvs => by simp only [mapObjs]; cases st.find id <;> rfl
  | .list xs => by simp only [mapObjs]; rw [mapObjsL_id st xs]
theorem mapObjsL_id (st : Store) : ∀ vs : List Val, mapObjsL st (fun _ kvs => kvs) vs = vs
  | [] => rfl
  | v :: vs => by simp only [mapObjsL]; rw [mapObjs_id st v, mapObjsL_id st vs]
end

/-- prefixed kids only rewrite the value under key `a` -/
theorem applyKids_prefix (st : Store) (a : Nat) :
    ∀ (ks : List (List Nat × Step)) (o : Obj) (v : Val) (X : KV Val),
      applyKids st (prefixKids a ks) o (ins a v X)
        = ins a (mapObjs st (fun o' kvs' => applyKids st ks o' kvs') v) X
  | [], o, v, X => by
    simp [prefixKids, applyKids, mapObjs_id]
  | (p, kid) :: ks, o, v, X => by
    have ih := applyKids_prefix st a ks o
    simp only [prefixKids, List.map_cons] at ih ⊢
    simp only [applyKids, mergeAt]
    rw [modKey_ins_same]
    rw [ih]
    rw [mapObjs_comp]

theorem applyKids_prefix_other (st : Store) (a b : Nat) (h : a ≠ b) :
    ∀ (ks : List (List Nat × Step)) (o : Obj) (v : Val) (X : KV Val),
      applyKids st (prefixKids a ks) o (ins b v X) = ins b v (applyKids st (prefixKids a ks) o X)
  | [], o, v, X => by simp [prefixKids, applyKids]
  | (p, kid) :: ks, o, v, X => by
    have ih := applyKids_prefix_other st a b h ks o
    simp only [prefixKids, List.map_cons] at ih ⊢
    simp only [applyKids, mergeAt]
    rw [modKey_ins_other a b _ v h, ih]

theorem applyKids_append (st : Store) :
    ∀ (k₁ k₂ : List (List Nat × Step)) (o : Obj) (X : KV Val),
      applyKids st (k₁ ++ k₂) o X = applyKids st k₂ o (applyKids st k₁ o X)
  | [], _, _, _ => by simp [applyKids]
  | (p, kid) :: k₁, k₂, o, X => by
    simp only [List.cons_append, applyKids]
    exact applyKids_append st k₁ k₂ o _

theorem evalSels_append (st : Store) (o : Obj) :
    ∀ (l₁ l₂ : List Sel) (X : KV Val), evalSels st o (l₁ ++ l₂) X = evalSels st o l₂ (evalSels st o l₁ X)
  | [], _, _ => by simp [evalSels]
  | s :: l₁, l₂, X => by
    simp only [List.cons_append, evalSels]
    exact evalSels_append st o l₁ l₂ _

/-- inserting a fresh key commutes with evaluating selections that do not use it -/
theorem evalSels_ins (st : Store) (o : Obj) (a : Nat) (v : Val) :
    ∀ (l : List Sel) (X : KV Val), a ∉ aliases l →
      evalSels st o l (ins a v X) = ins a v (evalSels st o l X)
  | [], _, _ => by simp [evalSels]
  | .mk b n sub :: l, X, h => by
    have hb : a ≠ b := by
      intro hab; apply h; simp [aliases, aliasOf, hab]
    have hl : a ∉ aliases l := by
      intro hm; apply h; simp only [aliases, List.map_cons, List.mem_cons]; exact Or.inr hm
    simp only [evalSels, evalSel]
    rw [ins_comm _ _ _ _ (Ne.symm hb), evalSels_ins st o a v l _ hl]

end Tr
