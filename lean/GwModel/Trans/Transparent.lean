import GwModel.Trans.Lemmas
namespace Tr

variable (st : Store) (r : Routing)

/-- the full value of field `s` at object `o` in the monolith -/
def fullVal (o : Obj) : Sel → Val
  | .mk _ n sub => mapData st (fun o' => .obj o'.id (evalSels st o' sub [])) (fieldOf o n)

theorem evalSel_eq (o : Obj) (s : Sel) (X : KV Val) :
    evalSel st o s X = ins (aliasOf s) (fullVal st o s) X := by
  cases s; simp [evalSel, fullVal, aliasOf]

mutual
def NodupSels : List Sel → Prop
  | [] => True
  | s :: ss => aliasOf s ∉ aliases ss ∧ NodupSel s ∧ NodupSels ss
def NodupSel : Sel → Prop
  | .mk _ _ sub => NodupSels sub
end

mutual
theorem aliases_local_sels (L T : Nat) : ∀ (l : List Sel) (a : Nat),
    a ∈ aliases (splitSels r L T l).1 → a ∈ aliases l
  | [], a, h => by simp [splitSels, aliases] at h
  | s :: ss, a, h => by
    simp only [splitSels, aliases, List.map_append, List.mem_append] at h
    simp only [aliases, List.map_cons, List.mem_cons]
    rcases h with h | h
    · left; exact aliases_local_sel L T s a h
    · right; exact aliases_local_sels L T ss a h
theorem aliases_local_sel (L T : Nat) : ∀ (s : Sel) (a : Nat),
    a ∈ (splitSel r L T s).1.map aliasOf → a = aliasOf s
  | .mk b n sub, a, h => by
    simp only [splitSel] at h
    split at h
    · simp [aliasOf] at h; simp [aliasOf, h]
    · simp at h
end

/-- what the dependent steps of one field do at the level of its parent object:
    they only produce/rewrite the field's own response key -/
def HeadOK (o : Obj) (s : Sel) (p : List Sel × List (List Nat × Step)) : Prop :=
  (∀ X, applyKids st p.2 o (evalSels st o p.1 X) = ins (aliasOf s) (fullVal st o s) X) ∧
  (∀ b v X, b ≠ aliasOf s → applyKids st p.2 o (ins b v X) = ins b v (applyKids st p.2 o X))

mutual
/-- **Transparency (K₀⁻).** Executing the plan for a selection set at an object gives the
    monolith's answer for that selection set at that object. -/
theorem transparent_sels (L T : Nat) : ∀ (l : List Sel) (o : Obj) (X : KV Val), NodupSels l →
    applyKids st (splitSels r L T l).2 o (evalSels st o (splitSels r L T l).1 X) = evalSels st o l X
  | [], o, X, _ => by simp [splitSels, applyKids, evalSels]
  | s :: ss, o, X, hnd => by
    obtain ⟨hs, hnds, hndss⟩ := hnd
    have hh := transparent_sel L T s o hnds
    have ih := transparent_sels L T ss o
    simp only [splitSels]
    rw [applyKids_append, evalSels_append]
    -- move the head's kids inside past the tail's local selections
    have hcomm : ∀ Y, applyKids st (splitSel r L T s).2 o (evalSels st o (splitSels r L T ss).1 Y)
        = evalSels st o (splitSels r L T ss).1 (applyKids st (splitSel r L T s).2 o Y) := by
      have hfresh : aliasOf s ∉ aliases (splitSels r L T ss).1 :=
        fun hm => hs (aliases_local_sels r L T ss _ hm)
      generalize (splitSels r L T ss).1 = l2 at hfresh
      intro Y
      induction l2 generalizing Y with
      | nil => simp [evalSels]
      | cons t l2 ih2 =>
        have ht : aliasOf t ≠ aliasOf s := by
          intro h; apply hfresh; simp [aliases, h]
        have hl2 : aliasOf s ∉ aliases l2 := by
          intro hm; apply hfresh; simp only [aliases, List.map_cons, List.mem_cons]; exact Or.inr hm
        simp only [evalSels]
        rw [ih2 hl2, evalSel_eq, evalSel_eq, hh.2 _ _ _ ht]
    rw [hcomm, hh.1, ih _ hndss, evalSels, evalSel_eq]
theorem transparent_sel (L T : Nat) : ∀ (s : Sel) (o : Obj), NodupSel s →
    HeadOK st o s (splitSel r L T s)
  | .mk a n sub, o, hnd => by
    have hnd' : NodupSels sub := hnd
    -- value produced below this field, on either side of the split
    have hval : ∀ (l : Nat),
        mapObjs st (fun o' kvs' => applyKids st (splitSels r l (r.ftype T n) sub).2 o' kvs')
          (mapData st (fun o' => .obj o'.id (evalSels st o' (splitSels r l (r.ftype T n) sub).1 [])) (fieldOf o n))
        = fullVal st o (.mk a n sub) := by
      intro l
      rw [mapObjs_mapData]
      unfold fullVal
      apply mapData_congr
      intro o'
      rw [transparent_sels l (r.ftype T n) sub o' [] hnd']
    simp only [splitSel]
    split
    · -- kept at the current service
      refine ⟨?_, ?_⟩
      · intro X
        simp only [evalSels, evalSel, aliasOf]
        rw [applyKids_prefix, hval]
      · intro b v X hb
        exact applyKids_prefix_other st a b (Ne.symm hb) _ o v X
    · -- fetched from another service through a dependent step
      have hden : den st (.mk (r.choose T n L) [.mk a n (splitSels r (r.choose T n L) (r.ftype T n) sub).1]
            (prefixKids a (splitSels r (r.choose T n L) (r.ftype T n) sub).2)) o
          = ins a (fullVal st o (.mk a n sub)) [] := by
        simp only [den, evalSels, evalSel]
        rw [applyKids_prefix, hval]
      refine ⟨?_, ?_⟩
      · intro X
        simp only [applyKids, mergeAt, evalSels, aliasOf]
        rw [hden, union_single]
      · intro b v X hb
        simp only [applyKids, mergeAt]
        rw [hden, union_single, union_single]
        exact ins_comm a b _ _ (fun h => hb (by simp [aliasOf, h])) X
end

/-- corollary at the top: the plan's answer for a whole selection set equals the monolith's -/
theorem transparent (L T : Nat) (l : List Sel) (o : Obj) (h : NodupSels l) :
    applyKids st (splitSels r L T l).2 o (evalSels st o (splitSels r L T l).1 []) = evalSels st o l [] :=
  transparent_sels st r L T l o [] h

#print axioms transparent
end Tr
