import GwModel.FactTypes
/-! Model of `MinQueriesPlanner.selectLocation` (plan.go), parameterised by the facts extracted from the
    source: which sources make up the priority list and in which order. Used by C02 (confinement),
    C08 (no ping-pong), C13 (no needless hop) and C20 (priority, then locality). -/
namespace Sel

abbrev Loc := String

/-- the chooser proper: a single possible location is taken as is; otherwise the first entry of the
    priority list that is possible; otherwise the first declared location -/
def choose (possible prio : List Loc) : Option Loc :=
  match possible with
  | [] => none            -- `URLFor` fails before the real code gets here
  | [l] => some l
  | l :: _ =>
    match prio.find? (fun p => decide (p ∈ possible)) with
    | some p => some p
    | none => some l

/-- the priority list the source builds -/
def prioOf (order : List Facts.PrioSource) (configured : List Loc) (parent internal : Loc) : List Loc :=
  order.flatMap fun s =>
    match s with
    | .configured => configured
    | .parent => [parent]
    | .internal => [internal]
    | .unknown => []

def FactsSafe (f : Facts.SelectFacts) : Prop :=
  f.recognised = true ∧ f.singleShortCircuit = true ∧ f.fallbackFirst = true ∧
  f.order = [.configured, .parent, .internal]

instance (f : Facts.SelectFacts) : Decidable (FactsSafe f) := by unfold FactsSafe; exact inferInstance

/-- the rule the property states: configured priorities, then the enclosing object's service, then the gateway -/
def spec : Facts.SelectFacts :=
  { recognised := true, singleShortCircuit := true, fallbackFirst := true, order := [.configured, .parent, .internal] }

/-- `selectLocation` as the current source denotes it -/
def selectLocation (f : Facts.SelectFacts) (possible configured : List Loc) (parent internal : Loc) : Option Loc :=
  choose possible (prioOf f.order configured parent internal)

/-- when the extracted facts are safe, the source denotes the specified rule (the driver always answers with
    the specified rule, so that a replay found on a changed tree is a real counterexample to the property) -/
theorem selectLocation_of_safe {f : Facts.SelectFacts} (h : FactsSafe f) (possible configured : List Loc)
    (parent internal : Loc) :
    selectLocation f possible configured parent internal = selectLocation spec possible configured parent internal := by
  unfold selectLocation; rw [h.2.2.2]; rfl

theorem prioOf_safe (configured : List Loc) (parent internal : Loc) :
    prioOf [.configured, .parent, .internal] configured parent internal = configured ++ [parent, internal] := by
  simp [prioOf, List.flatMap]

/-- the chosen location always declares the field (whatever the priority list) -/
theorem choose_mem {possible prio : List Loc} {l : Loc} (h : choose possible prio = some l) : l ∈ possible := by
  unfold choose at h
  split at h
  · cases h
  · cases h; simp
  · split at h
    · rename_i p hp
      have := List.find?_some hp
      cases h; simpa using this
    · cases h; simp

theorem find_first {l : List Loc} {q : Loc → Bool} {x : Loc} (hx : q x = true)
    (hl : l.find? q = none) (rest : List Loc) : (l ++ x :: rest).find? q = some x := by
  rw [List.find?_append, hl]; simp [List.find?, hx]

/-- re-asking from the chosen location gives the chosen location again: a dependent step never sends
    its own top-level fields elsewhere (no ping-pong, no needless hop) -/
theorem choose_stable {possible configured : List Loc} {parent internal l : Loc}
    (h : choose possible (configured ++ [parent, internal]) = some l) :
    choose possible (configured ++ [l, internal]) = some l := by
  have hmem := choose_mem h
  unfold choose at h ⊢
  split at h
  · cases h
  · exact h
  · rename_i a b hne
    cases hp : configured.find? (fun p => decide (p ∈ a :: b)) with
    | some p =>
      rw [List.find?_append, hp] at h ⊢
      exact h
    | none =>
      rw [find_first (by simpa using hmem) hp]

/-- a configured priority that offers the field wins: the result is the FIRST configured location that
    is possible -/
theorem choose_priority {possible configured : List Loc} {parent internal p : Loc}
    (hlen : 2 ≤ possible.length)
    (hp : configured.find? (fun q => decide (q ∈ possible)) = some p) :
    choose possible (configured ++ [parent, internal]) = some p := by
  unfold choose
  split
  · simp at hlen
  · simp at hlen
  · rw [List.find?_append, hp]; rfl

/-- no applicable priority: the field stays with the service already being queried if it offers it -/
theorem choose_parent {possible configured : List Loc} {parent internal : Loc}
    (hnone : configured.find? (fun q => decide (q ∈ possible)) = none) (hpar : parent ∈ possible) :
    choose possible (configured ++ [parent, internal]) = some parent := by
  unfold choose
  split
  · cases hpar
  · rename_i l; simp at hpar; subst hpar; rfl
  · rw [find_first (by simpa using hpar) hnone]

/-- neither a priority nor the parent: the gateway's own fields are answered by the gateway -/
theorem choose_internal {possible configured : List Loc} {parent internal : Loc}
    (hlen : 2 ≤ possible.length)
    (hnone : configured.find? (fun q => decide (q ∈ possible)) = none) (hpar : parent ∉ possible)
    (hint : internal ∈ possible) :
    choose possible (configured ++ [parent, internal]) = some internal := by
  unfold choose
  split
  · cases hint
  · simp at hlen
  · rename_i a b hne
    have h1 : (configured ++ [parent]).find? (fun q => decide (q ∈ a :: b)) = none := by
      rw [List.find?_append, hnone]; simp [List.find?, hpar]
    have : configured ++ [parent, internal] = (configured ++ [parent]) ++ internal :: [] := by simp
    rw [this, find_first (by simpa using hint) h1]

/-- totality: whenever some service declares the field, a location is chosen -/
theorem choose_total {possible prio : List Loc} (h : possible ≠ []) : ∃ l, choose possible prio = some l := by
  unfold choose
  split
  · exact absurd rfl h
  · exact ⟨_, rfl⟩
  · split <;> exact ⟨_, rfl⟩


/-! ### entries that name no offering service, and repeated entries -/

theorem find_skip {pre post : List Loc} {q : Loc → Bool} {x : Loc} (hx : q x = false) :
    (pre ++ x :: post).find? q = (pre ++ post).find? q := by
  rw [List.find?_append, List.find?_append]
  simp [List.find?, hx]

/-- an entry of the priority list that does not offer the field — a blank, a name no service has, a service that
    does not declare it — changes nothing, wherever it stands -/
theorem choose_skip_irrelevant (possible pre post : List Loc) (x : Loc) (hx : x ∉ possible) :
    choose possible (pre ++ x :: post) = choose possible (pre ++ post) := by
  unfold choose
  split
  · rfl
  · rfl
  · rename_i a b hne
    rw [find_skip (by simpa using hx)]

theorem find_repeat {pre mid post : List Loc} {q : Loc → Bool} {x : Loc} :
    (pre ++ x :: (mid ++ x :: post)).find? q = (pre ++ x :: (mid ++ post)).find? q := by
  cases hx : q x with
  | true =>
    rw [List.find?_append, List.find?_append]
    simp [List.find?, hx]
  | false =>
    rw [find_skip hx, find_skip hx]
    have : pre ++ (mid ++ x :: post) = (pre ++ mid) ++ x :: post := by simp
    rw [this, find_skip hx]; simp

/-- naming a service a second time changes nothing: its first occurrence is its rank, and what follows the
    repetition keeps its order -/
theorem choose_repeat_irrelevant (possible pre mid post : List Loc) (x : Loc) :
    choose possible (pre ++ x :: (mid ++ x :: post)) = choose possible (pre ++ x :: (mid ++ post)) := by
  unfold choose
  split
  · rfl
  · rfl
  · rw [find_repeat]

end Sel
