import GwModel.InsertApply
/-! Model of `executorFindInsertionPoints` (execute.go) for the way the executor and the scrubber call it: one
    starting branch.  The step's selection set enters through `PInfo` (per point of the target path: is there a
    field with this response key at this level, is its declared type a list, is it non-null), the reply through
    `Ins.J`.  A realised point keeps its parts (`key`, index, id value) instead of the rendered string; rendering
    and parsing are `Pt.renderPoint` / `Pt.parsePoint`. -/
namespace Fp
open Ins

structure PInfo where
  key : Nat
  found : Bool
  isList : Bool
  nonNull : Bool
deriving Repr, DecidableEq

inductive FErr
  | nullRequired | notList | entryNotMap | tooShort | itemNotMap | noIdObject | notObject
deriving Repr, DecidableEq

/-- a realised point -/
structure RPt where
  key : Nat
  idx : Option Nat
  id : Option J
deriving Repr

def concatM {α ε} : List (Except ε (List α)) → Except ε (List α)
  | [] => .ok []
  | x :: xs => do
    let a ← x
    let b ← concatM xs
    pure (a ++ b)

/-- entries of a list with their indices -/
def enumFrom {α} : Nat → List α → List (Nat × α)
  | _, [] => []
  | n, x :: xs => (n, x) :: enumFrom (n + 1) xs

def findPts : List PInfo → KVs → List RPt → Except FErr (List (List RPt))
  | [], _, pre => .ok [pre]
  | p :: rest, chunk, pre =>
    if !p.found then .ok [] else
    match lookup p.key chunk with
    | none => .ok []
    | some .null => if p.nonNull then .error .nullRequired else .ok []
    | some value =>
      if p.isList then
        match value with
        | .arr entries =>
          concatM ((enumFrom 0 entries).map fun (i, e) =>
            match e with
            | .null => .ok []
            | .obj ekvs =>
              match rest, lookup 0 ekvs with   -- key 0 is "id" (interned first by the driver)
              | [], none => .ok []
              | [], some id => .ok [pre ++ [⟨p.key, some i, some id⟩]]
              | _ :: _, _ => findPts rest ekvs (pre ++ [⟨p.key, some i, none⟩])
            | _ => .error .entryNotMap)
        | _ => .error .notList
      else
        let chunk' := match value with | .obj k => k | _ => chunk
        match rest with
        | [] =>
          match value with
          | .arr l =>
            match l with
            | [] => .error .tooShort
            | .obj ekvs :: _ =>
              match lookup 0 ekvs with
              | none => .error .noIdObject
              | some id => .ok [pre ++ [⟨p.key, some 0, some id⟩]]
            | _ :: _ => .error .itemNotMap
          | .obj k =>
            match lookup 0 k with
            | none => .ok []
            | some id => .ok [pre ++ [⟨p.key, none, some id⟩]]
          | _ => .error .notObject
        | _ :: _ => findPts rest chunk' (pre ++ [⟨p.key, none, none⟩])

end Fp
