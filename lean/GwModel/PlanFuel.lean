import GwModel.PlanCover
/-! `extractSelection` does not run out of fuel (C08): on a selection without named fragments, more fuel than the
    nesting depth of the selection is enough — together with `PlanTotal` the call then ends with the step's
    selection or with a field that has no location, nothing else. -/
namespace Pl

mutual
def depth : Sel → Nat
  | .field _ _ _ _ _ _ sub => depthL sub + 1
  | .inline _ _ sub => depthL sub + 1
  | .spread _ _ => 1
def depthL : List Sel → Nat
  | [] => 0
  | s :: ss => max (depth s) (depthL ss)
end

theorem depth_le_depthL : ∀ {l : List Sel} {s : Sel}, s ∈ l → depth s ≤ depthL l
  | x :: l, s, h => by
    simp only [depthL]
    rcases List.mem_cons.1 h with h | h
    · subst h; exact Nat.le_max_left _ _
    · exact Nat.le_trans (depth_le_depthL h) (Nat.le_max_right _ _)

theorem depthL_le_of_mem : ∀ {l : List Sel} {d : Nat}, (∀ s ∈ l, depth s ≤ d) → depthL l ≤ d
  | [], _, _ => Nat.zero_le _
  | x :: l, d, h => by
    simp only [depthL]
    exact Nat.max_le.2 ⟨h x (List.mem_cons_self ..), depthL_le_of_mem (fun s hs => h s (List.mem_cons_of_mem _ hs))⟩

def BucketsDepth (d : Nat) (b : Buckets Sel) : Prop := ∀ l ss, (l, ss) ∈ b → ∀ s ∈ ss, depth s ≤ d

theorem bucketsDepth_add {d : Nat} {b : Buckets Sel} {l : Loc} {x : Sel} (hb : BucketsDepth d b) (hx : depth x ≤ d) :
    BucketsDepth d (b.add l x) := by
  intro l' ss' hm s hs
  rcases mem_add hm with hm | ⟨h1, old, h2, h3⟩
  · exact hb l' ss' hm s hs
  · subst h1; subst h2
    rcases List.mem_append.1 hs with hs | hs
    · rcases h3 with h3 | h3
      · exact hb _ _ h3 s hs
      · subst h3; cases hs
    · have : s = x := by simpa using hs
      subst this; exact hx

theorem bucketsDepth_nil (d : Nat) : BucketsDepth d [] := by intro l ss h; cases h

theorem splitByLoc_depth {env : Env} {pl : Loc} {T : String} {d : Nat} :
    ∀ (sels : List Sel) (b b' : Buckets Sel), (∀ s ∈ sels, depth s ≤ d) → splitByLoc env pl T sels b = .ok b' →
      BucketsDepth d b → BucketsDepth d b'
  | [], b, b', _, h, hb => by simp only [splitByLoc] at h; cases h; exact hb
  | .field a n g gv dd t s :: rest, b, b', hd, h, hb => by
    simp only [splitByLoc] at h
    split at h
    · cases h
    · exact splitByLoc_depth rest _ b' (fun x hx => hd x (List.mem_cons_of_mem _ hx)) h
        (bucketsDepth_add hb (hd _ (List.mem_cons_self ..)))
  | .inline c dd s :: rest, b, b', hd, h, hb => by
    simp only [splitByLoc] at h
    exact splitByLoc_depth rest _ b' (fun x hx => hd x (List.mem_cons_of_mem _ hx)) h
      (bucketsDepth_add hb (hd _ (List.mem_cons_self ..)))
  | .spread n dd :: rest, b, b', hd, h, hb => by
    simp only [splitByLoc] at h
    exact splitByLoc_depth rest _ b' (fun x hx => hd x (List.mem_cons_of_mem _ hx)) h
      (bucketsDepth_add hb (hd _ (List.mem_cons_self ..)))

theorem bucketsDepth_fold_inline {d : Nat} (c : String) (dd : List Dir) :
    ∀ (fl : Buckets Sel) (lf : Buckets Sel), (∀ l ss, (l, ss) ∈ fl → depthL ss + 1 ≤ d) → BucketsDepth d lf →
      BucketsDepth d (fl.foldl (fun acc p => acc.add p.1 (.inline c dd p.2)) lf)
  | [], _, _, h => h
  | p :: fl, lf, hfl, h => by
    simp only [List.foldl_cons]
    refine bucketsDepth_fold_inline c dd fl _ (fun l ss hm => hfl l ss (List.mem_cons_of_mem _ hm)) (bucketsDepth_add h ?_)
    simp only [depth]
    exact hfl p.1 p.2 (List.mem_cons_self ..)

theorem group_depth {env : Env} {pl : Loc} {T : String} {sf : List FragDef} {d : Nat} :
    ∀ (sels : List Sel) (acc res : Buckets Sel × Buckets FragDef), noSpreadL sels = true → (∀ s ∈ sels, depth s ≤ d) →
      group env pl T sf sels acc = .ok res → BucketsDepth d acc.1 → BucketsDepth d res.1
  | [], acc, res, _, _, h, ha => by simp only [group] at h; cases h; exact ha
  | .field a n g gv dd t s :: rest, (lf, lfr), res, hns, hd, h, ha => by
    simp only [group] at h
    simp only [noSpreadL, Bool.and_eq_true] at hns
    split at h
    · cases h
    · exact group_depth rest _ res hns.2 (fun x hx => hd x (List.mem_cons_of_mem _ hx)) h
        (bucketsDepth_add ha (hd _ (List.mem_cons_self ..)))
  | .spread name dirs :: rest, _, _, hns, _, _, _ => by simp [noSpreadL, noSpread] at hns
  | .inline cond dirs sub :: rest, (lf, lfr), res, hns, hd, h, ha => by
    simp only [group] at h
    simp only [noSpreadL, Bool.and_eq_true] at hns
    split at h
    · cases h
    · rename_i fl hfl
      refine group_depth rest _ res hns.2 (fun x hx => hd x (List.mem_cons_of_mem _ hx)) h ?_
      have hin : depthL sub + 1 ≤ d := by
        have := hd _ (List.mem_cons_self ..)
        simpa [depth] using this
      have hfd : BucketsDepth (depthL sub) fl :=
        splitByLoc_depth sub [] fl (fun s hs => depth_le_depthL hs) hfl (bucketsDepth_nil _)
      refine bucketsDepth_fold_inline cond dirs fl lf ?_ ha
      intro l ss hm
      have : depthL ss ≤ depthL sub := depthL_le_of_mem (hfd l ss hm)
      omega

theorem group_error_not_fuel {env : Env} {pl : Loc} {T : String} {sf : List FragDef} :
    ∀ (sels : List Sel) (acc : Buckets Sel × Buckets FragDef), group env pl T sf sels acc ≠ .error .fuel := by
  intro sels acc h
  -- `group` only fails through `locate` (no route / empty entry) or an undefined fragment
  have key : ∀ (sels : List Sel) (acc : Buckets Sel × Buckets FragDef) (e : Err),
      group env pl T sf sels acc = .error e → e ≠ .fuel := by
    have loc : ∀ (T' f : String) (e : Err), locate env pl T' f = .error e → e ≠ .fuel := by
      intro T' f e he
      unfold locate at he
      split at he
      · cases he; intro hc; cases hc
      · split at he
        · cases he
        · cases he; intro hc; cases hc
    have split : ∀ (T' : String) (sels : List Sel) (b : Buckets Sel) (e : Err),
        splitByLoc env pl T' sels b = .error e → e ≠ .fuel := by
      intro T' sels
      induction sels with
      | nil => intro b e he; simp only [splitByLoc] at he; cases he
      | cons x xs ih =>
        intro b e he
        cases x with
        | field a n g gv dd t s =>
          simp only [splitByLoc] at he
          split at he
          · rename_i e' hl; cases he; exact loc _ _ _ hl
          · exact ih _ _ he
        | inline c dd s => simp only [splitByLoc] at he; exact ih _ _ he
        | spread n dd => simp only [splitByLoc] at he; exact ih _ _ he
    intro sels
    induction sels with
    | nil => intro acc e he; simp only [group] at he; cases he
    | cons x xs ih =>
      intro acc e he
      obtain ⟨lf, lfr⟩ := acc
      cases x with
      | field a n g gv dd t s =>
        simp only [group] at he
        split at he
        · rename_i e' hl; cases he; exact loc _ _ _ hl
        · exact ih _ _ he
      | spread name dirs =>
        simp only [group] at he
        split at he
        · cases he; intro hc; cases hc
        · split at he
          · rename_i e' hs; cases he; exact split _ _ _ _ hs
          · exact ih _ _ he
      | inline cond dirs sub =>
        simp only [group] at he
        split at he
        · rename_i e' hs; cases he; exact split _ _ _ _ hs
        · exact ih _ _ he
  exact key sels acc .fuel h rfl

/-- what the induction hypothesis says about a recursive call -/
def RecFuel (fuel : Nat) (rec : Cfg → St → Except Err (List Sel × St)) : Prop :=
  ∀ cfg st, noSpreadL cfg.sel = true → depthL cfg.sel < fuel → rec cfg st ≠ .error .fuel

theorem processSels_fuel {n : Nat} {rec : Cfg → St → Except Err (List Sel × St)} (hrec : RecFuel n rec) {cfg : Cfg}
    {localFrags : List FragDef} :
    ∀ (ss : List Sel) (st : St), (∀ s ∈ ss, noSpread s = true) → (∀ s ∈ ss, depth s ≤ n ∨ s = idField) →
      processSels rec cfg localFrags ss st ≠ .error .fuel
  | [], st, _, _ => by simp [processSels]
  | s :: ss, st, hns, hd => by
    intro h
    simp only [processSels] at h
    have hs := hns s (List.mem_cons_self ..)
    have hds := hd s (List.mem_cons_self ..)
    cases h1 : processSel rec cfg localFrags s st with
    | error e =>
      rw [h1] at h
      have : e = .fuel := by cases h; rfl
      subst this
      -- the only way `processSel` fails is through the recursive call
      cases s with
      | field a nm g gv d t sub =>
        simp only [processSel] at h1
        split at h1
        · cases h1
        · split at h1
          · rename_i hsub e' hr
            cases h1
            rcases hds with hds | hds
            · refine hrec _ _ (by simpa [noSpread] using hs) ?_ hr
              simp only [depth] at hds
              show depthL sub < n
              omega
            · -- the injected id has no sub-selection
              simp only [idField, Sel.field.injEq] at hds
              have : sub = [] := hds.2.2.2.2.2.2
              subst this
              simp_all
          · cases h1
      | spread nm d => simp [noSpread] at hs
      | inline c d sub =>
        simp only [processSel] at h1
        split at h1
        · rename_i e' hr
          cases h1
          rcases hds with hds | hds
          · refine hrec _ _ (by simpa [noSpread] using hs) ?_ hr
            simp only [depth] at hds
            show depthL sub < n
            omega
          · simp [idField] at hds
        · cases h1
    | ok r1 =>
      obtain ⟨s1, st1⟩ := r1
      rw [h1] at h; simp only at h
      cases h2 : processSels rec cfg localFrags ss st1 with
      | error e =>
        rw [h2] at h
        have : e = .fuel := by cases h; rfl
        subst this
        exact processSels_fuel hrec ss st1 (fun x hx => hns x (List.mem_cons_of_mem _ hx))
          (fun x hx => hd x (List.mem_cons_of_mem _ hx)) h2
      | ok r2 => rw [h2] at h; cases h

/-- **more fuel than the nesting depth is enough**: on a selection without named fragments `extractSelection`
    never ends with the model's out-of-fuel error -/
theorem extract_fuel (env : Env) : ∀ (fuel : Nat), RecFuel fuel (extract env fuel)
  | 0 => by intro cfg st _ hd; omega
  | n + 1 => by
    intro cfg st hns hd h
    simp only [extract] at h
    split at h
    · rename_i e he
      have : e = .fuel := by cases h; rfl
      subst this
      exact group_error_not_fuel _ _ he
    · rename_i lf lfr hg
      split at h
      · rename_i e he
        obtain ⟨st1, hk⟩ := kickOff_ok cfg lfr lf st
        rw [hk] at he; cases he
      · rename_i st1 _
        have hbns : BucketsNoSpread lf := group_noSpread cfg.sel ([], []) (lf, lfr) hns hg bucketsNoSpread_nil
        have hbd : BucketsDepth (depthL cfg.sel) lf :=
          group_depth cfg.sel ([], []) (lf, lfr) hns (fun s hs => depth_le_depthL hs) hg (bucketsDepth_nil _)
        refine processSels_fuel (extract_fuel env n) _ _ ?_ ?_ h
        · intro s hs
          rcases List.mem_append.1 hs with hs | hs
          · rcases get_mem_or_nil lf cfg.loc with hm | hm
            · exact hbns _ _ hm s hs
            · rw [hm] at hs; cases hs
          · split at hs
            · have : s = idField := by simpa using hs
              subst this; rfl
            · cases hs
        · intro s hs
          rcases List.mem_append.1 hs with hs | hs
          · rcases get_mem_or_nil lf cfg.loc with hm | hm
            · exact Or.inl (Nat.le_trans (hbd _ _ hm s hs) (by omega))
            · rw [hm] at hs; cases hs
          · split at hs
            · exact Or.inr (by simpa using hs)
            · cases hs

/-! ### a selection without spreads never meets an undefined fragment -/
theorem splitByLoc_no_fragment {env : Env} {pl : Loc} {T : String} {name : String} :
    ∀ (sels : List Sel) (b : Buckets Sel), splitByLoc env pl T sels b ≠ .error (.noFragment name)
  | [], b => by simp [splitByLoc]
  | .field a n g gv d t s :: rest, b => by
    simp only [splitByLoc]
    split
    · rename_i e he
      intro h
      have : e = .noFragment name := by cases h; rfl
      subst this
      unfold locate at he
      split at he
      · cases he
      · split at he <;> cases he
    · exact splitByLoc_no_fragment rest _
  | .inline c d s :: rest, b => by simp only [splitByLoc]; exact splitByLoc_no_fragment rest _
  | .spread n d :: rest, b => by simp only [splitByLoc]; exact splitByLoc_no_fragment rest _

theorem group_no_fragment {env : Env} {pl : Loc} {T : String} {sf : List FragDef} {name : String} :
    ∀ (sels : List Sel) (acc : Buckets Sel × Buckets FragDef), noSpreadL sels = true →
      group env pl T sf sels acc ≠ .error (.noFragment name)
  | [], acc, _ => by simp [group]
  | .field a n g gv d t s :: rest, (lf, lfr), hns => by
    simp only [noSpreadL, Bool.and_eq_true] at hns
    simp only [group]
    split
    · rename_i e he
      intro h
      have : e = .noFragment name := by cases h; rfl
      subst this
      unfold locate at he
      split at he
      · cases he
      · split at he <;> cases he
    · exact group_no_fragment rest _ hns.2
  | .spread nm dirs :: rest, _, hns => by simp [noSpreadL, noSpread] at hns
  | .inline cond dirs sub :: rest, (lf, lfr), hns => by
    simp only [noSpreadL, Bool.and_eq_true] at hns
    simp only [group]
    split
    · rename_i e he
      intro h
      have : e = .noFragment name := by cases h; rfl
      subst this
      exact splitByLoc_no_fragment _ _ he
    · exact group_no_fragment rest _ hns.2

def RecNoFrag (rec : Cfg → St → Except Err (List Sel × St)) : Prop :=
  ∀ cfg st name, noSpreadL cfg.sel = true → rec cfg st ≠ .error (.noFragment name)

theorem processSels_no_fragment {rec : Cfg → St → Except Err (List Sel × St)} (hrec : RecNoFrag rec) {cfg : Cfg}
    {localFrags : List FragDef} {name : String} :
    ∀ (ss : List Sel) (st : St), (∀ s ∈ ss, noSpread s = true) →
      processSels rec cfg localFrags ss st ≠ .error (.noFragment name)
  | [], st, _ => by simp [processSels]
  | s :: ss, st, hns => by
    intro h
    simp only [processSels] at h
    have hs := hns s (List.mem_cons_self ..)
    cases h1 : processSel rec cfg localFrags s st with
    | error e =>
      rw [h1] at h
      have : e = .noFragment name := by cases h; rfl
      subst this
      cases s with
      | field a nm g gv d t sub =>
        simp only [processSel] at h1
        split at h1
        · cases h1
        · split at h1
          · rename_i e' hr
            cases h1
            exact hrec _ _ _ (by simpa [noSpread] using hs) hr
          · cases h1
      | spread nm d => simp [noSpread] at hs
      | inline c d sub =>
        simp only [processSel] at h1
        split at h1
        · rename_i e' hr
          cases h1
          exact hrec _ _ _ (by simpa [noSpread] using hs) hr
        · cases h1
    | ok r1 =>
      obtain ⟨s1, st1⟩ := r1
      rw [h1] at h; simp only at h
      cases h2 : processSels rec cfg localFrags ss st1 with
      | error e =>
        rw [h2] at h
        have : e = .noFragment name := by cases h; rfl
        subst this
        exact processSels_no_fragment hrec ss st1 (fun x hx => hns x (List.mem_cons_of_mem _ hx)) h2
      | ok r2 => rw [h2] at h; cases h

theorem extract_no_fragment (env : Env) : ∀ (fuel : Nat), RecNoFrag (extract env fuel)
  | 0 => by intro cfg st name _ h; simp only [extract] at h; cases h
  | n + 1 => by
    intro cfg st name hns h
    simp only [extract] at h
    split at h
    · rename_i e he
      have : e = .noFragment name := by cases h; rfl
      subst this
      exact group_no_fragment _ _ hns he
    · rename_i lf lfr hg
      split at h
      · rename_i e he
        obtain ⟨st1, hk⟩ := kickOff_ok cfg lfr lf st
        rw [hk] at he; cases he
      · have hbns : BucketsNoSpread lf := group_noSpread cfg.sel ([], []) (lf, lfr) hns hg bucketsNoSpread_nil
        refine processSels_no_fragment (extract_no_fragment env n) _ _ ?_ h
        intro s hs
        rcases List.mem_append.1 hs with hs | hs
        · rcases get_mem_or_nil lf cfg.loc with hm | hm
          · exact hbns _ _ hm s hs
          · rw [hm] at hs; cases hs
        · split at hs
          · have : s = idField := by simpa using hs
            subst this; rfl
          · cases hs

theorem extract_no_fragment_error (env : Env) (fuel : Nat) (cfg : Cfg) (st : St) (hns : noSpreadL cfg.sel = true)
    (name : String) : extract env fuel cfg st ≠ .error (.noFragment name) :=
  extract_no_fragment env fuel cfg st name hns

end Pl
