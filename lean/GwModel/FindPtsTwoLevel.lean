import GwModel.FindPtsStitch
/-! Places computed from a step's own reply are the right places in the accumulated response. -/
namespace Fp
open Ins

theorem walk_append : ∀ (p q : List RPt) (x : J), walk x (p ++ q) = (walk x p).bind fun y => walk y q
  | [], q, x => by simp [walk]
  | a :: p, q, x => by
    cases x with
    | null => simp [walk]
    | leaf s => simp [walk]
    | arr l => simp [walk]
    | obj k =>
      obtain ⟨key, idx, id⟩ := a
      cases hl : lookup key k with
      | none => simp [walk, hl]
      | some v =>
        cases idx with
        | none => simp [walk, hl, walk_append p q v]
        | some i =>
          cases v with
          | null => simp [walk, hl]
          | leaf s => simp [walk, hl]
          | obj k' => simp [walk, hl]
          | arr l =>
            cases he : l[i]? with
            | none => simp [walk, hl, he]
            | some e => simp [walk, hl, he, walk_append p q e]

/-- what a path finds below a payload it finds below the object the payload was merged into, as long as that
    object did not yet hold the key the path starts with -/
theorem walk_mergeK_fresh {o P : KVs} (hP : Sorted P) : ∀ (suf : List RPt) (a : RPt),
    lookup a.key o = none → walk (.obj (mergeK o P)) (a :: suf) = walk (.obj P) (a :: suf) := by
  intro suf a hfresh
  have : lookup a.key (mergeK o P) = lookup a.key P := by
    rw [lookup_mergeK a.key P o hP]
    cases hl : lookup a.key P with
    | none => simpa using hfresh
    | some w => simp [lookupD, hfresh, null_merge]
  obtain ⟨key, idx, id⟩ := a
  simp only at this
  simp only [walk, this]

/-- **the places computed from a step's own reply are the right places in the accumulated response**: a step's
    reply `P` is stitched at the step's insertion point `ip` (where the accumulated response holds an object that
    does not yet have the key a dependent's path starts with); a place `suf` found by walking `P` is then found,
    below `ip`, in the accumulated response — and leads to the same object -/
theorem child_path_valid_after_parent (acc : J) (ip suf : List RPt) (a : RPt) (o P o' : KVs) (hP : Sorted P)
    (hip : walk acc ip = some (.obj o)) (hfresh : lookup a.key o = none)
    (hw : walk (.obj P) (a :: suf) = some (.obj o')) :
    ∃ acc', insertAt acc (ip.map toPt) (.obj P) = some acc' ∧ walk acc' (ip ++ a :: suf) = some (.obj o') := by
  obtain ⟨acc', hins, hwalk⟩ := insertAt_walk ip acc o P hip
  refine ⟨acc', hins, ?_⟩
  rw [walk_append, hwalk]
  simp only [Option.bind_some]
  rw [walk_mergeK_fresh hP suf a hfresh, hw]

end Fp
