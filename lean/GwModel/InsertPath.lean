import GwModel.InsertIndep
/-! `insert_comm`: two independent messages can be stitched in either order. -/
namespace Ins

theorem step_ne {kvs : KVs} {a b : Pt} (hne : a.key ≠ b.key) (p q : List Pt) (v w : J) :
    (insertAt (.obj kvs) (a :: p) v).bind (fun y => insertAt y (b :: q) w) =
      (insertAt (.obj kvs) (b :: q) w).bind (fun y => insertAt y (a :: p) v) := by
  have hne' : b.key ≠ a.key := fun e => hne e.symm
  rw [insertAt_cons, insertAt_cons]
  cases s1 : stepOf (lookup a.key kvs) a.idx p v <;> cases s2 : stepOf (lookup b.key kvs) b.idx q w <;>
    simp [insertAt_cons, lookup_put, hne, hne', s1, s2]
  exact put_comm _ _ _ _ _ hne'

theorem wf_childOfCur {kvs : KVs} (hx : WF (.obj kvs)) (f : Nat) : WF (childOfCur (lookup f kvs)) := by
  cases h : lookup f kvs with
  | none => exact .obj [] (by simp [Sorted]) (by simp)
  | some c =>
    have hc := hx.vals f c (mem_of_lookup h)
    cases c with
    | null => exact .obj [] (by simp [Sorted]) (by simp)
    | leaf s => exact hc
    | arr l => exact hc
    | obj k => exact hc

theorem childOfCur_obj (k : KVs) : childOfCur (some (.obj k)) = .obj k := rfl

/-- two messages through one list field: first in normal form -/
theorem list_form {kvs : KVs} {f i j : Nat} {p q : List Pt} {v w : J} (l0 : List J)
    (hcur : ∀ (k : Nat) (r : List Pt) (u : J), stepOf (lookup f kvs) (some k) r u = (updAt l0 k fun e => insertAt e r u).map .arr) :
    (insertAt (.obj kvs) (⟨f, some i⟩ :: p) v).bind (fun y => insertAt y (⟨f, some j⟩ :: q) w) =
      ((updAt l0 i fun e => insertAt e p v).bind (fun l1 => updAt l1 j fun e => insertAt e q w)).map
        (fun l => .obj (put f (.arr l) kvs)) := by
  rw [insertAt_cons]
  simp only [hcur]
  cases u1 : updAt l0 i fun e => insertAt e p v with
  | none => simp
  | some l1 =>
    simp only [Option.map_some, Option.bind_some, insertAt_cons, lookup_put, if_true, stepOf]
    cases u2 : updAt l1 j fun e => insertAt e q w with
    | none => simp
    | some l2 => simp [put_put_same]

theorem stepOf_list_none {cur : Option J} (h : cur = none) (k : Nat) (r : List Pt) (u : J) :
    stepOf cur (some k) r u = (updAt [] k fun e => insertAt e r u).map .arr := by subst h; rfl

theorem stepOf_list_arr {cur : Option J} {l0 : List J} (h : cur = some (.arr l0)) (k : Nat) (r : List Pt) (u : J) :
    stepOf cur (some k) r u = (updAt l0 k fun e => insertAt e r u).map .arr := by subst h; rfl

theorem list_comm {kvs : KVs} {f i j : Nat} {p q : List Pt} {v w : J} (l0 : List J)
    (hcur : ∀ (k : Nat) (r : List Pt) (u : J), stepOf (lookup f kvs) (some k) r u = (updAt l0 k fun e => insertAt e r u).map .arr)
    (hl0 : ∀ x ∈ l0, WF x)
    (hij : i = j → ∀ e, WF e → (insertAt e p v).bind (fun y => insertAt y q w) = (insertAt e q w).bind (fun y => insertAt y p v)) :
    (insertAt (.obj kvs) (⟨f, some i⟩ :: p) v).bind (fun y => insertAt y (⟨f, some j⟩ :: q) w) =
      (insertAt (.obj kvs) (⟨f, some j⟩ :: q) w).bind (fun y => insertAt y (⟨f, some i⟩ :: p) v) := by
  rw [list_form l0 hcur, list_form l0 hcur]
  congr 1
  by_cases e : i = j
  · subst e
    rw [updAt_updAt_same, updAt_updAt_same]
    exact updAt_congr l0 i hl0 (hij rfl)
  · exact updAt_updAt_ne l0 i j e

theorem insert_comm : ∀ (p q : List Pt) (x v w : J), WF x → WF v → WF w → Indep p v q w →
    (insertAt x p v).bind (fun y => insertAt y q w) = (insertAt x q w).bind (fun y => insertAt y p v)
  | [], [], x, v, w, hx, hv, hw, h => by
    cases x with
    | obj kvs => simpa [insertAt] using finish_finish hx hv hw h
    | null => simp [insertAt, finish_nonobj_target]
    | leaf s => simp [insertAt, finish_nonobj_target]
    | arr l => simp [insertAt, finish_nonobj_target]
  | [], b :: q, x, v, w, hx, hv, hw, h => by
    cases x with
    | obj kvs =>
      have := root_vs_path (w := w) (q := q) hx hv (by simpa [Indep] using h)
      simpa [insertAt] using this
    | null => simp [insertAt, finish_nonobj_target]
    | leaf s => simp [insertAt, finish_nonobj_target]
    | arr l => simp [insertAt, finish_nonobj_target]
  | a :: p, [], x, v, w, hx, hv, hw, h => by
    cases x with
    | obj kvs =>
      have := root_vs_path (w := v) (q := p) hx hw (by simpa [Indep] using h)
      simpa [insertAt] using this.symm
    | null => simp [insertAt, finish_nonobj_target]
    | leaf s => simp [insertAt, finish_nonobj_target]
    | arr l => simp [insertAt, finish_nonobj_target]
  | a :: p, b :: q, x, v, w, hx, hv, hw, h => by
    cases x with
    | null => simp [insertAt]
    | leaf s => simp [insertAt]
    | arr l => simp [insertAt]
    | obj kvs =>
      by_cases hk : a.key = b.key
      · obtain ⟨f, ia⟩ := a
        obtain ⟨f', ib⟩ := b
        simp only at hk
        subst hk
        cases ia with
        | none =>
          cases ib with
          | some j => simp [Indep] at h
          | none =>
            have hi : Indep p v q w := by simpa [Indep] using h
            have ih := insert_comm p q (childOfCur (lookup f kvs)) v w (wf_childOfCur hx f) hv hw hi
            rw [insertAt_cons, insertAt_cons]
            simp only [stepOf]
            cases s1 : insertAt (childOfCur (lookup f kvs)) p v with
            | none =>
              cases s2 : insertAt (childOfCur (lookup f kvs)) q w with
              | none => simp
              | some c2 =>
                obtain ⟨k2, rfl⟩ := insertAt_obj s2
                simp [s1, s2] at ih
                simp [insertAt_cons, stepOf, lookup_put, childOfCur_obj, ← ih]
            | some c1 =>
              obtain ⟨k1, rfl⟩ := insertAt_obj s1
              cases s2 : insertAt (childOfCur (lookup f kvs)) q w with
              | none =>
                simp [s1, s2] at ih
                simp [insertAt_cons, stepOf, lookup_put, childOfCur_obj, ih]
              | some c2 =>
                obtain ⟨k2, rfl⟩ := insertAt_obj s2
                simp [s1, s2] at ih
                simp [insertAt_cons, stepOf, lookup_put, childOfCur_obj, ih, put_put_same]
        | some i =>
          cases ib with
          | none => simp [Indep] at h
          | some j =>
            have hij : i = j → ∀ e, WF e → (insertAt e p v).bind (fun y => insertAt y q w) = (insertAt e q w).bind (fun y => insertAt y p v) := by
              intro e x hxe
              have hi : Indep p v q w := by simpa [Indep, e] using h
              exact insert_comm p q x v w hxe hv hw hi
            cases hl : lookup f kvs with
            | none => exact list_comm [] (stepOf_list_none hl) (by simp) hij
            | some c =>
              cases c with
              | arr l0 => exact list_comm l0 (stepOf_list_arr hl) (hx.vals f _ (mem_of_lookup hl)).elems hij
              | null => simp [insertAt_cons, stepOf, hl]
              | leaf s => simp [insertAt_cons, stepOf, hl]
              | obj k => simp [insertAt_cons, stepOf, hl]
      · exact step_ne hk p q v w

end Ins
