import GwModel.InsertList
/-! One path step in normal form: what it stores under its key depends only on what was stored there. -/
namespace Ins

/-- what one path element makes of the value currently stored under its key -/
def stepOf (cur : Option J) (idx : Option Nat) (rest : List Pt) (v : J) : Option J :=
  match idx with
  | none =>
    insertAt (childOfCur cur) rest v
  | some i =>
    match cur with
    | none => (updAt [] i fun e => insertAt e rest v).map .arr
    | some (.arr l0) => (updAt l0 i fun e => insertAt e rest v).map .arr
    | some _ => none

theorem insertAt_cons (kvs : KVs) (a : Pt) (rest : List Pt) (v : J) :
    insertAt (.obj kvs) (a :: rest) v =
      (stepOf (lookup a.key kvs) a.idx rest v).map fun c => .obj (put a.key c kvs) := by
  obtain ⟨f, idx⟩ := a
  cases idx with
  | none => simp only [insertAt, stepOf, childOf]
  | some i =>
    simp only [insertAt, stepOf]
    cases h : lookup f kvs with
    | none => simp [Option.map_map, Function.comp_def]
    | some c => cases c <;> simp [Option.map_map, Function.comp_def]

theorem insertAt_nonobj {x : J} (hx : ∀ kvs, x ≠ .obj kvs) (a : Pt) (rest : List Pt) (v : J) :
    insertAt x (a :: rest) v = none := by
  cases x with
  | obj kvs => exact absurd rfl (hx kvs)
  | null => simp [insertAt]
  | leaf s => simp [insertAt]
  | arr l => simp [insertAt]

theorem finish_obj {x v y : J} (h : finish x v = some y) : ∃ kvs, y = .obj kvs := by
  cases x <;> cases v <;> simp [finish] at h <;> exact ⟨_, h.symm⟩

theorem insertAt_obj {x v y : J} {p : List Pt} (h : insertAt x p v = some y) : ∃ kvs, y = .obj kvs := by
  cases p with
  | nil => exact finish_obj (by simpa [insertAt] using h)
  | cons a rest =>
    cases x with
    | obj kvs =>
      rw [insertAt_cons] at h
      cases hs : stepOf (lookup a.key kvs) a.idx rest v with
      | none => simp [hs] at h
      | some c => simp [hs] at h; exact ⟨_, h.symm⟩
    | null => simp [insertAt] at h
    | leaf s => simp [insertAt] at h
    | arr l => simp [insertAt] at h

theorem stepOf_notnull {cur : Option J} {idx : Option Nat} {rest : List Pt} {v c : J}
    (h : stepOf cur idx rest v = some c) : c ≠ .null := by
  cases idx with
  | none =>
    simp only [stepOf] at h
    obtain ⟨kvs, rfl⟩ := insertAt_obj h
    intro e; cases e
  | some i =>
    simp only [stepOf] at h
    cases cur with
    | none =>
      cases hu : updAt [] i fun e => insertAt e rest v <;> simp [hu] at h
      subst h; intro e; cases e
    | some c0 =>
      cases c0 <;> simp at h
      rename_i l0
      cases hu : updAt l0 i fun e => insertAt e rest v <;> simp [hu] at h
      subst h; intro e; cases e

end Ins
