/-! C12 prototype: automatic persisted-query cache as interleaved atomic steps; refinement to "no cache". -/
namespace PCache

abbrev Hash := String
abbrev Text := String
variable {Plan Err : Type}

structure Entry (Plan : Type) where
  hash : Hash
  plan : Plan
  lastUsed : Nat

inductive Resp (Plan Err : Type)
  | plan (p : Plan) | planErr (e : Err) | notFound

/-- one in-flight request -/
inductive Phase (Plan : Type)
  | start                       -- before `cache.Load`
  | missed                      -- Load missed; about to plan
  | planned (p : Plan)          -- planner returned; about to LoadOrStore

structure Req (Plan : Type) where
  query : Option Text
  hash  : Option Hash
  phase : Phase Plan

structure St (Plan Err : Type) where
  cache : List (Entry Plan)
  now : Nat
  lastRetrieval : Nat
  inflight : List (Req Plan)
  log : List (Req Plan × Resp Plan Err)      -- completed requests with their responses

def lookup (c : List (Entry Plan)) (h : Hash) : Option (Entry Plan) := c.find? (·.hash == h)
def touch (c : List (Entry Plan)) (h : Hash) (t : Nat) : List (Entry Plan) :=
  c.map fun e => if e.hash == h then { e with lastUsed := t } else e

variable (planOf : Text → Except Err Plan) (sha : Text → Hash) (ttl : Nat)

def keyOf (r : Req Plan) (q : Text) : Hash := match r.hash with | some h => if h = "" then sha q else h | none => sha q

/-- advance the i-th in-flight request by one atomic step -/
def stepReq (s : St Plan Err) (r : Req Plan) : (List (Entry Plan)) × Option (Req Plan) × Option (Resp Plan Err) :=
  match r.phase with
  | .start =>
    match lookup s.cache (r.hash.getD "") with
    | some e => (touch s.cache e.hash s.now, none, some (.plan e.plan))
    | none => (s.cache, some { r with phase := .missed }, none)
  | .missed =>
    match r.query with
    | none => (s.cache, none, some .notFound)
    | some q =>
      if q = "" then (s.cache, none, some .notFound) else
      match planOf q with
      | .error e => (s.cache, none, some (.planErr e))
      | .ok p => (s.cache, some { r with phase := .planned p }, none)
  | .planned p =>
    let k := keyOf sha r (r.query.getD "")
    match lookup s.cache k with
    | some _ => (touch s.cache k s.now, none, some (.plan p))
    | none => (⟨k, p, s.now⟩ :: s.cache, none, some (.plan p))

-- the text a hash stands for in this history
variable (textOf : Hash → Text)

def CacheOK (c : List (Entry Plan)) : Prop :=
  ∀ e ∈ c, e.hash ≠ "" ∧ planOf (textOf e.hash) = .ok e.plan

/-- a request is consistent with `textOf` -/
def ReqOK (r : Req Plan) : Prop :=
  (∀ h q, r.hash = some h → h ≠ "" → r.query = some q → q ≠ "" → textOf h = q) ∧
  (∀ q, r.query = some q → textOf (sha q) = q) ∧ (∀ q, sha q ≠ "") ∧
  (∀ p, r.phase = .planned p → ∃ q, r.query = some q ∧ q ≠ "" ∧ planOf q = .ok p)

theorem touch_ok {c : List (Entry Plan)} (h : CacheOK planOf textOf c) (k : Hash) (t : Nat) :
    CacheOK planOf textOf (touch c k t) := by
  intro e he
  simp only [touch, List.mem_map] at he
  obtain ⟨e0, he0, rfl⟩ := he
  have := h e0 he0
  split <;> simpa using this

theorem lookup_mem {c : List (Entry Plan)} {h : Hash} {e : Entry Plan} (hl : lookup c h = some e) :
    e ∈ c ∧ e.hash = h := by
  unfold lookup at hl
  exact ⟨List.mem_of_find?_eq_some hl, by simpa using List.find?_some hl⟩

/-- the response a cache-less gateway gives -/
def uncached (q : Text) : Resp Plan Err :=
  match planOf q with | .ok p => .plan p | .error e => .planErr e

/-- **C12 (one atomic step, any interleaving).** The invariant is preserved and any response
    produced is the cache-less one for the hash's text, or NotFound for a hash-only miss. -/
theorem stepReq_sound (s : St Plan Err) (r : Req Plan)
    (hc : CacheOK planOf textOf s.cache) (hr : ReqOK planOf sha textOf r) :
    let (c', r', resp) := stepReq planOf sha s r
    CacheOK planOf textOf c' ∧
    (∀ r'', r' = some r'' → ReqOK planOf sha textOf r'' ∧ r''.query = r.query ∧ r''.hash = r.hash) ∧
    (∀ x, resp = some x →
      (x = .notFound ∧ (r.query = none ∨ r.query = some "")) ∨
      (∃ q, r.query = some q ∧ q ≠ "" ∧ x = uncached planOf q) ∨
      (∃ h, r.hash = some h ∧ h ≠ "" ∧ x = uncached planOf (textOf h))) := by
  unfold stepReq
  cases hph : r.phase with
  | start =>
    simp only
    cases hl : lookup s.cache (r.hash.getD "") with
    | some e =>
      obtain ⟨hm, hh⟩ := lookup_mem hl
      have hok := hc e hm
      refine ⟨touch_ok planOf textOf hc _ _, by simp, ?_⟩
      intro x hx
      cases hx
      right; right
      cases hrh : r.hash with
      | none => simp [hrh] at hh; exact absurd hh hok.1
      | some h =>
        simp [hrh] at hh
        refine ⟨h, rfl, hh ▸ hok.1, ?_⟩
        simp [uncached, ← hh, hok.2]
    | none =>
      refine ⟨hc, ?_, by simp⟩
      intro r'' h; cases h
      refine ⟨⟨hr.1, hr.2.1, hr.2.2.1, by simp⟩, rfl, rfl⟩
  | missed =>
    simp only
    cases hq : r.query with
    | none => exact ⟨hc, by simp, by intro x hx; cases hx; exact Or.inl ⟨rfl, Or.inl rfl⟩⟩
    | some q =>
      simp only
      by_cases hqe : q = ""
      · subst hqe
        simp only [if_true]
        exact ⟨hc, by simp, by intro x hx; cases hx; exact Or.inl ⟨rfl, by simp⟩⟩
      · simp only [hqe, if_false]
        cases hp : planOf q with
        | error e =>
          refine ⟨hc, by simp, ?_⟩
          intro x hx; cases hx
          exact Or.inr (Or.inl ⟨q, rfl, hqe, by simp [uncached, hp]⟩)
        | ok p =>
          refine ⟨hc, ?_, by simp⟩
          intro r'' h; cases h
          refine ⟨⟨?_, ?_, hr.2.2.1, ?_⟩, by simp [hq], rfl⟩
          · intro h q' h1 h2 h3 h4; exact hr.1 h q' h1 h2 (by simpa [hq] using h3) h4
          · intro q' h1; exact hr.2.1 q' (by simpa [hq] using h1)
          · intro p' h1; cases h1; exact ⟨q, rfl, hqe, hp⟩
  | planned p =>
    simp only
    obtain ⟨q, hq, hqe, hp⟩ := hr.2.2.2 p hph
    have hresp : ∀ x : Resp Plan Err, some (Resp.plan p) = some x →
        (x = .notFound ∧ (r.query = none ∨ r.query = some "")) ∨
        (∃ q, r.query = some q ∧ q ≠ "" ∧ x = uncached planOf q) ∨
        (∃ h, r.hash = some h ∧ h ≠ "" ∧ x = uncached planOf (textOf h)) := by
      intro x hx; cases hx
      exact Or.inr (Or.inl ⟨q, hq, hqe, by simp [uncached, hp]⟩)
    cases hl : lookup s.cache (keyOf sha r (r.query.getD "")) with
    | some e => exact ⟨touch_ok planOf textOf hc _ _, by simp, hresp⟩
    | none =>
      refine ⟨?_, by simp, hresp⟩
      intro e he
      rcases List.mem_cons.1 he with rfl | he
      · simp only [hq, Option.getD_some]
        unfold keyOf
        cases hrh : r.hash with
        | none => exact ⟨hr.2.2.1 q, by rw [hr.2.1 q hq]; exact hp⟩
        | some h =>
          simp only
          by_cases hhe : h = ""
          · simp only [hhe, if_true]; exact ⟨hr.2.2.1 q, by rw [hr.2.1 q hq]; exact hp⟩
          · simp only [hhe, if_false]; exact ⟨hhe, by rw [hr.1 h q hrh hhe hq hqe]; exact hp⟩
      · exact hc e he

#print axioms stepReq_sound

/-- GC: remove entries unused for longer than ttl; only enabled after a quiet period -/
def gc (c : List (Entry Plan)) (now : Nat) : List (Entry Plan) := c.filter fun e => decide (now ≤ e.lastUsed + ttl)

theorem gc_ok {c : List (Entry Plan)} (h : CacheOK planOf textOf c) (now : Nat) :
    CacheOK planOf textOf (gc ttl c now) := fun e he => h e (List.mem_filter.1 he).1

theorem gc_evicts_only_stale {c : List (Entry Plan)} {now : Nat} {e : Entry Plan}
    (he : e ∈ c) (hgone : e ∉ gc ttl c now) : e.lastUsed + ttl < now := by
  have : ¬ (now ≤ e.lastUsed + ttl) := fun h => hgone (List.mem_filter.2 ⟨he, by simpa using h⟩)
  omega

end PCache
