import GwModel.FindPtsSound
/-! Realised paths extend the prefix they were started with. -/
namespace Fp
open Ins

/-- where a realised path inserts: keys and indices (ids are annotations) -/
def sig (path : List RPt) : List (Nat × Option Nat) := path.map fun q => (q.key, q.idx)

@[simp] theorem sig_append (a b : List RPt) : sig (a ++ b) = sig a ++ sig b := by simp [sig]
@[simp] theorem sig_cons (q : RPt) (b : List RPt) : sig (q :: b) = (q.key, q.idx) :: sig b := by simp [sig]
@[simp] theorem sig_nil : sig [] = [] := rfl

/-- every realised path extends the prefix it was started with -/
theorem findPts_prefix : ∀ (infos : List PInfo) (chunk : KVs) (pre : List RPt) (paths : List (List RPt)),
    findPts infos chunk pre = .ok paths → ∀ path ∈ paths, ∃ suf, path = pre ++ suf
  | [], chunk, pre, paths, h, path, hp => by
    simp [findPts] at h; subst h; simp at hp; subst hp; exact ⟨[], by simp⟩
  | p :: rest, chunk, pre, paths, h, path, hp => by
    simp only [findPts] at h
    by_cases hf : p.found = true
    · simp only [hf, Bool.not_true, Bool.false_eq_true, if_false] at h
      cases hl : lookup p.key chunk with
      | none => simp [hl] at h; subst h; cases hp
      | some value =>
        have key : ∀ (c : KVs) (q : RPt) (ps : List (List RPt)), findPts rest c (pre ++ [q]) = .ok ps →
            path ∈ ps → ∃ suf, path = pre ++ suf := by
          intro c q ps hps hin
          obtain ⟨suf, hsuf⟩ := findPts_prefix rest c _ ps hps path hin
          exact ⟨q :: suf, by simp [hsuf]⟩
        cases value with
        | null =>
          simp only [hl] at h
          split at h
          · cases h
          · cases h; cases hp
        | leaf s =>
          simp only [hl] at h
          by_cases hi : p.isList = true
          · simp [hi] at h
          · simp only [hi, Bool.false_eq_true, if_false] at h
            cases rest with
            | nil => simp at h
            | cons q rest' => exact key _ _ _ h hp
        | arr entries =>
          simp only [hl] at h
          by_cases hi : p.isList = true
          · simp only [hi, if_true] at h
            rw [concatM_mem h] at hp
            obtain ⟨a, ha, hpa⟩ := hp
            obtain ⟨⟨i, e⟩, hie, hfe⟩ := List.mem_map.1 ha
            cases e with
            | null => simp at hfe; cases hfe; cases hpa
            | leaf s => simp at hfe
            | arr l => simp at hfe
            | obj ekvs =>
              simp only at hfe
              cases rest with
              | nil =>
                cases hid : lookup 0 ekvs with
                | none => simp [hid] at hfe; cases hfe; cases hpa
                | some id => simp [hid] at hfe; cases hfe; simp at hpa; subst hpa; exact ⟨_, rfl⟩
              | cons q rest' => exact key _ _ _ hfe hpa
          · simp only [hi, Bool.false_eq_true, if_false] at h
            cases rest with
            | nil =>
              simp only at h
              cases entries with
              | nil => simp at h
              | cons e0 es =>
                cases e0 with
                | obj ekvs =>
                  simp only at h
                  cases hid : lookup 0 ekvs with
                  | none => simp [hid] at h
                  | some id => simp [hid] at h; subst h; simp at hp; subst hp; exact ⟨_, rfl⟩
                | null => simp at h
                | leaf s => simp at h
                | arr l => simp at h
            | cons q rest' => exact key _ _ _ h hp
        | obj k =>
          simp only [hl] at h
          by_cases hi : p.isList = true
          · simp [hi] at h
          · simp only [hi, Bool.false_eq_true, if_false] at h
            cases rest with
            | nil =>
              simp only at h
              cases hid : lookup 0 k with
              | none => simp [hid] at h; subst h; cases hp
              | some id => simp [hid] at h; subst h; simp at hp; subst hp; exact ⟨_, rfl⟩
            | cons q rest' => exact key _ _ _ h hp
    · simp [hf] at h; subst h; cases hp

end Fp
