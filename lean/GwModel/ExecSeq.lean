import GwModel.FindPtsInsert
/-! The executor's data path, sequentially (execute.go: `executeOneStep` + the collector's `executorInsertObject`,
    composed over a whole plan).

    `runTask` is one invocation of `executeStep` for a realised insertion point: the join id is taken from the last
    point, the service is asked (the reply is looked up in a table of recorded replies: the model does not know
    what services answer), a reply to a `node(id:)` query is stripped of its `node` wrapper (with the checks the
    code makes on it), the realised insertion points of every dependent step are searched in the step's OWN reply
    (`Fp.findPts`), the reply is stitched into the accumulated response at the task's insertion point
    (`Ins.apply`), and the dependents run.  The order is depth first; that every order allowed by the executor
    gives the same response is `Props.C05` (machine-level confluence + `Ins.insert_comm`).

    Tied to /repo by the L2.exec correspondence (harness `execcorr.go`): the real `ParallelExecutor.Execute`, run on
    a real plan with its queryers wrapped by recorders, must produce the response (before scrubbing) and the number
    of failed tasks that `run` computes from the same plan shape and the recorded replies. -/
namespace Xs
open Ins Fp

structure Reply where
  sid : Nat            -- the step asked
  id : String          -- the join id sent ("" for a root step)
  data : KVs           -- queryResult (an empty object when the service wrote nothing)
  err : Bool           -- queryErr != nil
deriving Repr

/-- a plan step as the executor sees it: `strip` = the step's parent type is not a root type; `nodeParent` = it is
    `Node`, or the step hangs off a step the gateway answers itself (an object no service vouched for); every dependent comes with the facts `findPts` needs about its insertion point below this step's own -/
inductive XStep where
  | mk (sid : Nat) (strip nodeParent : Bool) (kids : List (List PInfo × XStep))
deriving Repr

instance : Inhabited XStep := ⟨.mk 0 false false []⟩

structure St where
  acc : J
  failed : Nat         -- tasks that ended with an error (their own reply's, or a stitching error)
  calls : Nat          -- service calls made
  missing : Nat        -- calls for which the table holds no reply (a defect of the recording, not of the code)
deriving Repr

/-- Go's `%v` of the id value, as it is rendered into the point and sent as `$id` -/
abbrev IdText := J → String

def findReply (replies : List Reply) (sid : Nat) (id : String) : Option Reply :=
  replies.find? fun r => r.sid == sid && r.id == id

/-- the key `node` (interned second by the driver; `id` is key 0) -/
def nodeKey : Nat := 1

def isNull : Option J → Bool
  | some .null => true
  | _ => false

/-- the result `executeOneStep` hands to the collector and whether the step failed before looking for dependents:
    `none` = `return nil, nil, err` -/
def stripped (strip nodeParent : Bool) (r : Reply) : Option KVs :=
  if !strip then some r.data
  else
    let node := lookup nodeKey r.data
    if !r.err && (node.isNone || (isNull node && !nodeParent)) then none
    else
      match childOfCur node with
      | .obj kvs => some kvs
      | _ => none

/-- the dependents' realised insertion points, searched in the step's own reply; `none` = the search failed (the
    step's result is kept, no dependent runs, the task counts as failed) -/
def dependents (kids : List (List PInfo × XStep)) (result : KVs) (ip : List RPt) : Option (List (List RPt × XStep)) :=
  match kids with
  | [] => some []
  | (infos, k) :: rest =>
    match findPts infos result ip with
    | .error _ => none
    | .ok paths =>
      match dependents rest result ip with
      | none => none
      | some more => some (paths.map (fun p => (p, k)) ++ more)

/-- stitch a task's result at its insertion point; a failed stitch leaves the response as it is and fails the task -/
def stitch (st : St) (ip : List RPt) (v : KVs) (failedAlready : Bool) : St :=
  match Ins.apply (some st.acc) (ip.map toPt) (.obj v) with
  | some acc' => { st with acc := acc', failed := st.failed + (if failedAlready then 1 else 0) }
  | none => { st with failed := st.failed + 1 }

def stepKids : XStep → List (List PInfo × XStep)
  | .mk _ _ _ kids => kids

/-- one task and everything below it (fuel: the depth of the plan tree; running out is counted in `missing`) -/
def runTask (idText : IdText) (replies : List Reply) : Nat → XStep → List RPt → St → St
  | 0, _, _, st => { st with missing := st.missing + 1000000 }
  | fuel + 1, .mk sid strip nodeParent kids, ip, st =>
    -- the join id comes from the last point of the realised insertion point
    let idOf : Option String := match ip.getLast? with
      | none => some ""
      | some p => p.id.map idText
    match idOf with
    | none => stitch st ip [] true
    | some id =>
      if !ip.isEmpty && id == "" then stitch st ip [] true else
      match findReply replies sid id with
      | none => { st with missing := st.missing + 1 }
      | some r =>
        let st := { st with calls := st.calls + 1 }
        match stripped strip nodeParent r with
        | none => stitch st ip [] true
        | some result =>
          match dependents kids result ip with
          | none => stitch st ip result true
          | some deps =>
            -- the dependents, in the order they were found
            deps.foldl (fun st d => runTask idText replies fuel d.2 d.1 st) (stitch st ip result r.err)

/-- the steps hanging off the root step, each with an empty insertion point -/
def run (idText : IdText) (replies : List Reply) (fuel : Nat) (roots : List XStep) : St :=
  roots.foldl (fun st s => runTask idText replies fuel s [] st) { acc := .obj [], failed := 0, calls := 0, missing := 0 }

end Xs

/-! ### every failed call is counted, and nothing un-counts a failure (C07, data-path level) -/
namespace Xs
open Ins Fp

theorem stitch_failed_le (st : St) (ip : List RPt) (v : KVs) (b : Bool) : st.failed ≤ (stitch st ip v b).failed := by
  unfold stitch
  split <;> simp <;> split <;> omega

theorem stitch_failed_true (st : St) (ip : List RPt) (v : KVs) : st.failed + 1 ≤ (stitch st ip v true).failed := by
  unfold stitch
  split <;> simp

theorem foldl_failed_le {α : Type} (f : St → α → St) (hf : ∀ st a, st.failed ≤ (f st a).failed) :
    ∀ (l : List α) (st : St), st.failed ≤ (l.foldl f st).failed
  | [], st => Nat.le_refl _
  | a :: l, st => Nat.le_trans (hf st a) (foldl_failed_le f hf l (f st a))

/-- the count of failed tasks never goes down, whatever the replies -/
theorem runTask_failed_le (idText : IdText) (replies : List Reply) :
    ∀ (fuel : Nat) (s : XStep) (ip : List RPt) (st : St), st.failed ≤ (runTask idText replies fuel s ip st).failed
  | 0, _, _, _ => by simp [runTask]
  | fuel + 1, .mk sid strip nodeParent kids, ip, st => by
    simp only [runTask]
    split
    · exact stitch_failed_le _ _ _ _
    · split
      · exact stitch_failed_le _ _ _ _
      · split
        · simp
        · split
          · exact stitch_failed_le { st with calls := st.calls + 1 } _ _ _
          · split
            · exact stitch_failed_le { st with calls := st.calls + 1 } _ _ _
            · refine Nat.le_trans ?_
                (foldl_failed_le _ (fun st (d : List RPt × XStep) => runTask_failed_le idText replies fuel d.2 d.1 st) _ _)
              exact stitch_failed_le { st with calls := st.calls + 1 } _ _ _

/-- **a call that came back with an error is counted as a failed task**, whatever else it returned, whatever its
    dependents do afterwards -/
theorem failed_reply_is_counted (idText : IdText) (replies : List Reply) (fuel sid : Nat) (strip nodeParent : Bool)
    (kids : List (List PInfo × XStep)) (st : St) (r : Reply)
    (hr : findReply replies sid "" = some r) (herr : r.err = true) :
    st.failed + 1 ≤ (runTask idText replies (fuel + 1) (.mk sid strip nodeParent kids) [] st).failed := by
  simp only [runTask, List.getLast?_nil, List.isEmpty_nil, hr]
  simp only [Bool.not_true, Bool.false_and, Bool.false_eq_true, if_false]
  split
  · exact stitch_failed_true { st with calls := st.calls + 1 } _ _
  · split
    · exact stitch_failed_true { st with calls := st.calls + 1 } _ _
    · refine Nat.le_trans ?_ (foldl_failed_le _ (fun st (d : List RPt × XStep) => runTask_failed_le idText replies fuel d.2 d.1 st) _ _)
      rw [herr]; exact stitch_failed_true { st with calls := st.calls + 1 } _ _

end Xs
