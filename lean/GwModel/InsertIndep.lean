import GwModel.InsertStep
/-! Independence of two messages and the base cases of their commutation. -/
namespace Ins

/-- when two messages may be applied in either order: at the place where their paths part (or where one
    ends) they do not contend for the same thing -/
def Indep : List Pt → J → List Pt → J → Prop
  | [], v, [], w => match v, w with
    | .obj _, .obj _ => Compat v w
    | _, _ => True
  | [], v, b :: _, _ => ∀ inc, v = .obj inc → lookup b.key inc = none
  | a :: _, _, [], w => ∀ inc, w = .obj inc → lookup a.key inc = none
  | a :: p, v, b :: q, w =>
    if a.key = b.key then
      match a.idx, b.idx with
      | none, none => Indep p v q w
      | some i, some j => if i = j then Indep p v q w else True
      | _, _ => False
    else True

theorem finish_nonobj_value {kvs : KVs} {v : J} (hv : ∀ inc, v ≠ .obj inc) : finish (.obj kvs) v = some (.obj kvs) := by
  cases v with
  | obj inc => exact absurd rfl (hv inc)
  | null => rfl
  | leaf s => rfl
  | arr l => rfl

theorem finish_nonobj_target {x : J} (hx : ∀ kvs, x ≠ .obj kvs) (v : J) : finish x v = none := by
  cases x with
  | obj kvs => exact absurd rfl (hx kvs)
  | null => cases v <;> rfl
  | leaf s => cases v <;> rfl
  | arr l => cases v <;> rfl

theorem mergeK_put_comm {f : Nat} {c : J} {kvs inc : KVs} (hk : Sorted kvs) (hi : Sorted inc)
    (hf : lookup f inc = none) : mergeK (put f c kvs) inc = put f c (mergeK kvs inc) := by
  apply sorted_ext (sorted_mergeK _ _ (sorted_put hk)) (sorted_put (sorted_mergeK _ _ hk))
  intro k
  rw [lookup_mergeK k inc (put f c kvs) hi, lookup_put k f c (mergeK kvs inc), lookup_mergeK k inc kvs hi]
  by_cases e : k = f
  · subst e; simp [hf, lookup_put]
  · simp [e, lookupD, lookup_put]

/-- a message for the place itself and a message for a place below it, under a key the first does not carry -/
theorem root_vs_path {kvs : KVs} {v w : J} {b : Pt} {q : List Pt} (hx : WF (.obj kvs)) (hv : WF v)
    (h : ∀ inc, v = .obj inc → lookup b.key inc = none) :
    (finish (.obj kvs) v).bind (fun y => insertAt y (b :: q) w) =
      (insertAt (.obj kvs) (b :: q) w).bind (fun y => finish y v) := by
  cases v with
  | obj inc =>
    have hf := h inc rfl
    simp only [finish, Option.bind_some, insertAt_cons]
    rw [lookup_mergeK b.key inc kvs hv.sorted, hf]
    cases hs : stepOf (lookup b.key kvs) b.idx q w with
    | none => simp
    | some c => simp [mergeK_put_comm hx.sorted hv.sorted hf]
  | null =>
    simp only [finish, Option.bind_some]
    cases hi : insertAt (.obj kvs) (b :: q) w with
    | none => simp
    | some y => obtain ⟨k2, rfl⟩ := insertAt_obj hi; simp
  | leaf s =>
    simp only [finish, Option.bind_some]
    cases hi : insertAt (.obj kvs) (b :: q) w with
    | none => simp
    | some y => obtain ⟨k2, rfl⟩ := insertAt_obj hi; simp
  | arr l =>
    simp only [finish, Option.bind_some]
    cases hi : insertAt (.obj kvs) (b :: q) w with
    | none => simp
    | some y => obtain ⟨k2, rfl⟩ := insertAt_obj hi; simp

theorem finish_finish {kvs : KVs} {v w : J} (hx : WF (.obj kvs)) (hv : WF v) (hw : WF w)
    (h : Indep [] v [] w) :
    (finish (.obj kvs) v).bind (fun y => finish y w) = (finish (.obj kvs) w).bind (fun y => finish y v) := by
  cases v with
  | obj a =>
    cases w with
    | obj b =>
      have hc : Compat (.obj a) (.obj b) := by simpa [Indep] using h
      have := merge_merge_comm hx hv hw hc
      simp only [merge_obj] at this
      simp only [finish, Option.bind_some]
      exact congrArg some this
    | null => simp [finish]
    | leaf s => simp [finish]
    | arr l => simp [finish]
  | null => cases w <;> simp [finish]
  | leaf s => cases w <;> simp [finish]
  | arr l => cases w <;> simp [finish]

end Ins
