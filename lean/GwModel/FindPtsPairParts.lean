import GwModel.FindPtsParts
/-! Two different realised paths of one search part at a list index. -/
namespace Fp
open Ins

/-- two different realised paths of one search part at a list index -/
theorem findPts_pairwise_parts : ∀ (infos : List PInfo) (chunk : KVs) (pre : List RPt) (paths : List (List RPt)),
    findPts infos chunk pre = .ok paths → ∀ p ∈ paths, ∀ q ∈ paths, sig p ≠ sig q →
      Parts p q
  | [], chunk, pre, paths, h, p, hp, q, hq, hne => by
    simp [findPts] at h; subst h; simp at hp hq; subst hp; subst hq; exact absurd rfl hne
  | pi :: rest, chunk, pre, paths, h, p, hp, q, hq, hne => by
    simp only [findPts] at h
    by_cases hf : pi.found = true
    · simp only [hf, Bool.not_true, Bool.false_eq_true, if_false] at h
      cases hl : lookup pi.key chunk with
      | none => simp [hl] at h; subst h; cases hp
      | some value =>
        cases value with
        | null =>
          simp only [hl] at h
          split at h
          · cases h
          · cases h; cases hp
        | leaf s =>
          simp only [hl] at h
          by_cases hi : pi.isList = true
          · simp [hi] at h
          · simp only [hi, Bool.false_eq_true, if_false] at h
            cases rest with
            | nil => simp at h
            | cons q' rest' => exact findPts_pairwise_parts _ _ _ _ h p hp q hq hne
        | arr entries =>
          simp only [hl] at h
          by_cases hi : pi.isList = true
          · simp only [hi, if_true] at h
            rw [concatM_mem h] at hp hq
            obtain ⟨a1, ha1, hp1⟩ := hp
            obtain ⟨a2, ha2, hq2⟩ := hq
            obtain ⟨⟨i, e1⟩, hie1, hf1⟩ := List.mem_map.1 ha1
            obtain ⟨⟨j, e2⟩, hje2, hf2⟩ := List.mem_map.1 ha2
            by_cases hij : i = j
            · subst hij
              have hee : e1 = e2 := by
                have h1 := (mem_enumFrom hie1).2
                have h2 := (mem_enumFrom hje2).2
                rw [h1] at h2; exact Option.some.inj h2
              subst hee
              have haa : a1 = a2 := by rw [hf1] at hf2; exact Except.ok.inj hf2
              subst haa
              cases e1 with
              | null => simp at hf1; cases hf1; cases hp1
              | leaf s => simp at hf1
              | arr l => simp at hf1
              | obj ekvs =>
                simp only at hf1
                cases rest with
                | nil =>
                  cases hid : lookup 0 ekvs with
                  | none => simp [hid] at hf1; cases hf1; cases hp1
                  | some id =>
                    simp [hid] at hf1; cases hf1
                    simp at hp1 hq2; subst hp1; subst hq2; exact absurd rfl hne
                | cons q' rest' =>
                  simp only at hf1
                  exact findPts_pairwise_parts _ _ _ _ hf1 p hp1 q hq2 hne
            · have form1 : ∃ id suf, p = pre ++ (⟨pi.key, some i, id⟩ : RPt) :: suf := by
                cases e1 with
                | null => simp at hf1; cases hf1; cases hp1
                | leaf s => simp at hf1
                | arr l => simp at hf1
                | obj ekvs =>
                  simp only at hf1
                  cases rest with
                  | nil =>
                    cases hid : lookup 0 ekvs with
                    | none => simp [hid] at hf1; cases hf1; cases hp1
                    | some id => simp [hid] at hf1; cases hf1; simp at hp1; subst hp1; exact ⟨some id, [], rfl⟩
                  | cons q' rest' =>
                    simp only at hf1
                    obtain ⟨suf, hsuf⟩ := findPts_prefix _ _ _ _ hf1 p hp1
                    exact ⟨none, suf, by simp [hsuf]⟩
              have form2 : ∃ id suf, q = pre ++ (⟨pi.key, some j, id⟩ : RPt) :: suf := by
                cases e2 with
                | null => simp at hf2; cases hf2; cases hq2
                | leaf s => simp at hf2
                | arr l => simp at hf2
                | obj ekvs =>
                  simp only at hf2
                  cases rest with
                  | nil =>
                    cases hid : lookup 0 ekvs with
                    | none => simp [hid] at hf2; cases hf2; cases hq2
                    | some id => simp [hid] at hf2; cases hf2; simp at hq2; subst hq2; exact ⟨some id, [], rfl⟩
                  | cons q' rest' =>
                    simp only at hf2
                    obtain ⟨suf, hsuf⟩ := findPts_prefix _ _ _ _ hf2 q hq2
                    exact ⟨none, suf, by simp [hsuf]⟩
              obtain ⟨id1, s1, rfl⟩ := form1
              obtain ⟨id2, s2, rfl⟩ := form2
              exact parts_same_prefix pre _ _ (parts_diff_index pi.key i j hij _ _ _ _)
          · simp only [hi, Bool.false_eq_true, if_false] at h
            cases rest with
            | nil =>
              simp only at h
              cases entries with
              | nil => simp at h
              | cons e0 es =>
                cases e0 with
                | obj ekvs =>
                  simp only at h
                  cases hid : lookup 0 ekvs with
                  | none => simp [hid] at h
                  | some id => simp [hid] at h; subst h; simp at hp hq; subst hp; subst hq; exact absurd rfl hne
                | null => simp at h
                | leaf s => simp at h
                | arr l => simp at h
            | cons q' rest' => exact findPts_pairwise_parts _ _ _ _ h p hp q hq hne
        | obj k =>
          simp only [hl] at h
          by_cases hi : pi.isList = true
          · simp [hi] at h
          · simp only [hi, Bool.false_eq_true, if_false] at h
            cases rest with
            | nil =>
              simp only at h
              cases hid : lookup 0 k with
              | none => simp [hid] at h; subst h; cases hp
              | some id => simp [hid] at h; subst h; simp at hp hq; subst hp; subst hq; exact absurd rfl hne
            | cons q' rest' => exact findPts_pairwise_parts _ _ _ _ h p hp q hq hne
    · simp [hf] at h; subst h; cases hp


end Fp
