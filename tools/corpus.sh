#!/bin/sh
# tools/corpus.sh Cxx N : rebuild the harness against /repo and run corpus cases 0..N-1 one by one
cd "$(dirname "$0")/.."
export GOFLAGS=-mod=mod GOPROXY=off GOSUMDB=off GOTOOLCHAIN=local
(cd harness && go build -tags verif -o ../.build/gwharness ./cmd/gwharness) || exit 1
P=$1; N=$2
i=0
while [ $i -lt $N ]; do
  timeout 60 .build/gwharness case -prop $P -seed 1 -drv lean/.lake/build/bin/gwdrv -kf KNOWN_FINDINGS.json -i $i > /tmp/case.json 2>/tmp/case.err; rc=$?
  python3 - $i $rc <<'PY'
import json,sys
i,rc=sys.argv[1],sys.argv[2]
try:
    r=json.load(open('/tmp/case.json'))
    f=r.get('fails') or []
    print(i, r['id'], 'rc',rc, (f[0]['channel']+': '+f[0]['what'][:120] if f else ('skipped '+r['skipped'] if r.get('skipped') else 'OK')))
except Exception as e:
    err=open('/tmp/case.err').read()
    print(i,'rc',rc,'CRASH/HANG', [l for l in err.split('\n') if l.startswith('panic') or 'fatal' in l][:2])
PY
  i=$((i+1))
done
