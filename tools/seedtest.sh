#!/bin/sh
# tools/seedtest.sh <seed-id> <Cxx> [Cyy ...]
# Applies seeded/<seed-id>/patch.diff to a scratch worktree of /repo, confirms that the library still builds and
# passes its suite and that the demonstration fails there, then runs the listed checks against that worktree
# (quick, then thorough when quick is silent). The worktree is removed afterwards. /repo is not touched.
set -u
cd "$(dirname "$0")/.."
ID=$1; shift
export GOFLAGS=-mod=mod GOPROXY=off GOSUMDB=off GOTOOLCHAIN=local
WT=/tmp/seedwt-$ID
git -C /repo worktree remove --force $WT >/dev/null 2>&1
git -C /repo worktree add -q --detach $WT HEAD || exit 2
# evidence/ and replays/ must keep describing the unchanged tree: save them and put them back afterwards
SAVE=$(mktemp -d /tmp/seedsave.XXXXXX)
cp -a evidence replays $SAVE/
trap 'git -C /repo worktree remove --force '$WT' >/dev/null 2>&1; rm -rf evidence replays; cp -a '$SAVE'/evidence '$SAVE'/replays .; rm -rf '$SAVE EXIT
cp /verif/seeded/$ID/zz_demo_test.go $WT/ 2>/dev/null
DEMO0=$(cd $WT && go test -count=1 -run 'ZZDemo|Demo' . 2>&1 | tail -1)
echo "demo without change: $DEMO0"
rm -f $WT/zz_demo_test.go
if ! git -C $WT apply /verif/seeded/$ID/patch.diff; then echo "PATCH DOES NOT APPLY"; exit 2; fi
( cd $WT && go build ./... ) || { echo "BUILD FAILS"; exit 2; }
SUITE=$(cd $WT && go test -count=1 ./... 2>&1 | tail -1)
echo "suite with change: $SUITE"
cp /verif/seeded/$ID/zz_demo_test.go $WT/ 2>/dev/null
DEMO=$(cd $WT && go test -count=1 -run 'ZZDemo|Demo' . 2>&1 | tail -1)
echo "demo with change: $DEMO"
rm -f $WT/zz_demo_test.go
for P in "$@"; do
  for TIER in quick thorough; do
    OUT=$(VERIF_REPO=$WT ./check $P $TIER 2>&1)
    RC=$?
    N=$(echo "$OUT" | grep -c '^VIOLATION')
    NF=$(echo "$OUT" | grep -c 'no-failing-input-found')
    echo "check $P $TIER: rc=$RC violations=$N no-failing-input-found=$NF"
    echo "$OUT" | grep '^VIOLATION' | head -2
    if [ $RC -ne 0 ]; then
      F=$(echo "$OUT" | grep '^VIOLATION' | head -1 | sed 's/.*replay=\([^ ]*\).*/\1/')
      [ -n "$F" ] && python3 - "$F" <<'PY'
import json,sys
r=json.load(open(sys.argv[1]))
print("   first replay:", r.get('kind'), '|', r.get('channel'), '|', (r.get('what') or '')[:200], '|', r.get('broken_obligations') or r.get('theorems'))
PY
      break
    fi
  done
done
# restore the facts of /repo for whoever runs next
.build/gwfacts /repo > lean/GwModel/Gen/Facts.lean
# binaries and module files built for the scratch worktree are of no further use
find .build -maxdepth 1 \( -name 'gwharness-[0-9]*' -o -name 'gwharness-race-[0-9]*' -o -name 'alt-*' \) -delete 2>/dev/null
