#!/usr/bin/env python3
"""Regenerates MANIFEST.json from the table below (kept in one place so it stays valid)."""
import json, os
ROOT = os.path.dirname(os.path.dirname(os.path.abspath(__file__)))
BASE = json.load(open("/root/.vp/BASELINE.json"))["cmd"] if os.path.exists("/root/.vp/BASELINE.json") else "cd /repo && go test -count=1 ./..."

CLAIMED = json.load(open(os.path.join(ROOT, "tools", "claims.json")))

checks = []
for pid in sorted(CLAIMED["checks"]):
    c = CLAIMED["checks"][pid]
    checks.append({
        "property_id": pid,
        "quick_cmd": f"./check {pid} quick",
        "thorough_cmd": f"./check {pid} thorough",
        "evidence_file": f"evidence/{pid}.json",
        "replay_cmd_template": "./check --replay {path}",
        "engine": "gwmodel+gwharness",
        "level_claimed": {"category": "proof", "text": c["text"], "design_ref": c.get("design_ref", "DESIGN.md §6 " + pid)},
        "level_note": c["note"],
        "technique": c["technique"],
    })
m = {
    "version": 1,
    "setup_cmd": "./setup.sh",
    "hooks": {
        "guard": "verif",
        "enable": "go build -tags verif: /repo/verif_hooks.go (the only tagged file, added, nothing rewritten) exports executorInsertObject, executorGetPointData, isListElement and executorFindInsertionPoints as VerifInsertObject / VerifPointData / VerifIsListElement / VerifFindInsertionPoints for the L2 stitching correspondences (C05, C01, C13); everything else goes through the public API",
        "baseline_off_cmd": BASE,
        "source_commits": ["2b44aff", "faebf07"],
        "add_only": True,
    },
    "engines": [
        {"name": "gwmodel", "path": "lean/", "serves_properties": sorted(CLAIMED["checks"]), "kind_free_text": "Lean 4 model of the gateway (core only) + property theorems in lean/GwModel/Props"},
        {"name": "gwdrv", "path": "lean/Driver.lean", "serves_properties": sorted(CLAIMED["checks"]), "kind_free_text": "compiled Lean model behind a JSON line protocol"},
        {"name": "gwfacts", "path": "harness/cmd/gwfacts", "serves_properties": sorted(CLAIMED["checks"]), "kind_free_text": "go/ast fact extractor regenerating lean/GwModel/Gen/Facts.lean from /repo on every run"},
        {"name": "gwharness", "path": "harness/", "serves_properties": sorted(CLAIMED["checks"]), "kind_free_text": "Go differential harness (replace => /repo), public API only, worker processes"},
    ],
    "checks": checks,
    "not_applicable": [{"property_id": p, "reason": r} for p, r in sorted(CLAIMED["not_applicable"].items())],
    "notes": "Every check: regenerate facts from /repo -> lake build Props.Cxx (+ axiom audit) -> go build harness against /repo -> corpus + generated correspondence -> VIOLATION / KNOWN-FINDING protocol (DESIGN.md §3).",
}
json.dump(m, open(os.path.join(ROOT, "MANIFEST.json"), "w"), indent=1)
print("MANIFEST.json:", len(checks), "checks,", len(m["not_applicable"]), "not applicable")
