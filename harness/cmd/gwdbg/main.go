// gwdbg: run one query against the fixed federation and print plan, response and oracle (developer aid)
package main

import (
	"fmt"
	"os"
	"time"
	"encoding/json"

	"gwverif/hx"
)

func main() {
	in := hx.FedInput{Spec: hx.FixedFed(), StoreSeed: 5, Query: os.Args[1]}
	if len(os.Args[1]) > 0 && os.Args[1][0] == '@' {
		b, _ := os.ReadFile(os.Args[1][1:])
		in = hx.FedInput{}
		json.Unmarshal(b, &in)
		if len(os.Args) > 2 {
			in.Query = os.Args[2]
			os.Args = os.Args[:2]
		}
	}
	if len(os.Args) > 2 {
		json.Unmarshal([]byte(os.Args[2]), &in.Vars)
	}
	if len(os.Args) > 3 {
		json.Unmarshal([]byte(os.Args[3]), &in.Spec.Priorities)
	}
	c := &hx.Ctx{Seed: 1}
	if os.Getenv("SHRINK_HANG") != "" {
		store := hx.GenStore(c.Rand(1), false)
		q := hx.ShrinkQuery(in.Query, func(q string) bool {
			f, err := hx.NewFed(in.Spec, store)
			if err != nil {
				return false
			}
			_, _, hung, _ := f.Plan(q, 4*time.Second)
			return hung
		}, 300)
		fmt.Println("SHRUNK:", q)
		in.Query = q
	}
	fc, err := hx.RunFed(c, in, 5*time.Second)
	if err != nil {
		fmt.Println("ERR", err)
		return
	}
	if fc.Invalid != "" {
		fmt.Println("INVALID", fc.Invalid)
		return
	}
	fmt.Println(hx.PlanText(fc.Out.Plans))
	fmt.Println("want", hx.Canon(fc.Want))
	fmt.Println("got ", hx.Canon(fc.Out.Data), "err:", hx.ErrString(fc.Out.Err), "hung", fc.Out.Hung)
	ok, what := fc.Status()
	fmt.Println(ok, what, fc.Classes)
}
