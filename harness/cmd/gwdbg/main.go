// gwdbg: run one query against the fixed federation and print plan, response and oracle (developer aid)
package main

import (
	"fmt"
	"os"
	"time"
	"encoding/json"

	"gwverif/hx"
)

func main() {
	in := hx.FedInput{Spec: hx.FixedFed(), StoreSeed: 5, Query: os.Args[1]}
	if len(os.Args) > 2 {
		json.Unmarshal([]byte(os.Args[2]), &in.Vars)
	}
	if len(os.Args) > 3 {
		json.Unmarshal([]byte(os.Args[3]), &in.Spec.Priorities)
	}
	c := &hx.Ctx{Seed: 1}
	fc, err := hx.RunFed(c, in, 5*time.Second)
	if err != nil {
		fmt.Println("ERR", err)
		return
	}
	if fc.Invalid != "" {
		fmt.Println("INVALID", fc.Invalid)
		return
	}
	fmt.Println(hx.PlanText(fc.Out.Plans))
	fmt.Println("want", hx.Canon(fc.Want))
	fmt.Println("got ", hx.Canon(fc.Out.Data), "err:", hx.ErrString(fc.Out.Err), "hung", fc.Out.Hung)
	ok, what := fc.Status()
	fmt.Println(ok, what, fc.Classes)
}
