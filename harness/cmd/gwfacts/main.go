// gwfacts reads the non-test Go sources of nautilus/gateway and prints a Lean file of *facts*
// (data, not code) that the parameterised models in lean/GwModel are instantiated with.
// Standard library only. Every recogniser answers with an explicit "unrecognised" value when the
// source no longer has a shape it understands; the Lean side then fails `facts_safe`.
package main

import (
	"fmt"
	"go/ast"
	"go/constant"
	"go/parser"
	"go/token"
	"os"
	"path/filepath"
	"regexp"
	"sort"
	"strconv"
	"strings"
)

type pkg struct {
	fset  *token.FileSet
	files map[string]*ast.File
	funcs map[string]*ast.FuncDecl // "Recv.Name" or "Name"
	src   map[string][]byte
}

func load(dir string) *pkg {
	p := &pkg{fset: token.NewFileSet(), files: map[string]*ast.File{}, funcs: map[string]*ast.FuncDecl{}, src: map[string][]byte{}}
	names, _ := filepath.Glob(filepath.Join(dir, "*.go"))
	sort.Strings(names)
	for _, n := range names {
		if strings.HasSuffix(n, "_test.go") {
			continue
		}
		b, err := os.ReadFile(n)
		if err != nil {
			continue
		}
		f, err := parser.ParseFile(p.fset, n, b, parser.ParseComments)
		if err != nil {
			fmt.Fprintln(os.Stderr, "gwfacts: parse error", err)
			continue
		}
		// honour build tags: skip files guarded by the verif tag (hooks are not part of the facts)
		skip := false
		for _, cg := range f.Comments {
			for _, c := range cg.List {
				if strings.HasPrefix(c.Text, "//go:build") && strings.Contains(c.Text, "verif") && !strings.Contains(c.Text, "!verif") {
					skip = true
				}
			}
		}
		if skip {
			continue
		}
		p.files[filepath.Base(n)] = f
		p.src[filepath.Base(n)] = b
		for _, d := range f.Decls {
			if fd, ok := d.(*ast.FuncDecl); ok {
				name := fd.Name.Name
				if fd.Recv != nil && len(fd.Recv.List) == 1 {
					name = recvName(fd.Recv.List[0].Type) + "." + name
				}
				p.funcs[name] = fd
			}
		}
	}
	return p
}

// norm renders a node's source without comments and without any whitespace
func (p *pkg) norm(n ast.Node) string {
	t := p.text(n)
	var sb strings.Builder
	for _, line := range strings.Split(t, "\n") {
		if i := strings.Index(line, "//"); i >= 0 && !strings.Contains(line[:i], "\"") {
			line = line[:i]
		}
		sb.WriteString(line)
	}
	r := strings.NewReplacer(" ", "", "\t", "", "\n", "")
	return r.Replace(sb.String())
}

func recvName(e ast.Expr) string {
	switch e := e.(type) {
	case *ast.StarExpr:
		return recvName(e.X)
	case *ast.Ident:
		return e.Name
	}
	return "?"
}

func (p *pkg) text(n ast.Node) string {
	if n == nil {
		return ""
	}
	pos := p.fset.Position(n.Pos())
	end := p.fset.Position(n.End())
	b := p.src[filepath.Base(pos.Filename)]
	if b == nil || end.Offset > len(b) {
		return ""
	}
	return string(b[pos.Offset:end.Offset])
}

// constInt evaluates an expression that is a literal or a constant declared in fn / the package
func (p *pkg) constInt(e ast.Expr, scope ast.Node) (int, bool) {
	switch e := e.(type) {
	case *ast.BasicLit:
		v := constant.MakeFromLiteral(e.Value, e.Kind, 0)
		if i, ok := constant.Int64Val(v); ok {
			return int(i), true
		}
	case *ast.Ident:
		var found ast.Expr
		look := func(n ast.Node) {
			ast.Inspect(n, func(n ast.Node) bool {
				if vs, ok := n.(*ast.ValueSpec); ok {
					for i, nm := range vs.Names {
						if nm.Name == e.Name && i < len(vs.Values) {
							found = vs.Values[i]
						}
					}
				}
				return true
			})
		}
		if scope != nil {
			look(scope)
		}
		if found == nil {
			for _, f := range p.files {
				look(f)
			}
		}
		if found != nil {
			return p.constInt(found, nil)
		}
	}
	return 0, false
}

func isCall(e ast.Expr, name string) (*ast.CallExpr, bool) {
	c, ok := e.(*ast.CallExpr)
	if !ok {
		return nil, false
	}
	return c, exprName(c.Fun) == name
}

// exprName renders identifiers and selectors as dotted names ("stepWg.Add")
func exprName(e ast.Expr) string {
	switch e := e.(type) {
	case *ast.Ident:
		return e.Name
	case *ast.SelectorExpr:
		return exprName(e.X) + "." + e.Sel.Name
	case *ast.StarExpr:
		return exprName(e.X)
	case *ast.ParenExpr:
		return exprName(e.X)
	case *ast.IndexExpr:
		return exprName(e.X) + "[]"
	case *ast.CallExpr:
		return exprName(e.Fun) + "()"
	}
	return "?"
}

// events returns, in source order, the labelled events inside node
type event struct {
	kind string
	pos  token.Pos
	node ast.Node
}

func collect(n ast.Node, f func(ast.Node) string) []event {
	var out []event
	ast.Inspect(n, func(x ast.Node) bool {
		if x == nil {
			return true
		}
		if k := f(x); k != "" {
			out = append(out, event{k, x.Pos(), x})
		}
		return true
	})
	sort.SliceStable(out, func(i, j int) bool { return out[i].pos < out[j].pos })
	return out
}

var out strings.Builder

func emit(format string, a ...interface{}) { fmt.Fprintf(&out, format+"\n", a...) }

func leanBool(b bool) string {
	if b {
		return "true"
	}
	return "false"
}
func leanStr(s string) string { return strconv.Quote(s) }
func leanStrList(l []string) string {
	q := make([]string, len(l))
	for i, s := range l {
		q[i] = leanStr(s)
	}
	return "[" + strings.Join(q, ", ") + "]"
}
func leanOptNat(v int, ok bool) string {
	if !ok {
		return "none"
	}
	return fmt.Sprintf("(some %d)", v)
}

func main() {
	dir := "/repo"
	if len(os.Args) > 1 {
		dir = os.Args[1]
	}
	p := load(dir)
	emit("/- GENERATED by gwfacts from the Go sources of %s — do not edit. -/", dir)
	emit("import GwModel.FactTypes")
	emit("namespace Gen")
	emit("open Facts")
	p.execFacts()
	p.planFacts()
	p.gatewayFacts()
	p.cacheFacts()
	p.httpFacts()
	p.internalFacts()
	p.mergeFacts()
	p.scrubFacts()
	emit("end Gen")
	fmt.Print(out.String())
}

// ---------------------------------------------------------------- executor

func (p *pkg) chanCap(fn *ast.FuncDecl, varName string) (int, bool) {
	cap, ok := 0, false
	ast.Inspect(fn, func(n ast.Node) bool {
		as, isAs := n.(*ast.AssignStmt)
		if !isAs || len(as.Lhs) != 1 || len(as.Rhs) != 1 || exprName(as.Lhs[0]) != varName {
			return true
		}
		if c, isMake := isCall(as.Rhs[0], "make"); isMake && len(c.Args) >= 1 {
			if _, isChan := c.Args[0].(*ast.ChanType); isChan {
				if len(c.Args) == 1 {
					cap, ok = 0, true
				} else if v, good := p.constInt(c.Args[1], fn); good {
					cap, ok = v, true
				}
			}
		}
		return true
	})
	return cap, ok
}

func (p *pkg) execFacts() {
	ex := p.funcs["ParallelExecutor.Execute"]
	st := p.funcs["executeStep"]
	emit("\n-- executor (execute.go)")
	if ex == nil || st == nil {
		emit("def exec : ExecFacts := ExecFacts.unrecognised")
		return
	}
	rc, rok := p.chanCap(ex, "resultCh")
	ec, eok := p.chanCap(ex, "errCh")
	// order of effects in executeStep
	evs := collect(st.Body, func(n ast.Node) string {
		switch n := n.(type) {
		case *ast.CallExpr:
			if exprName(n.Fun) == "stepWg.Add" {
				return "add"
			}
		case *ast.SendStmt:
			if exprName(n.Chan) == "resultCh" {
				return "pub"
			}
		case *ast.GoStmt:
			if exprName(n.Call.Fun) == "executeStep" {
				return "spawn"
			}
		}
		return ""
	})
	var order []string
	for _, e := range evs {
		order = append(order, ".")
		order[len(order)-1] = "Op." + e.kind
	}
	// the pub must not sit inside a go statement or closure (it would not be ordered before the spawn)
	pubInline := true
	ast.Inspect(st.Body, func(n ast.Node) bool {
		switch n := n.(type) {
		case *ast.FuncLit:
			ast.Inspect(n, func(m ast.Node) bool {
				if s, ok := m.(*ast.SendStmt); ok && exprName(s.Chan) == "resultCh" {
					pubInline = false
				}
				return true
			})
		}
		return true
	})
	// collector closures: go func literals in Execute that receive from resultCh
	collectors := 0
	selfSend := false
	doneAfterInsert := false
	doneOnEveryPath := false
	errsBeforeDone := true
	var collector *ast.FuncLit
	ast.Inspect(ex.Body, func(n ast.Node) bool {
		g, ok := n.(*ast.GoStmt)
		if !ok {
			return true
		}
		fl, ok := g.Call.Fun.(*ast.FuncLit)
		if !ok {
			return true
		}
		recvs := false
		ast.Inspect(fl, func(m ast.Node) bool {
			if u, ok := m.(*ast.UnaryExpr); ok && u.Op == token.ARROW && exprName(u.X) == "resultCh" {
				recvs = true
			}
			return true
		})
		if recvs {
			collectors++
			collector = fl
		}
		return true
	})
	// is the collector started inside a loop?
	collectorInLoop := false
	ast.Inspect(ex.Body, func(n ast.Node) bool {
		var body *ast.BlockStmt
		switch n := n.(type) {
		case *ast.ForStmt:
			body = n.Body
		case *ast.RangeStmt:
			body = n.Body
		}
		if body != nil && collector != nil && body.Pos() <= collector.Pos() && collector.End() <= body.End() {
			// the collector's own for{} loop does not count: it must contain the go statement itself
			ast.Inspect(body, func(m ast.Node) bool {
				if g, ok := m.(*ast.GoStmt); ok && g.Call.Fun == ast.Expr(collector) {
					collectorInLoop = true
				}
				return true
			})
		}
		return true
	})
	if collector != nil {
		cevs := collect(collector.Body, func(n ast.Node) string {
			switch n := n.(type) {
			case *ast.SendStmt:
				if exprName(n.Chan) == "errCh" {
					return "sendErr"
				}
			case *ast.CallExpr:
				switch exprName(n.Fun) {
				case "executorInsertObject":
					return "insert"
				case "stepWg.Done":
					return "done"
				case "append":
					if len(n.Args) > 0 && exprName(n.Args[0]) == "errs" {
						return "recordErr"
					}
				}
			}
			return ""
		})
		// every statement recording a step error comes before the Done that lets Execute return
		doneSeen := false
		for _, e := range cevs {
			switch e.kind {
			case "done":
				doneSeen = true
			case "recordErr":
				if doneSeen {
					errsBeforeDone = false
				}
			}
		}
		seenInsert := false
		firstDoneAfter := false
		nDone := 0
		for _, e := range cevs {
			switch e.kind {
			case "sendErr":
				selfSend = true
			case "insert":
				seenInsert = true
			case "done":
				nDone++
				if nDone == 1 && seenInsert {
					firstDoneAfter = true
				}
			}
		}
		doneAfterInsert = firstDoneAfter
		// "done on every path": either exactly one Done that is a direct statement of the result case
		// (not nested in if/switch), or the legacy shape (Done in default + Done in the errCh case)
		doneOnEveryPath = p.doneUnconditional(collector) || (selfSend && nDone == 2)
	}
	// root: Add(1) precedes go executeStep inside the loop of Execute
	rootEvs := collect(ex.Body, func(n ast.Node) string {
		switch n := n.(type) {
		case *ast.CallExpr:
			if exprName(n.Fun) == "stepWg.Add" {
				return "add"
			}
			if exprName(n.Fun) == "stepWg.Wait" {
				return "wait"
			}
		case *ast.GoStmt:
			if exprName(n.Call.Fun) == "executeStep" {
				return "spawn"
			}
		}
		return ""
	})
	var rootOrder []string
	for _, e := range rootEvs {
		rootOrder = append(rootOrder, e.kind)
	}
	rootOK := strings.Join(rootOrder, ",") == "add,spawn,wait"
	// errors appended under the collector before Done / read after Wait
	emit("def exec : ExecFacts :=")
	emit("  { recognised := %s", leanBool(rok && collector != nil && pubInline))
	emit("    resultCap := %d", rc)
	emit("    errCap := %s", leanOptNat(ec, eok))
	emit("    order := [%s]", strings.Join(order, ", "))
	emit("    collectorSelfSendsErr := %s", leanBool(selfSend))
	emit("    collectors := %d", collectors)
	emit("    collectorInLoop := %s", leanBool(collectorInLoop))
	emit("    doneAfterInsert := %s", leanBool(doneAfterInsert))
	emit("    doneOnEveryPath := %s", leanBool(doneOnEveryPath))
	emit("    errsBeforeDone := %s", leanBool(errsBeforeDone))
	emit("    rootAddSpawnWait := %s }", leanBool(rootOK))
}

// doneUnconditional: in the collector's select, the clause receiving from resultCh has stepWg.Done()
// as a top-level statement of the clause body (so it runs whatever the payload carried)
func (p *pkg) doneUnconditional(fl *ast.FuncLit) bool {
	found := false
	ast.Inspect(fl, func(n ast.Node) bool {
		cc, ok := n.(*ast.CommClause)
		if !ok || cc.Comm == nil {
			return true
		}
		if !strings.Contains(p.text(cc.Comm), "<-resultCh") {
			return true
		}
		for _, s := range cc.Body {
			if es, ok := s.(*ast.ExprStmt); ok {
				if c, ok := es.X.(*ast.CallExpr); ok && exprName(c.Fun) == "stepWg.Done" {
					found = true
				}
			}
		}
		return true
	})
	return found
}

// ---------------------------------------------------------------- planner

func (p *pkg) planFacts() {
	emit("\n-- planner (plan.go)")
	gp := p.funcs["MinQueriesPlanner.generatePlans"]
	es := p.funcs["MinQueriesPlanner.extractSelection"]
	gs := p.funcs["MinQueriesPlanner.groupSelectionSet"]
	sl := p.funcs["MinQueriesPlanner.selectLocation"]
	// queue kind
	kind := "PlanQueueKind.unrecognised"
	if gp != nil && es != nil {
		capv, hasChan := p.chanCap(gp, "stepCh")
		sends := false
		ast.Inspect(es.Body, func(n ast.Node) bool {
			if s, ok := n.(*ast.SendStmt); ok && strings.HasSuffix(exprName(s.Chan), "stepCh") {
				sends = true
			}
			return true
		})
		goStmts := 0
		chans := 0
		ast.Inspect(gp.Body, func(n ast.Node) bool {
			switch n := n.(type) {
			case *ast.GoStmt:
				goStmts++
			case *ast.CallExpr:
				if c, ok := isCall(n, "make"); ok && len(c.Args) > 0 {
					if _, isChan := c.Args[0].(*ast.ChanType); isChan {
						chans++
					}
				}
			}
			return true
		})
		esGo := 0
		ast.Inspect(es.Body, func(n ast.Node) bool {
			if _, ok := n.(*ast.GoStmt); ok {
				esGo++
			}
			return true
		})
		switch {
		case hasChan && sends && goStmts > 0:
			kind = fmt.Sprintf("PlanQueueKind.boundedSelfFedChan %d", capv)
		case !hasChan && chans == 0 && goStmts == 0 && esGo == 0 && !sends:
			kind = "PlanQueueKind.localWorklist"
		}
	}
	emit("def planQueue : PlanQueueKind := %s", kind)
	// does the error path return while the worker may still send on errCh (closed by defer)?
	closesLive := false
	if gp != nil {
		hasDeferClose := false
		ast.Inspect(gp.Body, func(n ast.Node) bool {
			if d, ok := n.(*ast.DeferStmt); ok && exprName(d.Call.Fun) == "close" && len(d.Call.Args) == 1 && exprName(d.Call.Args[0]) == "errCh" {
				hasDeferClose = true
			}
			return true
		})
		closesLive = hasDeferClose
	}
	emit("def planErrPathClosesLiveChan : Bool := %s", leanBool(closesLive))

	// chooser per wrapper in groupSelectionSet
	chooser := map[string]string{"plain": "ChooserKind.unrecognised", "named": "ChooserKind.unrecognised", "inline": "ChooserKind.unrecognised"}
	if gs != nil {
		// find the outer type switch over `selection`
		ast.Inspect(gs.Body, func(n ast.Node) bool {
			ts, ok := n.(*ast.TypeSwitchStmt)
			if !ok {
				return true
			}
			if !strings.Contains(p.text(ts.Assign), "selection.(type)") || strings.Contains(p.text(ts.Assign), "fragmentSelection") {
				return true
			}
			for _, c := range ts.Body.List {
				cc := c.(*ast.CaseClause)
				if len(cc.List) != 1 {
					continue
				}
				var w string
				switch p.text(cc.List[0]) {
				case "*ast.Field":
					w = "plain"
				case "*ast.FragmentSpread":
					w = "named"
				case "*ast.InlineFragment":
					w = "inline"
				default:
					continue
				}
				chooser[w] = p.chooserIn(cc, w)
			}
			return false
		})
	}
	emit("def chooserPlain : ChooserKind := %s", chooser["plain"])
	emit("def chooserNamed : ChooserKind := %s", chooser["named"])
	emit("def chooserInline : ChooserKind := %s", chooser["inline"])

	// selectLocation: priority order and fallback
	order := []string{}
	single := false
	fallbackFirst := false
	recognised := false
	if sl != nil {
		// initialLocationPriorities := []string{config.parentLocation, internalSchemaLocation}
		var initial []string
		configuredFirst := false
		appended := false
		ast.Inspect(sl.Body, func(n ast.Node) bool {
			switch n := n.(type) {
			case *ast.AssignStmt:
				if len(n.Lhs) == 1 && len(n.Rhs) == 1 {
					lhs := exprName(n.Lhs[0])
					if cl, ok := n.Rhs[0].(*ast.CompositeLit); ok && lhs == "initialLocationPriorities" {
						for _, e := range cl.Elts {
							switch exprName(e) {
							case "config.parentLocation":
								initial = append(initial, "parent")
							case "internalSchemaLocation":
								initial = append(initial, "internal")
							default:
								initial = append(initial, "?")
							}
						}
					}
					if c, ok := isCall(n.Rhs[0], "append"); ok && lhs == "priorities" && len(c.Args) == 2 &&
						exprName(c.Args[0]) == "priorities" && exprName(c.Args[1]) == "initialLocationPriorities" && c.Ellipsis.IsValid() {
						appended = true
					}
				}
			case *ast.CallExpr:
				if exprName(n.Fun) == "copy" && len(n.Args) == 2 && exprName(n.Args[0]) == "priorities" && exprName(n.Args[1]) == "p.LocationPriorities" {
					configuredFirst = true
				}
			case *ast.IfStmt:
				if p.norm(n.Cond) == "len(possibleLocations)==1" {
					single = true
				}
			}
			return true
		})
		// the loops: for _, priority := range priorities { for _, location := range possibleLocations { if location == priority { return priority } } }
		loopOK := false
		ast.Inspect(sl.Body, func(n ast.Node) bool {
			r, ok := n.(*ast.RangeStmt)
			if !ok || exprName(r.X) != "priorities" {
				return true
			}
			ast.Inspect(r.Body, func(m ast.Node) bool {
				r2, ok := m.(*ast.RangeStmt)
				if !ok || exprName(r2.X) != "possibleLocations" {
					return true
				}
				t := p.norm(r2.Body)
				if strings.Contains(t, "iflocation==priority{") && (strings.Contains(t, "returnpriority") || strings.Contains(t, "returnlocation")) {
					loopOK = true
				}
				return true
			})
			return true
		})
		// final statement: return possibleLocations[0]
		if n := len(sl.Body.List); n > 0 {
			if r, ok := sl.Body.List[n-1].(*ast.ReturnStmt); ok && len(r.Results) == 1 && p.norm(r.Results[0]) == "possibleLocations[0]" {
				fallbackFirst = true
			}
		}
		if configuredFirst && appended {
			order = append([]string{"configured"}, initial...)
		} else {
			order = initial
		}
		recognised = loopOK
	}
	for i, o := range order {
		order[i] = "PrioSource." + map[string]string{"configured": "configured", "parent": "parent", "internal": "internal", "?": "unknown"}[o]
	}
	emit("def selectLoc : SelectFacts :=")
	emit("  { recognised := %s, singleShortCircuit := %s, order := [%s], fallbackFirst := %s }",
		leanBool(recognised), leanBool(single), strings.Join(order, ", "), leanBool(fallbackFirst))

	// variables collected from: field arguments, field directives, fragment-spread directives, inline-fragment directives
	varsFrom := []string{}
	if es != nil {
		t := p.text(es.Body)
		if strings.Contains(t, "graphql.ExtractVariables(selection.Arguments)") {
			varsFrom = append(varsFrom, "fieldArgs")
		}
		if strings.Contains(t, "range selection.Directives") {
			varsFrom = append(varsFrom, "directives")
		}
		// directives on fragment spreads and inline fragments (per case clause of the selection switch)
		ast.Inspect(es.Body, func(n ast.Node) bool {
			cc, ok := n.(*ast.CaseClause)
			if !ok || len(cc.List) != 1 {
				return true
			}
			body := ""
			for _, st := range cc.Body {
				body += p.norm(st)
			}
			if !strings.Contains(body, "addDirectiveVariables(config.step,selection.Directives)") {
				return true
			}
			switch p.text(cc.List[0]) {
			case "*ast.FragmentSpread":
				varsFrom = append(varsFrom, "spreadDirectives")
			case "*ast.InlineFragment":
				varsFrom = append(varsFrom, "inlineDirectives")
			}
			return true
		})
	}
	emit("def planVarsFrom : List String := %s", leanStrList(varsFrom))
}

func (p *pkg) chooserIn(cc *ast.CaseClause, w string) string {
	// the statement that appends into a per-location map: look at the key expression used
	res := "ChooserKind.unrecognised"
	usesSelect := false
	firstIdx := false
	for _, s := range cc.Body {
		ast.Inspect(s, func(n ast.Node) bool {
			switch n := n.(type) {
			case *ast.CallExpr:
				if exprName(n.Fun) == "p.selectLocation" {
					usesSelect = true
				}
			case *ast.AssignStmt:
				// fragmentLocations[fieldLocations[0]] = append(...)
				for _, l := range n.Lhs {
					if ix, ok := l.(*ast.IndexExpr); ok {
						if inner, ok := ix.Index.(*ast.IndexExpr); ok {
							if bl, ok := inner.Index.(*ast.BasicLit); ok && bl.Value == "0" {
								firstIdx = true
							}
						}
					}
				}
			}
			return true
		})
	}
	switch {
	case usesSelect && !firstIdx:
		res = "ChooserKind.selectLocation"
	case firstIdx && !usesSelect:
		res = "ChooserKind.firstDeclared"
	}
	return res
}

// ---------------------------------------------------------------- gateway.go

func (p *pkg) gatewayFacts() {
	emit("\n-- gateway.go")
	nw := p.funcs["New"]
	ex := p.funcs["Gateway.Execute"]
	scrubFirst := false
	splitOK := false
	if nw != nil {
		ast.Inspect(nw.Body, func(n ast.Node) bool {
			as, ok := n.(*ast.AssignStmt)
			if ok && len(as.Lhs) == 1 && exprName(as.Lhs[0]) == "responseMiddlewares" {
				if cl, ok := as.Rhs[0].(*ast.CompositeLit); ok && len(cl.Elts) == 1 && exprName(cl.Elts[0]) == "scrubInsertionIDs" {
					scrubFirst = true
				}
				if c, ok := isCall(as.Rhs[0], "append"); ok && len(c.Args) == 2 && exprName(c.Args[0]) == "responseMiddlewares" && exprName(c.Args[1]) == "mware" {
					splitOK = true
				}
			}
			return true
		})
	}
	loopUnconditional := false
	errAborts := false
	returnsExecErr := false
	if ex != nil {
		for _, s := range ex.Body.List {
			if r, ok := s.(*ast.RangeStmt); ok && exprName(r.X) == "g.responseMiddlewares" {
				loopUnconditional = true
				// the body of the loop is exactly: a failing middleware ends the request with (nil, err)
				t := p.norm(r.Body)
				// a failing middleware ends the request without data; the error is the middleware's, preceded by the
				// errors the execution had reported (if any)
				if t == "{iferr:=ware(executionContext,result);err!=nil{ifexecuteErr!=nil{varexecuteErrsgraphql.ErrorListiferrors.As(executeErr,&executeErrs){returnnil,append(append(graphql.ErrorList{},executeErrs...),err)}returnnil,graphql.ErrorList{executeErr,err}}returnnil,err}}" {
					errAborts = true
				}
			}
		}
		if n := len(ex.Body.List); n > 0 {
			if r, ok := ex.Body.List[n-1].(*ast.ReturnStmt); ok && p.norm(r) == "returnresult,executeErr" {
				returnsExecErr = true
			}
		}
	}
	emit("def mw : MwFacts :=")
	emit("  { scrubFirst := %s, appendInOrder := %s, loopUnconditional := %s, errorAborts := %s, returnsResultAndExecErr := %s }",
		leanBool(scrubFirst), leanBool(splitOK), leanBool(loopUnconditional), leanBool(errAborts), leanBool(returnsExecErr))

	// how New takes its options (model Nw): each option writes its own field, WithMiddlewares adds, and the planner
	// is handed factory and priorities after the loop over the options
	optBody := func(name string) string {
		if f := p.funcs[name]; f != nil {
			return p.norm(f.Body)
		}
		return ""
	}
	mwAdds := optBody("WithMiddlewares") == "{returnfunc(g*Gateway){g.middlewares=append(g.middlewares,middlewares...)}}"
	plannerSets := optBody("WithPlanner") == "{returnfunc(g*Gateway){g.planner=p}}"
	prioSets := optBody("WithLocationPriorities") == "{returnfunc(g*Gateway){g.locationPriorities=priorities}}"
	factorySets := optBody("WithQueryerFactory") == "{returnfunc(g*Gateway){g.queryerFactory=factory}}"
	handOver := false
	if nw != nil {
		// statement order inside New: the loop over the options, then the two hand-overs
		loopAt, facAt, prioAt := -1, -1, -1
		for k, st := range nw.Body.List {
			t := p.norm(st)
			switch {
			case strings.HasPrefix(t, "for_,config:=rangeconfigs{config(gateway)}"):
				loopAt = k
			case t == "ifgateway.queryerFactory!=nil{ifplanner,ok:=gateway.planner.(PlannerWithQueryerFactory);ok{gateway.planner=planner.WithQueryerFactory(gateway.queryerFactory)}}":
				facAt = k
			case t == "ifgateway.locationPriorities!=nil{ifplanner,ok:=gateway.planner.(PlannerWithLocationPriorities);ok{gateway.planner=planner.WithLocationPriorities(gateway.locationPriorities)}}":
				prioAt = k
			}
		}
		handOver = loopAt >= 0 && facAt > loopAt && prioAt > loopAt
	}
	emit("def newOpts : NewOptsFacts := { middlewaresAdd := %s, plannerSets := %s, prioritiesSet := %s, factorySets := %s, handOverAfterOptions := %s }",
		leanBool(mwAdds), leanBool(plannerSets), leanBool(prioSets), leanBool(factorySets), leanBool(handOver))

	// plan selection in Execute
	single := false
	needsName := false
	byName := false
	if ex != nil {
		t := p.norm(ex.Body)
		single = strings.Contains(t, "iflen(plans)==1{")
		needsName = strings.Contains(t, `ifctx.OperationName==""{`)
		byName = strings.Contains(t, "plans.ForOperation(ctx.OperationName)")
	}
	nameMatches := false
	if ex != nil {
		t := p.norm(ex.Body)
		nameMatches = strings.Contains(t, `iflen(plans)==1&&(ctx.OperationName==""||plans[0].Operation==nil||plans[0].Operation.Name==ctx.OperationName){`)
		if nameMatches {
			single = true
		}
	}
	emit("def opSelect : OpSelectFacts := { singleUsesOnly := %s, emptyNameRejected := %s, selectsByName := %s, onlyIfNameMatches := %s }", leanBool(single), leanBool(needsName), leanBool(byName), leanBool(nameMatches))

	// request middlewares handed to queryers before each call
	reqMw := false
	if eo := p.funcs["executeOneStep"]; eo != nil {
		t := p.norm(eo.Body)
		reqMw = strings.Contains(t, "nQueryer.WithMiddlewares(ctx.RequestMiddlewares)") && strings.Contains(t, "iflen(ctx.RequestMiddlewares)>0{")
	}
	emit("def requestMwEveryCall : Bool := %s", leanBool(reqMw))

	// the execution context of a request: a fresh value per Execute call, holding that request's own variables
	ctxFresh := false
	if ex != nil {
		for _, st := range ex.Body.List {
			if p.norm(st) == "executionContext:=&ExecutionContext{logger:g.logger,RequestContext:ctx.Context,RequestMiddlewares:g.requestMiddlewares,Plan:plan,Variables:ctx.Variables,}" {
				ctxFresh = true
			}
		}
		// and nothing else in Execute assigns to it or to its fields
		ast.Inspect(ex.Body, func(n ast.Node) bool {
			if as, ok := n.(*ast.AssignStmt); ok {
				for _, l := range as.Lhs {
					if t := p.norm(l); as.Tok != token.DEFINE && (t == "executionContext" || strings.HasPrefix(t, "executionContext.")) {
						ctxFresh = false
					}
				}
			}
			return true
		})
	}
	emit("def execContextFresh : Bool := %s", leanBool(ctxFresh))

	// variables forwarded with a step: only the step's own set, client values unchanged, plus the join id
	varsOK := false
	if eo := p.funcs["executeOneStep"]; eo != nil {
		t := p.norm(eo.Body)
		varsOK = strings.Contains(t, "variables:=map[string]interface{}{}") &&
			strings.Contains(t, "forvariable:=rangestep.Variables{ifvalue,ok:=queryVariables[variable];ok{variables[variable]=value}}") &&
			strings.Contains(t, `variables["id"]=pointData.ID`) && strings.Contains(t, "Variables:variables,") &&
			len(regexp.MustCompile(`variables\[[^\]]*\]=[^=]`).FindAllString(t, -1)) == 2
	}
	emit("def execVarsOnlyStepSet : Bool := %s", leanBool(varsOK))
	// the operation type of a step's query
	opKind := false
	if bq := p.funcs["plannerBuildQuery"]; bq != nil {
		t := p.norm(bq.Body)
		opKind = strings.Contains(t, "switchparentType{casetypeNameMutation:operation.Operation=ast.MutationcasetypeNameSubscription:operation.Operation=ast.Subscriptiondefault:operation.Operation=ast.Query}")
	}
	emit("def stepOperationKindFromParentType : Bool := %s", leanBool(opKind))

	// fieldURLs: introspection stripped for services
	stripOK := false
	if fu := p.funcs["fieldURLs"]; fu != nil {
		t := p.norm(fu.Body)
		stripOK = strings.Contains(t, `!strings.HasPrefix(typeDef.Name,"__")||!stripInternal`) &&
			strings.Contains(t, `!(name==typeNameQuery&&strings.HasPrefix(fieldDef.Name,"__"))`)
	}
	emit("def routeStripsIntrospection : Bool := %s", leanBool(stripOK))
}

// ---------------------------------------------------------------- cache.go

func (p *pkg) cacheFacts() {
	emit("\n-- cache.go")
	r := p.funcs["AutomaticQueryPlanCache.Retrieve"]
	storeOp := "CacheStoreOp.unrecognised"
	touch := false
	evict := "EvictCmp.unrecognised"
	hashFromSha := false
	missNoQuery := false
	if r != nil {
		t := p.norm(r.Body)
		switch {
		case strings.Contains(t, "c.cache.LoadOrStore(*hash,cacheItem)"):
			storeOp = "CacheStoreOp.loadOrStore"
		case strings.Contains(t, "c.cache.Store(*hash,cacheItem)"):
			storeOp = "CacheStoreOp.store"
		}
		touch = strings.Contains(t, "cached.LastUsed.Store(time.Now())")
		switch {
		case strings.Contains(t, "lastUsed.Before(time.Now().Add(-c.ttl))"):
			evict = "EvictCmp.lastUsedBeforeNowMinusTtl"
		}
		hashFromSha = strings.Contains(t, `if*hash==""{hashString:=sha256.Sum256([]byte(ctx.Query))`) && strings.Contains(t, "*hash=hex.EncodeToString(hashString[:])")
		missNoQuery = strings.Contains(t, `ifctx.Query==""{`) && strings.Contains(t, "errors.New(MessageMissingCachedQuery)")
	}
	planErrReturns := false
	if r != nil {
		t := p.norm(r.Body)
		planErrReturns = strings.Contains(t, "plan,err:=planner.Plan(ctx)iferr!=nil{returnnil,err}")
	}
	emit("def cache : CacheFacts := { storeOp := %s, touchOnHit := %s, evict := %s, keyIsShaOfText := %s, missWithoutQueryIsNotFound := %s, planErrorNotStored := %s }",
		storeOp, leanBool(touch), evict, leanBool(hashFromSha), leanBool(missNoQuery), leanBool(planErrReturns))
}

// ---------------------------------------------------------------- http.go

func (p *pkg) httpFacts() {
	emit("\n-- http.go")
	h := p.funcs["Gateway.GraphQLHandler"]
	sr := p.funcs["Gateway.setResultFunc"]
	byIndex, waits, planErrAborts := false, false, false
	if sr != nil {
		byIndex = strings.Contains(p.norm(sr.Body), "results[opNum]=r")
	}
	if h != nil {
		evs := collect(h.Body, func(n ast.Node) string {
			if c, ok := n.(*ast.CallExpr); ok {
				switch exprName(c.Fun) {
				case "opWg.Wait":
					return "wait"
				case "json.Marshal":
					if len(c.Args) == 1 && exprName(c.Args[0]) == "finalResponse" {
						return "marshal"
					}
				}
			}
			return ""
		})
		ks := []string{}
		for _, e := range evs {
			ks = append(ks, e.kind)
		}
		waits = strings.Join(ks, ",") == "wait,marshal"
		t := p.norm(h.Body)
		planErrAborts = strings.Contains(t, "emitResponse(w,http.StatusBadRequest,string(response))\n\t\t\treturn") || strings.Contains(t, "emitResponse(w,http.StatusBadRequest,string(response))return")
	}
	plansFirst := false
	if h != nil {
		t := p.norm(h.Body)
		plansFirst = strings.Contains(t, "for_,operation:=rangeplanned{opWg.Add(1)gog.executeRequest(operation.ctx,operation.plan,opWg,g.setResultFunc(operation.opNum,results,opMutex))}") &&
			strings.Count(t, "gog.executeRequest(") == 1 && strings.Contains(t, "planned=append(planned,plannedOperation{requestContext,plan,opNum})")
	}
	emit("def batch : BatchFacts := { writeByIndex := %s, waitsAll := %s, planErrAborts := %s, plansAllBeforeExecuting := %s }", leanBool(byIndex), leanBool(waits), leanBool(planErrAborts), leanBool(plansFirst))

	inj := p.funcs["injectFile"]
	guards := []string{}
	if inj != nil {
		t := p.norm(inj.Body)
		for name, pat := range map[string][]string{
			"batchIndexRange": {"idx<0||idx>=len(operations)", "idx>=len(operations)||idx<0"},
			"partsNonEmpty":   {"len(parts)==0", "len(parts)<1", "len(parts)<minPathParts{"},
			"indexNonNeg":     {"index<0"},
			"indexUpper":      {"index>=len("},
			"nilOperation":    {"operations[idx]==nil"},
			"leafMustBeNull":  {"expectednilvalue"},
		} {
			for _, q := range pat {
				if strings.Contains(t, q) {
					guards = append(guards, name)
					break
				}
			}
		}
		sort.Strings(guards)
	}
	emit("def injectGuards : List String := %s", leanStrList(guards))
	po := p.funcs["parseOperations"]
	nilOps := false
	if po != nil {
		t := p.norm(po.Body)
		nilOps = strings.Contains(t, "==nil{") && (strings.Contains(t, "singleQuery==nil") || strings.Contains(t, "operation==nil") || strings.Contains(t, "op==nil"))
	}
	emit("def parseRejectsNullOperations : Bool := %s", leanBool(nilOps))

	// formatErrorsWithCode: a list contributes its entries, anything else one graphql error; every entry that is not a
	// graphql error is rewritten as one carrying its message; the rewritten list is what is returned
	fe := p.funcs["formatErrorsWithCode"]
	fmtOK := false
	if fe != nil {
		t := p.norm(fe.Body)
		fmtOK = strings.Contains(t, "if!errors.As(err,&errList){errList=graphql.ErrorList{graphql.NewError(code,err.Error()),}}") &&
			strings.Contains(t, "for_,entry:=rangeerrList{ifentry==nil{continue}if_,ok:=entry.(*graphql.Error);!ok{entry=graphql.NewError(code,entry.Error())}formatted=append(formatted,entry)}") &&
			strings.Contains(t, `returnmap[string]interface{}{"data":data,"errors":formatted,}`)
	}
	emit("def httpErrorsKeepMessages : Bool := %s", leanBool(fmtOK))
}

// ---------------------------------------------------------------- internal.go

func (p *pkg) internalFacts() {
	emit("\n-- internal.go: switch tables of the introspection resolvers")
	names := []string{"Gateway.Query", "Gateway.introspectSchema", "Gateway.introspectType", "Gateway.introspectField",
		"Gateway.introspectEnumValue", "Gateway.introspectDirective", "Gateway.introspectInputValue"}
	consts := map[string]string{}
	for _, f := range p.files {
		ast.Inspect(f, func(n ast.Node) bool {
			if vs, ok := n.(*ast.ValueSpec); ok {
				for i, nm := range vs.Names {
					if i < len(vs.Values) {
						if bl, ok := vs.Values[i].(*ast.BasicLit); ok && bl.Kind == token.STRING {
							s, _ := strconv.Unquote(bl.Value)
							consts[nm.Name] = s
						}
					}
				}
			}
			return true
		})
	}
	emit("def introSwitch : List IntroSwitch := [")
	rows := []string{}
	for _, fn := range names {
		fd := p.funcs[fn]
		if fd == nil {
			continue
		}
		ast.Inspect(fd.Body, func(n ast.Node) bool {
			sw, ok := n.(*ast.SwitchStmt)
			if !ok || sw.Tag == nil {
				return true
			}
			subj := exprName(sw.Tag)
			if subj != "field.Name" && subj != "field.Alias" {
				return true
			}
			var labels []string
			for _, c := range sw.Body.List {
				for _, e := range c.(*ast.CaseClause).List {
					switch e := e.(type) {
					case *ast.BasicLit:
						s, _ := strconv.Unquote(e.Value)
						labels = append(labels, s)
					case *ast.Ident:
						if v, ok := consts[e.Name]; ok {
							labels = append(labels, v)
						} else {
							labels = append(labels, "?"+e.Name)
						}
					}
				}
			}
			sort.Strings(labels)
			kind := "SwitchSubject.name"
			if subj == "field.Alias" {
				kind = "SwitchSubject.alias"
			}
			rows = append(rows, fmt.Sprintf("  { resolver := %s, subject := %s, labels := %s }", leanStr(strings.TrimPrefix(fn, "Gateway.")), kind, leanStrList(labels)))
			return true
		})
	}
	emit("%s ]", strings.Join(rows, ",\n"))
	// how arguments are read
	q := p.funcs["Gateway.Query"]
	it := p.funcs["Gateway.introspectType"]
	rawName, rawDep := false, false
	if q != nil {
		rawName = strings.Contains(p.norm(q.Body), `field.Arguments.ForName("name").Value.Raw`)
	}
	if it != nil {
		rawDep = strings.Contains(p.norm(it.Body), `passedValue.Value.Raw=="true"`)
	}
	// after the repair variables are resolved into a copy before the resolvers run; record that
	resolves := false
	if q != nil {
		t := p.text(q.Body)
		resolves = strings.Contains(t, "resolveArgumentVariables") || strings.Contains(t, "resolveVariables")
	}
	emit("def introArgsRawOnly : Bool := %s", leanBool((rawName || rawDep) && !resolves))
}

// ---------------------------------------------------------------- merge.go

func (p *pkg) mergeFacts() {
	emit("\n-- merge.go")
	ms := p.funcs["mergeSchemas"]
	kindGuard := false
	possibleFrom := "PossibleTypesFrom.unrecognised"
	if ms != nil {
		t := p.norm(ms.Body)
		kindGuard = strings.Contains(t, "previousDefinition.Kind!=definition.Kind")
		switch {
		case strings.Contains(t, "result.AddPossibleType(iface,definition)") && strings.Contains(t, "if!exists{"):
			possibleFrom = "PossibleTypesFrom.firstDefinition"
		}
		// after the repair: one pass over the merged definitions (in sorted name order) registers possible
		// types and implemented interfaces; nothing is registered while the groups are being merged
		if i := strings.Index(t, "for_,name:=rangetypeNames{definition:=result.Types[name]switchdefinition.Kind{"); i >= 0 {
			if !strings.Contains(t[:i], "AddPossibleType(") && !strings.Contains(t[:i], "AddImplements(") &&
				strings.Contains(t[i:], "result.AddPossibleType(iface,definition)") && strings.Contains(t[:i], "sort.Strings(typeNames)") {
				possibleFrom = "PossibleTypesFrom.mergedDefinitions"
			} else {
				possibleFrom = "PossibleTypesFrom.unrecognised"
			}
		}
	}
	valueCmp := "ValueCompare.unrecognised"
	if mv := p.funcs["mergeValuesEqual"]; mv != nil {
		t := p.norm(mv.Body)
		// deep comparison: kind, then raw text, then the children (count, names, values recursively), with no
		// way out in between: exactly two `return nil` (both-nil and the end)
		iKind := strings.Index(t, "ifvalue1.Kind!=value2.Kind{returnerrors.New(")
		iRaw := strings.Index(t, "ifvalue1.Raw!=value2.Raw{returnerrors.New(")
		iLen := strings.Index(t, "iflen(value1.Children)!=len(value2.Children){returnerrors.New(")
		iRec := strings.Index(t, "iferr:=mergeValuesEqual(child1.Value,child2.Value);err!=nil{returnerr}")
		iName := strings.Index(t, "ifchild1.Name!=child2.Name{returnerrors.New(")
		switch {
		case iKind >= 0 && iKind < iRaw && iRaw < iLen && iLen < iName && iName < iRec && strings.Count(t, "returnnil") == 2:
			valueCmp = "ValueCompare.deep"
		case strings.Contains(t, "value1.Raw!=value2.Raw") && !strings.Contains(t, ".Children"):
			valueCmp = "ValueCompare.rawOnly"
		}
	}
	nilGuards := []string{}
	for _, fn := range []string{"mergeInterfaces", "mergeEnums"} {
		if fd := p.funcs[fn]; fd != nil {
			t := p.norm(fd.Body)
			if strings.Contains(t, "==nil{") {
				nilGuards = append(nilGuards, fn)
			}
		}
	}
	dirBoth := false
	if fd := p.funcs["mergeDirectiveListsEqual"]; fd != nil {
		t := p.norm(fd.Body)
		// equal lengths plus an injective pairing of equal applications (a multiset comparison)
		dirBoth = strings.Contains(t, "iflen(list1)!=len(list2){") && strings.Contains(t, "matched:=make([]bool,len(list2))") &&
			strings.Contains(t, "ifmatched[i]||directive2.Name!=directive1.Name{continue}") && strings.Contains(t, "matched[i]=true") &&
			!strings.Contains(t, "ForName(")
	}
	emit("def merge : MergeFacts := { kindGuard := %s, nilGuards := %s, valueCompare := %s, possibleTypesFrom := %s, directiveListsBothWays := %s }",
		leanBool(kindGuard), leanStrList(nilGuards), valueCmp, possibleFrom, leanBool(dirBoth))
	// isTypeSystemDirectiveLocation table
	var ts []string
	if fd := p.funcs["isTypeSystemDirectiveLocation"]; fd != nil {
		ast.Inspect(fd.Body, func(n ast.Node) bool {
			cc, ok := n.(*ast.CaseClause)
			if !ok {
				return true
			}
			ret := ""
			for _, s := range cc.Body {
				if r, ok := s.(*ast.ReturnStmt); ok && len(r.Results) == 1 {
					ret = exprName(r.Results[0])
				}
			}
			if ret == "true" {
				for _, e := range cc.List {
					ts = append(ts, strings.TrimPrefix(exprName(e), "ast.Location"))
				}
			}
			return true
		})
	}
	sort.Strings(ts)
	emit("def typeSystemLocations : List String := %s", leanStrList(ts))
}

// ---------------------------------------------------------------- scrub

func (p *pkg) scrubFacts() {
	emit("\n-- scrub paths (plan.go / middlewares.go)")
	pl := p.funcs["MinQueriesPlanner.Plan"]
	src := "ScrubSource.unrecognised"
	if pl != nil {
		t := p.norm(pl.Body)
		if strings.Contains(t, "parsedQuery.Operations[0].SelectionSet") {
			src = "ScrubSource.firstOperation"
		} else if gsf := p.funcs["MinQueriesPlanner.generateScrubFields"]; gsf != nil {
			t2 := p.norm(gsf.Body)
			if strings.Contains(t2, "plan.Operation.SelectionSet") {
				src = "ScrubSource.ownOperation"
			}
		}
	}
	natural := "NaturalIdTest.unrecognised"
	if w := p.funcs["MinQueriesPlanner.generateScrubFieldsWalk"]; w != nil {
		t := p.norm(w.Body)
		switch {
		case strings.Contains(t, `iffield.Alias=="id"{naturalID=true}`):
			natural = "NaturalIdTest.aliasIsId"
		case strings.Contains(t, `iffield.Name=="id"{naturalID=true}`):
			natural = "NaturalIdTest.nameIsId"
		}
		if strings.Contains(t, "if!naturalID&&len(insertionPoint)>0{") {
			natural += ""
		} else {
			natural = "NaturalIdTest.unrecognised"
		}
	}
	deletes := false
	if s := p.funcs["scrubInsertionIDs"]; s != nil {
		deletes = strings.Contains(p.norm(s.Body), "delete(obj,field)")
	}
	emit("def scrub : ScrubFacts := { source := %s, natural := %s, deletesField := %s }", src, natural, leanBool(deletes))
}
