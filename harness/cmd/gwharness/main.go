// gwharness runs one property's correspondence / exploration procedure against the real package
// (replace github.com/nautilus/gateway => /repo) and the compiled Lean model (gwdrv).
//
//	gwharness run    -prop C01 -tier quick -seed 1 -drv <gwdrv> -out report.json [-workers 8]
//	gwharness worker -prop C01 -tier quick -seed 1 -drv <gwdrv> -from 0 -to 100      (internal)
//	gwharness case   -prop C01 -seed 1 -drv <gwdrv> -i 17                            (replay one case)
//
// The parent splits the case range over worker processes; a worker prints one JSON line per case and a
// "start" line before each case, so that a crash of the process (a panic in a goroutine of the package under
// test cannot be recovered) or a hang is attributed to the case that was running.
package main

import (
	"bufio"
	"encoding/json"
	"flag"
	"fmt"
	"os"
	"os/exec"
	"sort"
	"strings"
	"sync"
	"time"

	"gwverif/hx"
)

type report struct {
	Property           string                    `json:"property"`
	Tier               string                    `json:"tier"`
	Seed               int64                     `json:"seed"`
	Evaluations        int                       `json:"evaluations"`
	DistinctNontrivial int                       `json:"distinct_nontrivial"`
	Skipped            map[string]int            `json:"skipped"`
	Rule               string                    `json:"rule"`
	Samples            []interface{}             `json:"samples"`
	Features           map[string]int            `json:"features"`
	Counters           map[string]int            `json:"counters"`
	Failures           []failureRec              `json:"failures"`
	WallS              float64                   `json:"wall_s"`
}

type failureRec struct {
	hx.Failure
	Case  int    `json:"case"`
	ID    string `json:"id"`
}

func main() {
	if len(os.Args) < 2 {
		fmt.Fprintln(os.Stderr, "usage: gwharness run|worker|case …")
		os.Exit(2)
	}
	mode := os.Args[1]
	if mode == "netprobe" {
		// one net-twin case in a process of its own (a race report ends this process, not the worker's)
		var tc hx.NetTwinCase
		if len(os.Args) < 3 || json.Unmarshal([]byte(os.Args[2]), &tc) != nil {
			os.Exit(2)
		}
		fails := hx.RunNetTwin(tc)
		b, _ := json.Marshal(fails)
		fmt.Println(string(b))
		if len(fails) > 0 {
			os.Exit(3)
		}
		return
	}
	fs := flag.NewFlagSet(mode, flag.ExitOnError)
	prop := fs.String("prop", "", "property id")
	tier := fs.String("tier", "quick", "quick|thorough|search")
	seed := fs.Int64("seed", 1, "seed")
	drv := fs.String("drv", "", "path of gwdrv")
	out := fs.String("out", "", "report file")
	workers := fs.Int("workers", 8, "worker processes")
	from := fs.Int("from", 0, "")
	to := fs.Int("to", 0, "")
	idx := fs.Int("i", 0, "case index")
	kf := fs.String("kf", "", "KNOWN_FINDINGS.json (regions excluded from the general stream)")
	caseTimeout := fs.Duration("case-timeout", 150*time.Second, "per case watchdog in the parent")
	fs.Parse(os.Args[2:])
	hx.LoadKnownFindings(*kf)
	r, ok := hx.Runners[*prop]
	if !ok {
		fmt.Fprintln(os.Stderr, "unknown property", *prop)
		os.Exit(2)
	}
	switch mode {
	case "worker":
		worker(r, *tier, *seed, *drv, *from, *to)
	case "case":
		ctx := mkCtx(*tier, *seed, *drv)
		res := r.Run(ctx, *idx)
		b, _ := json.MarshalIndent(res, "", " ")
		fmt.Println(string(b))
		if len(res.Fails) > 0 {
			os.Exit(1)
		}
	case "run":
		rep := parent(r, *prop, *tier, *seed, *drv, *workers, *kf, *caseTimeout)
		b, _ := json.MarshalIndent(rep, "", " ")
		if *out != "" {
			os.WriteFile(*out, b, 0o644)
		} else {
			fmt.Println(string(b))
		}
	}
}

func mkCtx(tier string, seed int64, drv string) *hx.Ctx {
	ctx := &hx.Ctx{Tier: tier, Seed: seed}
	if drv != "" {
		d, err := hx.StartDrv(drv)
		if err != nil {
			fmt.Fprintln(os.Stderr, "cannot start driver:", err)
			os.Exit(2)
		}
		ctx.Drv = d
	}
	return ctx
}

func worker(r hx.Runner, tier string, seed int64, drv string, from, to int) {
	ctx := mkCtx(tier, seed, drv)
	w := bufio.NewWriter(os.Stdout)
	for i := from; i < to; i++ {
		fmt.Fprintf(w, "{\"start\":%d}\n", i)
		w.Flush()
		res := r.Run(ctx, i)
		res.Index = i
		b, _ := json.Marshal(res)
		w.Write(b)
		w.WriteByte('\n')
		w.Flush()
	}
}

func parent(r hx.Runner, prop, tier string, seed int64, drv string, workers int, kf string, caseTimeout time.Duration) *report {
	t0 := time.Now()
	n := r.Cases(tier)
	rep := &report{Property: prop, Tier: tier, Seed: seed, Rule: r.Rule(), Skipped: map[string]int{}, Features: map[string]int{}, Counters: map[string]int{}}
	if workers > n {
		workers = n
	}
	if workers < 1 {
		workers = 1
	}
	var mu sync.Mutex
	results := make([]*hx.CaseResult, n)
	var wg sync.WaitGroup
	self, _ := os.Executable()
	chunk := (n + workers - 1) / workers
	for w := 0; w < workers; w++ {
		lo, hi := w*chunk, (w+1)*chunk
		if hi > n {
			hi = n
		}
		if lo >= hi {
			continue
		}
		wg.Add(1)
		go func(lo, hi int) {
			defer wg.Done()
			for lo < hi {
				next, crashed := runWorker(self, prop, tier, seed, drv, kf, lo, hi, caseTimeout, func(res *hx.CaseResult) {
					mu.Lock()
					results[res.Index] = res
					mu.Unlock()
				})
				if crashed != nil {
					mu.Lock()
					results[crashed.Index] = crashed
					mu.Unlock()
				}
				lo = next
			}
		}(lo, hi)
	}
	wg.Wait()
	keys := map[string]bool{}
	for i, res := range results {
		if res == nil {
			continue
		}
		rep.Evaluations++
		if res.Skipped != "" {
			rep.Skipped[res.Skipped]++
		}
		for _, f := range res.Features {
			rep.Features[f]++
		}
		for k, v := range res.Counters {
			rep.Counters[k] += v
		}
		if res.Nontrivial && res.Skipped == "" {
			k := res.Key
			if k == "" {
				k = res.ID
			}
			keys[k] = true
		}
		if res.Sample != nil && len(rep.Samples) < 5 {
			rep.Samples = append(rep.Samples, res.Sample)
		}
		for _, f := range res.Fails {
			rep.Failures = append(rep.Failures, failureRec{Failure: f, Case: i, ID: res.ID})
		}
	}
	rep.DistinctNontrivial = len(keys)
	sort.SliceStable(rep.Failures, func(a, b int) bool { return rep.Failures[a].Case < rep.Failures[b].Case })
	rep.WallS = time.Since(t0).Seconds()
	return rep
}

// runWorker runs cases [lo,hi) in a child; returns the index to continue from and, if the child died or hung,
// a synthetic result for the case that was running.
func runWorker(self, prop, tier string, seed int64, drv, kf string, lo, hi int, caseTimeout time.Duration, sink func(*hx.CaseResult)) (int, *hx.CaseResult) {
	cmd := exec.Command(self, "worker", "-prop", prop, "-tier", tier, "-seed", fmt.Sprint(seed), "-drv", drv, "-kf", kf, "-from", fmt.Sprint(lo), "-to", fmt.Sprint(hi))
	stdout, _ := cmd.StdoutPipe()
	var stderr strings.Builder
	cmd.Stderr = &limitedWriter{sb: &stderr, max: 1 << 16}
	if err := cmd.Start(); err != nil {
		return hi, &hx.CaseResult{Index: lo, ID: "worker-start", Fails: []hx.Failure{{Channel: "harness", Classifier: "harness-error", What: err.Error()}}}
	}
	lines := make(chan string, 64)
	go func() {
		sc := bufio.NewScanner(stdout)
		sc.Buffer(make([]byte, 1<<20), 1<<26)
		for sc.Scan() {
			lines <- sc.Text()
		}
		close(lines)
	}()
	current := -1
	done := lo
	timer := time.NewTimer(caseTimeout)
	defer timer.Stop()
	for {
		select {
		case line, ok := <-lines:
			if !ok {
				err := cmd.Wait()
				if done >= hi && err == nil {
					return hi, nil
				}
				if current < 0 {
					current = done
				}
				tail := stderr.String()
				if len(tail) > 3000 {
					tail = tail[:1500] + "\n…\n" + tail[len(tail)-1500:]
				}
				return current + 1, &hx.CaseResult{Index: current, ID: fmt.Sprintf("case-%d", current), Nontrivial: true,
					Fails: []hx.Failure{{Channel: "crash", Classifier: hx.ClassifyCrash(tail), What: "the process running the package under test died while this case was running", Observed: tail}}}
			}
			if !timer.Stop() {
				select {
				case <-timer.C:
				default:
				}
			}
			timer.Reset(caseTimeout)
			if strings.HasPrefix(line, "{\"start\":") {
				fmt.Sscanf(line, "{\"start\":%d}", &current)
				continue
			}
			var res hx.CaseResult
			if err := json.Unmarshal([]byte(line), &res); err == nil {
				sink(&res)
				done = res.Index + 1
				current = -1
			}
		case <-timer.C:
			cmd.Process.Kill()
			cmd.Wait()
			if current < 0 {
				current = done
			}
			return current + 1, &hx.CaseResult{Index: current, ID: fmt.Sprintf("case-%d", current), Nontrivial: true,
				Fails: []hx.Failure{{Channel: "hang", Classifier: "hang", What: fmt.Sprintf("no progress for %v", caseTimeout)}}}
		}
	}
}

type limitedWriter struct {
	sb  *strings.Builder
	max int
	mu  sync.Mutex
}

func (l *limitedWriter) Write(p []byte) (int, error) {
	l.mu.Lock()
	defer l.mu.Unlock()
	if l.sb.Len() < l.max {
		l.sb.Write(p)
	}
	return len(p), nil
}
