package hx

import (
	"sync/atomic"
	"context"
	"encoding/json"
	"fmt"
	"strings"
	"sync"
	"time"

	"github.com/nautilus/gateway"
	"github.com/nautilus/graphql"
	"github.com/vektah/gqlparser/v2"
	"github.com/vektah/gqlparser/v2/ast"
	"github.com/vektah/gqlparser/v2/formatter"
)

// Fed is a gateway over in-process services sharing one store. Only the public API of the package is used.
type Fed struct {
	Spec      FedSpec
	Services  []*Service
	ByURL     map[string]*Service
	GW        *gateway.Gateway
	Merged    *ast.Schema         // captured through WithPlanner on the first planning call
	Locations gateway.FieldURLMap // idem
	// PlanDelayNanos, when set, makes every Plan call of this federation's planner take at least that long
	PlanDelayNanos int64
	Store     Store
	// Ctx, when set, is the context requests of Run are made under (instead of context.Background())
	Ctx context.Context
	// CacheKey, when set, is the key (hash) the requests of Run / runWith carry
	CacheKey string
}

// Quiet is a Logger that drops everything.
type Quiet struct{}

func (Quiet) Debug(args ...interface{})                               {}
func (Quiet) Info(args ...interface{})                                {}
func (Quiet) Warn(args ...interface{})                                {}
func (q Quiet) WithFields(fields gateway.LoggerFields) gateway.Logger { return q }
func (Quiet) QueryPlanStep(step *gateway.QueryPlanStep)               {}

type capPlanner struct {
	inner gateway.QueryPlanner
	fed   *Fed
	once  sync.Once
}

func (c *capPlanner) Plan(ctx *gateway.PlanningContext) (gateway.QueryPlanList, error) {
	c.once.Do(func() {
		c.fed.Merged = ctx.Schema
		c.fed.Locations = ctx.Locations
	})
	if d := atomic.LoadInt64(&c.fed.PlanDelayNanos); d > 0 {
		// keeps the request inside the planner for a while (so that concurrent requests overlap there)
		time.Sleep(time.Duration(d))
	}
	return c.inner.Plan(ctx)
}
func (c *capPlanner) WithQueryerFactory(f *gateway.QueryerFactory) gateway.QueryPlanner {
	if p, ok := c.inner.(gateway.PlannerWithQueryerFactory); ok {
		c.inner = p.WithQueryerFactory(f)
	}
	return c
}
func (c *capPlanner) WithLocationPriorities(p []string) gateway.QueryPlanner {
	if pl, ok := c.inner.(gateway.PlannerWithLocationPriorities); ok {
		c.inner = pl.WithLocationPriorities(p)
	}
	return c
}

// NewFed builds the services and the gateway. A panic inside gateway.New is returned as an error "PANIC: …".
func NewFed(spec FedSpec, store Store, opts ...gateway.Option) (f *Fed, err error) {
	f = &Fed{Spec: spec, Store: store, ByURL: map[string]*Service{}}
	var sources []*graphql.RemoteSchema
	for _, url := range spec.Order {
		sch := spec.Parsed[url]
		if sch == nil {
			var e error
			sch, e = gqlparser.LoadSchema(&ast.Source{Input: spec.SDLs[url]})
			if e != nil {
				return nil, fmt.Errorf("schema %s: %v", url, e)
			}
		}
		s := &Service{URL: url, SDL: spec.SDLs[url], Schema: sch, Store: store}
		f.Services = append(f.Services, s)
		f.ByURL[url] = s
		sources = append(sources, &graphql.RemoteSchema{Schema: sch, URL: url})
	}
	factory := gateway.QueryerFactory(func(ctx *gateway.PlanningContext, url string) graphql.Queryer {
		if s, ok := f.ByURL[url]; ok {
			return s
		}
		return nil
	})
	all := []gateway.Option{gateway.WithPlanner(&capPlanner{inner: &gateway.MinQueriesPlanner{}, fed: f}), gateway.WithQueryerFactory(&factory), gateway.WithLogger(Quiet{})}
	if len(spec.Priorities) > 0 {
		if spec.PrioritiesFirst {
			all = append([]gateway.Option{gateway.WithLocationPriorities(spec.Priorities)}, all...)
		} else {
			all = append(all, gateway.WithLocationPriorities(spec.Priorities))
		}
	}
	all = append(all, opts...)
	defer func() {
		if r := recover(); r != nil {
			f, err = nil, fmt.Errorf("PANIC: %v", r)
		}
	}()
	gw, e := gateway.New(sources, all...)
	if e != nil {
		return nil, e
	}
	f.GW = gw
	return f, nil
}

// Outcome of one request through the gateway.
type Outcome struct {
	Data     map[string]interface{}
	Err      error
	PlanErr  bool
	Hung     bool
	PlanHung bool
	Panicked interface{}
	Plans    gateway.QueryPlanList
}

// Run plans and executes under a watchdog. A panic on the calling goroutine is caught; a panic in a goroutine
// started by the executor kills the process (the worker protocol attributes it to the case).
func (f *Fed) Run(query, op string, vars map[string]interface{}, timeout time.Duration) Outcome {
	ch := make(chan Outcome, 1)
	planned := make(chan struct{})
	go func() {
		defer func() {
			if r := recover(); r != nil {
				ch <- Outcome{Panicked: r}
			}
		}()
		rctx := f.Ctx
		if rctx == nil {
			rctx = context.Background()
		}
		rc := &gateway.RequestContext{Context: rctx, Query: query, OperationName: op, Variables: vars, CacheKey: f.CacheKey}
		plans, err := f.GW.GetPlans(rc)
		close(planned)
		if err != nil {
			ch <- Outcome{Err: err, PlanErr: true}
			return
		}
		d, e := f.GW.Execute(rc, plans)
		ch <- Outcome{Data: d, Err: e, Plans: plans}
	}()
	select {
	case <-planned:
	case r := <-ch:
		return r
	case <-time.After(5 * time.Second):
		return Outcome{Hung: true, PlanHung: true}
	}
	return awaitOutcome(ch, timeout)
}

// awaitOutcome waits for the outcome of a request. "Did not return" is a statement about the code under test, not
// about the machine: when the deadline passes, the wake-up latency of short sleeps is measured. On a responsive machine
// the request gets one more short grace period and is then reported as hung; on a machine that is visibly not running
// this process (other checks, a busy sandbox) the wait goes on, up to two more minutes. A request that never returns
// is reported either way; one that was merely starved of CPU is not (thorough sweep of round 10: seven such alarms in
// C06 while three checks ran at once, none when run alone).
func awaitOutcome(ch chan Outcome, timeout time.Duration) Outcome {
	select {
	case r := <-ch:
		return r
	case <-time.After(timeout):
	}
	for extra := 0; extra < 12; extra++ {
		worst := time.Duration(0)
		for k := 0; k < 5; k++ {
			t0 := time.Now()
			time.Sleep(10 * time.Millisecond)
			if late := time.Since(t0) - 10*time.Millisecond; late > worst {
				worst = late
			}
		}
		grace := 10 * time.Second
		select {
		case r := <-ch:
			return r
		case <-time.After(grace):
		}
		if worst < 40*time.Millisecond {
			// the machine runs us promptly and the request has had timeout + 10 s
			return Outcome{Hung: true}
		}
	}
	return Outcome{Hung: true}
}

// Plan only plans, under a watchdog.
func (f *Fed) Plan(query string, timeout time.Duration) (plans gateway.QueryPlanList, err error, hung bool, panicked interface{}) {
	type res struct {
		p gateway.QueryPlanList
		e error
		x interface{}
	}
	ch := make(chan res, 1)
	go func() {
		defer func() {
			if r := recover(); r != nil {
				ch <- res{x: r}
			}
		}()
		rc := &gateway.RequestContext{Context: context.Background(), Query: query}
		p, e := f.GW.GetPlans(rc)
		ch <- res{p: p, e: e}
	}()
	select {
	case r := <-ch:
		return r.p, r.e, false, r.x
	case <-time.After(timeout):
		return nil, nil, true, nil
	}
}

func (f *Fed) ResetLogs() {
	for _, s := range f.Services {
		s.mu.Lock()
		s.Log = nil
		s.Effects = nil
		s.mu.Unlock()
	}
}

func (f *Fed) TotalCalls() int {
	n := 0
	for _, s := range f.Services {
		n += len(s.Calls())
	}
	return n
}

func J(v interface{}) string {
	b, _ := json.Marshal(v)
	return string(b)
}

// StepURL names the location of a plan step.
func StepURL(s *gateway.QueryPlanStep) string {
	if svc, ok := s.Queryer.(*Service); ok {
		return svc.URL
	}
	if _, ok := s.Queryer.(*gateway.Gateway); ok {
		return "GW"
	}
	return "?"
}

func DumpPlan(steps []*gateway.QueryPlanStep, indent string, sb *strings.Builder) {
	for _, s := range steps {
		fmt.Fprintf(sb, "%s- [%s] parent=%s ip=%v vars=%v\n%s  %s\n", indent, StepURL(s), s.ParentType, s.InsertionPoint, s.Variables, indent, strings.ReplaceAll(strings.TrimSpace(s.QueryString), "\n", "\n"+indent+"  "))
		DumpPlan(s.Then, indent+"    ", sb)
	}
}

func PlanText(plans gateway.QueryPlanList) string {
	var sb strings.Builder
	for _, pl := range plans {
		if pl.RootStep != nil {
			DumpPlan(pl.RootStep.Then, "  ", &sb)
		}
		fmt.Fprintf(&sb, "  scrub=%v\n", pl.FieldsToScrub)
	}
	return sb.String()
}

func PrintSchema(s *ast.Schema) string {
	var sb strings.Builder
	formatter.NewFormatter(&sb).FormatSchema(s)
	return sb.String()
}

func ErrString(e error) string {
	if e == nil {
		return ""
	}
	return e.Error()
}
