package hx

import (
	"bytes"
	"context"
	"encoding/json"
	"fmt"
	"io"
	"math/rand"
	"mime"
	"mime/multipart"
	"net/http"
	"os"
	"os/exec"
	"sort"
	"strings"
	"sync"
	"sync/atomic"
	"time"

	"github.com/nautilus/gateway"
	"github.com/nautilus/graphql"
	"github.com/vektah/gqlparser/v2"
	"github.com/vektah/gqlparser/v2/ast"
)

// NetFed is a gateway in its DEFAULT configuration — no queryer factory, no planner of the harness, the library's own
// network queryers created by the planner for "http://<service>.fedN/" — over the in-process services of a
// federation. The only thing replaced is the process's http transport: requests are routed by host name to the
// services, which parse the JSON (or multipart) body a server would receive and answer with the JSON a server sends.
//
// What the ordinary federations of the harness cannot show and this one can: what the client library does to the
// values it is handed and to itself (it nulls uploads in the variables, creates its http client on first use, stores
// the request middlewares in the queryer), JSON encoding of variables and decoding of data and errors, request
// middlewares on real *http.Request values.

var (
	netHosts   sync.Map // host -> *netService
	netFedSeq  int64
	netInstall sync.Once
)

type netService struct {
	svc *Service
	mu  sync.Mutex
	// Requests: what arrived over "the wire"
	Headers []http.Header
	Bodies  []string
	// Files: for multipart requests, the content of each file part by the variable position its map entry names
	Files []map[string]string
	// Answer, when set, answers instead of the service's interpreter
	Answer func(query string, vars map[string]interface{}) map[string]interface{}
}

type netRouter struct{}

func (netRouter) RoundTrip(req *http.Request) (*http.Response, error) {
	v, ok := netHosts.Load(req.URL.Host)
	if !ok {
		return nil, fmt.Errorf("no such host: %s", req.URL.Host)
	}
	ns := v.(*netService)
	body, _ := io.ReadAll(req.Body)
	req.Body.Close()
	var payload struct {
		Query         string                 `json:"query"`
		Variables     map[string]interface{} `json:"variables"`
		OperationName string                 `json:"operationName"`
	}
	files := map[string]string{}
	mt, params, _ := mime.ParseMediaType(req.Header.Get("Content-Type"))
	if strings.HasPrefix(mt, "multipart/") {
		mr := multipart.NewReader(bytes.NewReader(body), params["boundary"])
		form, err := mr.ReadForm(1 << 20)
		if err != nil {
			return jsonResponse(400, map[string]interface{}{"errors": []interface{}{map[string]interface{}{"message": "bad multipart: " + err.Error()}}}), nil
		}
		if ops := form.Value["operations"]; len(ops) > 0 {
			json.Unmarshal([]byte(ops[0]), &payload)
		}
		var m map[string][]string
		if ms := form.Value["map"]; len(ms) > 0 {
			json.Unmarshal([]byte(ms[0]), &m)
		}
		for key, positions := range m {
			if fhs := form.File[key]; len(fhs) > 0 {
				f, _ := fhs[0].Open()
				b, _ := io.ReadAll(f)
				f.Close()
				for _, p := range positions {
					files[p] = string(b)
				}
			}
		}
	} else {
		if err := json.Unmarshal(body, &payload); err != nil {
			return jsonResponse(400, map[string]interface{}{"errors": []interface{}{map[string]interface{}{"message": "bad json: " + err.Error()}}}), nil
		}
	}
	ns.mu.Lock()
	ns.Headers = append(ns.Headers, req.Header.Clone())
	ns.Bodies = append(ns.Bodies, string(body))
	ns.Files = append(ns.Files, files)
	ns.mu.Unlock()
	if ns.Answer != nil {
		return jsonResponse(200, map[string]interface{}{"data": ns.Answer(payload.Query, payload.Variables)}), nil
	}
	var data map[string]interface{}
	err := ns.svc.Query(req.Context(), &graphql.QueryInput{Query: payload.Query, Variables: payload.Variables, OperationName: payload.OperationName}, &data)
	out := map[string]interface{}{"data": data}
	if data == nil {
		out["data"] = nil
	}
	if err != nil {
		var entries []interface{}
		if list, ok := err.(graphql.ErrorList); ok {
			for _, le := range list {
				e, ok := le.(*graphql.Error)
				if !ok {
					entries = append(entries, map[string]interface{}{"message": le.Error()})
					continue
				}
				entry := map[string]interface{}{"message": e.Message}
				if e.Path != nil {
					entry["path"] = e.Path
				}
				if e.Extensions != nil {
					entry["extensions"] = e.Extensions
				}
				entries = append(entries, entry)
			}
		} else {
			entries = append(entries, map[string]interface{}{"message": err.Error()})
		}
		if entries == nil {
			entries = []interface{}{}
		}
		out["errors"] = entries
	}
	return jsonResponse(200, out), nil
}

func jsonResponse(code int, v interface{}) *http.Response {
	b, _ := json.Marshal(v)
	return &http.Response{StatusCode: code, Status: fmt.Sprint(code), Body: io.NopCloser(bytes.NewReader(b)), Header: http.Header{"Content-Type": []string{"application/json"}},
		ContentLength: int64(len(b)), Proto: "HTTP/1.1", ProtoMajor: 1, ProtoMinor: 1}
}

type NetFed struct {
	GW       *gateway.Gateway
	Services map[string]*netService // by spec name ("A", "B", …)
	hosts    []string
}

// NewNetFed builds the gateway with nothing but the options given.
func NewNetFed(spec FedSpec, store Store, opts ...gateway.Option) (nf *NetFed, err error) {
	return newNetFed(spec, store, false, opts...)
}

// NewNetFedIntrospected: as NewNetFed, with every service's schema rebuilt from the service's answer to the
// introspection query — which is how the gateway service (cmd/gateway) obtains its schemas.
func NewNetFedIntrospected(spec FedSpec, store Store, opts ...gateway.Option) (nf *NetFed, err error) {
	return newNetFed(spec, store, true, opts...)
}

func newNetFed(spec FedSpec, store Store, introspected bool, opts ...gateway.Option) (nf *NetFed, err error) {
	netInstall.Do(func() { http.DefaultTransport = netRouter{} })
	n := atomic.AddInt64(&netFedSeq, 1)
	nf = &NetFed{Services: map[string]*netService{}}
	var sources []*graphql.RemoteSchema
	for _, url := range spec.Order {
		sch, e := gqlparser.LoadSchema(&ast.Source{Input: spec.SDLs[url]})
		if e != nil {
			return nil, fmt.Errorf("schema %s: %v", url, e)
		}
		host := fmt.Sprintf("%s.fed%d", strings.ToLower(url), n)
		ns := &netService{svc: &Service{URL: url, SDL: spec.SDLs[url], Schema: sch, Store: store}}
		netHosts.Store(host, ns)
		nf.hosts = append(nf.hosts, host)
		nf.Services[url] = ns
		given := sch
		if introspected {
			given, e = IntrospectedSchema(sch)
			if e != nil {
				return nil, fmt.Errorf("introspection of %s: %v", url, e)
			}
		}
		sources = append(sources, &graphql.RemoteSchema{Schema: given, URL: "http://" + host + "/"})
	}
	// the gateway's own default logger stays in place (it formats every step's selection set each time the step is executed)
	all := append([]gateway.Option{}, opts...)
	if len(spec.Priorities) > 0 {
		var pr []string
		for _, p := range spec.Priorities {
			pr = append(pr, fmt.Sprintf("http://%s.fed%d/", strings.ToLower(p), n))
		}
		all = append(all, gateway.WithLocationPriorities(pr))
	}
	defer func() {
		if r := recover(); r != nil {
			nf, err = nil, fmt.Errorf("PANIC: %v", r)
		}
	}()
	gw, e := gateway.New(sources, all...)
	if e != nil {
		return nil, e
	}
	nf.GW = gw
	return nf, nil
}

// Close forgets the hosts of this federation.
func (nf *NetFed) Close() {
	for _, h := range nf.hosts {
		netHosts.Delete(h)
	}
}

func (nf *NetFed) TotalRequests() int {
	n := 0
	for _, s := range nf.Services {
		s.mu.Lock()
		n += len(s.Headers)
		s.mu.Unlock()
	}
	return n
}

// Run plans and executes one request.
func (nf *NetFed) Run(ctx context.Context, query, op string, vars map[string]interface{}, cacheKey string, timeout time.Duration) Outcome {
	ch := make(chan Outcome, 1)
	go func() {
		defer func() {
			if r := recover(); r != nil {
				ch <- Outcome{Panicked: r}
			}
		}()
		rc := &gateway.RequestContext{Context: ctx, Query: query, OperationName: op, Variables: vars, CacheKey: cacheKey}
		plans, err := nf.GW.GetPlans(rc)
		if err != nil {
			ch <- Outcome{Err: err, PlanErr: true}
			return
		}
		d, e := nf.GW.Execute(rc, plans)
		ch <- Outcome{Data: d, Err: e, Plans: plans}
	}()
	return awaitOutcome(ch, timeout)
}

// NetTwin runs one request through a default-configured gateway over the wire format and through the ordinary
// in-process federation; both must give the same data and the same error messages.
type NetTwinCase struct {
	Query     string                 `json:"query"`
	Vars      map[string]interface{} `json:"variables,omitempty"`
	ListLen   int                    `json:"list_len,omitempty"`
	ReqMws    int                    `json:"request_middlewares,omitempty"`
	Cached    bool                   `json:"cached_plans,omitempty"`
	Repeat    int                    `json:"concurrent_requests,omitempty"`
	StoreSeed int64                  `json:"store_seed"`
	// Faults (addressed by join id, so that they do not depend on the schedule) are installed in both federations
	Faults []FaultSpec `json:"faults,omitempty"`
	// Spec: the federation (FixedFed when absent); OddIDs: ids with separators and non-ASCII characters
	Spec   *FedSpec `json:"fed,omitempty"`
	OddIDs bool     `json:"odd_ids,omitempty"`
	OpName string   `json:"operation_name,omitempty"`
	// Introspected: the gateway is given schemas rebuilt from each service's introspection answer (as cmd/gateway does)
	Introspected bool `json:"introspected_schemas,omitempty"`
}

func netStore(tc NetTwinCase) Store {
	store := GenStore(rand.New(rand.NewSource(tc.StoreSeed)), tc.OddIDs)
	if tc.ListLen > 0 {
		var ids []string
		for id := range store["User"] {
			ids = append(ids, id)
		}
		sort.Strings(ids)
		var l []interface{}
		for i := 0; i < tc.ListLen; i++ {
			l = append(l, Ref{"User", ids[i%len(ids)]})
		}
		store["Query"][""]["allUsers"] = l
	}
	return store
}

// RunNetTwin returns the failures of one case (channel L0.net-twin).
func RunNetTwin(tc NetTwinCase) []Failure {
	store := netStore(tc)
	bad := func(what string, exp, obs interface{}) []Failure {
		return []Failure{{Channel: "L0.net-twin", Classifier: "unclassified", What: what, Input: tc, Expected: exp, Observed: obs}}
	}
	var opts []gateway.Option
	var names []string
	for k := 0; k < tc.ReqMws; k++ {
		name := fmt.Sprintf("req%d", k)
		names = append(names, name)
		opts = append(opts, gateway.WithMiddlewares(gateway.RequestMiddleware(func(r *http.Request) error {
			r.Header.Add("X-Mw", name)
			return nil
		})))
	}
	if tc.Cached {
		opts = append(opts, gateway.WithAutomaticQueryPlanCache())
	}
	spec := FixedFed()
	if tc.Spec != nil {
		spec = *tc.Spec
	}
	nf, err := newNetFed(spec, store, tc.Introspected, opts...)
	if err != nil {
		if tc.Introspected && !strings.HasPrefix(err.Error(), "PANIC") {
			// with schemas parsed from SDL the same services make a gateway (the twin below); rebuilt from their own
			// introspection answers they must too
			if _, e2 := NewFed(spec, store); e2 == nil {
				return bad("a gateway cannot be built from the services' introspected schemas although it can from their SDL: "+err.Error(), nil, nil)
			}
		}
		return []Failure{{Channel: "harness", Classifier: "harness-error", What: err.Error(), Input: tc}}
	}
	defer nf.Close()
	twin, err := NewFed(spec, store)
	if err != nil {
		return []Failure{{Channel: "harness", Classifier: "harness-error", What: err.Error(), Input: tc}}
	}
	if len(tc.Faults) > 0 {
		InstallFaults(twin, tc.Faults, 0)
		var inner []*Service
		for _, ns := range nf.Services {
			inner = append(inner, ns.svc)
		}
		InstallFaults(&Fed{Services: inner}, tc.Faults, 0)
	}
	want := twin.Run(tc.Query, tc.OpName, tc.Vars, 8*time.Second)
	if want.PlanErr || want.Hung || want.Panicked != nil {
		return nil // the in-process path's own trouble is other checks' subject
	}
	reps := tc.Repeat
	if reps < 1 {
		reps = 1
	}
	key := ""
	if tc.Cached {
		key = shaHex(tc.Query)
	}
	outs := make([]Outcome, reps)
	var wg sync.WaitGroup
	for k := 0; k < reps; k++ {
		wg.Add(1)
		go func(k int) {
			defer wg.Done()
			outs[k] = nf.Run(context.Background(), tc.Query, tc.OpName, copyVars(tc.Vars), key, 8*time.Second)
		}(k)
	}
	wg.Wait()
	for k, got := range outs {
		if got.Hung || got.Panicked != nil {
			return bad(fmt.Sprintf("request %d through the default network queryers: hung=%v panic=%v", k, got.Hung, got.Panicked), nil, nil)
		}
		if Canon(got.Data) != Canon(want.Data) {
			return bad(fmt.Sprintf("request %d through the default network queryers (JSON over an in-process transport) has other data than the same request over in-process queryers", k), want.Data, got.Data)
		}
		if fmt.Sprint(errMultiset(got.Err)) != fmt.Sprint(errMultiset(want.Err)) {
			return bad(fmt.Sprintf("request %d through the default network queryers reports other errors than over in-process queryers", k), ErrString(want.Err), ErrString(got.Err))
		}
	}
	// every request that went over the wire had every request middleware applied, once, in order
	for name, s := range nf.Services {
		s.mu.Lock()
		hs := append([]http.Header{}, s.Headers...)
		s.mu.Unlock()
		for _, h := range hs {
			if fmt.Sprint(h.Values("X-Mw")) != fmt.Sprint(names) && !(len(names) == 0 && len(h.Values("X-Mw")) == 0) {
				return bad("an http request to service "+name+" did not have every request middleware applied exactly once in order", names, h.Values("X-Mw"))
			}
		}
	}
	if twinCalls := twin.TotalCalls(); nf.TotalRequests() != twinCalls*reps {
		return bad(fmt.Sprintf("%d http requests for %d executions, the in-process path makes %d calls per execution", nf.TotalRequests(), reps, twinCalls), twinCalls*reps, nf.TotalRequests())
	}
	return nil
}

// NetProbeChild runs one net-twin case in a child process (`gwharness netprobe`); what the child wrote to stderr and
// stdout and whether it ended cleanly.
func NetProbeChild(tc NetTwinCase, timeout time.Duration) (stdout, stderr string, clean bool) {
	self, err := os.Executable()
	if err != nil {
		return "", err.Error(), false
	}
	b, _ := json.Marshal(tc)
	ctx, cancel := context.WithTimeout(context.Background(), timeout)
	defer cancel()
	cmd := exec.CommandContext(ctx, self, "netprobe", string(b))
	var so, se bytes.Buffer
	cmd.Stdout, cmd.Stderr = &so, &se
	err = cmd.Run()
	return so.String(), se.String(), err == nil
}
