package hx

import (
	"context"
	"fmt"
	"math/rand"
	"sync"

	"github.com/nautilus/gateway"
	"github.com/nautilus/graphql"
	"github.com/vektah/gqlparser/v2"
)

// L2.scrub: Scr.scrubLocation (lean/GwModel/ScrubApply.lean) against the built-in response middleware
// scrubInsertionIDs, reached through the public API: a gateway whose planner returns a hand-made plan (the client's
// operation, one listed location) and whose executor returns a generated response; Gateway.Execute then runs the
// scrubber on that response. Generated as for L2.findpoints: a path through a small schema, a query selecting along
// it (aliases, fragments, split duplicates), a response that mostly conforms and sometimes does not.

var (
	scrubGWOnce sync.Once
	scrubGW     *gateway.Gateway
	scrubExec   = &gateway.MockExecutor{}
	scrubPlan   = &gateway.MockPlanner{}
	scrubMu     sync.Mutex
)

func scrubGateway() *gateway.Gateway {
	scrubGWOnce.Do(func() {
		gw, err := gateway.New([]*graphql.RemoteSchema{{Schema: findSchema, URL: "find"}},
			gateway.WithPlanner(scrubPlan), gateway.WithExecutor(scrubExec), gateway.WithLogger(Quiet{}))
		if err == nil {
			scrubGW = gw
		}
	})
	return scrubGW
}

// ScrubCorr runs one generated case through scrubInsertionIDs and through Scr.scrubLocation.
func ScrubCorr(c *Ctx, r *rand.Rand) (fails []Failure, feats []string) {
	var fc findCase
	for try := 0; try < 20; try++ {
		fc, _ = genFindCase(r)
		if len(fc.Start) == 0 {
			break
		}
	}
	if len(fc.Start) != 0 || c.Drv == nil {
		return nil, nil
	}
	doc, errs := gqlparser.LoadQuery(findSchema, fc.Query)
	if errs != nil {
		return []Failure{{Channel: "harness", Classifier: "harness-error", What: "generated query does not validate: " + errs.Error(), Input: fc}}, nil
	}
	gw := scrubGateway()
	if gw == nil {
		return []Failure{{Channel: "harness", Classifier: "harness-error", What: "scrub gateway could not be built"}}, nil
	}
	infos := pointInfos(doc.Fragments, doc.Operations[0].SelectionSet, fc.Target)
	var got map[string]interface{}
	var gerr error
	var panicked interface{}
	func() {
		scrubMu.Lock()
		defer scrubMu.Unlock()
		defer func() { panicked = recover() }()
		scrubExec.Value, _ = deepCopy(fc.Result).(map[string]interface{})
		scrubPlan.Plans = gateway.QueryPlanList{{Operation: doc.Operations[0], RootStep: &gateway.QueryPlanStep{}, FragmentDefinitions: doc.Fragments,
			FieldsToScrub: map[string][][]string{"id": {fc.Target}}}}
		got, gerr = gw.Execute(&gateway.RequestContext{Context: context.Background(), Query: fc.Query}, scrubPlan.Plans)
	}()
	if panicked != nil {
		return []Failure{{Channel: "L2.scrub", Classifier: "unclassified", What: fmt.Sprintf("scrubInsertionIDs panicked: %v", panicked), Input: fc}}, nil
	}
	ans, err := c.Drv.Call(map[string]interface{}{"op": "scrubapply", "infos": infos, "chunk": fc.Result})
	if err != nil {
		return []Failure{{Channel: "harness", Classifier: "harness-error", What: err.Error(), Input: fc}}, nil
	}
	obs := map[string]interface{}{"response": got, "error": ErrString(gerr)}
	if _, merr := ans["error"]; merr {
		feats = append(feats, "scrub-error")
		if gerr == nil {
			return []Failure{{Channel: "L2.scrub", Classifier: "unclassified", What: "the model's scrubber reports an error, scrubInsertionIDs none", Input: fc, Expected: ans, Observed: obs}}, feats
		}
		return nil, feats
	}
	if gerr != nil {
		return []Failure{{Channel: "L2.scrub", Classifier: "unclassified", What: "scrubInsertionIDs reports an error, the model none", Input: fc, Expected: ans, Observed: obs}}, feats
	}
	var gotAny interface{} = got
	if Canon(normalise(gotAny)) != Canon(normalise(ans["result"])) {
		return []Failure{{Channel: "L2.scrub", Classifier: "unclassified", What: "the scrubbed response differs from the model's: " + firstDiff(normalise(gotAny), normalise(ans["result"]), ""), Input: fc, Expected: ans, Observed: obs}}, feats
	}
	feats = append(feats, "scrub-compared")
	return nil, feats
}
