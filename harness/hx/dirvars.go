package hx

import (
	"fmt"
	"math/rand"
	"strings"
	"time"
)

// L0.directive-variables: executable directives that the SERVICES declare (not @skip/@include), written on fields, inline
// fragments and fragment spreads, with variables inside list and input-object arguments. Every request a service
// receives must validate against that service's own schema (so every variable it uses is declared by the step's
// operation) and must carry the client's value for each variable it declares.
const audienceDefs = "directive @audience(groups: [String], opts: AudienceOpts) on FIELD | INLINE_FRAGMENT | FRAGMENT_SPREAD\ninput AudienceOpts { label: String, tags: [String] }\n"

var dirVarQueries = []string{
	`query($g: String) { me { firstName ... on User @audience(groups: [$g]) { lastName } } }`,
	`query($g: String) { allUsers { ...N @audience(opts: {label: $g}) } } fragment N on User { lastName nick }`,
	`query($g: String, $h: String) { me { ... on User @audience(groups: ["x", $g], opts: {label: $h}) { nick photos { likes } } } }`,
	`query($g: String) { me { firstName lastName @audience(groups: [$g]) } }`,
	`query($g: String, $h: String) { me { firstName ...N @audience(opts: {tags: [$g, $h]}) } } fragment N on User { nick ... on User @audience(groups: [$h]) { lastName } }`,
	`query($g: String) { allUsers { photos { url ... on Photo @audience(opts: {tags: [$g]}) { likes } } } }`,
}

func DirectiveVariables(r *rand.Rand) []Failure {
	spec := FixedFed()
	for url, sdl := range spec.SDLs {
		spec.SDLs[url] = audienceDefs + sdl
	}
	spec.Parsed = nil
	store := GenStore(rand.New(rand.NewSource(5)), false)
	f, err := NewFed(spec, store)
	if err != nil {
		return []Failure{{Channel: "harness", Classifier: "harness-error", What: "directive-variables: " + err.Error()}}
	}
	q := dirVarQueries[r.Intn(len(dirVarQueries))]
	vars := map[string]interface{}{"g": fmt.Sprintf("staff-%d", r.Intn(100)), "h": "night"}
	if !strings.Contains(q, "$h") {
		delete(vars, "h")
	}
	in := map[string]interface{}{"query": q, "variables": vars}
	out := f.Run(q, "", vars, 8*time.Second)
	bad := func(what string, obs interface{}) []Failure {
		return []Failure{{Channel: "L0.directive-variables", Classifier: "unclassified", What: what, Input: in, Observed: obs}}
	}
	if out.Hung || out.Panicked != nil {
		return bad(fmt.Sprintf("hung=%v panic=%v", out.Hung, out.Panicked), nil)
	}
	if out.PlanErr {
		return bad("a valid query using a directive the services declare is refused: "+ErrString(out.Err), nil)
	}
	for _, svc := range f.Services {
		for _, call := range svc.Calls() {
			if call.Rejected != "" {
				return bad("service "+svc.URL+" rejects the step query: "+firstLine(call.Rejected), map[string]interface{}{"query": call.Query, "variables": call.Variables})
			}
			for name, v := range vars {
				if strings.Contains(call.Query, "$"+name) {
					if got, ok := call.Variables[name]; !ok || fmt.Sprint(got) != fmt.Sprint(v) {
						return bad(fmt.Sprintf("a step query uses $%s but is sent %v for it (the client gave %v)", name, call.Variables[name], v), map[string]interface{}{"query": call.Query, "variables": call.Variables})
					}
				}
			}
		}
	}
	if out.Err != nil {
		return bad("a valid query using a directive the services declare is answered with errors: "+ErrString(out.Err), nil)
	}
	return nil
}
