package hx

import (
	"fmt"
	"sort"
	"strings"
	"time"

	"github.com/nautilus/gateway"
	"github.com/nautilus/graphql"
)

// ---------------------------------------------------------------------------------------------
// C07 — failures are reported faithfully and stay contained (fault enumeration over the calls of a plan)
// ---------------------------------------------------------------------------------------------

type c07 struct{}

var c07Queries = []string{
	`{ me { firstName lastName } }`,
	`{ me { firstName lastName nick } }`,
	`{ allUsers { firstName lastName } }`,
	`{ me { firstName favorite { url likes } } }`,
	`{ allPhotos { url likes owner { firstName } } }`,
	`{ me { firstName friends { lastName } } topPhoto { url likes } }`,
	`{ pets { name ... on Cat { toys } ... on Dog { barks } } }`,
}

var faultKinds = []string{"transport", "gqlerrors", "gqlerrors+data", "node-null", "empty", "wrong-shape", "gqlerrors+null", "timeout", "blank-error", "gqlerrors+empty"}

type joinSite struct {
	svc, id string
	path    []string
}

// joinSites lists, for every call of the fault-free run whose step has dependents, the relative path at which a
// dependent joins the step's own payload.
func joinSites(f *Fed, plans gateway.QueryPlanList) []joinSite {
	var out []joinSite
	if len(plans) == 0 {
		return nil
	}
	var walk func(steps []*gateway.QueryPlanStep)
	walk = func(steps []*gateway.QueryPlanStep) {
		for _, s := range steps {
			walk(s.Then)
			url := StepURL(s)
			if url == "GW" || url == "?" {
				continue
			}
			for _, d := range s.Then {
				if len(d.InsertionPoint) <= len(s.InsertionPoint) {
					continue
				}
				rel := append([]string{}, d.InsertionPoint[len(s.InsertionPoint):]...)
				for _, call := range f.ByURL[url].Calls() {
					if call.Query != s.QueryString {
						continue
					}
					id := "root"
					if idv, ok := call.Variables["id"]; ok {
						id = fmt.Sprint(idv)
					}
					out = append(out, joinSite{url, id, rel})
				}
			}
		}
	}
	walk(plans[0].RootStep.Then)
	sort.Slice(out, func(a, b int) bool {
		return out[a].svc+out[a].id+strings.Join(out[a].path, "/") < out[b].svc+out[b].id+strings.Join(out[b].path, "/")
	})
	return out
}

func (c07) Cases(tier string) int {
	switch tier {
	case "thorough":
		return len(c07Corpus) + 6000
	case "search":
		return len(c07Corpus) + 2500
	}
	return len(c07Corpus) + 900
}

func (c07) Rule() string {
	return "for fixed and generated queries over the fixed and random federations the calls of a fault-free run are listed as (service, join id); then fault assignments over those calls are applied: every single call x every outcome kind {transport error, error list, errors+partial data, errors with node:null, an error wrapping the deadline error of that one call, an error with an empty message, node:null, empty payload, wrong-shape payload}, every pair of calls, and random subsets; checked: no panic, no hang, no error when nothing was injected, every injected error message is in the returned list (as a multiset) and, with its message, in the HTTP response of the same request, a null/malformed payload yields at least one error, every value present in the data equals the monolith's at that position, and every call that was answered normally has its fields in the data at each object it joined onto; non-trivial = at least 2 calls and 1 fault; distinct = distinct (federation, query, fault assignment); one generated case in six a net-twin case: a gateway in its default configuration, services answering some join ids with an errors member in JSON (error lists, errors with data, blank messages, errors with empty data) — the reported errors must be those over in-process queryers"
}

type callKey struct{ svc, id string }

func listCalls(f *Fed) []callKey {
	var out []callKey
	for _, s := range f.Services {
		for _, c := range s.Calls() {
			k := callKey{s.URL, "root"}
			if idv, ok := c.Variables["id"]; ok {
				k.id = fmt.Sprint(idv)
			}
			out = append(out, k)
		}
	}
	sort.Slice(out, func(a, b int) bool { return out[a].svc+out[a].id < out[b].svc+out[b].id })
	return out
}

// subvalue: every value present in got agrees with want at the same position
func subvalue(got, want interface{}, path string) string {
	switch g := got.(type) {
	case nil:
		return ""
	case map[string]interface{}:
		w, ok := want.(map[string]interface{})
		if !ok {
			return fmt.Sprintf("%s: object where the monolith has %v", path, want)
		}
		for k, v := range g {
			wv, ok := w[k]
			if !ok {
				return fmt.Sprintf("%s: key %q is not in the monolith's object", path, k)
			}
			if d := subvalue(v, wv, path+"/"+k); d != "" {
				return d
			}
		}
	case []interface{}:
		w, ok := want.([]interface{})
		if !ok {
			return fmt.Sprintf("%s: list where the monolith has %v", path, want)
		}
		if len(g) > len(w) {
			return fmt.Sprintf("%s: list of %d elements, the monolith's has %d", path, len(g), len(w))
		}
		for i := range g {
			if d := subvalue(g[i], w[i], fmt.Sprintf("%s/%d", path, i)); d != "" {
				return d
			}
		}
	default:
		if Canon(got) != Canon(want) {
			return fmt.Sprintf("%s: value %v, the monolith has %v", path, got, want)
		}
	}
	return ""
}

var c07Corpus = []corpusCase{
	{"D25-node-null", FedInput{Spec: FixedFed(), StoreSeed: 5, Query: `{ me { firstName lastName } }`, Faults: []FaultSpec{{Service: "B", MatchID: "u1", Kind: "node-null"}}}, "silently swallowed before the repair"},
	{"D25-empty-payload", FedInput{Spec: FixedFed(), StoreSeed: 5, Query: `{ allUsers { firstName lastName } }`, Faults: []FaultSpec{{Service: "B", MatchID: "u2", Kind: "empty"}}}, ""},
	{"D24-wrong-shape-dependent", FedInput{Spec: FixedFed(), StoreSeed: 5, Query: `{ me { firstName favorite { url likes } } }`, Faults: []FaultSpec{{Service: "B", MatchID: "u1", Kind: "wrong-shape"}}}, "index panic before the repair"},
	{"D36-errors-with-partial-data", FedInput{Spec: FixedFed(), StoreSeed: 5, Query: `{ allUsers { firstName lastName } }`, Faults: []FaultSpec{{Service: "A", MatchID: "root", Kind: "gqlerrors+data"}}}, ""},
	{"D59-node-parent-empty-payload", FedInput{Spec: FixedFed(), StoreSeed: 5, Query: `query($a: ID!) { node(id: $a) { id ... on User { lastName } } }`, Vars: map[string]interface{}{"a": "u1"}, Faults: []FaultSpec{{Service: "B", MatchID: "u1", Kind: "empty"}}}, "an answer without the node key under a Node parent was swallowed by the first version of the D25 repair"},
	{"KF-join-id-missing", FedInput{Spec: FixedFed(), StoreSeed: 5, Query: `{ allUsers { firstName lastName } }`, Faults: []FaultSpec{{Service: "A", MatchID: "root", Kind: "join-drop-id", Path: []string{"allUsers"}}}}, "KF"},
	{"join-list-for-object", FedInput{Spec: FixedFed(), StoreSeed: 5, Query: `{ me { firstName lastName } }`, Faults: []FaultSpec{{Service: "A", MatchID: "root", Kind: "join-retype", Path: []string{"me"}}}}, "the join object arrives wrapped in a list, without id: reported, and Execute returns"},
	{"join-object-for-list", FedInput{Spec: FixedFed(), StoreSeed: 5, Query: `{ allUsers { id firstName lastName } }`, Faults: []FaultSpec{{Service: "A", MatchID: "root", Kind: "join-retype", Path: []string{"allUsers"}}}}, "an object where the list of join objects belongs"},
	{"join-scalar-entry", FedInput{Spec: FixedFed(), StoreSeed: 5, Query: `{ allUsers { id firstName lastName } }`, Faults: []FaultSpec{{Service: "A", MatchID: "root", Kind: "join-scalar", Path: []string{"allUsers"}}}}, "a scalar entry in the list of join objects"},
	{"KF-root-wrong-shape", FedInput{Spec: FixedFed(), StoreSeed: 5, Query: `{ me { firstName } }`, Faults: []FaultSpec{{Service: "A", MatchID: "root", Kind: "wrong-shape"}}}, "KF"},
	{"KF-root-empty", FedInput{Spec: FixedFed(), StoreSeed: 5, Query: `{ me { firstName } }`, Faults: []FaultSpec{{Service: "A", MatchID: "root", Kind: "empty"}}}, "KF"},
}

func shapeFaultAtRoot(fs []FaultSpec) bool {
	for _, f := range fs {
		if f.MatchID == "root" && (f.Kind == "wrong-shape" || f.Kind == "empty" || f.Kind == "node-null") {
			return true
		}
	}
	return false
}

func (c07) Run(c *Ctx, i int) CaseResult {
	r := c.Rand(i + 7000000)
	var in FedInput
	corpus := i < len(c07Corpus)
	if corpus {
		in = c07Corpus[i].In
	} else if r.Intn(4) == 0 {
		// two nested lists fetched by one step (the outer one with a null element), joined from another service
		in = FedInput{Spec: FixedFed2(), Query: []string{`{ allPhotos { likedBy { nick } } }`, `{ allPhotos { url likedBy { firstName lastName } } }`,
			`{ allUsers { friends { photos { url } } } allPhotos { likedBy { nick } } }`, `{ allPhotos { likedBy { friends { nick } } } }`}[r.Intn(4)]}
		in.StoreSeed = r.Int63n(1 << 20)
	} else if r.Intn(3) != 0 {
		in = fixedIn(c07Queries[r.Intn(len(c07Queries))])
		in.StoreSeed = r.Int63n(1 << 20)
	} else {
		in, _ = GenFedInput(c, i+7000000, "C07")
		in.OddIDs = false
	}
	res := CaseResult{ID: fmt.Sprintf("gen:%d", i)}
	if corpus {
		res.ID = "corpus:" + c07Corpus[i].ID
	}
	if !corpus && i%6 == 4 {
		// failures that travel as JSON: a gateway in its default configuration (the client library's network queryers over
		// an in-process transport), a service answering some join ids with an "errors" member; the errors the gateway
		// reports must be the ones it reports over in-process queryers
		ids := []string{"u1", "u2", "u3"}
		var faults []FaultSpec
		for n := 1 + r.Intn(2); n > 0; n-- {
			faults = append(faults, FaultSpec{Service: []string{"B", "C"}[r.Intn(2)], MatchID: ids[r.Intn(len(ids))], Kind: []string{"gqlerrors", "gqlerrors+data", "blank-error", "gqlerrors+empty"}[r.Intn(4)]})
		}
		tc := NetTwinCase{Query: []string{`{ allUsers { firstName lastName nick } }`, `{ me { firstName nick photos { likes } } allUsers { lastName } }`, `{ allUsers { nick photos { url likes } } }`}[r.Intn(3)],
			StoreSeed: 5, ListLen: []int{0, 6}[r.Intn(2)], Faults: faults}
		if nf := RunNetTwin(tc); len(nf) > 0 {
			res.Nontrivial = true
			res.Fails = nf
			return res
		}
	}
	corpusFaults := in.Faults
	in.Faults = nil
	// fault-free reference run: lists the calls
	capx := &CapExec{Inner: &gateway.ParallelExecutor{}}
	ref, err := RunFed(c, in, 5*time.Second, gateway.WithExecutor(capx))
	if err != nil {
		res.Fails = append(res.Fails, Failure{Channel: "harness", Classifier: "harness-error", What: err.Error(), Input: in})
		return res
	}
	if ref.Invalid != "" {
		res.Skipped = "invalid-query:" + ref.Invalid
		return res
	}
	if reg := InKnownRegion(ref.Classes); reg != "" {
		res.Skipped = "known-region:" + reg
		return res
	}
	if ok, _ := ref.Status(); !ok {
		if ref.Out.Err != nil && !ref.Out.PlanErr && !ref.Out.Hung && ref.Out.Panicked == nil {
			// nothing was injected, every call was answered normally, and yet errors are reported
			res.Nontrivial = true
			res.Fails = append(res.Fails, Failure{Channel: "L0.errors", Classifier: "unclassified", What: "no failure occurred but errors are reported: " + firstLine(ref.Out.Err.Error()), Input: in, Expected: ref.Want,
				Observed: map[string]interface{}{"data": ref.Out.Data, "error": ErrString(ref.Out.Err), "plan": PlanText(ref.Out.Plans)}})
			return res
		}
		res.Skipped = "reference-run-not-ok" // C01's subject
		return res
	}
	calls := listCalls(ref.Fed)
	if len(calls) == 0 {
		res.Skipped = "no-service-call"
		return res
	}
	// choose the assignment: i mod … enumerates singles and pairs first, then random subsets
	var faults []FaultSpec
	mode := i % 5
	pick := func() callKey { return calls[r.Intn(len(calls))] }
	joinMode := false
	switch mode {
	case 4: // an otherwise correct answer, malformed exactly where a dependent step joins
		if js := joinSites(ref.Fed, ref.Out.Plans); len(js) > 0 {
			j := js[r.Intn(len(js))]
			faults = []FaultSpec{{Service: j.svc, MatchID: j.id, Kind: []string{"join-retype", "join-scalar", "join-null+error", "join-null-element+error"}[(i/5)%4], Path: j.path}}
			joinMode = true
		}
	case 0: // one call, one kind (cycled)
		k := pick()
		faults = []FaultSpec{{Service: k.svc, MatchID: k.id, Kind: faultKinds[(i/4)%len(faultKinds)]}}
	case 1: // two calls
		a, b := pick(), pick()
		faults = []FaultSpec{{Service: a.svc, MatchID: a.id, Kind: faultKinds[r.Intn(len(faultKinds))]}, {Service: b.svc, MatchID: b.id, Kind: faultKinds[r.Intn(len(faultKinds))]}}
	case 2: // random subset; half of the time all of one kind (several calls failing in the very same way)
		oneKind := ""
		if r.Intn(2) == 0 {
			oneKind = faultKinds[r.Intn(len(faultKinds))]
		}
		for _, k := range calls {
			if r.Intn(3) == 0 {
				kind := oneKind
				if kind == "" {
					kind = faultKinds[r.Intn(len(faultKinds))]
				}
				faults = append(faults, FaultSpec{Service: k.svc, MatchID: k.id, Kind: kind})
			}
		}
	case 3: // none: the control
	}
	if corpus {
		faults = corpusFaults
	}
	// one spec per (service, id)
	seen := map[callKey]bool{}
	var uniq []FaultSpec
	for _, f := range faults {
		k := callKey{f.Service, f.MatchID}
		if !seen[k] {
			seen[k] = true
			uniq = append(uniq, f)
		}
	}
	in.Faults = uniq
	if corpus {
		for _, f := range uniq {
			if strings.HasPrefix(f.Kind, "join-") {
				joinMode = true
			}
		}
	}
	class := "unclassified"
	for _, f := range uniq {
		if f.Kind == "join-drop-id" {
			// an object without the join id is skipped, not reported (known finding); only the corpus goes there
			class = "join-id-missing"
		}
	}
	if shapeFaultAtRoot(uniq) {
		// root payloads are not validated against the selection (known finding): the random stream stays out
		class = "malformed-root-payload"
		if !corpus && knownRegions[class] {
			res.Skipped = "known-region:" + class
			return res
		}
	}
	res.Key = fmt.Sprint(in.Spec.SDLs, in.Query, in.StoreSeed, in.Faults)
	// L2: which objects a follow-up is fetched for (and so which failures can occur at all) is decided by
	// executorFindInsertionPoints: 6 generated (selection, reply) cases per case against Fp.findPts
	for k := 0; k < 6; k++ {
		if ff, _ := FindCorr(c, c.Rand(i*100+k+97000000)); len(ff) > 0 {
			res.Fails = append(res.Fails, ff...)
			return res
		}
	}
	// L2: no error the execution reports is hidden by what the response middlewares do (Gateway.Execute's tail against Mw.execute)
	for k := 0; k < 2; k++ {
		if mf := MwExecuteCorr(c, c.Rand(i*100+k+97500000)); len(mf) > 0 {
			res.Fails = append(res.Fails, mf...)
			return res
		}
	}
	rec := &TraceRec{}
	fc, err := RunFed(c, in, 8*time.Second, gateway.WithLogger(TraceLogger{Rec: rec}))
	if err != nil {
		res.Fails = append(res.Fails, Failure{Channel: "harness", Classifier: "harness-error", What: err.Error(), Input: in})
		return res
	}
	res.Nontrivial = len(calls) >= 2 && len(uniq) > 0
	feat := map[string]bool{fmt.Sprintf("faults-%d", len(uniq)): true}
	for _, f := range uniq {
		feat["kind:"+f.Kind] = true
	}
	res.Features = FeatList(feat)
	bad := func(channel, what string, obs interface{}) {
		res.Fails = append(res.Fails, Failure{Channel: channel, Classifier: class, What: what, Input: in, Expected: fc.Want, Observed: obs})
	}
	o := fc.Out
	obs := map[string]interface{}{"data": o.Data, "error": ErrString(o.Err), "plan": PlanText(o.Plans)}
	switch {
	case o.Hung:
		bad("hang", "Execute did not return within 8s", nil)
		return res
	case o.Panicked != nil:
		bad("crash", fmt.Sprintf("panic: %v", o.Panicked), nil)
		return res
	case o.PlanErr:
		res.Skipped = "plan-error"
		return res
	}
	// L2: the executor's data path against the sequential executor model, on this very input
	if xf, note := ExecCorr(c, in); len(xf) > 0 {
		for _, f := range xf {
			f.Classifier = class
			res.Fails = append(res.Fails, f)
		}
	} else if note != "" {
		if res.Counters == nil {
			res.Counters = map[string]int{}
		}
		res.Counters["exec_model_"+note]++
	}
	// L1: whatever the services answered, the observed execution is a run of the executor machine
	tfs, tstatus := TraceFails(c, rec, o, in)
	for _, tf := range tfs {
		tf.Classifier = class
		res.Fails = append(res.Fails, tf)
	}
	if tstatus != "" {
		if res.Counters == nil {
			res.Counters = map[string]int{}
		}
		res.Counters[tstatus]++
	}
	_, injectedErrs, shapes := fc.Injected.Snapshot()
	var msgs []string
	if el, ok := o.Err.(graphql.ErrorList); ok {
		for _, e := range el {
			msgs = append(msgs, e.Error())
		}
	} else if o.Err != nil {
		msgs = append(msgs, o.Err.Error())
	}
	count := func(sub string) int {
		n := 0
		for _, m := range msgs {
			if strings.Contains(m, sub) {
				n++
			}
		}
		return n
	}
	if injectedErrs == 0 && shapes == 0 && o.Err != nil {
		bad("L0.errors", "no failure was injected but errors are reported: "+firstLine(o.Err.Error()), obs)
	}
	// every injected error must be there
	wantMsgs := map[string]int{}
	for _, f := range uniq {
		// how many calls matched this spec: count from the service log
		n := 0
		for _, cl := range fc.Fed.ByURL[f.Service].Calls() {
			idv, has := cl.Variables["id"]
			if (f.MatchID == "root" && !has) || (has && fmt.Sprint(idv) == f.MatchID) {
				n++
			}
		}
		switch f.Kind {
		case "transport":
			wantMsgs["injected transport failure"] += n
		case "gqlerrors":
			wantMsgs["injected-1"] += n
			wantMsgs["injected-2"] += n
		case "gqlerrors+data":
			wantMsgs["injected-with-data"] += n
		case "gqlerrors+null":
			wantMsgs["injected-with-null"] += n
		case "timeout":
			wantMsgs["did not answer in time"] += n
		case "gqlerrors+empty":
			wantMsgs["injected-with-empty-data"] += n
		case "join-null+error", "join-null-element+error":
			// only the calls in which the join position held something were answered that way
			fc.Injected.mu.Lock()
			wantMsgs["injected-at-join"] = fc.Injected.AtJoin
			fc.Injected.mu.Unlock()
		}
	}
	if len(msgs) < injectedErrs {
		bad("L0.errors", fmt.Sprintf("%d errors were injected (whatever their text) and %d are reported", injectedErrs, len(msgs)), obs)
	}
	for m, n := range wantMsgs {
		if got := count(m); got != n {
			bad("L0.errors", fmt.Sprintf("error %q was injected %d times and is reported %d times", m, n, got), obs)
		}
	}
	if o.Err != nil && !o.Hung && len(res.Fails) == 0 {
		// reported faithfully to the client too: the HTTP response of the same request carries every error with its message
		if hf := HTTPErrorsFail(in, fc.Store, errMultiset(o.Err)); hf != nil {
			hf.Classifier = class
			res.Fails = append(res.Fails, *hf)
		}
	}
	// a follow-up of the gateway's own `node` field (parent type Node, or narrowed by a fragment on a concrete type) asks a service that need not own the id: `node:
	// null` without an error is a legitimate answer there, and the code accepts it as one (ExecSeq.stripped, nodeParent)
	nullAtNodeField := false
	for _, f := range uniq {
		if f.Kind == "node-null" && o.Plans != nil {
			var walk func(steps []*gateway.QueryPlanStep, parentIsGateway bool)
			walk = func(steps []*gateway.QueryPlanStep, parentIsGateway bool) {
				for _, st := range steps {
					if (st.ParentType == "Node" || parentIsGateway) && StepURL(st) == f.Service {
						nullAtNodeField = true
					}
					walk(st.Then, StepURL(st) == "GW")
				}
			}
			walk(o.Plans[0].RootStep.Then, false)
		}
	}
	if shapes > 0 && injectedErrs == 0 && o.Err == nil && !nullAtNodeField {
		bad("L0.errors", fmt.Sprintf("%d calls were answered with a null or malformed payload and no error is reported", shapes), obs)
	}
	if joinMode {
		// everything the malformed call delivered lies at or beneath the failed call: only the report is checked
		return res
	}
	// data: nothing wrong, and normally answered calls are intact
	if d := subvalue(interface{}(o.Data), normalise(fc.Want), ""); d != "" {
		bad("L0.data", "returned data disagrees with the monolith at "+d, obs)
	}
	if len(res.Fails) == 0 && o.Data != nil && o.Plans != nil {
		if d := intactCheck(fc, o.Plans[0], uniq); d != "" {
			bad("L0.intact", d, obs)
		}
	}
	if i%113 == 0 {
		res.Sample = map[string]interface{}{"query": in.Query, "calls": len(calls), "faults": uniq, "errors": msgs}
	}
	return res
}

// intactCheck: a call that was answered normally and actually happened must have its top-level fields in
// the returned data at every object (with its join id) it was inserted into.
func intactCheck(fc *FedCase, plan *gateway.QueryPlan, faults []FaultSpec) string {
	faulty := map[callKey]bool{}
	for _, f := range faults {
		faulty[callKey{f.Service, f.MatchID}] = true
	}
	want := normalise(fc.Want)
	var walk func(steps []*gateway.QueryPlanStep) string
	walk = func(steps []*gateway.QueryPlanStep) string {
		for _, s := range steps {
			if len(s.InsertionPoint) > 0 && StepURL(s) != "GW" {
				for _, call := range fc.Fed.ByURL[StepURL(s)].Calls() {
					if call.Query != s.QueryString {
						continue
					}
					idv := fmt.Sprint(call.Variables["id"])
					if faulty[callKey{StepURL(s), idv}] {
						continue
					}
					// the monolith's objects at this path that carry what this call fetched
					wobjs := objectsAt(want, s.InsertionPoint)
					gobjs := objectsAt(interface{}(fc.Out.Data), s.InsertionPoint)
					if len(wobjs) != len(gobjs) {
						continue // an ancestor's data is missing: beneath a failure
					}
					for k, wo := range wobjs {
						// identify the object by position: compare keys the step fetches
						for _, key := range stepKeys(s) {
							wv, ok := wo[key]
							if !ok {
								continue
							}
							gv, ok := gobjs[k][key]
							if !ok && objectHasID(fc, s, k, idv) {
								return fmt.Sprintf("call to %s for id %s was answered normally but %q is missing at %v[%d]", StepURL(s), idv, key, s.InsertionPoint, k)
							}
							_ = gv
							_ = wv
						}
					}
				}
			}
			if d := walk(s.Then); d != "" {
				return d
			}
		}
		return ""
	}
	return walk(plan.RootStep.Then)
}

// objectHasID: the k-th object at the step's path is the one with the given id (looked up in the store via mono data
// is not possible after scrubbing, so use the fault-free structure: ids come from the raw store order)
func objectHasID(fc *FedCase, s *gateway.QueryPlanStep, k int, id string) bool {
	// re-evaluate the monolith with `id` requested at the path is overkill; use the reference interpreter's
	// knowledge of the store: walk the store along the path
	ids := idsAt(fc, s.InsertionPoint)
	return k < len(ids) && ids[k] == id
}

// idsAt walks the data graph along response keys of the client's operation and returns object ids in order.
func idsAt(fc *FedCase, path []string) []string {
	type node struct {
		ref Ref
	}
	cur := []Ref{{rootTypeOf(fc.Op), ""}}
	sels := fc.Op.SelectionSet
	for _, p := range path {
		f := findField(fc, sels, p, map[string]bool{})
		if f == nil {
			return nil
		}
		var next []Ref
		for _, r := range cur {
			var raw interface{}
			if rec, ok := fc.Store[r.Type][r.ID]; ok {
				raw = rec[f.Name]
			}
			var add func(v interface{})
			add = func(v interface{}) {
				switch x := v.(type) {
				case Ref:
					next = append(next, x)
				case []interface{}:
					for _, e := range x {
						add(e)
					}
				}
			}
			add(raw)
		}
		cur = next
		sels = f.SelectionSet
	}
	var ids []string
	for _, r := range cur {
		ids = append(ids, r.ID)
	}
	return ids
}

func stepKeys(s *gateway.QueryPlanStep) []string {
	var out []string
	for _, k := range flatKeysSS(s) {
		if k != "id" {
			out = append(out, k)
		}
	}
	return out
}
