package hx

import (
	"context"
	"fmt"
	"github.com/vektah/gqlparser/v2/ast"
	"math/rand"
	"runtime"
	"strings"
	"sync/atomic"
	"time"

	"github.com/nautilus/gateway"
	"github.com/nautilus/graphql"
)

// ---------------------------------------------------------------------------------------------
// C06 — execution always terminates, after all its work, leaving nothing behind
//   watchdog + quiescence at return + goroutine census + response stability, under simultaneous failures
// ---------------------------------------------------------------------------------------------

type c06 struct{}

var c06Corpus = []corpusCase{
	{"D23-12-simultaneous-failures", FedInput{Spec: FixedFed(), StoreSeed: 5, Query: `{ allUsers { firstName lastName } }`, ListLen: 12, Barrier: 12,
		Faults: []FaultSpec{{Service: "B", From: 0, Count: 12, Kind: "transport"}}}, "collector blocks on its own error channel"},
	{"D23-120-simultaneous-failures", FedInput{Spec: FixedFed(), StoreSeed: 5, Query: `{ allUsers { firstName lastName } }`, ListLen: 120, Barrier: 120,
		Faults: []FaultSpec{{Service: "B", From: 0, Count: 120, Kind: "gqlerrors"}}}, ""},
	{"fanout-300-no-failure", FedInput{Spec: FixedFed(), StoreSeed: 5, Query: `{ allUsers { firstName lastName nick } }`, ListLen: 300}, ""},
	{"malformed-join-list-for-object", FedInput{Spec: FixedFed(), StoreSeed: 5, Query: `{ me { firstName lastName } }`, Faults: []FaultSpec{{Service: "A", MatchID: "root", Kind: "join-retype", Path: []string{"me"}}}}, "a failing call of the malformed kind: Execute must still return"},
	{"malformed-join-object-for-list", FedInput{Spec: FixedFed(), StoreSeed: 5, Query: `{ allUsers { firstName lastName } }`, ListLen: 12, Faults: []FaultSpec{{Service: "A", MatchID: "root", Kind: "join-retype", Path: []string{"allUsers"}}}}, ""},
	{"malformed-join-scalar-entry", FedInput{Spec: FixedFed(), StoreSeed: 5, Query: `{ allUsers { firstName lastName } }`, ListLen: 12, Faults: []FaultSpec{{Service: "A", MatchID: "root", Kind: "join-scalar", Path: []string{"allUsers"}}}}, ""},
	{"malformed-join-no-id", FedInput{Spec: FixedFed(), StoreSeed: 5, Query: `{ allUsers { firstName lastName } }`, ListLen: 12, Faults: []FaultSpec{{Service: "A", MatchID: "root", Kind: "join-drop-id", Path: []string{"allUsers"}}}}, ""},
	{"malformed-root-wrong-shape", FedInput{Spec: FixedFed(), StoreSeed: 5, Query: `{ allUsers { firstName lastName } }`, Faults: []FaultSpec{{Service: "A", MatchID: "root", Kind: "wrong-shape"}}}, ""},
	{"nested-follow-ups-under-list-40", FedInput{Spec: FixedFed(), StoreSeed: 5, Query: `{ allUsers { photos { likes likedBy { firstName } } } }`, ListLen: 40, ListOnly: []string{"u1", "u3"}, Barrier: 31}, "three plan levels: follow-ups of follow-ups under a long list (any limit on simultaneous steps must not be held while waiting for children)"},
	{"nested-follow-ups-under-list-150", FedInput{Spec: FixedFed(), StoreSeed: 5, Query: `{ allUsers { lastName photos { url likes owner { nick } } } }`, ListLen: 150, Barrier: 30}, ""},
	{"cancelled-during-root-call", FedInput{Spec: FixedFed(), StoreSeed: 5, Query: `{ allUsers { firstName lastName } }`, ListLen: 12, CancelAtCall: 1}, "the request context ends while the first call is under way: no call may outlive Execute"},
	{"cancelled-during-follow-up", FedInput{Spec: FixedFed(), StoreSeed: 5, Query: `{ allUsers { firstName lastName photos { likes } } }`, ListLen: 25, CancelAtCall: 3}, ""},
	{"nested-follow-ups-under-list-failing", FedInput{Spec: FixedFed(), StoreSeed: 5, Query: `{ allUsers { photos { likes } } }`, ListLen: 64, Barrier: 32,
		Faults: []FaultSpec{{Service: "C", From: 3, Count: 40, Kind: "transport"}}}, ""},
	{"root-failure", FedInput{Spec: FixedFed(), StoreSeed: 5, Query: `{ allUsers { firstName lastName } }`, Faults: []FaultSpec{{Service: "A", From: 0, Count: 1, Kind: "transport"}}}, ""},
}

func (c06) Cases(tier string) int {
	switch tier {
	case "thorough":
		return len(c06Corpus) + 1500
	case "search":
		return len(c06Corpus) + 400
	}
	return len(c06Corpus) + 160
}

func (c06) Rule() string {
	return "corpus (12/120 simultaneous failing dependent calls, fan-out 300), every twelfth case a request through three query fields of the gateway's own with one resolver failing while the others are at work (no resolver may outlive Execute), then random federations x random queries x list fan-out 0-300 x fault assignments (0..all dependent calls failing with transport errors / error lists, released together through a barrier; a quarter of the cases under a request context that is cancelled while the n-th service call is under way; a root call answering with a malformed payload: wrong shape, empty, or an otherwise correct answer malformed at the position a dependent step joins); checked: Execute returns under a 20 s watchdog, no service call is in flight at return, the goroutine count settles back, the response does not change after return, the error list has one entry per injected error; non-trivial = at least 3 service calls; distinct = distinct (federation, query, fan-out, fault spec); 6 generated insertion sequences per case through executorInsertObject under a 3 s deadline (L0.returns: stitching never blocks, whatever is already at the place)"
}

// Run repeats a case: whether the collector's `select` picks the result or the error queue is a coin flip
// the harness cannot steer, so each fault case is tried several times.
func (r6 c06) Run(c *Ctx, i int) CaseResult {
	reps := 4
	if i < len(c06Corpus) {
		reps = 40
	} else if c.Tier == "thorough" || c.Tier == "search" {
		reps = 12
	}
	var res CaseResult
	traceStats := map[string]int{}
	defer func() {
		if res.Counters != nil {
			for k, v := range traceStats {
				res.Counters[k] = v
			}
		}
	}()
	// stitching a step's answer into the response comes back whatever is already there (another step's part of the
	// same object, a list of such parts): 6 generated insertion sequences per case
	for k := 0; k < 6; k++ {
		if f := InsertReturns(c, c.Rand(i*10+k+67000000)); len(f) > 0 {
			res = CaseResult{ID: fmt.Sprintf("gen:%d", i), Key: fmt.Sprint("insert", i), Nontrivial: true, Fails: f}
			return res
		}
	}
	for k := 0; k < reps; k++ {
		res = r6.once(c, i, k)
		for key, v := range res.Counters {
			if strings.HasPrefix(key, "trace_") {
				traceStats[key] += v
			}
		}
		if len(res.Fails) > 0 || res.Skipped != "" {
			if len(res.Fails) > 0 {
				res.Fails[0].What += fmt.Sprintf(" (repetition %d of %d)", k+1, reps)
			}
			return res
		}
	}
	if res.Counters != nil {
		res.Counters["repetitions"] = reps
	}
	return res
}

// gatewayFields: a request through query fields of the gateway's own (WithQueryFields), one resolver failing while
// another is still at work: when Execute returns no resolver of that request may still be running, and nothing is left
func gatewayFields(c *Ctx, i int) CaseResult {
	r := c.Rand(i + 7000000)
	res := CaseResult{ID: fmt.Sprintf("gen:%d", i), Features: []string{"gateway-query-fields"}, Nontrivial: true}
	var running, maxRunning, started int64
	slow := time.Duration(1+r.Intn(4)) * time.Millisecond
	failing := r.Intn(3) // which of the three resolvers fails (2: none)
	mk := func(k int, id string) *gateway.QueryField {
		return &gateway.QueryField{Name: []string{"session", "viewer", "current"}[k], Type: ast.NamedType("User", nil),
			Resolver: func(ctx context.Context, args map[string]interface{}) (string, error) {
				atomic.AddInt64(&started, 1)
				v := atomic.AddInt64(&running, 1)
				if v > atomic.LoadInt64(&maxRunning) {
					atomic.StoreInt64(&maxRunning, v)
				}
				defer atomic.AddInt64(&running, -1)
				if k == failing {
					return "", fmt.Errorf("resolver %d failed", k)
				}
				time.Sleep(slow)
				return id, nil
			}}
	}
	fields := []*gateway.QueryField{mk(0, "u1"), mk(1, "u2"), mk(2, "u3")}
	r.Shuffle(len(fields), func(a, b int) { fields[a], fields[b] = fields[b], fields[a] })
	query := []string{`{ session { firstName } viewer { firstName } current { id } }`, `{ viewer { lastName } session { id } }`,
		`{ current { firstName lastName } session { nick } viewer { id } me { firstName } }`}[r.Intn(3)]
	res.Key = fmt.Sprint(query, failing, slow)
	in := map[string]interface{}{"query": query, "failing_resolver": failing, "slow_ms": slow.Milliseconds()}
	before := runtime.NumGoroutine()
	f, err := NewFed(FixedFed(), GenStore(rand.New(rand.NewSource(5)), false), gateway.WithQueryFields(fields...))
	if err != nil {
		res.Fails = append(res.Fails, Failure{Channel: "harness", Classifier: "harness-error", What: err.Error(), Input: in})
		return res
	}
	o := f.Run(query, "", nil, 20*time.Second)
	atReturn := atomic.LoadInt64(&running)
	fail := func(channel, what string) {
		res.Fails = append(res.Fails, Failure{Channel: channel, Classifier: "unclassified", What: what, Input: in,
			Observed: map[string]interface{}{"data": o.Data, "error": ErrString(o.Err), "resolvers_started": atomic.LoadInt64(&started)}})
	}
	switch {
	case o.Hung:
		fail("hang", "Execute did not return within 20s")
		return res
	case o.Panicked != nil:
		fail("crash", fmt.Sprintf("panic: %v", o.Panicked))
		return res
	case o.PlanErr:
		res.Skipped = "plan-error"
		return res
	}
	if atReturn != 0 {
		fail("L0.quiescence", fmt.Sprintf("Execute returned while %d resolvers of the gateway's own query fields were still running", atReturn))
	}
	deadline := time.Now().Add(3 * time.Second) // generous: the machine may be busy
	for runtime.NumGoroutine() > before && time.Now().Before(deadline) {
		time.Sleep(2 * time.Millisecond)
	}
	if g := runtime.NumGoroutine(); g > before {
		fail("L0.leak", fmt.Sprintf("%d goroutines before the request, %d a second after Execute returned", before, g))
	}
	res.Counters = map[string]int{"service_calls": f.TotalCalls(), "max_in_flight": int(atomic.LoadInt64(&maxRunning))}
	return res
}

func (c06) once(c *Ctx, i int, rep int) CaseResult {
	if i >= len(c06Corpus) && i%12 == 7 {
		return gatewayFields(c, i)
	}
	var in FedInput
	id := ""
	feats := map[string]bool{}
	if i < len(c06Corpus) {
		in, id = c06Corpus[i].In, "corpus:"+c06Corpus[i].ID
	} else {
		r := c.Rand(i)
		in, feats = GenFedInput(c, i, "C06")
		// queries without directives on composites etc. are irrelevant here; what matters is fan-out and faults
		fixedQ := -1
		if r.Intn(2) == 0 {
			in.Spec = FixedFed()
			fixedQ = r.Intn(4)
			in.Query = []string{`{ allUsers { firstName lastName } }`, `{ allUsers { firstName lastName nick photos { url likes } } }`,
				`{ allUsers { friends { lastName nick } } }`, `{ allPhotos { url likes owner { firstName nick } } }`}[fixedQ]
			in.Vars = nil
		}
		in.OddIDs = false
		in.ListLen = []int{0, 1, 2, 9, 10, 11, 12, 25, 60, 150, 300}[r.Intn(11)]
		nf := []int{0, 1, 5, 10, 11, 12, 30, 100, 300}[r.Intn(9)]
		if nf > 0 {
			kind := []string{"transport", "gqlerrors", "empty-errors"}[r.Intn(3)]
			svc := in.Spec.Order[r.Intn(len(in.Spec.Order))]
			in.Faults = []FaultSpec{{Service: svc, From: r.Intn(2), Count: nf, Kind: kind}}
			if r.Intn(2) == 0 {
				in.Barrier = nf
			}
			feats[fmt.Sprintf("faults-%d", nf)] = true
		}
		if fixedQ >= 0 && r.Intn(4) == 0 {
			// a call that fails by answering with a malformed payload (at a join position, or as a whole)
			site := [][2]interface{}{{"A", []string{"allUsers"}}, {"A", []string{"allUsers"}}, {"A", []string{"allUsers", "friends"}}, {"B", []string{"allPhotos", "owner"}}}[fixedQ]
			kind := []string{"join-retype", "join-scalar", "join-drop-id", "wrong-shape", "empty"}[r.Intn(5)]
			in.Faults = append(in.Faults, FaultSpec{Service: site[0].(string), MatchID: "root", Kind: kind, Path: site[1].([]string)})
			feats["malformed:"+kind] = true
		}
		if r.Intn(4) == 0 {
			// the client goes away while calls are under way: Execute may give up, but not before its calls are over
			in.CancelAtCall = 1 + r.Intn(4)
			feats["cancelled-mid-flight"] = true
		}
		feats[fmt.Sprintf("fanout-%d", in.ListLen)] = true
		id = fmt.Sprintf("gen:%d", i)
	}
	res := CaseResult{ID: id, Key: fmt.Sprint(in.Spec.SDLs, in.Query, in.ListLen, in.Faults, in.Barrier, in.CancelAtCall)}
	before := runtime.NumGoroutine()
	var rec *TraceRec
	var opts []gateway.Option
	if rep%8 == 0 {
		// the first of every eight repetitions is also recorded and replayed on the executor machine
		rec = &TraceRec{}
		opts = append(opts, gateway.WithLogger(TraceLogger{Rec: rec}))
	}
	fc, err := RunFed(c, in, 20*time.Second, opts...)
	if err != nil {
		res.Fails = append(res.Fails, Failure{Channel: "harness", Classifier: "harness-error", What: err.Error(), Input: in})
		return res
	}
	if fc.Invalid != "" {
		res.Skipped = "invalid-query:" + fc.Invalid
		return res
	}
	if i >= len(c06Corpus) {
		if reg := InKnownRegion(fc.Classes); reg != "" {
			res.Skipped = "known-region:" + reg
			return res
		}
	}
	res.Features = FeatList(feats)
	calls := fc.Fed.TotalCalls()
	res.Nontrivial = calls >= 3
	res.Counters = map[string]int{"service_calls": calls, "max_in_flight": int(atomic.LoadInt64(&fc.Injected.MaxInFlight))}
	fail := func(channel, what string, obs interface{}) {
		res.Fails = append(res.Fails, Failure{Channel: channel, Classifier: "unclassified", What: what, Input: in, Observed: obs})
	}
	o := fc.Out
	if o.PlanHung {
		res.Skipped = "plan-hung" // planning is C08's subject
		return res
	}
	if o.Hung {
		fail("hang", fmt.Sprintf("Execute did not return within 20s (%d service calls made, %d still in flight)", calls, atomic.LoadInt64(&fc.Injected.InFlight)), nil)
		return res
	}
	if o.Panicked != nil {
		fail("crash", fmt.Sprintf("panic: %v", o.Panicked), nil)
		return res
	}
	if o.PlanErr {
		// planning failures belong to C08/C01
		res.Skipped = "plan-error"
		return res
	}
	// L1: the observed execution is a run of the executor machine (whose runs all terminate, Props.C06)
	tf, tstatus := TraceFails(c, rec, o, in)
	res.Fails = append(res.Fails, tf...)
	if tstatus != "" {
		res.Counters[tstatus]++
	}
	// quiescence at return
	if n := atomic.LoadInt64(&fc.Injected.InFlight); n != 0 {
		fail("L0.quiescence", fmt.Sprintf("Execute returned while %d service calls were still running", n), nil)
	}
	snap := Canon(o.Data)
	// error accounting
	_, injectedErrs, _ := fc.Injected.Snapshot()
	got := 0
	if el, ok := o.Err.(graphql.ErrorList); ok {
		got = len(el)
	} else if o.Err != nil {
		got = 1
	}
	if injectedErrs > 0 && got == 0 {
		fail("L0.errors", fmt.Sprintf("%d errors were injected, none reported", injectedErrs), nil)
	}
	// settle: goroutines of this request must be gone, response must not change
	deadline := time.Now().Add(2 * time.Second)
	for runtime.NumGoroutine() > before && time.Now().Before(deadline) {
		time.Sleep(5 * time.Millisecond)
	}
	if g := runtime.NumGoroutine(); g > before {
		fail("L0.leak", fmt.Sprintf("%d goroutines before the request, %d two seconds after it returned", before, g), nil)
	}
	if Canon(o.Data) != snap {
		fail("L0.stability", "the response changed after Execute returned", nil)
	}
	if i%41 == 0 || i < len(c06Corpus) {
		res.Sample = map[string]interface{}{"query": in.Query, "fanout": in.ListLen, "faults": in.Faults, "barrier": in.Barrier, "calls": calls, "errors_reported": got, "errors_injected": injectedErrs}
	}
	return res
}

func init() { Runners["C06"] = c06{} }
