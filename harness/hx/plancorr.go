package hx

import (
	"fmt"
	"sort"
	"strings"

	"github.com/nautilus/gateway"
	"github.com/nautilus/graphql"
	"github.com/vektah/gqlparser/v2/ast"
)

// L1.plan: the real QueryPlanList against the Lean planner model (lean/GwModel/Plan.lean) evaluated on the routing
// table the gateway planned with. Compared per step: location, parent type, insertion point, selection set, fragment
// definitions left behind, variable set, the built operation (kind, name, variable definitions, selection set) and,
// recursively and as a multiset, the dependent steps.

func planArgs(args ast.ArgumentList) string {
	var parts []string
	for _, a := range args {
		parts = append(parts, a.Name+": "+a.Value.String())
	}
	if len(parts) == 0 {
		return ""
	}
	return "(" + strings.Join(parts, ", ") + ")"
}

func planDirs(ds ast.DirectiveList, withVars bool) []interface{} {
	out := []interface{}{}
	for _, d := range ds {
		m := map[string]interface{}{"name": d.Name, "args": planArgs(d.Arguments)}
		if withVars {
			m["vars"] = strs(graphql.ExtractVariables(d.Arguments))
		}
		out = append(out, m)
	}
	return out
}

func strs(l []string) []interface{} {
	out := []interface{}{}
	for _, s := range l {
		out = append(out, s)
	}
	return out
}

// planSels serialises a selection set for the planner model. withMeta adds what only the model's input needs
// (variables used, the named type a field's own selection lives under).
func planSels(ss ast.SelectionSet, withMeta bool) []interface{} {
	out := []interface{}{}
	for _, s := range ss {
		switch s := s.(type) {
		case *ast.Field:
			alias := s.Alias
			if alias == "" {
				alias = s.Name
			}
			m := map[string]interface{}{"kind": "field", "alias": alias, "name": s.Name, "args": planArgs(s.Arguments),
				"dirs": planDirs(s.Directives, withMeta), "sub": planSels(s.SelectionSet, withMeta)}
			if withMeta {
				m["argVars"] = strs(graphql.ExtractVariables(s.Arguments))
				typ := ""
				if s.Definition != nil && s.Definition.Type != nil {
					typ = s.Definition.Type.Name()
				}
				m["typ"] = typ
			}
			out = append(out, m)
		case *ast.InlineFragment:
			out = append(out, map[string]interface{}{"kind": "inline", "cond": s.TypeCondition, "dirs": planDirs(s.Directives, withMeta), "sub": planSels(s.SelectionSet, withMeta)})
		case *ast.FragmentSpread:
			out = append(out, map[string]interface{}{"kind": "spread", "name": s.Name, "dirs": planDirs(s.Directives, withMeta)})
		}
	}
	return out
}

func planFrags(fs ast.FragmentDefinitionList, withMeta bool) []interface{} {
	out := []interface{}{}
	for _, f := range fs {
		out = append(out, map[string]interface{}{"name": f.Name, "cond": f.TypeCondition, "dirs": planDirs(f.Directives, withMeta), "sub": planSels(f.SelectionSet, withMeta)})
	}
	return out
}

func docSize(ss ast.SelectionSet) int {
	n := 0
	for _, s := range ss {
		n++
		switch s := s.(type) {
		case *ast.Field:
			n += docSize(s.SelectionSet)
		case *ast.InlineFragment:
			n += docSize(s.SelectionSet)
		}
	}
	return n
}

// PlanModelReq builds the request for the driver's "plan" operation from a parsed document and a routing table.
func PlanModelReq(doc *ast.QueryDocument, locations gateway.FieldURLMap, configured []string, internal string) map[string]interface{} {
	routes := map[string]interface{}{}
	for k, v := range locations {
		routes[k] = strs(v)
	}
	ops := []interface{}{}
	size := 8
	for _, op := range doc.Operations {
		kind := "query"
		switch op.Operation {
		case ast.Mutation:
			kind = "mutation"
		case ast.Subscription:
			kind = "subscription"
		}
		ops = append(ops, map[string]interface{}{"name": op.Name, "operation": kind, "sels": planSels(op.SelectionSet, true)})
		size += docSize(op.SelectionSet)
	}
	for _, f := range doc.Fragments {
		size += docSize(f.SelectionSet) + 1
	}
	if configured == nil {
		configured = []string{}
	}
	// every call of extractSelection consumes one unit of fuel along a path; paths are no longer than the number of
	// selections in the document times the fragment nesting, generously bounded here
	return map[string]interface{}{"op": "plan", "routes": routes, "configured": strs(configured), "internal": internal,
		"frags": planFrags(doc.Fragments, true), "ops": ops, "fuel": size*4 + 64}
}

func serRealStep(s *gateway.QueryPlanStep, internal string, root bool) map[string]interface{} {
	loc := StepURL(s)
	if loc == "GW" {
		loc = internal
	}
	if root {
		loc = ""
	}
	vars := []string{}
	for v := range s.Variables {
		vars = append(vars, v)
	}
	sort.Strings(vars)
	doc := map[string]interface{}{}
	if s.QueryDocument != nil && len(s.QueryDocument.Operations) == 1 {
		op := s.QueryDocument.Operations[0]
		dv := []string{}
		for _, d := range op.VariableDefinitions {
			if d == nil {
				dv = append(dv, "<nil>")
			} else {
				dv = append(dv, d.Variable)
			}
		}
		sort.Strings(dv)
		doc = map[string]interface{}{"operation": string(op.Operation), "name": op.Name, "vars": strs(dv), "sels": planSels(op.SelectionSet, false)}
	}
	ip := s.InsertionPoint
	if ip == nil {
		ip = []string{}
	}
	then := []interface{}{}
	for _, k := range s.Then {
		then = append(then, serRealStep(k, internal, false))
	}
	return map[string]interface{}{"loc": loc, "parentType": s.ParentType, "ip": strs(ip), "sels": planSels(s.SelectionSet, false),
		"frags": planFrags(s.FragmentDefinitions, false), "vars": strs(vars), "doc": doc, "then": then}
}

// sortThen orders dependent steps canonically (Go builds them in map-iteration order)
func sortThen(v interface{}) interface{} {
	m, ok := v.(map[string]interface{})
	if !ok {
		return v
	}
	if t, ok := m["then"].([]interface{}); ok {
		for i := range t {
			t[i] = sortThen(t[i])
		}
		sort.SliceStable(t, func(a, b int) bool { return Canon(t[a]) < Canon(t[b]) })
	}
	return m
}

// InternalLocation finds the gateway's own location in a routing table (the one that is not a service)
func InternalLocation(locations gateway.FieldURLMap, services []string) string {
	known := map[string]bool{}
	for _, s := range services {
		known[s] = true
	}
	for _, locs := range locations {
		for _, l := range locs {
			if !known[l] {
				return l
			}
		}
	}
	return ""
}

// PlanCorr compares the plans of an executed case with the model. It returns "" when they agree, otherwise a
// description, the model's answer and the implementation's.
func PlanCorr(c *Ctx, fc *FedCase) (what string, model, impl interface{}, err error) {
	if c.Drv == nil || fc.Fed == nil || fc.Doc == nil || fc.Out.Plans == nil {
		return "", nil, nil, nil
	}
	return PlanCorrRaw(c, fc.Doc, fc.Fed.Locations, fc.In.Spec.Priorities, fc.In.Spec.Order, fc.Out.Plans)
}

// PlanCorrRaw is PlanCorr for a parsed document, the routing table and priorities it was planned with, and the plans
func PlanCorrRaw(c *Ctx, doc *ast.QueryDocument, locations gateway.FieldURLMap, priorities, services []string, plans gateway.QueryPlanList) (what string, model, impl interface{}, err error) {
	if c.Drv == nil || doc == nil || plans == nil {
		return "", nil, nil, nil
	}
	internal := InternalLocation(locations, services)
	ans, err := c.Drv.Call(PlanModelReq(doc, locations, priorities, internal))
	if err != nil {
		return "", nil, nil, err
	}
	if e, bad := ans["err"]; bad {
		return fmt.Sprintf("the planner produced plans; the model answers error %v (%v)", e, ans["what"]), ans, PlanText(plans), nil
	}
	mplans, _ := ans["plans"].([]interface{})
	if len(mplans) != len(plans) {
		return fmt.Sprintf("%d plans, the model has %d", len(plans), len(mplans)), ans, PlanText(plans), nil
	}
	for i, pl := range plans {
		if pl.RootStep == nil {
			return "plan without a root step", mplans[i], nil, nil
		}
		real := sortThen(normalise(serRealStep(pl.RootStep, internal, true)))
		mod := sortThen(normalise(mplans[i]))
		if Canon(real) != Canon(mod) {
			name := ""
			if pl.Operation != nil {
				name = pl.Operation.Name
			}
			return fmt.Sprintf("plan %d (operation %q) differs from the planner model: %s", i, name, firstDiff(real, mod, "")), mod, real, nil
		}
	}
	return "", nil, nil, nil
}

// firstDiff names the first place two normalised JSON values differ at
func firstDiff(a, b interface{}, path string) string {
	switch x := a.(type) {
	case map[string]interface{}:
		y, ok := b.(map[string]interface{})
		if !ok {
			return path + ": kinds differ"
		}
		for _, k := range SortedKeys(x) {
			if _, ok := y[k]; !ok {
				return path + "/" + k + ": missing in the model"
			}
			if Canon(x[k]) != Canon(y[k]) {
				return firstDiff(x[k], y[k], path+"/"+k)
			}
		}
		for _, k := range SortedKeys(y) {
			if _, ok := x[k]; !ok {
				return path + "/" + k + ": missing in the implementation"
			}
		}
	case []interface{}:
		y, ok := b.([]interface{})
		if !ok {
			return path + ": kinds differ"
		}
		if len(x) != len(y) {
			return fmt.Sprintf("%s: %d entries, the model has %d", path, len(x), len(y))
		}
		for i := range x {
			if Canon(x[i]) != Canon(y[i]) {
				return firstDiff(x[i], y[i], fmt.Sprintf("%s/%d", path, i))
			}
		}
	default:
		if Canon(a) != Canon(b) {
			return fmt.Sprintf("%s: %v, the model has %v", path, Canon(a), Canon(b))
		}
	}
	return path + ": ?"
}

// PlanCorrFails wraps PlanCorr as the L1.plan channel of a runner
func PlanCorrFails(c *Ctx, fc *FedCase, in FedInput) []Failure {
	what, model, impl, err := PlanCorr(c, fc)
	if err != nil {
		return []Failure{{Channel: "harness", Classifier: "harness-error", What: err.Error(), Input: in}}
	}
	if what == "" {
		return nil
	}
	return []Failure{{Channel: "L1.plan", Classifier: "unclassified", What: what, Input: in, Expected: model,
		Observed: map[string]interface{}{"steps": impl, "plan": PlanText(fc.Out.Plans)}}}
}
