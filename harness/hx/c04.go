package hx

import (
	"fmt"
	"math/rand"
	"sort"
	"strings"
	"time"

	"github.com/nautilus/gateway"
)

// ---------------------------------------------------------------------------------------------
// C04 — exactly the requested keys; join ids never leak or vanish
//   L1: FieldsToScrub of the real plan vs the Lean model of the scrub-path computation
//   L0: key sets of every response object vs the monolith's (equal without errors, subset with errors)
// ---------------------------------------------------------------------------------------------

type c04 struct{}

func (c04) Cases(tier string) int {
	switch tier {
	case "thorough":
		return len(FedCorpus) + 12000
	case "search":
		return len(FedCorpus) + 3000
	}
	return len(FedCorpus) + 1500
}

func (c04) Rule() string {
	return "federated stream biased towards `id` (plain, aliased `x9: id`, absent) at join points; half of the cases inject failures into 1-3 service calls; checked per case: (L1) the plan's FieldsToScrub[\"id\"] equals the Lean model's scrub paths computed from the parsed client operation and the plan's insertion points; (L0) without errors every response object has exactly the monolith's key set at its position, with errors no object has a key the monolith's object lacks; non-trivial = at least one dependent step; distinct = distinct (federation, query, faults); every tenth case a sequence of four requests on a caching gateway (three without a hash, the fourth with the key its text was stored under)"
}

func serPlanSteps(steps []*gateway.QueryPlanStep) []interface{} {
	out := []interface{}{}
	for _, s := range steps {
		ip := s.InsertionPoint
		if ip == nil {
			ip = []string{}
		}
		out = append(out, map[string]interface{}{"ip": ip, "kids": serPlanSteps(s.Then)})
	}
	return out
}

func sortedPaths(ps [][]string) []string {
	var out []string
	for _, p := range ps {
		out = append(out, strings.Join(p, "/"))
	}
	sort.Strings(out)
	return out
}

// keyDiff walks two JSON values in parallel and reports the first object whose key set differs.
func keyDiff(got, want interface{}, path string, allowMissing bool) string {
	return keyDiffMode(got, want, path, allowMissing, false)
}

// keyDiffMode: with loose set (a service was made to answer with a value of the wrong kind at a join point, and the
// gateway may hand that value on as it came) a place where the kinds differ is not looked into; what is compared is
// the keys of every object that stands where the monolith has an object
func keyDiffMode(got, want interface{}, path string, allowMissing, loose bool) string {
	switch g := got.(type) {
	case map[string]interface{}:
		w, ok := want.(map[string]interface{})
		if !ok {
			if (want == nil || loose) && allowMissing {
				return ""
			}
			return fmt.Sprintf("%s: object where the monolith has %T", path, want)
		}
		for k := range g {
			if _, ok := w[k]; !ok {
				return fmt.Sprintf("%s: extra key %q", path, k)
			}
		}
		if !allowMissing {
			for k := range w {
				if _, ok := g[k]; !ok {
					return fmt.Sprintf("%s: missing key %q", path, k)
				}
			}
		}
		for k, v := range g {
			if d := keyDiffMode(v, w[k], path+"/"+k, allowMissing, loose); d != "" {
				return d
			}
		}
	case []interface{}:
		w, ok := want.([]interface{})
		if !ok {
			if allowMissing {
				return ""
			}
			return fmt.Sprintf("%s: list where the monolith has %T", path, want)
		}
		for i := range g {
			if i < len(w) {
				if d := keyDiffMode(g[i], w[i], fmt.Sprintf("%s/%d", path, i), allowMissing, loose); d != "" {
					return d
				}
			}
		}
	}
	return ""
}

func (c04) Run(c *Ctx, i int) CaseResult {
	var in FedInput
	loose := false
	feats := map[string]bool{}
	id := ""
	if i < len(FedCorpus) {
		in, id = FedCorpus[i].In, "corpus:"+FedCorpus[i].ID
	} else {
		r := c.Rand(i + 900000)
		in, feats = GenFedInput(c, i+900000, "C04")
		g := &QGen{R: r, Schema: MonoSchema(), F: QFeat{Inline: true, Untyped: true, Named: r.Intn(2) == 0, Directives: r.Intn(2) == 0, AliasShadow: true,
			Typename: true, IDHeavy: true, RepeatKeys: r.Intn(5) == 0, Depth: 2 + r.Intn(2)}}
		in.Query, in.Vars = g.Query(""), g.Vars
		for k := range g.Feats {
			feats[k] = true
		}
		if r.Intn(4) == 0 {
			// several operations over related paths: every plan's scrub table must come from its own operation
			doc, names, vars := genDoc(c, i)
			in.Query, in.Vars, in.OpName = doc, vars, names[r.Intn(len(names))]
			feats = map[string]bool{"multi-operation": true}
		}
		if r.Intn(2) == 0 {
			n := 1 + r.Intn(3)
			for k := 0; k < n; k++ {
				in.Faults = append(in.Faults, FaultSpec{Service: in.Spec.Order[r.Intn(len(in.Spec.Order))], From: r.Intn(4), Count: 1 + r.Intn(2),
					Kind: []string{"transport", "gqlerrors"}[r.Intn(2)]})
			}
			feats["faults"] = true
		} else if i%3 == 2 {
			// an otherwise correct answer that is of the wrong kind exactly where a follow-up step joins: the
			// executor and, where the place is listed, the scrubber trip over it; whatever data is handed back
			// must not show an id the client did not ask for (at the other join points either)
			if ref, err := RunFed(c, in, 5*time.Second); err == nil && ref.Invalid == "" && len(ref.Out.Plans) > 0 && ref.Out.Err == nil &&
				!ref.Out.PlanErr && !ref.Out.Hung && ref.Out.Panicked == nil {
				if js := joinSites(ref.Fed, ref.Out.Plans); len(js) > 0 {
					j := js[r.Intn(len(js))]
					in.Faults = []FaultSpec{{Service: j.svc, MatchID: j.id, Kind: []string{"join-retype", "join-scalar", "join-null+error"}[r.Intn(3)], Path: j.path}}
					feats["join-fault"] = true
					loose = true
				}
			}
		}
		id = fmt.Sprintf("gen:%d", i)
	}
	res := CaseResult{ID: id, Key: fmt.Sprint(in.Spec.SDLs, in.Spec.Priorities, in.Query, in.Faults)}
	// L2: the scrubber model against scrubInsertionIDs (4 generated responses per case)
	scrubbed := 0
	for k := 0; k < 4; k++ {
		sf, sfeats := ScrubCorr(c, c.Rand(i*10+k+91000000))
		if len(sf) > 0 {
			res.Nontrivial = true
			res.Fails = sf
			return res
		}
		for _, f := range sfeats {
			if f == "scrub-compared" {
				scrubbed++
			}
		}
	}
	if i%10 == 3 {
		// two documents that differ only in where a line break ends a comment — and so in whether the client asks for
		// `id` at a join — sent without a hash to a caching gateway: each gets its own keys
		store := GenStore(rand.New(rand.NewSource(5)), false)
		cached, err := NewFed(FixedFed(), store, gateway.WithAutomaticQueryPlanCache())
		if err == nil {
			for k, text := range []string{"{ me { lastName # join key:\n id } }", "{ me { lastName # join key: id\n } }", "{ me { lastName # join key:\n id } }", "{ me { lastName # join key: id\n } }"} {
				if k == 3 {
					// the last one carries the key its text was stored under: it is answered from the cache
					cached.CacheKey = shaHex(text)
				}
				o := cached.Run(text, "", nil, 5*time.Second)
				fresh, err := NewFed(FixedFed(), store)
				if err != nil {
					break
				}
				w := fresh.Run(text, "", nil, 5*time.Second)
				if Canon(o.Data) != Canon(w.Data) {
					res.Fails = append(res.Fails, Failure{Channel: "L0.keys", Classifier: "unclassified",
						What:  fmt.Sprintf("request %d of a sequence of requests on a caching gateway (three without a hash, the fourth with its text's) has other keys than on a gateway that has seen nothing: %q", k, text),
						Input: map[string]interface{}{"query": text}, Expected: w.Data, Observed: o.Data})
					return res
				}
			}
		}
	}
	fc, err := RunFed(c, in, 5*time.Second)
	if err != nil {
		res.Fails = append(res.Fails, Failure{Channel: "harness", Classifier: "harness-error", What: err.Error(), Input: in})
		return res
	}
	if fc.Invalid != "" {
		res.Skipped = "invalid-query:" + fc.Invalid
		return res
	}
	if i >= len(FedCorpus) {
		if reg := InKnownRegion(fc.Classes); reg != "" {
			res.Skipped = "known-region:" + reg
			return res
		}
	}
	if fc.Out.PlanHung || fc.Out.PlanErr || fc.Out.Hung || fc.Out.Panicked != nil {
		res.Skipped = "not-executed" // C08 / C06 / C07
		return res
	}
	cl := InKnownRegion(fc.Classes)
	if cl == "" {
		cl = fc.Classifier()
	}
	res.Features = FeatList(feats)
	plan := fc.Out.Plans[0]
	if len(fc.Out.Plans) > 1 {
		if p, err := fc.Out.Plans.ForOperation(in.OpName); err == nil {
			plan = p
		}
	}
	ndep := 0
	var count func(s []*gateway.QueryPlanStep)
	count = func(s []*gateway.QueryPlanStep) {
		for _, x := range s {
			if len(x.InsertionPoint) > 0 {
				ndep++
			}
			count(x.Then)
		}
	}
	count(plan.RootStep.Then)
	res.Nontrivial = ndep > 0
	res.Counters = map[string]int{"dependent_steps": ndep, "scrub_paths": len(plan.FieldsToScrub["id"]), "scrubber_model_compared": scrubbed}
	// L1: scrub table of every plan of the document against the model, computed from that plan's own operation
	if c.Drv != nil {
		for _, pl := range fc.Out.Plans {
			if pl.Operation == nil || pl.RootStep == nil {
				continue
			}
			req := MonoCase(MonoSchema(), Store{}, fc.Doc, pl.Operation, nil)
			req["op"] = "scrub"
			req["plan"] = serPlanSteps(pl.RootStep.Then)
			ans, err := c.Drv.Call(req)
			if err != nil {
				res.Fails = append(res.Fails, Failure{Channel: "harness", Classifier: "harness-error", What: err.Error(), Input: in})
				return res
			}
			var model []string
			if ps, ok := ans["paths"].([]interface{}); ok {
				for _, p := range ps {
					var segs []string
					for _, s := range p.([]interface{}) {
						segs = append(segs, s.(string))
					}
					model = append(model, strings.Join(segs, "/"))
				}
				sort.Strings(model)
			}
			impl := sortedPaths(pl.FieldsToScrub["id"])
			extra := 0
			for k := range pl.FieldsToScrub {
				if k != "id" {
					extra++
				}
			}
			if fmt.Sprint(model) != fmt.Sprint(impl) || extra > 0 || ans["err"] != nil {
				res.Fails = append(res.Fails, Failure{Channel: "L1.scrub-table", Classifier: cl, What: fmt.Sprintf("FieldsToScrub of operation %q differs from the model's scrub paths", pl.Operation.Name), Input: in,
					Expected: model, Observed: map[string]interface{}{"FieldsToScrub": pl.FieldsToScrub, "plan": PlanText(fc.Out.Plans)}})
				break
			}
		}
	}
	// L0: key sets
	faulty := fc.Out.Err != nil
	if faulty && fc.Out.Data != nil {
		feats["partial-data"] = true
		res.Features = FeatList(feats)
	}
	if d := keyDiffMode(interface{}(fc.Out.Data), normaliseJSON(fc.Want), "", faulty, loose && faulty); d != "" && !(faulty && fc.Out.Data == nil) {
		what := "key set differs from the monolith's at " + d
		if faulty {
			what = "partial data carries a key the monolith's object lacks at " + d
		}
		res.Fails = append(res.Fails, Failure{Channel: "L0.keys", Classifier: cl, What: what, Input: in, Expected: fc.Want,
			Observed: map[string]interface{}{"data": fc.Out.Data, "error": ErrString(fc.Out.Err), "plan": PlanText(fc.Out.Plans)}})
	}
	if i%173 == 0 || i < 2 {
		res.Sample = map[string]interface{}{"query": in.Query, "faults": in.Faults, "FieldsToScrub": plan.FieldsToScrub, "error": firstLine(ErrString(fc.Out.Err))}
	}
	return res
}

func normaliseJSON(v interface{}) interface{} { return normalise(v) }

func init() { Runners["C04"] = c04{} }
